import YaegiVerif.Model.Restricted
import YaegiVerif.Model.Env
import YaegiVerif.Model.C13Options
import YaegiVerif.Spec.OsEnv
import YaegiVerif.Proofs.C13Env
import YaegiVerif.Expected.C13
import YaegiVerif.Generated.C13
/-
  C13 — restricted mode confines scripts. Property theorems.

  `G` is the record of facts regenerated from the repository on every run; theorems "over the generated
  table" are proved directly about `G` (kernel evaluation), the ties compare the hand-read choices.
-/
namespace YaegiVerif.Props.C13
open YaegiVerif YaegiVerif.Restricted

abbrev G : Facts := Generated.C13.facts

/-! ### ties -/

/-- the functions / statements transcribed by hand (fixStdlib, Use, ImportUsed, fixKey, the Options.Env loop of
    New, the importSpec clause of gta, osExit, osFindProcess, logNew) are textually the ones read -/
theorem source_tie : Generated.C13.sourceHashes = Expected.C13.sourceHashes := by decide
/-- stdlib/restricted.go: every function and method, its results, what it calls -/
theorem restricted_decls_tie : Generated.C13.decls = Expected.C13.decls := by decide
/-- fixStdlib: every `p["Name"] = …`, its package, guards and free identifiers -/
theorem fixstdlib_rebinds_tie : Generated.C13.rebinds = Expected.C13.rebinds := by decide
theorem fixstdlib_locals_tie : Generated.C13.locals = Expected.C13.locals := by decide
/-- cmd/yaegi/run.go: symbol sets, the flag that gates each, the options given to interp.New -/
theorem run_uses_tie : Generated.C13.uses = Expected.C13.uses ∧ Generated.C13.gateFlags = Expected.C13.gateFlags ∧
    Generated.C13.newOptions = Expected.C13.newOptions := by decide
/-- the functions of the whole default table that return a `*log.Logger` (go/types) are the three known ones -/
theorem logger_sources_tie : Generated.C13.loggerReturning = Expected.C13.loggerReturning := by decide

/-! ### forbidden packages cannot be imported -/

def forbidden : List String := ["unsafe", "syscall", "os/exec"]

set_option maxRecDepth 8192 in
private theorem forbidden_absent_b :
    (Generated.C13.defaultKeys.all fun k => !forbidden.contains k.dir) = true := by decide

/-- **no key of the regenerated default table provides unsafe, syscall or os/exec** -/
theorem forbidden_absent : ∀ k ∈ Generated.C13.defaultKeys, k.dir ∉ forbidden := by
  intro k hk hf
  have h := List.all_eq_true.mp forbidden_absent_b k hk
  simp [hf] at h

theorem binPkgOf_dir (keys : List Key) (p : String) (h : p ∈ binPkgOf keys) : ∃ k ∈ keys, k.dir = p := by
  simp only [binPkgOf, List.mem_filterMap] at h
  obtain ⟨k, hk, he⟩ := h
  refine ⟨k, hk, ?_⟩
  split at he
  · cases he
  · simpa using he

/-- **importSpec fails in every form** when the (normalised) path is neither in `binPkg` nor loadable from
    the source tree: there is no third way to satisfy an import -/
theorem import_fails_all_forms (binPkg : List String) (srcHas : String → Bool) (form : Form) (p : IPath)
    (hb : p.norm binPkg ∉ binPkg) (hs : srcHas (p.norm binPkg) = false) :
    importSpec binPkg srcHas form p = .error (p.norm binPkg) := by
  simp [importSpec, hb, hs]

/-- conversely an import that does not fail names a package of `binPkg` or of the source tree -/
theorem import_ok_only_if (binPkg : List String) (srcHas : String → Bool) (form : Form) (p : IPath)
    (h : (importSpec binPkg srcHas form p).isError = false) :
    p.norm binPkg ∈ binPkg ∨ srcHas (p.norm binPkg) = true := by
  by_cases hb : p.norm binPkg ∈ binPkg
  · exact Or.inl hb
  · by_cases hs : srcHas (p.norm binPkg)
    · exact Or.inr hs
    · simp [importSpec, hb, hs, ImportRes.isError] at h

/-- the path looked up is the one written, or — for the spelling "x/x" of a binary package only — its base -/
theorem norm_cases (binPkg : List String) (p : IPath) :
    p.norm binPkg = p.full ∨ (p.norm binPkg = p.base ∧ p.dir = p.base ∧ p.base ∈ binPkg) := by
  unfold IPath.norm
  split
  · next h =>
    simp only [Bool.and_eq_true, beq_iff_eq, List.contains_iff_mem] at h
    exact Or.inr ⟨rfl, h.1, h.2⟩
  · exact Or.inl rfl

/-- **with the default symbol set, unsafe / syscall / os/exec cannot be imported through any import form and
    any spelling** (`unsafe`, `unsafe/unsafe`, …), unless the embedder's source tree itself contains a package
    of that name -/
theorem forbidden_import_fails (srcHas : String → Bool) (form : Form) (p : IPath)
    (hf : p.norm (binPkgOf Generated.C13.defaultKeys) ∈ forbidden) (hs : srcHas (p.norm (binPkgOf Generated.C13.defaultKeys)) = false) :
    importSpec (binPkgOf Generated.C13.defaultKeys) srcHas form p = .error (p.norm (binPkgOf Generated.C13.defaultKeys)) := by
  apply import_fails_all_forms _ _ _ _ _ hs
  intro hb
  obtain ⟨k, hk, hd⟩ := binPkgOf_dir _ _ hb
  exact forbidden_absent k hk (hd ▸ hf)

/-- the spelling "x/x" of a forbidden name is not rewritten to "x" (that rewriting is for binary packages only, and "x"
    is not one): the import is a source import of the path as written -/
theorem forbidden_not_rewritten (p : IPath) (hf : p.base ∈ forbidden) :
    p.norm (binPkgOf Generated.C13.defaultKeys) = p.full := by
  rcases norm_cases (binPkgOf Generated.C13.defaultKeys) p with h | ⟨_, _, hm⟩
  · exact h
  · obtain ⟨k, hk, hd⟩ := binPkgOf_dir _ _ hm
    exact absurd (hd ▸ hf) (forbidden_absent k hk)

/-- non-vacuity: the four forms of `import "os/exec"`; the spelling `unsafe/unsafe` (not rewritten with the default
    table, rewritten — and found — once the embedder loads the unsafe set; `fmt/fmt` is rewritten) -/
example : importSpec (binPkgOf Generated.C13.defaultKeys) (fun _ => false) (.named "x") ⟨"os/exec", "os", "exec"⟩ = .error "os/exec" ∧
    importSpec (binPkgOf Generated.C13.defaultKeys) (fun _ => false) .plain ⟨"unsafe/unsafe", "unsafe", "unsafe"⟩ = .error "unsafe/unsafe" ∧
    (⟨"unsafe/unsafe", "unsafe", "unsafe"⟩ : IPath).norm ["fmt", "unsafe"] = "unsafe" ∧
    importSpec ["fmt", "os"] (fun _ => false) .blank ⟨"fmt/fmt", "fmt", "fmt"⟩ = .bin "fmt" .blank ∧
    importSpec ["fmt", "os"] (fun ip => ip == "x/x") .plain ⟨"x/x", "x", "x"⟩ = .src "x/x" .plain ∧
    importSpec ["fmt", "os"] (fun _ => false) .dot ⟨"fmt", ".", "fmt"⟩ = .bin "fmt" .dot := by decide

theorem importUsedStep_keys (sc : List UsedSym) (k : UsedKey) (ks : List UsedKey)
    (h : ∀ s ∈ sc, s.key ∈ ks) (hk : k ∈ ks) : ∀ s ∈ importUsedStep sc k, s.key ∈ ks := by
  intro s hs
  unfold importUsedStep at hs
  split at hs
  · next old hold =>
    have ho : old ∈ sc := List.mem_of_find?_eq_some hold
    simp only [List.mem_cons, List.mem_filter] at hs
    rcases hs with rfl | rfl | ⟨h1, _⟩
    · exact hk
    · exact h old ho
    · exact h s h1
  · simp only [List.mem_cons] at hs
    rcases hs with rfl | h1
    · exact hk
    · exact h s h1

theorem importUsed_keys_aux (ks all : List UsedKey) (hsub : ∀ k ∈ ks, k ∈ all) :
    ∀ sc : List UsedSym, (∀ s ∈ sc, s.key ∈ all) → ∀ s ∈ ks.foldl importUsedStep sc, s.key ∈ all := by
  induction ks with
  | nil => intro sc h; simpa using h
  | cons k ks ih =>
    intro sc h
    simp only [List.foldl_cons]
    apply ih (fun x hx => hsub x (by simp [hx]))
    exact importUsedStep_keys sc k all h (hsub k (by simp))

/-- **auto-import (`ImportUsed`) makes visible only packages of `binPkg`**, whatever the iteration order
    and the renaming of colliding names: no forbidden package appears by this route either -/
theorem import_used_only_binpkg (keys : List UsedKey) : ∀ s ∈ importUsed keys, s.key ∈ keys :=
  importUsed_keys_aux keys keys (fun _ h => h) [] (by simp)

/-- the forbidden packages are provided by the separately loaded sets, and cmd/yaegi loads each of those only
    under its own flag (default: the environment variable, i.e. off) -/
theorem gated_sets :
    (∀ p ∈ forbidden, ∃ g ∈ Generated.C13.gated, ∃ k ∈ g.2, k.dir = p) ∧
    (∀ u ∈ Generated.C13.uses, u.set ∈ ["syscall", "unsafe", "unrestricted"] →
        ∃ f ∈ Generated.C13.gateFlags, f.var = u.guard ∧ f.env ≠ "") ∧
    (⟨"stdlib", ""⟩ : UseCall) ∈ Generated.C13.uses ∧
    ("Unrestricted", "useUnrestricted") ∈ Generated.C13.newOptions := by decide

/-! ### the calls meant to end the process -/

def bools : List Bool := [false, true]
def allCfgs : List Cfg :=
  bools.flatMap fun a => bools.flatMap fun b => bools.flatMap fun c => bools.flatMap fun d => bools.map fun e =>
    { unrestricted := a, specialStdio := b, stdinFile := c, stdoutFile := d, stderrFile := e }

theorem cfg_mem_all (c : Cfg) : c ∈ allCfgs := by
  obtain ⟨a, b, c, d, e⟩ := c
  cases a <;> cases b <;> cases c <;> cases d <;> cases e <;> decide

/-- lift a Boolean check over all 32 configurations to a statement about every configuration -/
theorem forall_cfg {P : Cfg → Bool} (h : allCfgs.all P = true) (c : Cfg) : P c = true :=
  List.all_eq_true.mp h c (cfg_mem_all c)

/-- the exit entry points of the override list -/
def requiredExitCalls : List ExitCall :=
  [.fn "os" "Exit", .fn "log" "Fatal", .fn "log" "Fatalf", .fn "log" "Fatalln",
   .method "log" "New" "Fatal", .method "log" "New" "Fatalf", .method "log" "New" "Fatalln"]

private theorem exit_points_b :
    (allCfgs.all fun cfg => requiredExitCalls.all fun c => exitOutcome G cfg c == .panics) = true := by decide

/-- **every exit entry point of the override list reaches a panic, not the host's exit**, in every
    configuration, computed over the regenerated tables (stdlib os/log tables, restricted.go, fixStdlib) -/
theorem exit_points_overridden (cfg : Cfg) : ∀ c ∈ requiredExitCalls, exitOutcome G cfg c = .panics := by
  intro c hc
  have h := List.all_eq_true.mp (forall_cfg exit_points_b cfg) c hc
  simpa using h

/-- in the symbol table itself (before fixStdlib) the same names are bound to replacements of restricted.go -/
theorem exit_points_bound_to_replacements :
    lookupTable G "os" "Exit" = some (.loc "osExit") ∧ lookupTable G "os" "FindProcess" = some (.loc "osFindProcess") ∧
    lookupTable G "log" "Fatal" = some (.loc "logFatal") ∧ lookupTable G "log" "Fatalf" = some (.loc "logFatalf") ∧
    lookupTable G "log" "Fatalln" = some (.loc "logFatalln") ∧ lookupTable G "log" "New" = some (.loc "logNew") ∧
    lookupTable G "log" "Logger" = some (.locType "logLogger") := by decide

private theorem decls_never_exit_b : (G.decls.all fun d => bodyOutcome d.callees != .exits) = true := by decide
/-- no function or method of restricted.go calls anything named Exit / Fatal* -/
theorem decls_never_exit : ∀ d ∈ G.decls, bodyOutcome d.callees ≠ .exits := by
  intro d hd
  simpa using List.all_eq_true.mp decls_never_exit_b d hd

private theorem rebinds_never_exit_b :
    (allCfgs.all fun cfg => G.rebinds.all fun r => rebindOutcome G cfg r != .exits) = true := by decide
/-- no override of fixStdlib reaches the host's exit, in any configuration: a closure references nothing named
    Exit / Fatal*, a method of the default logger is never one of its Fatal* -/
theorem rebinds_never_exit (cfg : Cfg) : ∀ r ∈ G.rebinds, rebindOutcome G cfg r ≠ .exits := by
  intro r hr
  simpa using List.all_eq_true.mp (forall_cfg rebinds_never_exit_b cfg) r hr

def hostBindOk : Bind → Bool
  | .host p n => hostFnOutcome p n != .exits
  | _ => true

private theorem tables_no_host_exit_b :
    (G.tables.all fun t => t.entries.all fun e => hostBindOk e.bind) = true ∧
    (G.loggerReturning.all fun s => hostBindOk s.bind) = true := by decide

theorem lookupTable_ok (pkg name : String) (b : Bind) (h : lookupTable G pkg name = some b) : hostBindOk b = true := by
  unfold lookupTable at h
  split at h
  · next t ht =>
    have htm : t ∈ G.tables := List.mem_of_find?_eq_some ht
    simp only [Option.map_eq_some_iff] at h
    obtain ⟨e, he, hb⟩ := h
    have hem : e ∈ t.entries := List.mem_of_find?_eq_some he
    have := List.all_eq_true.mp (List.all_eq_true.mp tables_no_host_exit_b.1 t htm) e hem
    rw [hb] at this; exact this
  · simp only [Option.map_eq_some_iff] at h
    obtain ⟨s, hs, hb⟩ := h
    have hsm : s ∈ G.loggerReturning := List.mem_of_find?_eq_some hs
    have := List.all_eq_true.mp tables_no_host_exit_b.2 s hsm
    rw [hb] at this; exact this

theorem effective_override {F : Facts} {c : Cfg} {p n : String} {r : Rebind}
    (h : effective F c p n = .override r) : r ∈ F.rebinds := by
  unfold effective at h
  split at h
  · next r' hr =>
    cases h
    have := List.mem_of_find?_eq_some hr
    simpa [lookupRebind] using this
  · split at h <;> cases h

theorem effective_table {F : Facts} {c : Cfg} {p n : String} {b : Bind}
    (h : effective F c p n = .table b) : lookupTable F p n = some b := by
  unfold effective at h
  split at h
  · cases h
  · split at h
    · next b' hb => cases h; exact hb
    · cases h

theorem findDecl_mem {F : Facts} {n : String} {d : Decl} (h : findDecl F n = some d) : d ∈ F.decls :=
  List.mem_of_find?_eq_some h

/-- **no function call `pkg.name(…)` whatsoever reaches the host's os.Exit / log.Fatal***: for every package and
    name (not a sample), in every configuration, over the regenerated tables of os, log, fmt, flag -/
theorem no_exit_call (cfg : Cfg) (pkg name : String) : callOutcome G cfg pkg name ≠ .exits := by
  unfold callOutcome
  split
  · next r hr => exact rebinds_never_exit cfg r (effective_override hr)
  · next p n hb =>
    have := lookupTable_ok pkg name _ (effective_table hb)
    simpa [hostBindOk] using this
  · next d hd =>
    split
    · next dd hdd => exact decls_never_exit dd (findDecl_mem hdd)
    · simp
  · simp

/-- functions of the default table that still hand the script a host `*log.Logger` (F12, narrowed by 77e1d98:
    log.Default is no longer one of them) -/
def hostLoggerSources : List (String × String) :=
  [("log/slog", "NewLogLogger"), ("log/syslog", "NewLogger")]

private theorem logger_sources_known_b :
    (G.loggerReturning.all fun s => hostLoggerSources.contains (s.pkg, s.name) || (s.pkg == "log" && s.name == "Default")) = true := by
  decide

/-- in restricted mode `log.Default` is the override of fixStdlib: a function returning the interpreter's own default
    logger, which is made by the script's `log.New` and so is of the wrapper type of restricted.go -/
private theorem log_default_b :
    (allCfgs.all fun cfg => cfg.unrestricted || loggerOf G cfg "log" "Default" == .wrapper "logLogger") = true := by decide

theorem log_default_wrapper (cfg : Cfg) (hr : cfg.unrestricted = false) : loggerOf G cfg "log" "Default" = .wrapper "logLogger" := by
  have h := forall_cfg log_default_b cfg
  simpa [hr] using h

theorem wrapper_method_never_exits (t m : String) : loggerMethodOutcome G (.wrapper t) m ≠ .exits := by
  simp only [loggerMethodOutcome]
  split
  · next md hmd => exact decls_never_exit md (findDecl_mem hmd)
  · simp

theorem bindLogger_host {pkg name : String} {b : Bind} (h : bindLogger G pkg name b = .host) :
    ∃ s ∈ G.loggerReturning, s.pkg = pkg ∧ s.name = name := by
  unfold bindLogger at h
  split at h
  · split at h
    · split at h <;> cases h
    · cases h
  · split at h
    · next hany =>
      simp only [List.any_eq_true, Bool.and_eq_true, beq_iff_eq] at hany
      exact hany
    · cases h
  · cases h

/-- full-strength statement: in restricted mode no method call on a logger obtained from the table ends the process -/
def NoHostLoggerSource : Prop :=
  ∀ (cfg : Cfg) (pkg name m : String), cfg.unrestricted = false → methodOutcome G cfg pkg name m ≠ .exits

/-- **in restricted mode the Fatal methods of loggers panic** for every logger source — `log.New`, and since 77e1d98
    `log.Default` — except the two functions that still return the host's own `*log.Logger` -/
theorem no_host_logger_source_partial (cfg : Cfg) (hr : cfg.unrestricted = false) (pkg name m : String)
    (hdom : (pkg, name) ∉ hostLoggerSources) : methodOutcome G cfg pkg name m ≠ .exits := by
  unfold methodOutcome
  cases hk : loggerOf G cfg pkg name with
  | wrapper t => exact wrapper_method_never_exits t m
  | unknown => simp [loggerMethodOutcome]
  | host =>
    exfalso
    unfold loggerOf at hk
    split at hk
    · next r hr' =>
      -- an override that returns a local of fixStdlib: only `log.Default`, a wrapper in restricted mode
      have hd := log_default_wrapper cfg hr
      unfold loggerOf at hd
      have hr2 := effective_override hr'
      have hb : (allCfgs.all fun cfg => G.rebinds.all fun r =>
          match r.shape with
          | .constFn x => cfg.unrestricted || localLogger G cfg x != .host
          | _ => true) = true := by decide
      have h3 := List.all_eq_true.mp (forall_cfg hb cfg) r hr2
      split at hk
      · next x hx =>
        rw [hx] at h3
        simp [hr, hk] at h3
      · cases hk
    · next b hb =>
      obtain ⟨s, hs, hp, hn⟩ := bindLogger_host hk
      have h4 := List.all_eq_true.mp logger_sources_known_b s hs
      rw [hp, hn] at h4
      simp only [Bool.or_eq_true, List.contains_iff_mem, Bool.and_eq_true, beq_iff_eq] at h4
      rcases h4 with h4 | ⟨h5, h6⟩
      · exact hdom h4
      · -- log.Default: in restricted mode it is overridden, so it is not read from the table
        subst h5; subst h6
        have hd := log_default_wrapper cfg hr
        have : loggerOf G cfg "log" "Default" = .host := by
          unfold loggerOf; rw [hb]; exact hk
        rw [this] at hd; cases hd
    · cases hk

/-- F12 (what remains): `slog.NewLogLogger(…).Fatal(…)` ends the host process, and so does the syslog source -/
theorem no_host_logger_source_witness : ¬ NoHostLoggerSource := by
  intro h
  exact h {} "log/slog" "NewLogLogger" "Fatal" rfl (by decide)

theorem host_logger_sources_exit :
    ∀ s ∈ hostLoggerSources, ∀ m ∈ fatalNames, methodOutcome G {} s.1 s.2 m = .exits := by decide

/-- non-vacuity of the partial theorem: `log.New(…).Fatal` and `log.Default().Fatal` are in its domain and panic -/
example : ("log", "New") ∉ hostLoggerSources ∧ methodOutcome G {} "log" "New" "Fatal" = .panics ∧
    ("log", "Default") ∉ hostLoggerSources ∧ methodOutcome G {} "log" "Default" "Fatal" = .panics := by decide

/-- facts of the tree before 77e1d98 / b69bc95 / 3f8ef33, as far as the model reads them: fixStdlib without the overrides
    of log.Default and flag.NewFlagSet, `l := log.New(stderr, …)`, `c := flag.NewFlagSet(os.Args[0], …)` -/
def oldFacts : Facts :=
  { G with
    rebinds := G.rebinds.filter fun r => !((r.pkg == "log" && r.name == "Default") || (r.pkg == "flag" && r.name == "NewFlagSet"))
    locals := G.locals.filterMap fun l =>
      if l.name == "l" then some { l with expr := "log.New(stderr, \"\", log.LstdFlags)" }
      else if l.name == "c" then some { l with expr := "flag.NewFlagSet(os.Args[0], flag.PanicOnError)" }
      else if l.name == "prog" || l.name == "newLogger" then none
      else some l }

/-- regression of the replay of F12 (`log.Default().Fatal("bye")`): it reaches a panic on the repaired tree, in every
    restricted configuration; on the old facts the model reproduces the exit -/
theorem log_default_fatal_panics (cfg : Cfg) (hr : cfg.unrestricted = false) :
    ∀ m ∈ fatalNames, methodOutcome G cfg "log" "Default" m = .panics := by
  have hb : (allCfgs.all fun cfg => cfg.unrestricted || fatalNames.all fun m => methodOutcome G cfg "log" "Default" m == .panics) = true := by
    decide
  intro m hm
  have h := forall_cfg hb cfg
  simp only [hr, Bool.false_or] at h
  simpa using List.all_eq_true.mp h m hm

example : methodOutcome G {} "log" "Default" "Fatal" = .panics ∧ methodOutcome oldFacts {} "log" "Default" "Fatal" = .exits ∧
    callOutcome oldFacts {} "log" "Fatal" = .panics := by decide

/-- what `hr` excludes: with Options.Unrestricted the default logger is the host's own (made by the host's log.New) -/
theorem log_default_unrestricted : methodOutcome G { unrestricted := true } "log" "Default" "Fatal" = .exits := by decide

/-! #### flag sets -/

private theorem newflagset_b :
    (allCfgs.all fun cfg => cfg.unrestricted ||
      (match effective G cfg "flag" "NewFlagSet" with
       | .override r => r.shape == .remap "flag.NewFlagSet" [(⟨"flag.ExitOnError", "flag", "ExitOnError"⟩, ⟨"flag.PanicOnError", "flag", "PanicOnError"⟩)]
       | _ => false)) = true := by decide

theorem hostFlagError_remap (h : String) :
    hostFlagError (remapConst [(⟨"flag.ExitOnError", "flag", "ExitOnError"⟩, ⟨"flag.PanicOnError", "flag", "PanicOnError"⟩)] h) ≠ .exits := by
  by_cases hh : h = "ExitOnError"
  · subst hh; decide
  · have h1 : ¬ "ExitOnError" = h := fun e => hh e.symm
    simp only [remapConst, hostFlagError, List.foldl_cons, List.foldl_nil, beq_iff_eq, h1, if_false, hh]
    split <;> simp

/-- **F13-1 repaired (b69bc95): in restricted mode a flag set made by `flag.NewFlagSet` never ends the host on a parse
    error, whatever error handling it is created with** — for every handling name (not a sample) and every restricted
    configuration; the override of fixStdlib is read from the regenerated facts -/
theorem flagset_never_exits (cfg : Cfg) (hr : cfg.unrestricted = false) (h : String) : flagSetOutcome G cfg h ≠ .exits := by
  have hb := forall_cfg newflagset_b cfg
  simp only [hr, Bool.false_or] at hb
  unfold flagSetOutcome
  split
  · next h' _ =>
    split at hb
    · next r hr' =>
      rw [hr']
      simp only [beq_iff_eq] at hb
      simp only [hb]
      simpa using hostFlagError_remap h'
    · cases hb
  · simp

/-- regression of the replay of F13-1 (`flag.NewFlagSet("x", flag.ExitOnError).Parse([]string{"-nope"})`): a panic on the
    repaired tree, the exit on the old facts; the other two modes are unchanged -/
example : flagSetOutcome G {} "ExitOnError" = .panics ∧ flagSetOutcome oldFacts {} "ExitOnError" = .exits ∧
    flagSetOutcome G {} "ContinueOnError" = .returns ∧ flagSetOutcome G {} "PanicOnError" = .panics := by decide

/-- what `hr` excludes: with Options.Unrestricted `flag.NewFlagSet` is the host's own -/
theorem flagset_unrestricted : flagSetOutcome G { unrestricted := true } "ExitOnError" = .exits := by decide

/-- F13-1 (what remains): `(*flag.FlagSet).Init(name, flag.ExitOnError)` sets the error handling behind the back of the
    override — on a zero FlagSet, on the result of flag.NewFlagSet, on flag.CommandLine — and a parse error then ends the
    host process; the other two modes do not -/
theorem flagset_init_exit_witness : flagSetInitOutcome G {} "ExitOnError" = .exits := by decide
theorem flagset_init_others (cfg : Cfg) : ∀ h ∈ ["ContinueOnError", "PanicOnError"], flagSetInitOutcome G cfg h ≠ .exits := by
  intro h hh
  have hb : (allCfgs.all fun cfg => ["ContinueOnError", "PanicOnError"].all fun h => flagSetInitOutcome G cfg h != .exits) = true := by
    decide
  simpa using List.all_eq_true.mp (forall_cfg hb cfg) h hh

/-- the exit entry points closed by the repairs of round 3 -/
def repairedExitCalls : List ExitCall :=
  [.method "log" "Default" "Fatal", .method "log" "Default" "Fatalf", .method "log" "Default" "Fatalln",
   .flagSet "ExitOnError", .flagSet "PanicOnError"]

theorem repaired_exit_points_overridden (cfg : Cfg) (hr : cfg.unrestricted = false) :
    ∀ c ∈ repairedExitCalls, exitOutcome G cfg c = .panics := by
  have hb : (allCfgs.all fun cfg => cfg.unrestricted || repairedExitCalls.all fun c => exitOutcome G cfg c == .panics) = true := by decide
  intro c hc
  have h := forall_cfg hb cfg
  simp only [hr, Bool.false_or] at h
  simpa using List.all_eq_true.mp h c hc

/-- full-strength statement: in restricted mode no call of the model's vocabulary ends the host process -/
def NoCallExits : Prop := ∀ (cfg : Cfg) (c : ExitCall), cfg.unrestricted = false → exitOutcome G cfg c ≠ .exits

theorem no_call_exits_witness : ¬ NoCallExits := by
  intro h
  exact h {} (.flagSetInit "ExitOnError") rfl (by decide)

/-- **summary**: whatever call a script makes in restricted mode, if it ends the host process it is a method of a logger
    obtained from one of the two remaining host-logger sources, or the error handling a FlagSet was given through its own
    `Init` method (the two finding classes that are still open) -/
theorem exits_only_via_known (cfg : Cfg) (hr : cfg.unrestricted = false) (c : ExitCall) (h : exitOutcome G cfg c = .exits) :
    (∃ p n m, c = .method p n m ∧ (p, n) ∈ hostLoggerSources) ∨ (∃ hd, c = .flagSetInit hd) := by
  cases c with
  | fn p n => exact absurd h (no_exit_call cfg p n)
  | method p n m =>
    by_cases hd : (p, n) ∈ hostLoggerSources
    · exact Or.inl ⟨p, n, m, rfl, hd⟩
    · exact absurd h (no_host_logger_source_partial cfg hr p n m hd)
  | flagSet hd => exact absurd h (flagset_never_exits cfg hr hd)
  | flagSetInit hd => exact Or.inr ⟨hd, rfl⟩

/-! ### environment -/

section env
open YaegiVerif.Env YaegiVerif.Spec.OsEnv YaegiVerif.Proofs.C13Env

/-- the functions of os that work on the interpreter's own map, as computed from the regenerated fixStdlib facts -/
def virtFns (F : Facts) (c : Cfg) : List String := envFns.filter (envVirtual F c)

private theorem env_all_virtual_b :
    (allCfgs.all fun cfg => cfg.unrestricted || envFns.all (envVirtual G cfg)) = true := by decide

/-- **all seven environment functions are rebound to bodies over `interp.env`** (and nothing of os / syscall
    except os.Expand) whenever the interpreter is not unrestricted — over the regenerated fixStdlib facts -/
theorem env_all_virtual (cfg : Cfg) (hr : cfg.unrestricted = false) : ∀ n ∈ envFns, envVirtual G cfg n = true := by
  intro n hn
  have h := forall_cfg env_all_virtual_b cfg
  simp only [hr, Bool.false_or] at h
  exact List.all_eq_true.mp h n hn

/-- the override bodies are closed: their free identifiers (locals resolved) are exactly these -/
theorem env_overrides_closed :
    ∀ r ∈ G.rebinds, r.pkg = "os" → r.name ∈ envFns →
      ∀ i ∈ closure G r.free, i.text ∈ ["reflect.ValueOf", "interp.env", "os.Expand", "getenv"] := by decide

theorem virtFns_contains (cfg : Cfg) (hr : cfg.unrestricted = false) (op : Op) : (virtFns G cfg).contains op.fn = true := by
  have hm : op.fn ∈ envFns := by simpa [envFns] using fn_mem op
  simp only [virtFns, List.contains_iff_mem, List.mem_filter]
  exact ⟨hm, env_all_virtual cfg hr _ hm⟩

/-- **`env_refines_map`**: in restricted mode, for every sequence of Setenv / Unsetenv / Clearenv / Getenv /
    LookupEnv / Environ / ExpandEnv calls, from every state: the host environment is unchanged, the interpreter's
    map is the map the reference semantics reaches (`runMap`), and every value the script sees is a correct
    answer of the reference semantics in the state reached so far (`okRun`: in particular it never depends on
    the host environment) -/
theorem env_refines_map (cfg : Cfg) (hr : cfg.unrestricted = false) (s : St) (hwf : WF s.virt) (ops : List Op) :
    (run (virtFns G cfg) s ops).1.host = s.host ∧
    abs (run (virtFns G cfg) s ops).1.virt = runMap (abs s.virt) ops ∧
    okRun (abs s.virt) ops (run (virtFns G cfg) s ops).2 ∧
    WF (run (virtFns G cfg) s ops).1.virt :=
  run_refines (virtFns G cfg) (virtFns_contains cfg hr) ops s hwf

/-- the same from the interpreter's initial state: the map is built from `Options.Env` (name up to the first `=`,
    later entries win), whatever the host environment is -/
theorem env_from_options (cfg : Cfg) (hr : cfg.unrestricted = false) (host : Env) (entries : List String) (ops : List Op) :
    (run (virtFns G cfg) ⟨host, initVirt cfg.unrestricted entries⟩ ops).1.host = host ∧
    okRun (ofEntries entries) ops (run (virtFns G cfg) ⟨host, initVirt cfg.unrestricted entries⟩ ops).2 := by
  have hp := parseEnv_refines entries
  have hi : initVirt cfg.unrestricted entries = parseEnv entries := by simp [initVirt, hr]
  have h := env_refines_map cfg hr ⟨host, initVirt cfg.unrestricted entries⟩ (by rw [hi]; exact hp.2) ops
  refine ⟨h.1, ?_⟩
  have h3 := h.2.2.1
  simp only [hi, hp.1] at h3
  simpa [hi] using h3

/-- corollary: two runs that differ only in the host environment give the script the same answers' specification
    and leave their hosts alone — stated as independence of the outputs from `host` -/
theorem env_outputs_host_independent (cfg : Cfg) (hr : cfg.unrestricted = false) (h1 h2 v : Env) (ops : List Op) :
    (run (virtFns G cfg) ⟨h1, v⟩ ops).2 = (run (virtFns G cfg) ⟨h2, v⟩ ops).2 ∧
    (run (virtFns G cfg) ⟨h1, v⟩ ops).1.virt = (run (virtFns G cfg) ⟨h2, v⟩ ops).1.virt := by
  induction ops generalizing h1 h2 v with
  | nil => exact ⟨rfl, rfl⟩
  | cons op ops ih =>
    have hm : op.fn ∈ virtFns G cfg := by simpa using virtFns_contains cfg hr op
    simp only [run, step, List.contains_iff_mem, hm, if_true]
    obtain ⟨i1, i2⟩ := ih h1 h2 (applyVirt v op).1
    exact ⟨by rw [i1], i2⟩

/-- non-vacuity: a sequence with a mutation observed later; the model's answers -/
example : (run (virtFns G {}) ⟨[("HOME", "/host")], parseEnv ["A=1", "B=x=y"]⟩
    [.setenv "C" "2", .getenv "HOME", .lookupEnv "B", .unsetenv "A", .environ]).2 =
    [.err none, .str "", .strOk "x=y" true, .err none, .pairs [("B", "x=y"), ("C", "2")]] := by decide

/-- what the side condition excludes: with `Options.Unrestricted` no function is virtualised … -/
theorem env_unrestricted_none (cfg : Cfg) (hu : cfg.unrestricted = true) : virtFns G cfg = [] := by
  have hb : (allCfgs.all fun cfg => !cfg.unrestricted || (virtFns G cfg).isEmpty) = true := by decide
  have h := forall_cfg hb cfg
  simp only [hu, Bool.not_true, Bool.false_or] at h
  simpa using h

/-- … and a function that is not virtualised works on the host environment (what a dropped `Setenv` override
    would mean): the host is written, and a later `Getenv` of the interpreter's map does not see the value -/
theorem env_host_touched_without_override :
    (run ["Unsetenv", "Clearenv", "Getenv", "LookupEnv", "Environ", "ExpandEnv"] ⟨[], []⟩ [.setenv "A" "1", .getenv "A"]) =
      (⟨[("A", "1")], []⟩, [.err none, .str ""]) := by decide

end env

/-! ### streams and arguments -/

def isHost : Stream → Bool
  | .hostStdout | .hostStderr | .hostStdin | .hostArgs | .hostFlag => true
  | _ => false

/-- what must be redirected, and where to -/
def requiredRedirects : List (String × String × Stream) :=
  [("fmt", "Print", .optStdout), ("fmt", "Printf", .optStdout), ("fmt", "Println", .optStdout),
   ("fmt", "Scan", .optStdin), ("fmt", "Scanf", .optStdin), ("fmt", "Scanln", .optStdin),
   ("log", "Print", .optStderr), ("log", "Printf", .optStderr), ("log", "Println", .optStderr),
   ("log", "Panic", .optStderr), ("log", "Panicf", .optStderr), ("log", "Panicln", .optStderr),
   ("log", "Fatal", .optStderr), ("log", "Fatalf", .optStderr), ("log", "Fatalln", .optStderr),
   ("log", "Output", .optStderr), ("log", "Writer", .optStderr), ("log", "SetOutput", .optStderr),
   ("log", "Flags", .optStderr), ("log", "SetFlags", .optStderr), ("log", "Prefix", .optStderr), ("log", "SetPrefix", .optStderr),
   ("os", "Args", .args), ("flag", "CommandLine", .optStderr)]

private theorem io_redirect_b :
    (allCfgs.all fun cfg => requiredRedirects.all fun r => ioStream G cfg r.1 r.2.1 == r.2.2) = true := by decide

/-- **`io_redirect_complete`**: every function of the required list is rebound by fixStdlib, in every
    configuration, to a body over the stream / argument vector of `Options` (the log functions all go through
    one logger created over `stderr`) -/
theorem io_redirect_complete (cfg : Cfg) : ∀ r ∈ requiredRedirects, ioStream G cfg r.1 r.2.1 = r.2.2 := by
  intro r hr
  simpa using List.all_eq_true.mp (forall_cfg io_redirect_b cfg) r hr

/-- the print builtins write to `interp.stdout` -/
theorem print_builtins_redirected : builtinStream G "_print" = .optStdout ∧ builtinStream G "_println" = .optStdout := by
  decide

/-- the inputs on which a name of os / log / fmt / flag still reaches the host's streams or arguments -/
def ioException (cfg : Cfg) (pkg name : String) : Bool :=
  (pkg == "flag" && flagCmdLineFns.contains name) ||
  (pkg == "log/slog" && slogDefaultFns.contains name) ||
  (pkg == "os" && !cfg.specialStdio &&
    ((name == "Stdin" && !cfg.stdinFile) || (name == "Stdout" && !cfg.stdoutFile) || (name == "Stderr" && !cfg.stderrFile)))

def bindHostStream : Bind → Stream
  | .host p n => hostStream p n
  | .hostVar p n => hostStream p n
  | _ => .unknown

private theorem io_tables_b :
    (G.tables.all fun t => t.entries.all fun e =>
      !isHost (bindHostStream e.bind) ||
      allCfgs.all fun cfg => ioException cfg t.pkg e.name || (lookupRebind G cfg t.pkg e.name).isSome) = true ∧
    (G.loggerReturning.all fun s => !isHost (bindHostStream s.bind)) = true ∧
    (G.rebinds.all fun r => !isHost (streamOfIds (closure G r.free))) = true := by decide

theorem effective_table_norebind {F : Facts} {c : Cfg} {p n : String} {b : Bind}
    (h : effective F c p n = .table b) : lookupRebind F c p n = none := by
  unfold effective at h
  split at h
  · cases h
  · next hn => exact hn

/-- full-strength statement: no name of the carried tables reaches a host stream or the host's arguments -/
def IoAllRedirected : Prop := ∀ (cfg : Cfg) (pkg name : String), isHost (ioStream G cfg pkg name) = false

/-- **every name `pkg.name` of os / log / fmt / flag / log/slog that still reaches the host's streams or arguments is in
    one of three classes**: a package-level function of flag (F13-2), os.Stdin/Stdout/Stderr when the stream given
    in `Options` is not an *os.File and YAEGI_SPECIAL_STDIO is off (F13-3), or a function of log/slog that goes through
    slog's default logger (F13-8) — for all names and configurations -/
theorem io_redirect_partial (cfg : Cfg) (pkg name : String) (hdom : ioException cfg pkg name = false) :
    isHost (ioStream G cfg pkg name) = false := by
  have key : ∀ b, effective G cfg pkg name = .table b → isHost (bindHostStream b) = false := by
    intro b hb
    have hl := effective_table hb
    have hn := effective_table_norebind hb
    unfold lookupTable at hl
    split at hl
    · next t ht =>
      have htm : t ∈ G.tables := List.mem_of_find?_eq_some ht
      have htp : t.pkg = pkg := by simpa using List.find?_some ht
      simp only [Option.map_eq_some_iff] at hl
      obtain ⟨e, he, hbe⟩ := hl
      have hem : e ∈ t.entries := List.mem_of_find?_eq_some he
      have hen : e.name = name := by simpa using List.find?_some he
      have h := List.all_eq_true.mp (List.all_eq_true.mp io_tables_b.1 t htm) e hem
      rw [hbe, htp, hen] at h
      simp only [Bool.or_eq_true, Bool.not_eq_true'] at h
      rcases h with h | h
      · exact h
      · have h2 := List.all_eq_true.mp h cfg (cfg_mem_all cfg)
        simp [hdom, hn] at h2
    · simp only [Option.map_eq_some_iff] at hl
      obtain ⟨s, hs, hbs⟩ := hl
      have hsm : s ∈ G.loggerReturning := List.mem_of_find?_eq_some hs
      have h := List.all_eq_true.mp io_tables_b.2.1 s hsm
      rw [hbs] at h
      simpa using h
  unfold ioStream
  split
  · next r hr =>
    have h := List.all_eq_true.mp io_tables_b.2.2 r (effective_override hr)
    simpa using h
  · next p n hb => exact key _ hb
  · next p n hb => exact key _ hb
  · rfl

/-- F13-3 and F13-2: the two classes are real -/
theorem io_redirect_witness : ¬ IoAllRedirected := by
  intro h
  have := h {} "os" "Stdout"
  revert this
  decide

theorem os_std_streams_witness :
    ioStream G {} "os" "Stdout" = .hostStdout ∧ ioStream G {} "os" "Stderr" = .hostStderr ∧ ioStream G {} "os" "Stdin" = .hostStdin ∧
    ioStream G { stdoutFile := true } "os" "Stdout" = .optStdout ∧ ioStream G { specialStdio := true } "os" "Stdin" = .optStdin := by
  decide

theorem flag_functions_host_witness : ∀ n ∈ flagCmdLineFns, ioStream G {} "flag" n = .hostFlag := by decide

/-- F13-8: the functions of log/slog that use its default logger are the host's own, and that logger hands its records to
    the host's standard logger of package log — the one 77e1d98 took away from the script's `log.Default` — which writes
    to the host's stderr -/
theorem slog_default_host_witness : ∀ n ∈ slogDefaultFns, ioStream G {} "log/slog" n = .hostStderr := by decide

/-- F12 repaired (77e1d98), the output side: **the logger `log.Default()` returns writes to the stream given in
    Options**, in every configuration (it is the logger behind log.Print, created over `stderr`); on the old facts the
    model reproduces the host's standard logger writing to the host's stderr -/
theorem default_logger_stream (cfg : Cfg) : loggerStream G cfg "log" "Default" = .optStderr := by
  have hb : (allCfgs.all fun cfg => loggerStream G cfg "log" "Default" == .optStderr) = true := by decide
  simpa using forall_cfg hb cfg

example : loggerStream oldFacts {} "log" "Default" = .hostStderr := by decide

/-- non-vacuity of the partial theorem -/
example : ioException {} "fmt" "Println" = false ∧ ioStream G {} "fmt" "Println" = .optStdout ∧
    ioException { stdoutFile := true } "os" "Stdout" = false := by decide


/-! ### `interp.New`: from a value of Options to what the script sees

  `Option (List String)` = a Go slice: `none` is nil, `some []` is empty but non-nil. The condition that guards every
  default is the `cond` of the regenerated `OptFlow` facts; the theorems below hold for EVERY value of Options. -/

/-- interp/interp.go: the fields of `Options`, and for every statement of `New` that reads one: target, kind,
    the condition that guards the default, the default -/
theorem options_flows_tie :
    Generated.C13.optionFields = Expected.C13.optionFields ∧ Generated.C13.optFlows = Expected.C13.optFlows := by decide

/-- every field of Options is read by exactly one statement of New (a new field must be looked at) -/
theorem options_fields_all_flow :
    ∀ f ∈ G.optionFields, (G.optFlows.filter fun fl => fl.field == f.1).length = 1 := by decide

private theorem flow_args : flowOf G "args" = some ⟨"Args", "args", "i.opt.args", "default-if", "_ == nil", "os.Args", []⟩ := by decide
private theorem flow_stdin : flowOf G "stdin" = some ⟨"Stdin", "stdin", "i.opt.stdin", "default-if", "_ == nil", "os.Stdin", []⟩ := by decide
private theorem flow_stdout : flowOf G "stdout" = some ⟨"Stdout", "stdout", "i.opt.stdout", "default-if", "_ == nil", "os.Stdout", []⟩ := by decide
private theorem flow_stderr : flowOf G "stderr" = some ⟨"Stderr", "stderr", "i.opt.stderr", "default-if", "_ == nil", "os.Stderr", []⟩ := by decide
private theorem flow_unrestricted : flowOf G "unrestricted" = some ⟨"Unrestricted", "unrestricted", "i.opt.unrestricted", "flag", "_", "zero", []⟩ := by decide
private theorem flow_env : flowOf G "env" = some ⟨"Env", "env", "i.opt.env", "range", "", "map[string]string{}", ["!(options.Unrestricted)"]⟩ := by decide
private theorem flow_fs : flowOf G "filesystem" = some ⟨"SourcecodeFilesystem", "filesystem", "i.opt.filesystem", "set-if", "_ != nil", "&realFS{}", []⟩ := by decide
private theorem flow_gopath : flowOf G "GOPATH" = some ⟨"GoPath", "GOPATH", "i.opt.context.GOPATH", "always", "", "", []⟩ := by decide
private theorem flow_tags : flowOf G "BuildTags" = some ⟨"BuildTags", "BuildTags", "i.opt.context.BuildTags", "set-if", "len(_) > 0", "build.Default.BuildTags", []⟩ := by decide

/-- `if T = options.F; T == nil { T = D }` -/
theorem resolve_default_if_nil {α : Type} (f s t d : String) (isNil : Bool) (len : Option Nat) (v : α) :
    resolve ⟨f, s, t, "default-if", "_ == nil", d, []⟩ isNil len v = if isNil then .dflt d else .given v := by
  cases isNil <;> simp [resolve, parseNilCond, NilCond.holds]

theorem os_args_bound (cfg : Cfg) : ioStream G cfg "os" "Args" = .args :=
  io_redirect_complete cfg ("os", "Args", .args) (by decide)

/-- **the script's os.Args is the vector given in Options whenever Options.Args is non-nil — including the empty
    vector ("the script gets no arguments")** — for every value of Options (restricted or not, any streams) and
    every host -/
theorem args_from_options (o : Options) (h : Host) (a : List String) (ha : o.args = some a) :
    scriptArgs G o h = some a := by
  simp [scriptArgs, scriptArgsSrc, interpArgsSrc, os_args_bound, slotSlice, flow_args, resolve_default_if_nil, ha, ArgsSrc.value]

/-- **… and the host's command line only when Options.Args is nil** (the documented default) -/
theorem args_default_host (o : Options) (h : Host) (hn : o.args = none) : scriptArgs G o h = some h.args := by
  simp [scriptArgs, scriptArgsSrc, interpArgsSrc, os_args_bound, slotSlice, flow_args, resolve_default_if_nil, hn, ArgsSrc.value]

/-- both at once: the host's arguments reach the script iff Options.Args is nil -/
theorem args_src_iff (o : Options) (h : Host) : scriptArgsSrc G o h = .host ↔ o.args = none := by
  cases ha : o.args with
  | none => simp [scriptArgsSrc, interpArgsSrc, os_args_bound, slotSlice, flow_args, resolve_default_if_nil, ha]
  | some a => simp [scriptArgsSrc, interpArgsSrc, os_args_bound, slotSlice, flow_args, resolve_default_if_nil, ha]

/-- non-vacuity: the empty vector, one element, several; unrestricted mode; a host with a long command line -/
example : scriptArgs G { args := some [] } { args := ["/usr/bin/host", "--secret=1"] } = some [] ∧
    scriptArgs G { args := some ["prog"], unrestricted := true } { args := ["/usr/bin/host"] } = some ["prog"] ∧
    scriptArgs G { args := some ["prog", "-v", "x"] } {} = some ["prog", "-v", "x"] ∧
    scriptArgs G {} { args := ["/usr/bin/host", "--secret=1"] } = some ["/usr/bin/host", "--secret=1"] := by decide

/-- what the `== nil` of the Args fact is for: were the condition `len(…) == 0`, an empty non-nil Options.Args would
    hand the script the host's command line (the model is sensitive to the extracted condition) -/
theorem args_guard_sensitivity :
    resolve (⟨"Args", "args", "i.opt.args", "default-if", "len(_) == 0", "os.Args", []⟩ : OptFlow) false (some 0) ([] : List String) =
      .dflt "os.Args" := by decide

/-- what the stream given in Options means for a destination -/
def expectedDest (o : Options) : Stream → Dest
  | .optStdout => if o.stdout.isSome then .opt else .host
  | .optStderr => if o.stderr.isSome then .opt else .host
  | .optStdin => if o.stdin.isSome then .opt else .host
  | _ => .unknown

theorem stream_dest_from_options (o : Options) (s : Stream) : s = .optStdout ∨ s = .optStderr ∨ s = .optStdin →
    streamDest G o s = expectedDest o s := by
  rintro (rfl | rfl | rfl)
  · cases hs : o.stdout <;> simp [streamDest, slotDest, slotIface, flow_stdout, resolve_default_if_nil, expectedDest, hs]
  · cases hs : o.stderr <;> simp [streamDest, slotDest, slotIface, flow_stderr, resolve_default_if_nil, expectedDest, hs]
  · cases hs : o.stdin <;> simp [streamDest, slotDest, slotIface, flow_stdin, resolve_default_if_nil, expectedDest, hs]

private theorem required_streams_b :
    (requiredRedirects.all fun r => r.2.2 == .optStdout || r.2.2 == .optStderr || r.2.2 == .optStdin || r.2.2 == .args) = true := by
  decide

/-- **every function of the required list writes to / reads from the stream given in Options whenever that field is
    non-nil, and the host's own stream only when it is nil** — for every value of Options and every host -/
theorem io_from_options (o : Options) (h : Host) :
    ∀ r ∈ requiredRedirects, r.2.2 ≠ .args → ioDest G o h r.1 r.2.1 = expectedDest o r.2.2 := by
  intro r hr hna
  have h1 := io_redirect_complete (cfgOf G o h) r hr
  have h2 := List.all_eq_true.mp required_streams_b r hr
  simp only [Bool.or_eq_true, beq_iff_eq] at h2
  unfold ioDest
  rw [h1]
  apply stream_dest_from_options
  rcases h2 with ((h2 | h2) | h2) | h2
  · exact Or.inl h2
  · exact Or.inr (Or.inl h2)
  · exact Or.inr (Or.inr h2)
  · exact absurd h2 hna

theorem builtins_from_options (o : Options) :
    builtinDest G o "_print" = expectedDest o .optStdout ∧ builtinDest G o "_println" = expectedDest o .optStdout := by
  unfold builtinDest
  rw [print_builtins_redirected.1, print_builtins_redirected.2]
  exact ⟨stream_dest_from_options o _ (Or.inl rfl), stream_dest_from_options o _ (Or.inl rfl)⟩

example : ioDest G { stdout := some .other } {} "fmt" "Println" = .opt ∧ ioDest G {} {} "fmt" "Println" = .host ∧
    ioDest G { stderr := some .file } {} "log" "Print" = .opt ∧ ioDest G { stdin := none, stdout := some .other } {} "fmt" "Scan" = .host := by
  decide

theorem unrestricted_from_options (o : Options) : effUnrestricted G o = some o.unrestricted := by
  simp [effUnrestricted, flow_unrestricted]

theorem cfgOf_unrestricted (o : Options) (h : Host) : (cfgOf G o h).unrestricted = o.unrestricted := by
  simp [cfgOf, unrestricted_from_options]

/-- what `New` loads into the interpreter's map: the entries of Options.Env in restricted mode, nothing otherwise;
    a nil Env and an empty Env are the same thing, and there is no default taken from the host -/
theorem env_entries_from_options (o : Options) :
    envEntries G o = some (if o.unrestricted then [] else o.env.getD []) := by
  simp [envEntries, flow_env, unrestricted_from_options]

theorem init_virt_from_options (o : Options) :
    initVirtOf G o = some (Env.initVirt o.unrestricted (o.env.getD [])) := by
  cases hu : o.unrestricted <;> simp [initVirtOf, env_entries_from_options, Env.initVirt, hu, Env.parseEnv]

/-- **in restricted mode the environment a script starts with is exactly the parsed Options.Env**, for every value
    of Options and every host: never the host's -/
theorem environ_from_options (o : Options) (h : Host) (hr : o.unrestricted = false) :
    scriptEnviron G o h = .virt (Env.parseEnv (o.env.getD [])) := by
  have hv := env_all_virtual (cfgOf G o h) (by rw [cfgOf_unrestricted]; exact hr) "Environ" (by decide)
  simp [scriptEnviron, hv, init_virt_from_options, Env.initVirt, hr]

/-- **nil Env ≡ empty Env ≡ no variables at all** (there is no "inherit the host's environment" value) -/
theorem env_nil_eq_empty (o : Options) (h : Host) (hr : o.unrestricted = false) (hn : o.env = none ∨ o.env = some []) :
    scriptEnviron G o h = .virt [] := by
  rw [environ_from_options o h hr]
  rcases hn with hn | hn <;> simp [hn, Env.parseEnv]

private theorem environ_unrestricted_b :
    (allCfgs.all fun cfg => !cfg.unrestricted ||
      (!envVirtual G cfg "Environ" && effective G cfg "os" "Environ" == .table (.host "os" "Environ"))) = true := by decide

/-- what `hr` excludes: with Options.Unrestricted the script sees the host's environment and Options.Env is ignored -/
theorem environ_unrestricted_host (o : Options) (h : Host) (hu : o.unrestricted = true) : scriptEnviron G o h = .host := by
  have hb := forall_cfg environ_unrestricted_b (cfgOf G o h)
  simp only [cfgOf_unrestricted, hu, Bool.not_true, Bool.false_or, Bool.and_eq_true, Bool.not_eq_true', beq_iff_eq] at hb
  simp [scriptEnviron, hb.1, hb.2]

example : scriptEnviron G { env := some ["A=1", "B", "A=2=3"] } { env := [("HOME", "/host")] } = .virt [("A", "2=3"), ("B", "")] ∧
    scriptEnviron G { env := none } { env := [("HOME", "/host")] } = .virt [] ∧
    scriptEnviron G { env := some ["A=1"], unrestricted := true } { env := [("HOME", "/host")] } = .host := by decide

/-- **Options.BuildTags is used when it has at least one element, else the tags of build.Default** (nil ≡ empty) -/
theorem buildtags_from_options (o : Options) :
    slotSlice G "BuildTags" o.buildTags =
      if (o.buildTags.getD []).isEmpty then .dflt "build.Default.BuildTags" else .given (o.buildTags.getD []) := by
  cases hl : (o.buildTags.getD []) <;> simp [slotSlice, flow_tags, resolve, parseNilCond, NilCond.holds, hl]

/-- **Options.GoPath is used as it is, empty or not: the host's GOPATH never enters** -/
theorem gopath_from_options (o : Options) : slotString G "GOPATH" o.goPath = .given o.goPath := by
  simp [slotString, flow_gopath, resolve]

/-- **Options.SourcecodeFilesystem is used whenever it is non-nil, the real file system otherwise** -/
theorem filesystem_from_options {α : Type} (v : Option α) :
    slotIface G "filesystem" v = if v.isSome then .given v else .dflt "&realFS{}" := by
  cases v <;> simp [slotIface, flow_fs, resolve, parseNilCond, NilCond.holds]

/-! #### flag -/

private theorem cmdline_kind_b : (allCfgs.all fun cfg => cmdLineNameKind G cfg == .argsHead) = true := by decide

/-- `flag.CommandLine` is created as `flag.NewFlagSet(prog, …)` with `prog` = element 0 of the interpreter's own
    argument vector ("" when it is empty) — read from the regenerated definitions of the locals of fixStdlib -/
theorem cmdline_kind (cfg : Cfg) : cmdLineNameKind G cfg = .argsHead := by
  simpa using forall_cfg cmdline_kind_b cfg

theorem interp_args_from_options (o : Options) :
    interpArgsSrc G o = match o.args with | some a => .opt a | none => .host := by
  cases ha : o.args <;> simp [interpArgsSrc, slotSlice, flow_args, resolve_default_if_nil, ha]

/-- **F13-5 repaired (3f8ef33): the name of the script's flag.CommandLine (and of its "Usage of …" line) is element 0 of
    the arguments given in Options — "" for the empty vector —, for every value of Options and every host** -/
theorem cmdline_name_from_options (o : Options) (h : Host) (a : List String) (ha : o.args = some a) :
    cmdLineName G o h = some (headOr a) := by
  simp [cmdLineName, cmdline_kind, interp_args_from_options, ha, ArgsSrc.value]

/-- … and the host program's only when Options.Args is nil (the script's arguments are then the host's) -/
theorem cmdline_name_default_host (o : Options) (h : Host) (hn : o.args = none) :
    cmdLineName G o h = some (headOr h.args) := by
  simp [cmdLineName, cmdline_kind, interp_args_from_options, hn, ArgsSrc.value]

/-- in one statement: the command line is always named after element 0 of what the script sees as os.Args -/
theorem cmdline_name_is_script_arg0 (o : Options) (h : Host) : cmdLineName G o h = (scriptArgs G o h).map headOr := by
  cases ha : o.args with
  | none => rw [cmdline_name_default_host o h ha, args_default_host o h ha]; rfl
  | some a => rw [cmdline_name_from_options o h a ha, args_from_options o h a ha]; rfl

/-- regression of the replay of F13-5 (`Options.Args = ["prog"]`, `flag.CommandLine.Name()`): "prog" on the repaired
    tree, the host program's path on the old facts; the empty vector and the nil vector -/
example : cmdLineName G { args := some ["prog"] } { args := ["/usr/bin/host", "-x"] } = some "prog" ∧
    cmdLineName oldFacts { args := some ["prog"] } { args := ["/usr/bin/host", "-x"] } = some "/usr/bin/host" ∧
    cmdLineName G { args := some [] } { args := ["/usr/bin/host"] } = some "" ∧
    cmdLineName G {} { args := ["/usr/bin/host"] } = some "/usr/bin/host" := by decide

private theorem flag_parse_b :
    (allCfgs.all fun cfg => ioStream G cfg "flag" "Parse" == .hostFlag && ioStream G cfg "flag" "Args" == .hostFlag) = true := by decide

/-- F13-2 in terms of Options: `flag.Parse(); flag.Args()` works on the host's command line for every Options -/
theorem flag_parse_host (o : Options) (h : Host) : flagParseSrc G o h = .host := by
  have hb := forall_cfg flag_parse_b (cfgOf G o h)
  simp only [Bool.and_eq_true, beq_iff_eq] at hb
  simp [flagParseSrc, hb.1, hb.2]

/-- full-strength statement: no function of os consults the host environment in restricted mode -/
def NoHostEnvRead : Prop := ∀ (cfg : Cfg) (name : String), cfg.unrestricted = false → envSource G cfg name ≠ .host

private theorem os_env_names_b :
    (G.tables.all fun t => t.pkg != "os" || t.entries.all fun e =>
      match e.bind with
      | .host "os" n => !(envFns.contains n || hostEnvReaders.contains n) || e.name == n
      | _ => true) = true := by decide

/-- **in restricted mode the only functions of os that consult the host environment are the four that do so
    indirectly** (UserHomeDir, UserCacheDir, UserConfigDir, TempDir) — for every name -/
theorem env_source_partial (cfg : Cfg) (hr : cfg.unrestricted = false) (name : String) (hdom : name ∉ hostEnvReaders) :
    envSource G cfg name ≠ .host := by
  unfold envSource
  split
  · simp
  · next hv =>
    split
    · next n hb =>
      split
      · next hn =>
        exfalso
        have hl := effective_table hb
        unfold lookupTable at hl
        split at hl
        · next t ht =>
          have htm : t ∈ G.tables := List.mem_of_find?_eq_some ht
          have htp : t.pkg = "os" := by simpa using List.find?_some ht
          simp only [Option.map_eq_some_iff] at hl
          obtain ⟨e, he, hbe⟩ := hl
          have hem : e ∈ t.entries := List.mem_of_find?_eq_some he
          have hen : e.name = name := by simpa using List.find?_some he
          have h := List.all_eq_true.mp os_env_names_b t htm
          simp only [htp, bne_self_eq_false, Bool.false_or] at h
          have h2 := List.all_eq_true.mp h e hem
          rw [hbe] at h2
          simp only [hn, Bool.not_true, Bool.false_or, beq_iff_eq] at h2
          rw [hen] at h2
          subst h2
          rcases Bool.or_eq_true_iff.mp hn with h3 | h3
          · have := env_all_virtual cfg hr name (by simpa using h3)
            exact hv this
          · exact hdom (by simpa using h3)
        · simp only [Option.map_eq_some_iff] at hl
          obtain ⟨s, hs, _⟩ := hl
          have hsm : s ∈ G.loggerReturning := List.mem_of_find?_eq_some hs
          have hsp : s.pkg = "os" := by
            have := List.find?_some hs
            simp only [Bool.and_eq_true, beq_iff_eq] at this
            exact this.1
          have : (G.loggerReturning.all fun s => s.pkg != "os") = true := by decide
          have := List.all_eq_true.mp this s hsm
          simp [hsp] at this
      · simp
    · simp

/-- F13-4: os functions that read the host environment by themselves -/
theorem env_indirect_witness : ∀ n ∈ hostEnvReaders, envSource G {} n = .host := by decide

theorem no_host_env_read_witness : ¬ NoHostEnvRead := by
  intro h
  exact h {} "UserHomeDir" rfl (by decide)

/-- non-vacuity -/
example : "Getenv" ∉ hostEnvReaders ∧ envSource G {} "Getenv" = .virt ∧ envSource G { unrestricted := true } "Getenv" = .host := by
  decide

end YaegiVerif.Props.C13
