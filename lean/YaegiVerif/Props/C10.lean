import YaegiVerif.Model.RunId
import YaegiVerif.Proofs.C09Inv
import YaegiVerif.Proofs.C10Hist
import YaegiVerif.Expected.C10
import YaegiVerif.Generated.C10
/-
  C10 — a cancelled evaluation does not damage earlier definitions. Theorems over histories
  `(define | use | cancelled-eval)*` on the run-id model (Model/RunId.lean, section C10): the state is the
  interpreter id, the id of the root frame and the definitions made so far, each with the way its body gets a
  frame (`Binding`) and a call counter (so that a use that silently does nothing is visible in later results).
  `runHist F` is the interpreter as it is (facts `F`), `runSpec` what Go and the property demand.

  State after the repairs of round 2 (4a41b28 F10, 2667a11 import, ba001d8) and the epoch repair of round 4
  (dc95f3e, 2db9fe7): the full-strength statement holds for the extracted facts (`definitions_survive`), also for
  histories in which the windows F10-1 was about are made visible (`definitions_survive_extended`: a host call while
  the cancelled `Execute` has not returned, after a `stop()` that came after `Execute` had returned, after a `stop()`
  without any `Execute`). A call of a function value takes the interpreter's CURRENT id and done channel when its
  frame is made (the epoch of a definition of a history is never cancelled: the evaluation that made it has
  completed), so neither the id nor the done channel of the root frame matters to a host call any more. What the
  statement was false for is kept as statements about `Expected.C10.round2Facts` (F10-1, F10-3) and
  `Expected.C10.oldFacts` (F10 and the import), the records the extractor produces on the trees before the repairs.
-/
namespace YaegiVerif.Props.C10
open YaegiVerif YaegiVerif.RunId YaegiVerif.Proofs.C09 YaegiVerif.Proofs.C10

/-! ### ties to the source -/

/-- tie: the run-id facts extracted from interp/{interp,program,run,src}.go are the ones the proofs use -/
theorem runidfacts_tie : Generated.C10.facts = Expected.C10.facts := by decide
theorem execruns_tie : Generated.C10.execRuns = Expected.C10.execRuns := by decide
theorem notes_tie : Generated.C10.notes = [] := by decide
theorem source_tie : Generated.C10.sourceHashes = Expected.C10.sourceHashes := by decide

theorem expected_sound : Sound Expected.C10.facts := by
  constructor <;> decide

/-! ### link to the machine: `alive` is the guard the machine applies to the first operation of the body -/

/-- a goroutine standing before the first operation of a body (frame id `fid`) passes the guard of `runCfg`
    exactly when `guardOk` says so — which is how `alive` is defined; otherwise the frame is dropped without
    executing anything -/
theorem body_runs_iff_guard (F : RunIdFacts) (σ : St) (fid : Nat) (p : Prog) (rest : List Frame) (main : Bool) (ops ticks : Nat) :
    let g : G := { stack := ⟨fid, .tick p, true, false⟩ :: rest, armed := false, blocked := none, ops := ops, ticks := ticks, main := main, pending := none }
    (stepG F σ g).g.armed = guardOk F fid σ.id ∧
    (guardOk F fid σ.id = false → (stepG F σ g).g.stack = rest ∧ (stepG F σ g).g.ops = ops ∧ (stepG F σ g).g.ticks = ticks) := by
  cases h : guardOk F fid σ.id <;> simp [stepG, advance, h]

/-- the id the frame of a call of a function value gets in the history model is the id the machine gives it: the
    interpreter's current one, read when the call is made -/
theorem function_value_called_under_current_id (h : HSt) (d : Def) (s : Site) (c : Nat) (hs : s.kind ≠ .call) (host : Bool)
    (hb : d.binding = .fixed s c ∨ d.binding = .root) : useFrameId Generated.C10.facts h d host = h.id := by
  rw [runidfacts_tie]
  rcases hb with hb | hb
  · obtain ⟨k, e, l⟩ := s
    cases k <;> first | exact absurd rfl hs | simp [useFrameId, hb, newId, RunIdFacts.site, Expected.C10.facts, Expected.C09.facts]
  · simp [useFrameId, hb, newId, Expected.C10.facts, Expected.C09.facts]

/-! ### the invariant of histories -/

/-- **`interp.done` is an open channel between two events**, whatever the history was: `stop()` replaces the channel it
    closes, nothing else touches it (2db9fe7) — and it is the channel every call of a function value races -/
theorem done_open_between_events (evs : List Ev) : (runHist Generated.C10.facts HSt.init evs).idone = false := by
  rw [runidfacts_tie]
  exact open_run evs HSt.init rfl

/-- **Every definition is alive after every history**: a use — an `Eval` of a call or a direct call by the host —
    of ANY definition made so far (named function, method, closure, method value bound at top level or inside a
    function, function value held by the host, function of a package imported later) gets a frame that carries
    the interpreter's current id; for the host call this does not depend on the id of the root frame. -/
theorem every_definition_alive (evs : List Ev) (d : Def) (hd : d ∈ (runHist Generated.C10.facts HSt.init evs).defs) :
    alive Generated.C10.facts (runHist Generated.C10.facts HSt.init evs) d true = true ∧
    alive Generated.C10.facts ((runHist Generated.C10.facts HSt.init evs).enter Generated.C10.facts false) d false = true := by
  revert hd
  rw [runidfacts_tie]
  intro hd
  have hf := fvBound_run Expected.C10.facts evs HSt.init (fun d hd => by cases hd)
  exact ⟨host_alive _ d (hf d hd), eval_alive _ d (by simp [HSt.enter, HSt.refresh, fact_ref]) (hf d hd)⟩

/-! ### the property, at full strength -/

/-- the full-strength statement: every history, every definition kind, every way of calling -/
def C10_full_statement (F : RunIdFacts) : Prop :=
  ∀ evs : List Ev, (runHist F HSt.init evs).results = (runSpec HSt.init evs).results

/-- **Definitions survive** (full strength). For EVERY history — definitions of every kind (named functions,
    methods, closures stored in variables, method values bound at top level or inside functions, function values
    handed to the host, functions of packages imported after cancellations), with or without goroutines and channel
    operations in their bodies, made at any point; uses through `Eval`, `EvalWithContext` and direct calls by the
    host; cancelled evaluations of every kind anywhere and in any number —: every use returns exactly what it
    returns when the cancelled evaluations are left out (`runSpec` ignores them), state carried between calls
    included. -/
theorem definitions_survive : C10_full_statement Generated.C10.facts := by
  intro evs
  rw [runidfacts_tie]
  have := full_run evs HSt.init rfl (fun d hd => by cases hd)
  have h2 : (erase (runHist Expected.C10.facts HSt.init evs)).results = (runSpec (erase HSt.init) evs).results := by rw [this]
  simpa [erase, HSt.init] using h2

/-- **… and in the windows**: the same for histories in which a cancelled evaluation is HELD (its `Execute` has not
    returned when the next event happens: F10-1 (1)), in which `stop()` runs after `Execute` has returned (F10-1 (2)) or
    without any `Execute` at all: a direct host call made there works like any other. -/
theorem definitions_survive_extended (xs : List XEv) :
    (runX Generated.C10.facts xs).results = (runSpec HSt.init (XEv.plain xs)).results := by
  rw [runidfacts_tie]
  have h := full_runX xs (HSt.init, false) rfl (fun d hd => by cases hd)
  have hres : ∀ (h : HSt) (b : Bool), (settle Expected.C10.facts h b).results = h.results := by
    intro h b; unfold settle; split <;> rfl
  have h2 : (erase (xs.foldl (stepX Expected.C10.facts) (HSt.init, false)).1).results =
      (runSpec (erase HSt.init) (XEv.plain xs)).results := by rw [h]
  simp only [runX, hres]
  simpa [erase, HSt.init] using h2

/-- histories without a held evaluation are the histories of `definitions_survive` -/
theorem runX_of_events (F : RunIdFacts) (evs : List Ev) : runX F (evs.map .ev) = runHist F HSt.init evs := by
  have key : ∀ (h : HSt), (evs.map XEv.ev).foldl (stepX F) (h, false) = (evs.foldl (stepH F) h, false) := by
    induction evs with
    | nil => intro h; rfl
    | cons e es ih => intro h; simp only [List.map_cons, List.foldl_cons, stepX, settle]; exact ih _
  simp [runX, key, settle, runHist]

/-- non-vacuity: a history with every kind of definition, used through `Eval`, `EvalWithContext` and by the host —
    host calls right after cancelled evaluations of channel-using bodies included —, with four cancelled
    evaluations of every kind in between, and a package imported after two of them -/
def exHist : List Ev :=
  [.define .named 3 1 true, .define .closure 5 2 false, .define .hostWrapper 2 5 true, .define .methodValueInFunc 7 1 false,
   .use 1 .eval 4, .use 2 .host 1, .cancelled .busyLoop, .use 2 .host 1, .use 1 .host 4, .use 0 .host 2, .use 3 .eval 1,
   .cancelled .expiredBefore, .define .imported 2 9 false, .use 4 .host 3, .cancelled .blockedChan, .cancelled .expiredAfter,
   .use 2 .host 0, .use 0 .eval 0, .use 3 .host 1, .use 4 .evalCtx 1]
example : (runHist Generated.C10.facts HSt.init exHist).results = (runSpec HSt.init exHist).results ∧
    (runHist Generated.C10.facts HSt.init exHist).id = 4 ∧ (runHist Generated.C10.facts HSt.init exHist).results.length = 11 := by decide

/-- F10 repaired (4a41b28), the replay of the finding: a closure and a function value held by the host, used before
    and after a cancelled evaluation, from the script and from the host -/
def f10Hist : List Ev :=
  [.define .closure 5 2 false, .define .hostWrapper 3 1 false, .use 0 .eval 4, .use 1 .host 4, .cancelled .busyLoop,
   .use 1 .host 4, .use 0 .eval 4, .use 1 .host 4]
theorem closure_and_wrapper_survive_cancel :
    (runHist Generated.C10.facts HSt.init f10Hist).results = [16, 24, 15, 14, 23] ∧
    (runSpec HSt.init f10Hist).results = [16, 24, 15, 14, 23] := by decide

/-! ### F10-3 and F10-1 (repaired by dc95f3e / 2db9fe7): regressions on the extracted facts, witnesses on the facts of round 2 -/

def f103Hist : List Ev :=
  [.define .hostWrapper 3 1 true, .use 0 .host 4, .cancelled .busyLoop, .use 0 .host 4, .use 0 .host 4, .use 0 .eval 4, .use 0 .host 4]

/-- F10-3: a function held by the host whose body receives its value over a channel, called by the host right after a
    cancelled evaluation. Repaired: the frame races the interpreter's current, open, channel. With the facts of round 2
    the root frame still held the channel `stop()` had closed: the receive was cut short, twice (the call counter moved). -/
theorem host_call_chanop_after_cancel :
    (runHist Generated.C10.facts HSt.init f103Hist).results = [18, 17, 16, 15, 14] ∧
    (runHist Expected.C10.round2Facts HSt.init f103Hist).results = [18, 17, 0, 0, 14] ∧
    (runSpec HSt.init f103Hist).results = [18, 17, 16, 15, 14] := by
  decide

def f101Hist : List XEv :=
  [.ev (.define .hostWrapper 3 1 false), .ev (.use 0 .host 4), .hold, .ev (.use 0 .host 4), .ev (.use 0 .host 4),
   .lateStop, .ev (.use 0 .host 4), .stopOnly, .ev (.use 0 .host 4)]

/-- F10-1: a function value handed to the host is called while the cancelled `Execute` has not returned yet, after a
    `stop()` that ran when `Execute` had already returned, and after a `stop()` without `Execute`. Repaired: the frame
    takes the interpreter's id, not the root frame's. With the facts of round 2 the three calls returned zero. -/
theorem host_call_in_windows :
    (runX Generated.C10.facts f101Hist).results = [18, 17, 16, 15, 14] ∧
    (runX Expected.C10.round2Facts f101Hist).results = [0, 0, 15, 0, 14] ∧
    (runSpec HSt.init (XEv.plain f101Hist)).results = [18, 17, 16, 15, 14] := by
  decide

/-- in the window of F10-1 (1) every definition is alive for a direct host call -/
theorem host_call_in_window_alive (evs : List Ev) (d : Def)
    (hd : d ∈ (runHist Generated.C10.facts HSt.init evs).defs) :
    alive Generated.C10.facts ((runHist Generated.C10.facts HSt.init evs).stoppedNotLeft Generated.C10.facts) d true = true := by
  revert hd
  rw [runidfacts_tie]
  intro hd
  have hf := fvBound_run Expected.C10.facts evs HSt.init (fun d hd => by cases hd)
  exact host_alive _ d (hf d hd)

theorem full_statement_false_round2 : ¬ C10_full_statement Expected.C10.round2Facts := by
  intro h
  have := h [Ev.define .hostWrapper 3 1 true, .cancelled .busyLoop, .use 0 .host 4]
  revert this
  decide

/-! ### before the repairs (statements about the old facts) -/

/-- F10, closures: with the facts of the tree before 4a41b28 a closure stored in a variable works before the
    cancelled evaluation and returns the zero value afterwards, again and again (its call counter does not move
    either); Go returns 23, 24, 25 -/
theorem closure_dead_after_cancel_witness_old :
    let evs := [Ev.define .closure 5 2 false, .use 0 .eval 4, .cancelled .busyLoop, .use 0 .eval 4, .define .named 1 1 false,
                .use 1 .eval 1, .use 0 .eval 4, .use 0 .host 4]
    (runHist Expected.C10.oldFacts HSt.init evs).results = [0, 0, 3, 0, 23] ∧
    (runSpec HSt.init evs).results = [26, 25, 3, 24, 23] ∧
    (runHist Generated.C10.facts HSt.init evs).results = [26, 25, 3, 24, 23] := by
  decide

/-- F10, exported wrappers, old facts: a function value handed to the host returns the zero value when called
    directly after the cancelled evaluation, and works again once any later evaluation has been executed -/
theorem wrapper_dead_until_next_execute_witness_old :
    let evs := [Ev.define .hostWrapper 3 1 false, .define .named 1 1 false, .use 0 .host 4, .cancelled .blockedChan, .use 0 .host 4,
                .use 0 .host 4, .use 1 .eval 1, .use 0 .host 4]
    (runHist Expected.C10.oldFacts HSt.init evs).results = [15, 3, 0, 0, 14] ∧
    (runSpec HSt.init evs).results = [17, 3, 16, 15, 14] ∧
    (runHist Generated.C10.facts HSt.init evs).results = [17, 3, 16, 15, 14] := by
  decide

/-- 2667a11, old facts: the variables of a package imported right after a cancelled evaluation are not initialised
    (its function computes `x*a + 0 + calls` instead of `x*a + b + calls`) -/
theorem import_after_cancel_witness_old :
    let evs := [Ev.define .named 1 1 false, .cancelled .busyLoop, .define .imported 2 9 false, .use 1 .eval 3, .use 0 .eval 1]
    (runHist Expected.C10.oldFacts HSt.init evs).results = [3, 7] ∧
    (runSpec HSt.init evs).results = [3, 16] ∧
    (runHist Generated.C10.facts HSt.init evs).results = [3, 16] := by
  decide

/-- the full-strength statement was false for the interpreter before the repairs -/
theorem full_statement_false_old : ¬ C10_full_statement Expected.C10.oldFacts := by
  intro h
  have := h [Ev.define .closure 5 2 false, .cancelled .busyLoop, .use 0 .eval 4]
  revert this
  decide

/-- old facts: a frame id captured before a cancellation never became current again — a closure (or a method value
    made inside a function) whose captured id was behind the interpreter's id was dead for ever: the ids only grow -/
theorem fixed_binding_dead_for_ever_old (evs : List Ev) (h : HSt) (s : Site) (c : Nat) (d : Def)
    (hb : d.binding = .fixed s c) (hc : c < h.id) :
    alive Expected.C10.oldFacts (runHist Expected.C10.oldFacts h evs) d = false ∧
    alive Expected.C10.oldFacts ((runHist Expected.C10.oldFacts h evs).refresh Expected.C10.oldFacts) d = false := by
  have hmono : h.id ≤ (runHist Expected.C10.oldFacts h evs).id := by
    induction evs generalizing h with
    | nil => exact Nat.le_refl _
    | cons e es ih =>
      have h1 := id_monotone Expected.C10.oldFacts h e
      have h2 := ih (stepH Expected.C10.oldFacts h e) (by omega)
      simp only [runHist, List.foldl_cons] at h2 ⊢
      omega
  have hs : Expected.C10.oldFacts.site s = .parent := by obtain ⟨k, e, l⟩ := s; cases k <;> rfl
  have hg : Expected.C10.oldFacts.guardPlain = true := rfl
  constructor <;> simp [alive, useFrameId, hb, hs, newId, guardOk, hg, HSt.refresh] <;> omega

/-! ### the relational form: cancelled evaluations are invisible -/

/-- an event that is not a cancelled evaluation -/
def keep : Ev → Bool
  | .cancelled _ => false
  | _ => true

theorem runSpec_filter (h : HSt) (evs : List Ev) : runSpec h evs = runSpec h (evs.filter keep) := by
  unfold runSpec
  induction evs generalizing h with
  | nil => rfl
  | cons e es ih =>
    cases e with
    | cancelled c => simp only [List.foldl_cons, stepSpec, keep, List.filter_cons, Bool.false_eq_true, if_false]; exact ih h
    | define k a b blk => simp only [List.foldl_cons, keep, List.filter_cons, if_true]; exact ih _
    | use d v x => simp only [List.foldl_cons, keep, List.filter_cons, if_true]; exact ih _

/-- **Two histories that differ only in their cancelled evaluations return the same results**: cancelled
    evaluations may be added, removed, moved and changed in kind, anywhere and in any number, and no use
    of any definition — through `Eval`, `EvalWithContext` or a direct host call — can tell (relational
    corollary of `definitions_survive`; in particular the history with none of them is one of the two). -/
theorem cancellations_invisible (evs evs' : List Ev) (h : evs.filter keep = evs'.filter keep) :
    (runHist Generated.C10.facts HSt.init evs).results = (runHist Generated.C10.facts HSt.init evs').results := by
  rw [definitions_survive evs, definitions_survive evs', runSpec_filter _ evs, runSpec_filter _ evs', h]

/-- non-vacuity: `exHist` and the same history with its four cancellations removed, and with two more added -/
example : exHist.filter keep = (Ev.cancelled .busyLoop :: (exHist ++ [Ev.cancelled .blockedChan])).filter keep ∧
    (exHist.filter keep).length = 16 ∧ exHist.length = 20 := by decide

end YaegiVerif.Props.C10
