import YaegiVerif.Model.RunId
import YaegiVerif.Proofs.C09Inv
import YaegiVerif.Proofs.C10Hist
import YaegiVerif.Expected.C10
import YaegiVerif.Generated.C10
/-
  C10 — a cancelled evaluation does not damage earlier definitions. Theorems over histories
  `define* ; (use | cancelled-eval)*` on the run-id model (Model/RunId.lean, section C10): the state is the
  interpreter id, the id of the root frame and the definitions made so far, each with the way its body gets a
  frame (`Binding`) and a call counter (so that a use that silently does nothing is visible in later results).
  `runHist F` is the interpreter as it is (facts `F`), `runSpec` what Go and the property demand.
-/
namespace YaegiVerif.Props.C10
open YaegiVerif YaegiVerif.RunId YaegiVerif.Proofs.C09 YaegiVerif.Proofs.C10

/-! ### ties to the source -/

/-- tie: the run-id facts extracted from interp/{interp,program,run}.go are the ones the proofs use -/
theorem runidfacts_tie : Generated.C10.facts = Expected.C10.facts := by decide
theorem execruns_tie : Generated.C10.execRuns = Expected.C10.execRuns := by decide
theorem notes_tie : Generated.C10.notes = [] := by decide
theorem source_tie : Generated.C10.sourceHashes = Expected.C10.sourceHashes := by decide

theorem expected_sound : Sound Expected.C10.facts := by
  constructor <;> decide

/-! ### link to the machine: `alive` is the guard the machine applies to the first operation of the body -/

/-- a goroutine standing before the first operation of a body (frame id `fid`) passes the guard of `runCfg`
    exactly when `guardOk` says so — which is how `alive` is defined; otherwise the frame is dropped without
    executing anything -/
theorem body_runs_iff_guard (F : RunIdFacts) (σ : St) (fid : Nat) (p : Prog) (rest : List Frame) (main : Bool) (ops ticks : Nat) :
    let g : G := { stack := ⟨fid, .tick p, true⟩ :: rest, armed := false, blocked := none, ops := ops, ticks := ticks, main := main }
    (stepG F σ g).1.armed = guardOk F fid σ.id ∧
    (guardOk F fid σ.id = false → (stepG F σ g).1.stack = rest ∧ (stepG F σ g).1.ops = ops ∧ (stepG F σ g).1.ticks = ticks) := by
  cases h : guardOk F fid σ.id <;> simp [stepG, advance, h]

/-! ### named functions and methods survive, for all histories -/

/-- **A named function (or a method) survives**: after ANY history — any definitions, any uses, any number of
    cancelled evaluations of any kind — an `Eval` of a call to it runs its body (the frame it gets carries the
    interpreter's current id) and returns the value Go returns. -/
theorem named_function_survives (evs : List Ev) (i x : Nat) (d : Def)
    (hd : (runHist Generated.C10.facts HSt.init evs).defs[i]? = some d)
    (hk : d.kind = .named ∨ d.kind = .method) :
    alive Generated.C10.facts ((runHist Generated.C10.facts HSt.init evs).refresh Generated.C10.facts) d = true ∧
    (runHist Generated.C10.facts HSt.init (evs ++ [.use i .eval x])).results =
      value d x :: (runHist Generated.C10.facts HSt.init evs).results := by
  have hb : d.binding = .callee :=
    namedLate_run _ evs HSt.init (fun d hd => by cases hd) d (List.mem_of_getElem? hd) hk
  revert hd
  rw [runidfacts_tie]
  intro hd
  have ha : alive Expected.C10.facts ((runHist Expected.C10.facts HSt.init evs).refresh Expected.C10.facts) d = true := by
    simp [alive, useFrameId, hb, HSt.refresh, guardOk, newId, Expected.C10.facts, Expected.C09.facts]
  refine ⟨ha, ?_⟩
  have happ : runHist Expected.C10.facts HSt.init (evs ++ [.use i .eval x]) =
      stepH Expected.C10.facts (runHist Expected.C10.facts HSt.init evs) (.use i .eval x) := by
    simp [runHist, List.foldl_append]
  rw [happ]
  exact use_eval_alive _ _ i x d hd ha

/-! ### the partial theorem: histories over late-bound definitions used through `Eval` -/

/-- **Definitions survive** (partial: `Dom`). For every history whose definitions are named functions, methods
    and top-level method values, used through `Eval`, with cancelled evaluations of any kind anywhere: every use
    returns exactly what it returns when the cancelled evaluations are left out (`runSpec` ignores them), state
    carried between calls included. -/
theorem definitions_survive_partial (evs : List Ev) (hd : Dom evs = true) :
    (runHist Generated.C10.facts HSt.init evs).results = (runSpec HSt.init evs).results := by
  rw [runidfacts_tie]
  have := dom_run evs HSt.init hd (fun d hd => by cases hd)
  have h2 : (erase (runHist Expected.C10.facts HSt.init evs)).results = (runSpec (erase HSt.init) evs).results := by rw [this]
  simpa [erase, HSt.init] using h2

/-- non-vacuity: a history in `Dom` with three cancelled evaluations of different kinds between stateful uses -/
def exHist : List Ev :=
  [.define .named 3 1, .define .method 2 5, .define .methodValueTop 7 1, .use 0 .eval 4, .cancelled .busyLoop, .use 0 .eval 4,
   .use 2 .eval 1, .cancelled .expiredBefore, .use 1 .eval 3, .cancelled .blockedChan, .use 2 .eval 1, .use 0 .eval 0]
example : Dom exHist = true ∧ (runHist Generated.C10.facts HSt.init exHist).results = [4, 10, 12, 9, 15, 14] ∧
    (runHist Generated.C10.facts HSt.init exHist).id = 3 := by decide

/-! ### what `Dom` excludes (F10) -/

/-- the full-strength statement: every history, every definition kind, every way of calling -/
def C10_full_statement (F : RunIdFacts) : Prop :=
  ∀ evs : List Ev, (runHist F HSt.init evs).results = (runSpec HSt.init evs).results

/-- F10, closures: a closure stored in a variable works before the cancelled evaluation and returns the zero
    value afterwards, again and again (its call counter does not move either); Go returns 23, 24, 25 -/
theorem closure_dead_after_cancel_witness :
    let evs := [Ev.define .closure 5 2, .use 0 .eval 4, .cancelled .busyLoop, .use 0 .eval 4, .define .named 1 1,
                .use 1 .eval 1, .use 0 .eval 4, .use 0 .host 4]
    (runHist Generated.C10.facts HSt.init evs).results = [0, 0, 3, 0, 23] ∧
    (runSpec HSt.init evs).results = [26, 25, 3, 24, 23] := by
  decide

/-- F10, exported wrappers: a function value handed to the host returns the zero value when called directly
    after the cancelled evaluation, and works again once any later evaluation has been executed -/
theorem wrapper_dead_until_next_execute_witness :
    let evs := [Ev.define .hostWrapper 3 1, .define .named 1 1, .use 0 .host 4, .cancelled .blockedChan, .use 0 .host 4,
                .use 0 .host 4, .use 1 .eval 1, .use 0 .host 4]
    (runHist Generated.C10.facts HSt.init evs).results = [15, 3, 0, 0, 14] ∧
    (runSpec HSt.init evs).results = [17, 3, 16, 15, 14] := by
  decide

theorem full_statement_false : ¬ C10_full_statement Generated.C10.facts := by
  intro h
  have := h [Ev.define .closure 5 2, .cancelled .busyLoop, .use 0 .eval 4]
  revert this
  decide

theorem fixed_binding_dead_for_ever (evs : List Ev) (h : HSt) (s : Site) (c : Nat) (d : Def)
    (hb : d.binding = .fixed s c) (hc : c < h.id) :
    alive Generated.C10.facts (runHist Generated.C10.facts h evs) d = false ∧
    alive Generated.C10.facts ((runHist Generated.C10.facts h evs).refresh Generated.C10.facts) d = false := by
  have hmono : h.id ≤ (runHist Generated.C10.facts h evs).id := by
    induction evs generalizing h with
    | nil => exact Nat.le_refl _
    | cons e es ih =>
      have h1 := id_monotone Generated.C10.facts h e
      have h2 := ih (stepH Generated.C10.facts h e) (by omega)
      simp only [runHist, List.foldl_cons] at h2 ⊢
      omega
  revert hmono
  rw [runidfacts_tie]
  intro hmono
  have hs : Expected.C10.facts.site s = .parent := by cases s <;> rfl
  have hg : Expected.C10.facts.guardPlain = true := rfl
  constructor <;> simp [alive, useFrameId, hb, hs, newId, guardOk, hg, HSt.refresh] <;> omega

end YaegiVerif.Props.C10
