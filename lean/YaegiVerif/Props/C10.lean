import YaegiVerif.Model.RunId
import YaegiVerif.Proofs.C09Inv
import YaegiVerif.Proofs.C10Hist
import YaegiVerif.Expected.C10
import YaegiVerif.Generated.C10
/-
  C10 — a cancelled evaluation does not damage earlier definitions. Theorems over histories
  `(define | use | cancelled-eval)*` on the run-id model (Model/RunId.lean, section C10): the state is the
  interpreter id, the id of the root frame and the definitions made so far, each with the way its body gets a
  frame (`Binding`) and a call counter (so that a use that silently does nothing is visible in later results).
  `runHist F` is the interpreter as it is (facts `F`), `runSpec` what Go and the property demand.

  State after the repairs of round 2 (4a41b28 F10, 2667a11 import, ba001d8): for the extracted facts EVERY
  definition gets a live frame after EVERY history (`every_definition_alive`: the run-id part of the property at
  full strength, F10 repaired), and every use returns what the specification returns for every history, every kind
  of definition and every way of calling — except one situation found while the harness was extended (F10-3): a
  function value called directly by the host after a cancelled evaluation, before any other evaluation, gets the
  CLOSED done channel the cancelled evaluation left in the root frame, so a body that blocks on a channel is cut
  short. `definitions_survive_partial` has that single clause in its domain; without channel operations in the
  bodies the statement is full (`definitions_survive_without_channels`). What the statement was false for before the
  repairs is kept as statements about `Expected.C10.oldFacts`, the record the extractor produces on the old tree.
-/
namespace YaegiVerif.Props.C10
open YaegiVerif YaegiVerif.RunId YaegiVerif.Proofs.C09 YaegiVerif.Proofs.C10

/-! ### ties to the source -/

/-- tie: the run-id facts extracted from interp/{interp,program,run,src}.go are the ones the proofs use -/
theorem runidfacts_tie : Generated.C10.facts = Expected.C10.facts := by decide
theorem execruns_tie : Generated.C10.execRuns = Expected.C10.execRuns := by decide
theorem notes_tie : Generated.C10.notes = [] := by decide
theorem source_tie : Generated.C10.sourceHashes = Expected.C10.sourceHashes := by decide

theorem expected_sound : Sound Expected.C10.facts := by
  constructor <;> decide

/-! ### link to the machine: `alive` is the guard the machine applies to the first operation of the body -/

/-- a goroutine standing before the first operation of a body (frame id `fid`) passes the guard of `runCfg`
    exactly when `guardOk` says so — which is how `alive` is defined; otherwise the frame is dropped without
    executing anything -/
theorem body_runs_iff_guard (F : RunIdFacts) (σ : St) (fid : Nat) (p : Prog) (rest : List Frame) (main : Bool) (ops ticks : Nat) :
    let g : G := { stack := ⟨fid, .tick p, true⟩ :: rest, armed := false, blocked := none, ops := ops, ticks := ticks, main := main, pending := none }
    (stepG F σ g).g.armed = guardOk F fid σ.id ∧
    (guardOk F fid σ.id = false → (stepG F σ g).g.stack = rest ∧ (stepG F σ g).g.ops = ops ∧ (stepG F σ g).g.ticks = ticks) := by
  cases h : guardOk F fid σ.id <;> simp [stepG, advance, h]

/-- the id the frame of a call of a function value gets in the history model is the id the machine gives it: the
    root frame's, read when the call is made -/
theorem function_value_called_under_root_id (h : HSt) (d : Def) (s : Site) (c : Nat) (hs : s ≠ .call)
    (hb : d.binding = .fixed s c ∨ d.binding = .root) : useFrameId Generated.C10.facts h d = h.rootId := by
  rw [runidfacts_tie]
  rcases hb with hb | hb
  · cases s <;> first | exact absurd rfl hs | simp [useFrameId, hb, newId, RunIdFacts.site, Expected.C10.facts, Expected.C09.facts]
  · simp [useFrameId, hb, newId, Expected.C10.facts, Expected.C09.facts]

/-! ### the invariant of histories -/

/-- **Between two events the root frame carries the interpreter's id**, whatever the history was: `Execute`
    refreshes it when it starts and again when it returns, a cancelled `Execute` included. -/
theorem root_in_step_between_events (evs : List Ev) :
    (runHist Generated.C10.facts HSt.init evs).rootId = (runHist Generated.C10.facts HSt.init evs).id := by
  rw [runidfacts_tie]
  exact (synced_run evs HSt.init ⟨rfl, rfl⟩).1

/-- **Every definition is alive after every history**: a use — an `Eval` of a call or a direct call by the host —
    of ANY definition made so far (named function, method, closure, method value bound at top level or inside a
    function, function value held by the host, function of a package imported later) gets a frame that carries
    the interpreter's current id. -/
theorem every_definition_alive (evs : List Ev) (d : Def) (hd : d ∈ (runHist Generated.C10.facts HSt.init evs).defs) :
    alive Generated.C10.facts (runHist Generated.C10.facts HSt.init evs) d = true ∧
    alive Generated.C10.facts ((runHist Generated.C10.facts HSt.init evs).refresh Generated.C10.facts) d = true := by
  revert hd
  rw [runidfacts_tie]
  intro hd
  have hs := (synced_run evs HSt.init ⟨rfl, rfl⟩).1
  have hf := fvBound_run Expected.C10.facts evs HSt.init (fun d hd => by cases hd)
  refine ⟨synced_alive _ d hs (hf d hd), ?_⟩
  exact synced_alive _ d (by simp [HSt.refresh, fact_ref]) (hf d hd)

/-! ### the property -/

/-- the full-strength statement: every history, every definition kind, every way of calling -/
def C10_full_statement (F : RunIdFacts) : Prop :=
  ∀ evs : List Ev, (runHist F HSt.init evs).results = (runSpec HSt.init evs).results

/-- the domain of the partial theorem (decidable; `okEv` looks at the state each event meets): the host does not call
    a function value whose body blocks on a channel while the root frame holds a closed done channel — by
    `root_done_after_event`: after a cancelled evaluation and before the next evaluation (F10-3) -/
def Dom (evs : List Ev) : Bool := DomFrom Generated.C10.facts HSt.init evs

/-- when the root frame holds a closed done channel: exactly after a cancelled evaluation whose `Execute` had started
    when `stop()` ran, until the next evaluation (a direct call by the host changes nothing) -/
theorem root_done_after_event (evs : List Ev) (ev : Ev) :
    (runHist Generated.C10.facts HSt.init (evs ++ [ev])).rdone =
      match ev with
      | .define _ _ _ _ => false
      | .use _ .host _ => (runHist Generated.C10.facts HSt.init evs).rdone
      | .use _ _ _ => false
      | .cancelled .expiredBefore => false
      | .cancelled _ => true := by
  have happ : runHist Generated.C10.facts HSt.init (evs ++ [ev]) =
      stepH Generated.C10.facts (runHist Generated.C10.facts HSt.init evs) ev := by
    simp [runHist, List.foldl_append]
  rw [happ, runidfacts_tie]
  exact rdone_after _ ev (synced_run evs HSt.init ⟨rfl, rfl⟩)

/-- **Definitions survive** (partial: `Dom`, the F10-3 clause only). For every history — definitions of every kind
    (named functions, methods, closures stored in variables, method values bound at top level or inside functions,
    function values handed to the host, functions of packages imported after cancellations), with or without
    channel operations in their bodies, made at any point; uses through `Eval`, `EvalWithContext` and direct calls
    by the host; cancelled evaluations of every kind anywhere and in any number — in which the host does not call a
    channel-using function value right after a cancelled evaluation: every use returns exactly what it returns
    when the cancelled evaluations are left out (`runSpec` ignores them), state carried between calls included. -/
theorem definitions_survive_partial (evs : List Ev) (hd : Dom evs = true) :
    (runHist Generated.C10.facts HSt.init evs).results = (runSpec HSt.init evs).results := by
  revert hd
  unfold Dom
  rw [runidfacts_tie]
  intro hd
  have := full_run evs HSt.init ⟨rfl, rfl⟩ (fun d hd => by cases hd) hd
  have h2 : (erase (runHist Expected.C10.facts HSt.init evs)).results = (runSpec (erase HSt.init) evs).results := by rw [this]
  simpa [erase, HSt.init] using h2

/-- **Definitions survive, full strength for bodies without channel operations**: every history whose definitions
    do not block on channels — closures, method values and function values handed to the host included, called from
    the script and by the host, after any number of cancelled evaluations. This is the statement the round-1 theorem
    had to restrict to named functions, methods and top-level method values used through `Eval` (F10). -/
theorem definitions_survive_without_channels (evs : List Ev) (hn : noBlk evs = true) :
    (runHist Generated.C10.facts HSt.init evs).results = (runSpec HSt.init evs).results :=
  definitions_survive_partial evs (noBlk_dom _ evs HSt.init hn (fun d hd => by cases hd))

/-- non-vacuity: a history with every kind of definition, used through `Eval` and by the host, with four cancelled
    evaluations of every kind in between, and a package imported after two of them -/
def exHist : List Ev :=
  [.define .named 3 1 true, .define .closure 5 2 false, .define .hostWrapper 2 5 true, .define .methodValueInFunc 7 1 false,
   .use 1 .eval 4, .use 2 .host 1, .cancelled .busyLoop, .use 1 .evalCtx 4, .use 1 .host 4, .use 2 .host 1, .use 3 .eval 1,
   .cancelled .expiredBefore, .define .imported 2 9 false, .use 4 .eval 3, .cancelled .blockedChan, .cancelled .expiredAfter,
   .use 1 .host 0, .use 0 .eval 0, .use 3 .eval 1, .use 2 .host 1, .use 4 .evalCtx 1]
example : Dom exHist = true ∧ (runHist Generated.C10.facts HSt.init exHist).results = (runSpec HSt.init exHist).results ∧
    (runHist Generated.C10.facts HSt.init exHist).results = [13, 10, 10, 2, 6, 16, 9, 9, 25, 24, 8, 23] ∧
    (runHist Generated.C10.facts HSt.init exHist).id = 4 := by decide

/-- F10 repaired (4a41b28), the replay of the finding: a closure and a function value held by the host, used before
    and after a cancelled evaluation, from the script and from the host -/
def f10Hist : List Ev :=
  [.define .closure 5 2 false, .define .hostWrapper 3 1 false, .use 0 .eval 4, .use 1 .host 4, .cancelled .busyLoop,
   .use 1 .host 4, .use 0 .eval 4, .use 1 .host 4]
theorem closure_and_wrapper_survive_cancel :
    (runHist Generated.C10.facts HSt.init f10Hist).results = [16, 24, 15, 14, 23] ∧
    (runSpec HSt.init f10Hist).results = [16, 24, 15, 14, 23] := by decide

/-! ### what `Dom` excludes (F10-3) -/

/-- F10-3: a function held by the host whose body receives its value over a channel, called by the host right after a
    cancelled evaluation: the receive is "cancelled" at once (the root frame still holds the done channel `stop()`
    closed): it returns the zero value, twice, though its body has run up to the receive (the call counter moves);
    after any evaluation it works again. Go returns 14, 15, 16, 17. -/
theorem host_call_chanop_after_cancel_witness :
    let evs := [Ev.define .hostWrapper 3 1 true, .use 0 .host 4, .cancelled .busyLoop, .use 0 .host 4, .use 0 .host 4,
                .use 0 .eval 4, .use 0 .host 4]
    Dom evs = false ∧
    (runHist Generated.C10.facts HSt.init evs).results = [18, 17, 0, 0, 14] ∧
    (runSpec HSt.init evs).results = [18, 17, 16, 15, 14] := by
  decide

/-- the full-strength statement is false for the interpreter as it is (F10-3) -/
theorem full_statement_false : ¬ C10_full_statement Generated.C10.facts := by
  intro h
  have := h [Ev.define .hostWrapper 3 1 true, .cancelled .busyLoop, .use 0 .host 4]
  revert this
  decide

/-! ### what remains: the window between the return of the `…WithContext` call and the return of its `Execute` -/

/-- An event of a history is a complete evaluation. Between the moment the watcher has run `stop()` (the
    `…WithContext` call returns the context's error) and the moment the cancelled `Execute` itself returns (its own
    goroutine: the deferred refresh), the root frame is stale: a direct call by the host made in that window gets a
    stale frame for EVERY definition, runs nothing and returns zero values. Outside the quantifier of
    `definitions_survive`; the assumption is listed in props/C10.json and the window is finding F10-1. -/
theorem host_call_in_window_fails (evs : List Ev) (d : Def)
    (hd : d ∈ (runHist Generated.C10.facts HSt.init evs).defs) :
    alive Generated.C10.facts ((runHist Generated.C10.facts HSt.init evs).stoppedNotLeft Generated.C10.facts) d = false := by
  revert hd
  rw [runidfacts_tie]
  intro hd
  have hf := fvBound_run Expected.C10.facts evs HSt.init (fun d hd => by cases hd)
  cases hb : d.binding with
  | callee => simp [alive, useFrameId, hb, guardOk, newId, HSt.stoppedNotLeft, HSt.enter, HSt.stop, HSt.refresh, Expected.C10.facts, Expected.C09.facts]
  | root => simp [alive, useFrameId, hb, guardOk, newId, HSt.stoppedNotLeft, HSt.enter, HSt.stop, HSt.refresh, Expected.C10.facts, Expected.C09.facts]
  | fixed s c =>
    cases s with
    | call => exact absurd hb (hf d hd c)
    | _ => simp [alive, useFrameId, hb, guardOk, newId, RunIdFacts.site, HSt.stoppedNotLeft, HSt.enter, HSt.stop, HSt.refresh, Expected.C10.facts, Expected.C09.facts]

/-- histories without a held evaluation are the histories of `definitions_survive` -/
theorem runX_of_events (F : RunIdFacts) (evs : List Ev) : runX F (evs.map .ev) = runHist F HSt.init evs := by
  have key : ∀ (h : HSt), (evs.map XEv.ev).foldl (stepX F) (h, false) = (evs.foldl (stepH F) h, false) := by
    induction evs with
    | nil => intro h; rfl
    | cons e es ih => intro h; simp only [List.map_cons, List.foldl_cons, stepX, settle]; exact ih _
  simp [runX, key, settle, runHist]

/-- F10-1 (open): a function value handed to the host is called while the cancelled `Execute` has not returned yet:
    it returns the zero value (and its state does not move); once that `Execute` has returned the same call works.
    Go returns 14, 15, 16. -/
theorem host_call_before_execute_returned_witness :
    let evs := [XEv.ev (.define .hostWrapper 3 1 false), .ev (.use 0 .host 4), .hold, .ev (.use 0 .host 4), .ev (.use 0 .host 4)]
    (runX Generated.C10.facts evs).results = [15, 0, 14] ∧
    (runSpec HSt.init (XEv.plain evs)).results = [16, 15, 14] := by
  decide

/-- F10-1, second form: the context expires at the moment the evaluation finishes — `Execute` has returned when the
    watcher runs `stop()`; the call returns the context's error and the root frame stays stale until the next
    evaluation: direct host calls return the zero value until then. Go returns 14, 15, 16, 17. -/
theorem host_call_after_late_stop_witness :
    let evs := [XEv.ev (.define .hostWrapper 3 1 false), .ev (.use 0 .host 4), .lateStop, .ev (.use 0 .host 4), .ev (.use 0 .host 4),
                .ev (.use 0 .eval 4), .ev (.use 0 .host 4)]
    (runX Generated.C10.facts evs).results = [16, 15, 0, 0, 14] ∧
    (runSpec HSt.init (XEv.plain evs)).results = [18, 17, 16, 15, 14] := by
  decide

/-- what a `…WithContext` call that stops the interpreter WITHOUT running an `Execute` would do (the unchanged source
    always calls `Eval`; seeded/C10-3 skips it under an expired context): the root frame is left stale, every direct
    host call returns the zero value until the next evaluation. The correspondence harness reports such an event
    (`expn`) under a class of its own, which is not listed: a VIOLATION. -/
theorem host_call_after_stop_without_execute_witness :
    let evs := [XEv.ev (.define .hostWrapper 3 1 false), .ev (.define .closure 2 2 false), .stopOnly, .ev (.use 0 .host 4),
                .ev (.use 1 .host 4), .ev (.use 1 .eval 4), .ev (.use 0 .host 4)]
    (runX Generated.C10.facts evs).results = [14, 11, 0, 0] ∧
    (runSpec HSt.init (XEv.plain evs)).results = [15, 12, 11, 14] := by
  decide

/-! ### before the repairs (statements about the old facts) -/

/-- F10, closures: with the facts of the tree before 4a41b28 a closure stored in a variable works before the
    cancelled evaluation and returns the zero value afterwards, again and again (its call counter does not move
    either); Go returns 23, 24, 25 -/
theorem closure_dead_after_cancel_witness_old :
    let evs := [Ev.define .closure 5 2 false, .use 0 .eval 4, .cancelled .busyLoop, .use 0 .eval 4, .define .named 1 1 false,
                .use 1 .eval 1, .use 0 .eval 4, .use 0 .host 4]
    (runHist Expected.C10.oldFacts HSt.init evs).results = [0, 0, 3, 0, 23] ∧
    (runSpec HSt.init evs).results = [26, 25, 3, 24, 23] ∧
    (runHist Generated.C10.facts HSt.init evs).results = [26, 25, 3, 24, 23] := by
  decide

/-- F10, exported wrappers, old facts: a function value handed to the host returns the zero value when called
    directly after the cancelled evaluation, and works again once any later evaluation has been executed -/
theorem wrapper_dead_until_next_execute_witness_old :
    let evs := [Ev.define .hostWrapper 3 1 false, .define .named 1 1 false, .use 0 .host 4, .cancelled .blockedChan, .use 0 .host 4,
                .use 0 .host 4, .use 1 .eval 1, .use 0 .host 4]
    (runHist Expected.C10.oldFacts HSt.init evs).results = [15, 3, 0, 0, 14] ∧
    (runSpec HSt.init evs).results = [17, 3, 16, 15, 14] ∧
    (runHist Generated.C10.facts HSt.init evs).results = [17, 3, 16, 15, 14] := by
  decide

/-- 2667a11, old facts: the variables of a package imported right after a cancelled evaluation are not initialised
    (its function computes `x*a + 0 + calls` instead of `x*a + b + calls`) -/
theorem import_after_cancel_witness_old :
    let evs := [Ev.define .named 1 1 false, .cancelled .busyLoop, .define .imported 2 9 false, .use 1 .eval 3, .use 0 .eval 1]
    (runHist Expected.C10.oldFacts HSt.init evs).results = [3, 7] ∧
    (runSpec HSt.init evs).results = [3, 16] ∧
    (runHist Generated.C10.facts HSt.init evs).results = [3, 16] := by
  decide

/-- the full-strength statement was false for the interpreter before the repairs -/
theorem full_statement_false_old : ¬ C10_full_statement Expected.C10.oldFacts := by
  intro h
  have := h [Ev.define .closure 5 2 false, .cancelled .busyLoop, .use 0 .eval 4]
  revert this
  decide

/-- old facts: a frame id captured before a cancellation never became current again — a closure (or a method value
    made inside a function) whose captured id was behind the interpreter's id was dead for ever: the ids only grow -/
theorem fixed_binding_dead_for_ever_old (evs : List Ev) (h : HSt) (s : Site) (c : Nat) (d : Def)
    (hb : d.binding = .fixed s c) (hc : c < h.id) :
    alive Expected.C10.oldFacts (runHist Expected.C10.oldFacts h evs) d = false ∧
    alive Expected.C10.oldFacts ((runHist Expected.C10.oldFacts h evs).refresh Expected.C10.oldFacts) d = false := by
  have hmono : h.id ≤ (runHist Expected.C10.oldFacts h evs).id := by
    induction evs generalizing h with
    | nil => exact Nat.le_refl _
    | cons e es ih =>
      have h1 := id_monotone Expected.C10.oldFacts h e
      have h2 := ih (stepH Expected.C10.oldFacts h e) (by omega)
      simp only [runHist, List.foldl_cons] at h2 ⊢
      omega
  have hs : Expected.C10.oldFacts.site s = .parent := by cases s <;> rfl
  have hg : Expected.C10.oldFacts.guardPlain = true := rfl
  constructor <;> simp [alive, useFrameId, hb, hs, newId, guardOk, hg, HSt.refresh] <;> omega

end YaegiVerif.Props.C10
