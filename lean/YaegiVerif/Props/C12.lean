import YaegiVerif.Proofs.C12Agree
import YaegiVerif.Proofs.C12Rules
import YaegiVerif.Expected.C12
import YaegiVerif.Generated.C12
/-
  C12 — ill-typed programs are rejected before anything runs. Property theorems.

  * table theorems: the operator tables regenerated from typecheck.go / type.go decide exactly what
    the Go specification defines (`oppred_correct`), and the one place where the tables are dead code
    (`land_lor_entries_dead`);
  * pipeline theorems: over the statement list of `eval` and the call graph regenerated from interp.go /
    program.go, a failing compilation returns an error and nothing of the program executes
    (`no_exec_on_error`), through every entry point (`entry_points_guarded`);
  * typing theorems: for every program of the fragment inside the decidable domain `Dom`, yaegi's checks
    and the Go rules give the same verdict (`typing_agree`), hence `rejects_illtyped_partial`,
    `accepts_welltyped_partial`, `compile_never_panics_partial`; each class excluded by `Dom` has a
    witness program on which the full-strength statement fails.
-/
namespace YaegiVerif.Props.C12
open YaegiVerif YaegiVerif.Typecheck

/-! ### ties -/

/-- the operator tables, kind predicates and bitlen extracted from /repo are the ones the proofs use -/
theorem opfacts_tie : Generated.C12.opFacts = Expected.C12.opFacts := by decide

/-- call sites of the checker, guards and comparison operators of the count tests -/
theorem tcfacts_tie : Generated.C12.tcFacts = Expected.C12.tcFacts := by decide

/-- statement list of `eval` / `compileSrc`, callers of `Execute`, call graph of the entry points -/
theorem pipeline_tie : Generated.C12.pipeline = Expected.C12.pipeline := by decide

/-- the functions and cfg.go clauses transcribed in Model/Typecheck.lean are textually (modulo comments and
    layout) the ones the model was written from -/
theorem source_tie : Generated.C12.sourceHashes = Expected.C12.sourceHashes := by decide

/-! ### operator tables -/

theorem oppred_expected (op : Op) (k : Kind) : predY Expected.C12.opFacts op k = Spec.definedOn op k := by
  cases op <;> cases k <;> rfl

/-- **the tables are right**: for every operator that goes through `unaryOpPredicates` /
    `binaryOpPredicates` and every reflect kind, the table regenerated from the source accepts the
    kind exactly when the Go specification defines the operator on it -/
theorem oppred_correct (op : Op) (k : Kind) : predY Generated.C12.opFacts op k = Spec.definedOn op k := by
  rw [opfacts_tie]; exact oppred_expected op k

/-- the kind predicates of type.go, through the regenerated facts, are the kind classes of the specification -/
theorem pred_classes (k : Kind) :
    predOk Generated.C12.opFacts .isNumber k = k.isNumeric ∧
    predOk Generated.C12.opFacts .isInt k = k.isInteger ∧
    predOk Generated.C12.opFacts .isFloat k = k.isFloat ∧
    predOk Generated.C12.opFacts .isString k = (k == .string) ∧
    predOk Generated.C12.opFacts .isBoolean k = (k == .bool) := by
  rw [opfacts_tie]; cases k <;> decide

/-- …but the `aLand` / `aLor` entries are never consulted: cfg.go's `landExpr` / `lorExpr` cases call no
    method of the checker, so `1 && "a"`-like operands are accepted (witness: two `int` operands) -/
theorem land_lor_entries_dead :
    Generated.C12.tcFacts.landLorChecked = false ∧
    ∀ t : STy, (binY Generated.C12.tcFacts .land none ⟨.s t, .none⟩ ⟨.s t, .none⟩).verdict = .ok := by
  rw [tcfacts_tie]
  exact ⟨rfl, fun t => rfl⟩

/-! ### pipeline -/

/-- **nothing runs when compilation fails**: for every source text whose compilation fails, `eval`
    returns an error, never enters `Execute`, and the only observable effects are those of the
    compilation itself (none for a program that imports no source package) -/
theorem no_exec_on_error (noRun : Bool) (src : Src) (h : src.compileFails = true) :
    let o := evalY Generated.C12.pipeline noRun src
    o.err = true ∧ o.executed = false ∧ o.effects = src.compileEffects ∧ o.known = true := by
  rw [pipeline_tie]
  simp [evalY, Expected.C12.pipeline, runSteps, h]

/-- corollary in the words of the property: compile fails ⇒ output empty ∧ no init run ∧ no global state change
    (all three are the program's `runEffects`), when compilation itself has no effects -/
theorem no_exec_on_error_no_imports (noRun : Bool) (src : Src) (h : src.compileFails = true)
    (hi : src.compileEffects = []) : (evalY Generated.C12.pipeline noRun src).effects = [] := by
  rw [(no_exec_on_error noRun src h).2.2.1, hi]

/-- non-vacuity: a program that compiles is executed (its effects appear), unless `noRun` is set -/
theorem exec_on_success (src : Src) (h : src.compileFails = false) :
    let o := evalY Generated.C12.pipeline false src
    o.err = false ∧ o.executed = true ∧ o.effects = src.compileEffects ++ src.runEffects := by
  rw [pipeline_tie]
  simp [evalY, Expected.C12.pipeline, runSteps, h]

/-- every exported evaluation entry point reaches `Execute` only through `eval` (whose call is guarded,
    above); `Execute`'s other caller is `ExecuteWithContext`, which takes an already compiled program -/
theorem entry_points_guarded :
    Generated.C12.pipeline.executeCallers = ["ExecuteWithContext", "eval"] ∧
    lookup "Eval" Generated.C12.pipeline.calls = some ["eval"] ∧
    lookup "EvalPath" Generated.C12.pipeline.calls = some ["eval", "importSrc"] ∧
    lookup "EvalWithContext" Generated.C12.pipeline.calls = some ["Eval"] ∧
    lookup "EvalPathWithContext" Generated.C12.pipeline.calls = some ["EvalPath"] ∧
    lookup "Compile" Generated.C12.pipeline.calls = some ["compileSrc"] ∧
    Generated.C12.pipeline.compileSrcBody = [.assignErrCall "parse", .ifErrReturn, .returnCall "CompileAST"] := by
  rw [pipeline_tie]; decide

/-- the compiler itself runs code: `importSrc` (reached from `CompileAST` through the global type analysis)
    calls the execution loop, so the initialisation of an imported *source* package is a compile-time effect
    of the importer. The full-strength statement "compile fails ⇒ no effect at all" is false -/
theorem compile_runs_imports_witness :
    "importSrc" ∈ Generated.C12.pipeline.compileRunCallers ∧
    ∃ src : Src, src.compileFails = true ∧ (evalY Generated.C12.pipeline false src).effects ≠ [] := by
  rw [pipeline_tie]
  exact ⟨by decide, ⟨⟨true, [7], [1]⟩, rfl, by decide⟩⟩

/-! ### typing -/

/-- yaegi's verdict on a program of the fragment, for the facts regenerated from the source -/
def verdictY (p : Prog) : Verdict := (checkProg (rulesY Generated.C12.tcFacts) p).verdict
/-- the Go specification's verdict -/
def verdictG (p : Prog) : Verdict := (checkProg Spec.rulesG p).verdict
/-- the decidable domain: no check site of the program belongs to a class on which the unchanged
    interpreter differs from the specification (classes: `Lax`) -/
def DomP (p : Prog) : Bool := Dom Generated.C12.tcFacts p

/-- inside the domain the two traversals return the same result -/
theorem typing_agree (p : Prog) (h : DomP p = true) : verdictY p = verdictG p := by
  unfold verdictY verdictG
  rw [agree Generated.C12.tcFacts p h]

/-- full-strength statements (false on the unchanged tree, see the witnesses) -/
def RejectsIlltyped : Prop := ∀ p : Prog, verdictG p = .err → verdictY p = .err
def AcceptsWelltyped : Prop := ∀ p : Prog, verdictG p = .ok → verdictY p = .ok
def CompileNeverPanics : Prop := ∀ p : Prog, verdictY p ≠ .crash

/-- **ill-typed programs are rejected**: every program of the fragment (all expressions and statements,
    any nesting) that the Go rules reject and whose check sites are outside the listed classes is
    rejected by yaegi's checks with an error -/
theorem rejects_illtyped_partial (p : Prog) (hd : DomP p = true) (h : verdictG p = .err) : verdictY p = .err := by
  rw [typing_agree p hd]; exact h

/-- **no false rejection**: a program of the fragment the Go rules accept is accepted -/
theorem accepts_welltyped_partial (p : Prog) (hd : DomP p = true) (h : verdictG p = .ok) : verdictY p = .ok := by
  rw [typing_agree p hd]; exact h

/-- the Go rules never produce a panic … -/
theorem spec_never_crashes_site {α : Type} (r : Res α) (h : r.verdict = .crash) : r = .crash := by
  cases r <;> simp [Res.verdict] at h ⊢

/-- **the compiler does not panic** on programs inside the domain whose Go verdict is ok or err -/
theorem compile_never_panics_partial (p : Prog) (hd : DomP p = true) (h : verdictG p ≠ .crash) : verdictY p ≠ .crash := by
  rw [typing_agree p hd]; exact h

/-! #### witnesses: each excluded class is a real difference -/

private def body (ss : List Stmt) : Block := ss.foldr Block.cons .nil
private def main (ss : List Stmt) : Prog := ⟨[], body ss⟩
private def tInt : Ty := .s (.basic .int)
private def tStr : Ty := .s (.basic .string)
private def tN0 : Ty := .s (.named ⟨0, .int, [0]⟩)

/-- F11 (repaired by 3004c84): `for 1 {}` — the condition test records the error and leaves the clause; before the repair
    `cond.rval.Bool()` ran on the constant and panicked. Regression examples: rejected with an error, in the domain. -/
def progConstCond : Prog := main [.forS (.lit .int 1 false) .nil]
theorem const_cond_panic_witness : verdictY progConstCond = .err ∧ verdictG progConstCond = .err ∧ DomP progConstCond = true := by
  unfold verdictY DomP; rw [tcfacts_tie]; decide
/-- `if "a" {}` -/
def progConstCondIf : Prog := main [.ifS (.lit .string 0 false) .nil .nil]
theorem const_cond_if_panic_witness : verdictY progConstCondIf = .err ∧ verdictG progConstCondIf = .err ∧ DomP progConstCondIf = true := by
  unfold verdictY DomP; rw [tcfacts_tie]; decide
/-- the historical behaviour: with the fact `condBoolGuarded := false` the same program is a Go panic -/
theorem const_cond_unguarded_panics :
    (checkProg (rulesY { Expected.C12.tcFacts with condBoolGuarded := false }) progConstCond).verdict = .crash := by decide
/-- the condition test is exact for every operand but `nil` (hypothesis on go/constant operands: see `cond_agree`) -/
theorem cond_correct (x : Opnd) (hn : x.ty ≠ .nil)
    (hcb : ∀ c, x.rv = .const c → Spec.kindIsG (· == .bool) x.ty = false) :
    condY Generated.C12.tcFacts x = Spec.condG x := by
  rw [tcfacts_tie]; exact cond_agree x hn hcb

/-- `var x I3; v, ok := x.(S0)` with `I3 = interface{ M0(); m8() }` and `S0` having only `M0`: an impossible
    assertion whose missing method is not exported. Rejected by both sides, inside the domain; with the skip test
    of typeAssertionExpr turned into `||` (the seeded change of seeded/C12) the model accepts it. -/
def tI3 : Ty := .iface 3 [0, 8]
def tS0 : Ty := .struct 0 [.basic .int, .basic .string] [0]
def progAssertUnexported : Prog := main [.declz tI3, .defineOk tS0 (.var 0)]
theorem assert_missing_unexported_rejected :
    verdictY progAssertUnexported = .err ∧ verdictG progAssertUnexported = .err ∧ DomP progAssertUnexported = true := by
  unfold verdictY DomP; rw [tcfacts_tie]; decide
theorem assert_skip_or_accepts :
    (checkProg (rulesY { Expected.C12.tcFacts with assertSkipMissing := .orBin }) progAssertUnexported).verdict = .ok := by decide
/-- well-typed assertions: to an interface type (`x.(I1)`), from `interface{}` (`e.(S0)`), to a concrete type
    that has every method of the interface (`x.(S3)`, `S3` having `M0` and `m8`): accepted by both sides -/
def progAssertOk : Prog := main [.declz tI3, .declz (.iface 0 []), .define (.assert (.iface 1 [0]) (.var 0)),
  .define (.assert tS0 (.var 1)), .define (.assert (.struct 3 [.basic .int] [0, 8]) (.var 0))]
theorem assert_welltyped_accepted : verdictY progAssertOk = .ok ∧ verdictG progAssertOk = .ok := by
  unfold verdictY; rw [tcfacts_tie]; decide

/-- `var a int; x := a && a` -/
def progLand : Prog := main [.declz tInt, .define (.bin .land (.var 0) (.var 0))]
theorem logical_operands_witness : verdictY progLand = .ok ∧ verdictG progLand = .err ∧ DomP progLand = false := by
  unfold verdictY DomP; rw [tcfacts_tie]; decide
theorem rejects_illtyped_witness : ¬ RejectsIlltyped := fun h => by
  have := h progLand logical_operands_witness.2.1
  rw [logical_operands_witness.1] at this
  cases this

/-- F03 (repaired in the tree the facts are read from: `representableConst` now tests the exact signed
    range): `var x int8 = 200` is rejected, and inside the domain … -/
def progBitLen : Prog := main [.decl (.s (.basic .int8)) (.lit .int 200 false)]
theorem bitlen_fixed : verdictY progBitLen = .err ∧ verdictG progBitLen = .err ∧ DomP progBitLen = true := by
  unfold verdictY DomP; rw [tcfacts_tie]; decide
/-- … whereas the model run with the bit-length reading of the signed arm (the fact the extractor emits
    for the tree before the repair) accepts it: the historical witness of F03 -/
theorem bitlen_witness :
    (checkProg (rulesY { Expected.C12.tcFacts with ops := { Expected.C12.opFacts with signedRepr := .bitLen } }) progBitLen).verdict = .ok := by
  decide

/-- `type N0 int; var a N0; var b int = a` — same reflect.Type -/
def progSameReflect : Prog := main [.declz tN0, .decl tInt (.var 0)]
theorem same_reflect_type_witness : verdictY progSameReflect = .ok ∧ verdictG progSameReflect = .err ∧ DomP progSameReflect = false := by
  unfold verdictY DomP; rw [tcfacts_tie]; decide

/-- `var a int; var s string; s = a - a` — the operator node takes the destination type -/
def progPropagated : Prog := main [.declz tInt, .declz tStr, .assign 1 (.bin .sub (.var 0) (.var 0))]
theorem propagation_witness : verdictY progPropagated = .ok ∧ verdictG progPropagated = .err ∧ DomP progPropagated = false := by
  unfold verdictY DomP; rw [tcfacts_tie]; decide

/-- `var c chan int; c <- "s"` -/
def progSend : Prog := main [.declz (.chan .both (.basic .int)), .send (.var 0) (.lit .string 0 false)]
theorem send_unchecked_witness : verdictY progSend = .ok ∧ verdictG progSend = .err ∧ DomP progSend = false := by
  unfold verdictY DomP; rw [tcfacts_tie]; decide

/-- `var e interface{}; var i int = e` -/
def progIface : Prog := main [.declz (.iface 0 []), .decl tInt (.var 0)]
theorem interface_to_concrete_witness : verdictY progIface = .ok ∧ verdictG progIface = .err ∧ DomP progIface = false := by
  unfold verdictY DomP; rw [tcfacts_tie]; decide

/-- `var a int; x := a[0]` — Go panic ("nil type") -/
def progIndex : Prog := main [.declz tInt, .define (.index (.var 0) (.lit .int 0 false))]
theorem index_non_indexable_witness : verdictY progIndex = .crash ∧ verdictG progIndex = .err := by
  unfold verdictY; rw [tcfacts_tie]; decide
theorem compile_never_panics_witness : ¬ CompileNeverPanics := fun h => h progIndex index_non_indexable_witness.1

/-- `var a int; var b int = nil` and `x := true + a` -/
def progNil : Prog := main [.decl tInt .nil]
def progBoolLit : Prog := main [.declz tInt, .define (.bin .add (.lit .bool 1 false) (.var 0))]
theorem nil_and_boolean_literal_witness :
    verdictY progNil = .ok ∧ verdictG progNil = .err ∧ verdictY progBoolLit = .ok ∧ verdictG progBoolLit = .err := by
  unfold verdictY; rw [tcfacts_tie]; decide

/-- `func f() int8 { return 300 }` — no representability check in a return -/
def progReturnConst : Prog := ⟨[⟨⟨[], [.basic .int8]⟩, body [.ret (.cons (.lit .int 300 false) .nil)]⟩], .nil⟩
theorem return_constant_witness : verdictY progReturnConst = .ok ∧ verdictG progReturnConst = .err := by
  unfold verdictY; rw [tcfacts_tie]; decide

/-- a typed constant zero divisor is not seen by `zeroConst` (only untyped ones are): `a / int(0)` -/
def progTypedZero : Prog := main [.declz tInt, .define (.bin .quo (.var 0) (.conv tInt (.lit .int 0 false)))]
theorem typed_zero_divisor_witness : verdictY progTypedZero = .ok ∧ verdictG progTypedZero = .err := by
  unfold verdictY; rw [tcfacts_tie]; decide

/-- false rejections: `var f float64; x := f / 0` and `var a chan int; var b <-chan int; x := a == b` are valid Go -/
def progFloatZero : Prog := main [.declz (.s (.basic .float64)), .define (.bin .quo (.var 0) (.lit .int 0 false))]
def progChanCmp : Prog := main [.declz (.chan .both (.basic .int)), .declz (.chan .recv (.basic .int)), .define (.cmp .eq (.var 0) (.var 1))]
theorem accepts_welltyped_witness :
    verdictG progFloatZero = .ok ∧ verdictY progFloatZero = .err ∧ verdictG progChanCmp = .ok ∧ verdictY progChanCmp = .err := by
  unfold verdictY; rw [tcfacts_tie]; decide
/-- `var c chan int; var e interface{} = <-c; e = "s"` is valid Go; the declaration retypes `e` to `int`
    ("assign by reading from a receiving channel": `dest.typ = src.typ`), so the assignment is rejected -/
def progRecvRetype : Prog := main [.declz (.chan .both (.basic .int)), .decl (.iface 0 []) (.recv (.var 0)),
  .assign 1 (.lit .string 0 false)]
theorem receive_retypes_witness : verdictG progRecvRetype = .ok ∧ verdictY progRecvRetype = .err ∧ DomP progRecvRetype = false := by
  unfold verdictY DomP; rw [tcfacts_tie]; decide
theorem accepts_welltyped_full_false : ¬ AcceptsWelltyped := fun h => by
  have := h progFloatZero accepts_welltyped_witness.1
  rw [accepts_welltyped_witness.2.1] at this
  cases this

/-! #### non-vacuity: non-trivial programs inside the domain -/

/-- `func f(a int, b string) int { if a < 3 { return a }; return a * 2 }` called with a mismatched argument:
    in the domain, ill-typed, rejected -/
private def fSig : Sig := ⟨[.basic .int, .basic .string], [.basic .int]⟩
private def fBody : Block := body [
  .ifS (.cmp .lt (.var 0) (.lit .int 3 false)) (body [.ret (.cons (.var 0) .nil)]) .nil,
  .ret (.cons (.bin .mul (.var 0) (.lit .int 2 false)) .nil)]
def progGood : Prog := ⟨[⟨fSig, fBody⟩],
  body [.declz tInt, .declz tStr, .define (.call 0 (.cons (.var 0) (.cons (.var 1) .nil))),
        .forS (.cmp .ne (.var 2) (.var 0)) (body [.incdec 2, .opassign .add 1 (.lit .string 0 false)])]⟩
def progBadArg : Prog := ⟨[⟨fSig, fBody⟩],
  body [.declz tInt, .declz tStr, .define (.call 0 (.cons (.var 1) (.cons (.var 1) .nil)))]⟩
example : DomP progGood = true ∧ verdictG progGood = .ok ∧ verdictY progGood = .ok := by
  unfold verdictY DomP; rw [tcfacts_tie]; decide
example : DomP progBadArg = true ∧ verdictG progBadArg = .err ∧ verdictY progBadArg = .err := by
  unfold verdictY DomP; rw [tcfacts_tie]; decide

/-! #### what the domain does NOT exclude (syntactic characterisations, Proofs/C12Rules.lean) -/

/-- a typed non-constant value against a destination type: the assignment check of typecheck.go agrees with
    Go's assignability unless the value is of interface type and the destination is not, or the two types are
    different Go types with the same reflect.Type (modulo channel direction) -/
theorem assignment_typed_correct (x : Opnd) (t : Ty) (hx : x.rv = .none) (hxt : x.ty.isUntyped = false)
    (ht : t.isUntyped = false)
    (h1 : (x.ty.isIface && !t.isIface) = false) (h2 : reflectCollision x.ty t = false) :
    assignmentY Generated.C12.opFacts x t = (if Spec.assignableG x t then .ok () else .err) := by
  rw [opfacts_tie]; exact assignment_typed_agree x t hx hxt ht h1 h2

/-- unary operators, `++`/`--` and conditions on typed non-constant operands are always decided as the specification says -/
theorem unary_typed_correct (op : UnOp) (x : Opnd) (hx : x.rv = .none) (hxt : x.ty.isUntyped = false) :
    unY Generated.C12.tcFacts op x = Spec.unG op x := by
  rw [tcfacts_tie]; exact un_typed_agree op x hx hxt
theorem incdec_correct (t : Ty) (ht : t.isUntyped = false) : incdecY Generated.C12.tcFacts t = Spec.incdecG t := by
  rw [tcfacts_tie]; exact incdec_agree t ht
theorem cond_typed_correct (x : Opnd) (hx : x.rv = .none) (hxt : x.ty.isUntyped = false) :
    condY Generated.C12.tcFacts x = Spec.condG x := by
  rw [tcfacts_tie]; exact cond_typed_agree x hx hxt
/-- type assertions `x.(T)` / `v, ok := x.(T)`: for every operand but `nil` and every asserted type of the
    fragment, typeAssertionExpr accepts exactly the assertions the specification allows -/
theorem assert_correct (typ : Ty) (x : Opnd) (hn : x.ty ≠ .nil) :
    assertY Generated.C12.tcFacts typ x = Spec.assertG typ x := by
  rw [tcfacts_tie]; exact assert_agree typ x hn
theorem recv_typed_correct (x : Opnd) (hxt : x.ty.isUntyped = false) : recvY Generated.C12.tcFacts x = Spec.recvG x := by
  exact recv_typed_agree _ x hxt

/-- arithmetic operators on typed non-constant operands of non-interface types (outside a propagation zone),
    shifts and index expressions on typed non-constant operands: always decided as the specification says -/
theorem arith_typed_correct (op : BinOp) (x y : Opnd) (hop : op.propagates = true)
    (hx : x.rv = .none) (hy : y.rv = .none) (hxt : x.ty.isUntyped = false) (hyt : y.ty.isUntyped = false)
    (hxi : x.ty.isIface = false) (hyi : y.ty.isIface = false) :
    binY Generated.C12.tcFacts op none x y = Spec.binG op none x y := by
  rw [tcfacts_tie]; exact arith_typed_agree op x y hop hx hy hxt hyt hxi hyi
theorem shift_typed_correct (op : ShOp) (x y : Opnd) (hx : x.rv = .none) (hy : y.rv = .none)
    (hxt : x.ty.isUntyped = false) (hyt : y.ty.isUntyped = false) :
    shiftY Generated.C12.tcFacts op x y = Spec.shiftG op x y := by
  rw [tcfacts_tie]; exact shift_typed_agree op x y hx hy hxt hyt
theorem index_typed_correct (a i : Opnd) (ha : a.rv = .none) (hi : i.rv = .none) (hit : i.ty.isUntyped = false)
    (hb : (match a.ty with | .slice _ => true | .array _ _ => true | .s t => t.under == .string | _ => false) = true) :
    indexY Generated.C12.tcFacts a i = Spec.indexG a i := by
  rw [tcfacts_tie]; exact index_typed_agree a i ha hi hit hb

/-- comparisons of typed non-constant operands of non-interface types: `typecheck.comparison` decides as the
    specification does unless the two types collide in reflect or are channels of different directions
    (this is the check the mutant "comparison accepts mismatched operands" breaks) -/
theorem comparison_typed_correct (op : CmpOp) (x y : Opnd)
    (hx : x.rv = .none) (hy : y.rv = .none) (hxt : x.ty.isUntyped = false) (hyt : y.ty.isUntyped = false)
    (hxi : x.ty.isIface = false) (hyi : y.ty.isIface = false)
    (h2 : reflectCollision x.ty y.ty = false) (h2' : reflectCollision y.ty x.ty = false)
    (hcd : (Spec.assignableTyG x.ty y.ty || Spec.assignableTyG y.ty x.ty) = true → x.ty = y.ty) :
    cmpY Generated.C12.tcFacts op x y = Spec.cmpG op x y := by
  rw [tcfacts_tie]; exact cmp_typed_agree op x y hx hy hxt hyt hxi hyi h2 h2' hcd

/-- arity of calls: with the comparison operator extracted from `arguments`, a call whose arguments are each
    individually assignable is accepted exactly when the counts match -/
theorem call_arity_correct (params : List STy) (args : List Opnd)
    (h : ∀ p a, assignmentY Generated.C12.opFacts a (.s p) = .ok ()) :
    (callY Generated.C12.tcFacts params args = .ok ()) ↔ args.length = params.length := by
  rw [tcfacts_tie]; exact call_arity_agree params args (by rw [opfacts_tie] at h; exact h)

/-- constants: an integer constant is accepted for a basic integer type exactly when it is in range
    (all values, all integer kinds) -/
theorem representable_int_correct (v : Int) (b : Basic) (hb : b.kind.isInteger = true) :
    representableConstY Generated.C12.opFacts (.int v) b.kind = Spec.representableG (.int v) b := by
  rw [opfacts_tie]; exact representable_int_agree v b hb

/-- the bit-length reading (before the repair of F03) agrees only outside the gap of the narrow signed types -/
theorem representable_int_bitlen_partial (v : Int) (b : Basic) (hb : b.kind.isInteger = true)
    (hg : inBitLenGap b.kind v = false) :
    representableConstY { Expected.C12.opFacts with signedRepr := .bitLen } (.int v) b.kind = Spec.representableG (.int v) b :=
  representable_int_bitlen v b hb hg

end YaegiVerif.Props.C12
