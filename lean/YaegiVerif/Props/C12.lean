import YaegiVerif.Proofs.C12Agree
import YaegiVerif.Proofs.C12Rules
import YaegiVerif.Expected.C12
import YaegiVerif.Generated.C12
/-
  C12 — ill-typed programs are rejected before anything runs. Property theorems.

  * table theorems: the operator tables regenerated from typecheck.go / type.go decide exactly what
    the Go specification defines (`oppred_correct`); since 5877dba the `&&` / `||` entries are consulted
    (`land_lor_entries_used`);
  * pipeline theorems: over the statement list of `eval` and the call graph regenerated from interp.go /
    program.go, a failing compilation returns an error and nothing of the program executes
    (`no_exec_on_error`), through every entry point (`entry_points_guarded`);
  * typing theorems: for every program of the fragment inside the decidable domain `Dom`, yaegi's checks
    and the Go rules give the same verdict (`typing_agree`), hence `rejects_illtyped_partial`,
    `accepts_welltyped_partial`, `compile_never_panics_partial`; each class still excluded by `Dom` has a
    witness program on which the full-strength statement fails; each finding repaired in the third round
    (F12-3, 7, 8, 9, 10, 11 in part, 12) has a regression example inside the domain together with its historical
    verdict under `factsBeforeRound3`, and its rule is proved at full strength (last section).
-/
namespace YaegiVerif.Props.C12
open YaegiVerif YaegiVerif.Typecheck

/-! ### ties -/

/-- the operator tables, kind predicates and bitlen extracted from /repo are the ones the proofs use -/
theorem opfacts_tie : Generated.C12.opFacts = Expected.C12.opFacts := by decide

/-- call sites of the checker, guards and comparison operators of the count tests -/
theorem tcfacts_tie : Generated.C12.tcFacts = Expected.C12.tcFacts := by decide

/-- statement list of `eval` / `compileSrc`, callers of `Execute`, call graph of the entry points -/
theorem pipeline_tie : Generated.C12.pipeline = Expected.C12.pipeline := by decide

/-- the functions and cfg.go clauses transcribed in Model/Typecheck.lean are textually (modulo comments and
    layout) the ones the model was written from -/
theorem source_tie : Generated.C12.sourceHashes = Expected.C12.sourceHashes := by decide

/-! ### operator tables -/

theorem oppred_expected (op : Op) (k : Kind) : predY Expected.C12.opFacts op k = Spec.definedOn op k := by
  cases op <;> cases k <;> rfl

/-- **the tables are right**: for every operator that goes through `unaryOpPredicates` /
    `binaryOpPredicates` and every reflect kind, the table regenerated from the source accepts the
    kind exactly when the Go specification defines the operator on it -/
theorem oppred_correct (op : Op) (k : Kind) : predY Generated.C12.opFacts op k = Spec.definedOn op k := by
  rw [opfacts_tie]; exact oppred_expected op k

/-- the kind predicates of type.go, through the regenerated facts, are the kind classes of the specification -/
theorem pred_classes (k : Kind) :
    predOk Generated.C12.opFacts .isNumber k = k.isNumeric ∧
    predOk Generated.C12.opFacts .isInt k = k.isInteger ∧
    predOk Generated.C12.opFacts .isFloat k = k.isFloat ∧
    predOk Generated.C12.opFacts .isString k = (k == .string) ∧
    predOk Generated.C12.opFacts .isBoolean k = (k == .bool) := by
  rw [opfacts_tie]; cases k <;> decide

/-- …and since 5877dba the `aLand` / `aLor` entries are consulted: cfg.go's `landExpr` / `lorExpr` cases call
    `check.logicalExpr`, so two operands of the same type are accepted exactly when that type is boolean
    (before the repair the entries were dead code: `land_lor_entries_dead_before_repair`) -/
theorem land_lor_entries_used :
    Generated.C12.tcFacts.landLorChecked = true ∧
    ∀ t : STy, (binY Generated.C12.tcFacts .land none ⟨.s t, .none⟩ ⟨.s t, .none⟩).verdict =
      (if t.under == .bool then .ok else .err) := by
  rw [tcfacts_tie]
  refine ⟨rfl, fun t => ?_⟩
  rw [logical_typed_agree .land rfl none _ _ rfl rfl rfl rfl rfl rfl]
  cases t with
  | basic b => cases b <;> rfl
  | named n =>
    obtain ⟨i, u, m⟩ := n
    have hu : (RVal.none == RVal.ubool) = false := by decide
    cases u <;> simp [hu, boolResultRv, Spec.binG, Spec.bothConstantG, Opnd.isConst, Spec.matchG, Spec.untypedLike, Ty.isUntyped, Ty.isNil,
      Spec.underKind, STy.under, Spec.definedOn, BinOp.op, Basic.kind, Res.verdict, Res.bind, bind]

/-! ### pipeline -/

/-- **nothing runs when compilation fails**: for every source text whose compilation fails, `eval`
    returns an error, never enters `Execute`, and the only observable effects are those of the
    compilation itself (none for a program that imports no source package) -/
theorem no_exec_on_error (noRun : Bool) (src : Src) (h : src.compileFails = true) :
    let o := evalY Generated.C12.pipeline noRun src
    o.err = true ∧ o.executed = false ∧ o.effects = src.compileEffects ∧ o.known = true := by
  rw [pipeline_tie]
  simp [evalY, Expected.C12.pipeline, runSteps, h]

/-- corollary in the words of the property: compile fails ⇒ output empty ∧ no init run ∧ no global state change
    (all three are the program's `runEffects`), when compilation itself has no effects -/
theorem no_exec_on_error_no_imports (noRun : Bool) (src : Src) (h : src.compileFails = true)
    (hi : src.compileEffects = []) : (evalY Generated.C12.pipeline noRun src).effects = [] := by
  rw [(no_exec_on_error noRun src h).2.2.1, hi]

/-- non-vacuity: a program that compiles is executed (its effects appear), unless `noRun` is set -/
theorem exec_on_success (src : Src) (h : src.compileFails = false) :
    let o := evalY Generated.C12.pipeline false src
    o.err = false ∧ o.executed = true ∧ o.effects = src.compileEffects ++ src.runEffects := by
  rw [pipeline_tie]
  simp [evalY, Expected.C12.pipeline, runSteps, h]

/-- every exported evaluation entry point reaches `Execute` only through `eval` (whose call is guarded,
    above); `Execute`'s other caller is `ExecuteWithContext`, which takes an already compiled program -/
theorem entry_points_guarded :
    Generated.C12.pipeline.executeCallers = ["ExecuteWithContext", "eval"] ∧
    lookup "Eval" Generated.C12.pipeline.calls = some ["eval"] ∧
    lookup "EvalPath" Generated.C12.pipeline.calls = some ["eval", "importSrc"] ∧
    lookup "EvalWithContext" Generated.C12.pipeline.calls = some ["Eval"] ∧
    lookup "EvalPathWithContext" Generated.C12.pipeline.calls = some ["EvalPath"] ∧
    lookup "Compile" Generated.C12.pipeline.calls = some ["compileSrc"] ∧
    Generated.C12.pipeline.compileSrcBody = [.assignErrCall "parse", .ifErrReturn, .returnCall "CompileAST"] := by
  rw [pipeline_tie]; decide

/-- the compiler itself runs code: `importSrc` (reached from `CompileAST` through the global type analysis)
    calls the execution loop, so the initialisation of an imported *source* package is a compile-time effect
    of the importer. The full-strength statement "compile fails ⇒ no effect at all" is false -/
theorem compile_runs_imports_witness :
    "importSrc" ∈ Generated.C12.pipeline.compileRunCallers ∧
    ∃ src : Src, src.compileFails = true ∧ (evalY Generated.C12.pipeline false src).effects ≠ [] := by
  rw [pipeline_tie]
  exact ⟨by decide, ⟨⟨true, [7], [1]⟩, rfl, by decide⟩⟩

/-! ### typing -/

/-- yaegi's verdict on a program of the fragment, for the facts regenerated from the source -/
def verdictY (p : Prog) : Verdict := (checkProg (rulesY Generated.C12.tcFacts) p).verdict
/-- the Go specification's verdict -/
def verdictG (p : Prog) : Verdict := (checkProg Spec.rulesG p).verdict
/-- the decidable domain: no check site of the program belongs to a class on which the unchanged
    interpreter differs from the specification (classes: `Lax`) -/
def DomP (p : Prog) : Bool := Dom Generated.C12.tcFacts p

/-- inside the domain the two traversals return the same result -/
theorem typing_agree (p : Prog) (h : DomP p = true) : verdictY p = verdictG p := by
  unfold verdictY verdictG
  rw [agree Generated.C12.tcFacts p h]

/-- full-strength statements (false on the current tree, see the witnesses of the findings that are still open) -/
def RejectsIlltyped : Prop := ∀ p : Prog, verdictG p = .err → verdictY p = .err
def AcceptsWelltyped : Prop := ∀ p : Prog, verdictG p = .ok → verdictY p = .ok
def CompileNeverPanics : Prop := ∀ p : Prog, verdictY p ≠ .crash

/-- **ill-typed programs are rejected**: every program of the fragment (all expressions and statements,
    any nesting) that the Go rules reject and whose check sites are outside the classes that are still open
    (F12-4 `var v I = a - a`, F12-5, F12-6, F12-19) is rejected by yaegi's checks with an error -/
theorem rejects_illtyped_partial (p : Prog) (hd : DomP p = true) (h : verdictG p = .err) : verdictY p = .err := by
  rw [typing_agree p hd]; exact h

/-- **no false rejection**: a program of the fragment the Go rules accept is accepted -/
theorem accepts_welltyped_partial (p : Prog) (hd : DomP p = true) (h : verdictG p = .ok) : verdictY p = .ok := by
  rw [typing_agree p hd]; exact h

/-- the Go rules never produce a panic … -/
theorem spec_never_crashes_site {α : Type} (r : Res α) (h : r.verdict = .crash) : r = .crash := by
  cases r <;> simp [Res.verdict] at h ⊢

/-- **the compiler does not panic** on programs inside the domain whose Go verdict is ok or err -/
theorem compile_never_panics_partial (p : Prog) (hd : DomP p = true) (h : verdictG p ≠ .crash) : verdictY p ≠ .crash := by
  rw [typing_agree p hd]; exact h

private def body (ss : List Stmt) : Block := ss.foldr Block.cons .nil
private def main (ss : List Stmt) : Prog := ⟨[], body ss⟩
private def tInt : Ty := .s (.basic .int)
private def tStr : Ty := .s (.basic .string)
private def tN0 : Ty := .s (.named ⟨0, .int, [0]⟩)

/-- the facts the extractor emits for the tree before the third round of repairs (ab398ff): every fact introduced or
    flipped by 5877dba … f150e30 and 6f2f5cf / e6c1f4a at its old value. The "before" half of the regression examples. -/
def factsBeforeRound7 : TcFacts :=
  { Expected.C12.tcFacts with
    ops := { Expected.C12.opFacts with convNilUntypedGuard := false, cmpNilNilRejected := false },
    typeKindNilSafe := false, opResultChecked := false }
def verdictBefore7 (p : Prog) : Verdict := (checkProg (rulesY factsBeforeRound7) p).verdict
def factsBeforeRound5 : TcFacts :=
  { factsBeforeRound7 with
    ops := { factsBeforeRound7.ops with cmpChanExempt := .identical, shiftBoolGuard := false, shiftNegChecked := false },
    opTypeFromOperand := false, shiftUntypedCtx := false, indexZeroLenChecked := false, arrayLitSliceUnbounded := false,
    nilOperandsReported := false, convTypedNumericOk := false, callValueConvChecked := false }
def verdictBefore5 (p : Prog) : Verdict := (checkProg (rulesY factsBeforeRound5) p).verdict
def factsBeforeRound3 : TcFacts :=
  { factsBeforeRound5 with
    ops := { factsBeforeRound5.ops with convNilBoolGuard := false, assignNilGuard := false, constIfaceChecked := false },
    landLorChecked := false, sendValueChecked := false, sendDirChecked := false, retConstChecked := false,
    cmpConvErrKept := false, zeroConst := .untypedSign, opAssignZeroChecked := false, quoFloatZeroOk := false,
    indexNegChecked := false, indexOperandChecked := false, recvDecl := .legacy, recvAssign := .legacy,
    callValueChecked := false, convTypedConstChecked := false }
/-- `factsBeforeRound3` differs from the expected facts in the 17 decisions of the repairs only -/
example : factsBeforeRound3.arrayLitBound = .runningIndex ∧ factsBeforeRound3.argCountCmp = .lt := by decide
def verdictBefore (p : Prog) : Verdict := (checkProg (rulesY factsBeforeRound3) p).verdict

/-! #### regression examples: the replays of the repaired findings agree with the specification, inside the domain -/

/-- F11 (repaired by 3004c84): `for 1 {}` — the condition test records the error and leaves the clause; before the repair
    `cond.rval.Bool()` ran on the constant and panicked. Regression examples: rejected with an error, in the domain. -/
def progConstCond : Prog := main [.forS (.lit .int 1 false) .nil]
theorem const_cond_panic_witness : verdictY progConstCond = .err ∧ verdictG progConstCond = .err ∧ DomP progConstCond = true := by
  unfold verdictY DomP; rw [tcfacts_tie]; decide
/-- `if "a" {}` -/
def progConstCondIf : Prog := main [.ifS (.lit .string 0 false) .nil .nil]
theorem const_cond_if_panic_witness : verdictY progConstCondIf = .err ∧ verdictG progConstCondIf = .err ∧ DomP progConstCondIf = true := by
  unfold verdictY DomP; rw [tcfacts_tie]; decide
/-- the historical behaviour: with the fact `condBoolGuarded := false` the same program is a Go panic -/
theorem const_cond_unguarded_panics :
    (checkProg (rulesY { Expected.C12.tcFacts with condBoolGuarded := false }) progConstCond).verdict = .crash := by decide
/-- the condition test is exact for EVERY operand, `nil` included since 52cb9ff (hypothesis on go/constant operands: see `cond_agree`) -/
theorem cond_correct (x : Opnd)
    (hcb : ∀ c, x.rv = .const c → Spec.kindIsG (· == .bool) x.ty = false) :
    condY Generated.C12.tcFacts x = Spec.condG x := by
  rw [tcfacts_tie]; exact cond_agree x hcb

/-- `var x I3; v, ok := x.(S0)` with `I3 = interface{ M0(); m8() }` and `S0` having only `M0`: an impossible
    assertion whose missing method is not exported. Rejected by both sides, inside the domain; with the skip test
    of typeAssertionExpr turned into `||` (the seeded change of seeded/C12) the model accepts it. -/
def tI3 : Ty := .iface 3 [0, 8]
def tS0 : Ty := .struct 0 [.basic .int, .basic .string] [0]
def progAssertUnexported : Prog := main [.declz tI3, .defineOk tS0 (.var 0)]
theorem assert_missing_unexported_rejected :
    verdictY progAssertUnexported = .err ∧ verdictG progAssertUnexported = .err ∧ DomP progAssertUnexported = true := by
  unfold verdictY DomP; rw [tcfacts_tie]; decide
theorem assert_skip_or_accepts :
    (checkProg (rulesY { Expected.C12.tcFacts with assertSkipMissing := .orBin }) progAssertUnexported).verdict = .ok := by decide
/-- well-typed assertions: to an interface type (`x.(I1)`), from `interface{}` (`e.(S0)`), to a concrete type
    that has every method of the interface (`x.(S3)`, `S3` having `M0` and `m8`): accepted by both sides -/
def progAssertOk : Prog := main [.declz tI3, .declz (.iface 0 []), .define (.assert (.iface 1 [0]) (.var 0)),
  .define (.assert tS0 (.var 1)), .define (.assert (.struct 3 [.basic .int] [0, 8]) (.var 0))]
theorem assert_welltyped_accepted : verdictY progAssertOk = .ok ∧ verdictG progAssertOk = .ok := by
  unfold verdictY; rw [tcfacts_tie]; decide

/-- F03 (repaired in the tree the facts are read from: `representableConst` now tests the exact signed
    range): `var x int8 = 200` is rejected, and inside the domain … -/
def progBitLen : Prog := main [.decl (.s (.basic .int8)) (.lit .int 200 false)]
theorem bitlen_fixed : verdictY progBitLen = .err ∧ verdictG progBitLen = .err ∧ DomP progBitLen = true := by
  unfold verdictY DomP; rw [tcfacts_tie]; decide
/-- … whereas the model run with the bit-length reading of the signed arm (the fact the extractor emits
    for the tree before the repair) accepts it: the historical witness of F03 -/
theorem bitlen_witness :
    (checkProg (rulesY { Expected.C12.tcFacts with ops := { Expected.C12.opFacts with signedRepr := .bitLen } }) progBitLen).verdict = .ok := by
  decide

/-- F12-3 (5877dba): `var a int; x := a && a`, `var a int; var s string; x := a || s` — rejected; accepted before -/
def progLand : Prog := main [.declz tInt, .define (.bin .land (.var 0) (.var 0))]
def progLor : Prog := main [.declz tInt, .declz tStr, .define (.bin .lor (.var 0) (.var 1))]
theorem logical_operands_fixed :
    verdictY progLand = .err ∧ verdictG progLand = .err ∧ DomP progLand = true ∧
    verdictY progLor = .err ∧ verdictG progLor = .err ∧ DomP progLor = true ∧
    verdictBefore progLand = .ok ∧ verdictBefore progLor = .ok := by
  unfold verdictY DomP; rw [tcfacts_tie]; decide

/-- F12-7 (82e65a0): `var c chan int; c <- "s"` and `var r <-chan int; r <- 1` — rejected; accepted before -/
def progSend : Prog := main [.declz (.chan .both (.basic .int)), .send (.var 0) (.lit .string 0 false)]
def progSendRecvOnly : Prog := main [.declz (.chan .recv (.basic .int)), .send (.var 0) (.lit .int 1 false)]
theorem send_fixed :
    verdictY progSend = .err ∧ verdictG progSend = .err ∧ DomP progSend = true ∧
    verdictY progSendRecvOnly = .err ∧ verdictG progSendRecvOnly = .err ∧ DomP progSendRecvOnly = true ∧
    verdictBefore progSend = .ok ∧ verdictBefore progSendRecvOnly = .ok := by
  unfold verdictY DomP; rw [tcfacts_tie]; decide

/-- F12-8 (385eb77): `var b int = nil`, `var a int; x := true + a`, `var i I1 = 1` (I1 = interface{ M0() }),
    `var a int; x := a == nil` — rejected; accepted before -/
def progNil : Prog := main [.decl tInt .nil]
def progBoolLit : Prog := main [.declz tInt, .define (.bin .add (.lit .bool 1 false) (.var 0))]
def progConstIface : Prog := main [.decl (.iface 1 [0]) (.lit .int 1 false)]
def progCmpNil : Prog := main [.declz tInt, .define (.cmp .eq (.var 0) .nil)]
theorem nil_and_boolean_literal_fixed :
    verdictY progNil = .err ∧ verdictG progNil = .err ∧ DomP progNil = true ∧
    verdictY progBoolLit = .err ∧ verdictG progBoolLit = .err ∧ DomP progBoolLit = true ∧
    verdictY progConstIface = .err ∧ verdictG progConstIface = .err ∧ DomP progConstIface = true ∧
    verdictY progCmpNil = .err ∧ verdictG progCmpNil = .err ∧ DomP progCmpNil = true ∧
    verdictBefore progNil = .ok ∧ verdictBefore progBoolLit = .ok ∧ verdictBefore progConstIface = .ok ∧
    verdictBefore progCmpNil = .ok := by
  unfold verdictY DomP; rw [tcfacts_tie]; decide

/-- F12-9 (03fb34b): `func f() int8 { return 300 }`, `var a int; x := a / int(0)`, `var u uint; x := u == -1`,
    `var s []int; x := s[-1]`, `var a int; a /= 0` — rejected; accepted before -/
def progReturnConst : Prog := ⟨[⟨⟨[], [.basic .int8]⟩, body [.ret (.cons (.lit .int 300 false) .nil)]⟩], .nil⟩
def progTypedZero : Prog := main [.declz tInt, .define (.bin .quo (.var 0) (.conv tInt (.lit .int 0 false)))]
def progCmpConst : Prog := main [.declz (.s (.basic .uint)), .define (.cmp .eq (.var 0) (.lit .int (-1) false))]
def progNegIndex : Prog := main [.declz (.slice (.basic .int)), .define (.index (.var 0) (.lit .int (-1) false))]
def progOpAssignZero : Prog := main [.declz tInt, .opassign .quo 0 (.lit .int 0 false)]
theorem constants_fixed :
    verdictY progReturnConst = .err ∧ verdictG progReturnConst = .err ∧ DomP progReturnConst = true ∧
    verdictY progTypedZero = .err ∧ verdictG progTypedZero = .err ∧ DomP progTypedZero = true ∧
    verdictY progCmpConst = .err ∧ verdictG progCmpConst = .err ∧ DomP progCmpConst = true ∧
    verdictY progNegIndex = .err ∧ verdictG progNegIndex = .err ∧ DomP progNegIndex = true ∧
    verdictY progOpAssignZero = .err ∧ verdictG progOpAssignZero = .err ∧ DomP progOpAssignZero = true ∧
    verdictBefore progReturnConst = .ok ∧ verdictBefore progTypedZero = .ok ∧ verdictBefore progCmpConst = .ok ∧
    verdictBefore progNegIndex = .ok ∧ verdictBefore progOpAssignZero = .ok := by
  unfold verdictY DomP; rw [tcfacts_tie]; decide

/-- F12-10 (8a6620e, 03fb34b): `var a int; x := a[0]` and `var a int; x := a / "s"` — errors; Go panics before -/
def progIndex : Prog := main [.declz tInt, .define (.index (.var 0) (.lit .int 0 false))]
def progStrDivisor : Prog := main [.declz tInt, .define (.bin .quo (.var 0) (.lit .string 0 false))]
theorem compiler_panics_fixed :
    verdictY progIndex = .err ∧ verdictG progIndex = .err ∧ DomP progIndex = true ∧
    verdictY progStrDivisor = .err ∧ verdictG progStrDivisor = .err ∧ DomP progStrDivisor = true ∧
    verdictBefore progIndex = .crash ∧ verdictBefore progStrDivisor = .crash := by
  unfold verdictY DomP; rw [tcfacts_tie]; decide

/-- F12-11 (03fb34b, 3e34c55): `var f float64; x := f / 0` and `var c chan int; var e interface{} = <-c; e = "s"`
    are valid Go — accepted; rejected before (the second because the declaration retyped `e` to `int`) -/
def progFloatZero : Prog := main [.declz (.s (.basic .float64)), .define (.bin .quo (.var 0) (.lit .int 0 false))]
def progRecvRetype : Prog := main [.declz (.chan .both (.basic .int)), .decl (.iface 0 []) (.recv (.var 0)),
  .assign 1 (.lit .string 0 false)]
theorem false_rejections_fixed :
    verdictY progFloatZero = .ok ∧ verdictG progFloatZero = .ok ∧ DomP progFloatZero = true ∧
    verdictY progRecvRetype = .ok ∧ verdictG progRecvRetype = .ok ∧ DomP progRecvRetype = true ∧
    verdictBefore progFloatZero = .err ∧ verdictBefore progRecvRetype = .err := by
  unfold verdictY DomP; rw [tcfacts_tie]; decide

/-- F12-12 (f150e30): `func f() {}; v := f()` — rejected; outside the description before -/
def progCallNoValue : Prog := ⟨[⟨⟨[], []⟩, .nil⟩], body [.define (.call 0 .nil)]⟩
theorem call_without_result_fixed :
    verdictY progCallNoValue = .err ∧ verdictG progCallNoValue = .err ∧ DomP progCallNoValue = true ∧
    verdictBefore progCallNoValue = .abstain := by
  unfold verdictY DomP; rw [tcfacts_tie]; decide

/-! #### witnesses: each class that is still excluded is a real difference -/

/-- F12-5: `type N0 int; var a N0; var b int = a` — same reflect.Type -/
def progSameReflect : Prog := main [.declz tN0, .decl tInt (.var 0)]
theorem same_reflect_type_witness : verdictY progSameReflect = .ok ∧ verdictG progSameReflect = .err ∧ DomP progSameReflect = false := by
  unfold verdictY DomP; rw [tcfacts_tie]; decide
theorem rejects_illtyped_witness : ¬ RejectsIlltyped := fun h => by
  have := h progSameReflect same_reflect_type_witness.2.1
  rw [same_reflect_type_witness.1] at this
  cases this

/-- F12-4 (aa2ac2f, the assignment and return forms): `var a int; var s string; s = a - a`, `s = -a`, `s = a == a`,
    `func f(a int) string { return -a }` — rejected (`operationResult`); accepted before, when the operator node took
    the destination type unchecked -/
def progPropagated : Prog := main [.declz tInt, .declz tStr, .assign 1 (.bin .sub (.var 0) (.var 0))]
def progPropagatedNeg : Prog := main [.declz tInt, .declz tStr, .assign 1 (.un .neg (.var 0))]
def progPropagatedCmp : Prog := main [.declz tInt, .declz tStr, .assign 1 (.cmp .eq (.var 0) (.var 0))]
def progPropagatedRet : Prog := ⟨[⟨⟨[.basic .int], [.basic .string]⟩, body [.ret (.cons (.un .neg (.var 0)) .nil)]⟩], .nil⟩
theorem propagation_fixed :
    verdictY progPropagated = .err ∧ verdictG progPropagated = .err ∧ DomP progPropagated = true ∧
    verdictY progPropagatedNeg = .err ∧ verdictG progPropagatedNeg = .err ∧ DomP progPropagatedNeg = true ∧
    verdictY progPropagatedCmp = .err ∧ verdictG progPropagatedCmp = .err ∧ DomP progPropagatedCmp = true ∧
    verdictY progPropagatedRet = .err ∧ verdictG progPropagatedRet = .err ∧ DomP progPropagatedRet = true ∧
    verdictBefore7 progPropagated = .ok ∧ verdictBefore7 progPropagatedNeg = .ok ∧ verdictBefore7 progPropagatedCmp = .ok ∧
    verdictBefore7 progPropagatedRet = .ok := by
  unfold verdictY DomP; rw [tcfacts_tie]; decide
/-- F12-4, what is left: `var a int; var v I1 = a - a` (I1 = interface{ M0() }, int has no method) — in a declaration of
    interface type the arithmetic node gets the interface type from nodeType and nothing checks that int implements it -/
def progPropagatedIface : Prog := main [.declz tInt, .decl (.iface 1 [0]) (.bin .sub (.var 0) (.var 0))]
theorem propagation_witness :
    verdictY progPropagatedIface = .ok ∧ verdictG progPropagatedIface = .err ∧ DomP progPropagatedIface = false := by
  unfold verdictY DomP; rw [tcfacts_tie]; decide

/-- …and the valid forms stay accepted: a comparison assigned to a variable of a defined boolean type, an operation
    assigned to its own type or to an interface -/
def progOpAssignOk : Prog := main [.declz tInt, .declz (.s (.named ⟨4, .bool, []⟩)), .declz (.iface 0 []),
  .assign 1 (.cmp .lt (.var 0) (.var 0)), .assign 0 (.bin .sub (.var 0) (.lit .int 1 false)), .assign 2 (.un .neg (.var 0)),
  .assign 1 (.un .not (.cmp .eq (.var 0) (.var 0)))]
theorem operation_assignment_accepted : verdictY progOpAssignOk = .ok ∧ verdictG progOpAssignOk = .ok ∧ DomP progOpAssignOk = true := by
  unfold verdictY DomP; rw [tcfacts_tie]; decide

/-- F12-6: `var e interface{}; var i int = e` -/
def progIface : Prog := main [.declz (.iface 0 []), .decl tInt (.var 0)]
theorem interface_to_concrete_witness : verdictY progIface = .ok ∧ verdictG progIface = .err ∧ DomP progIface = false := by
  unfold verdictY DomP; rw [tcfacts_tie]; decide

/-- F12-25 (2992617): `x := nil == nil`, `x := 1 + nil`, `x := <-nil`, `x := nil[0]`, `nil <- 1` — no operand gives nil a
    type: errors on both sides; Go panics in the compiler before -/
def progNilEq : Prog := main [.define (.cmp .eq .nil .nil)]
def progNilAdd : Prog := main [.define (.bin .add (.lit .int 1 false) .nil)]
def progRecvNil : Prog := main [.define (.recv .nil)]
def progIndexNil : Prog := main [.define (.index .nil (.lit .int 0 false))]
def progSendNil : Prog := main [.send .nil (.lit .int 1 false)]
theorem nil_only_operand_fixed :
    verdictY progNilEq = .err ∧ verdictG progNilEq = .err ∧ DomP progNilEq = true ∧
    verdictY progNilAdd = .err ∧ verdictG progNilAdd = .err ∧ DomP progNilAdd = true ∧
    verdictY progRecvNil = .err ∧ verdictG progRecvNil = .err ∧ DomP progRecvNil = true ∧
    verdictY progIndexNil = .err ∧ verdictG progIndexNil = .err ∧ DomP progIndexNil = true ∧
    verdictY progSendNil = .err ∧ verdictG progSendNil = .err ∧ DomP progSendNil = true ∧
    verdictBefore7 progNilEq = .crash ∧ verdictBefore7 progNilAdd = .crash ∧ verdictBefore7 progRecvNil = .crash ∧
    verdictBefore7 progIndexNil = .crash ∧ verdictBefore7 progSendNil = .crash := by
  unfold verdictY DomP; rw [tcfacts_tie]; decide

/-- F12-19: `type N4 bool; var a int; var c N4; var z bool = (a < a) && c` — the comparison has type bool, so has the
    conjunction (Go: N4, not assignable to bool) -/
def tN4 : Ty := .s (.named ⟨4, .bool, []⟩)
def progCmpLogical : Prog := main [.declz tInt, .declz tN4,
  .decl (.s (.basic .bool)) (.bin .land (.cmp .lt (.var 0) (.var 0)) (.var 1))]
theorem comparison_operand_of_logical_witness :
    verdictY progCmpLogical = .ok ∧ verdictG progCmpLogical = .err ∧ DomP progCmpLogical = false := by
  unfold verdictY DomP; rw [tcfacts_tie]; decide

/-- F12-19, a false rejection: `((a < a) && c) && c` with c of a defined boolean type is valid Go; the inner conjunction
    has type bool for yaegi and is not itself a comparison, so the outer one is "mismatched types bool and N4" -/
def progLogicalNested : Prog := main [.declz tInt, .declz tN4,
  .define (.bin .land (.bin .land (.cmp .lt (.var 0) (.var 0)) (.var 1)) (.var 1))]
theorem accepts_welltyped_witness :
    verdictG progLogicalNested = .ok ∧ verdictY progLogicalNested = .err ∧ DomP progLogicalNested = false := by
  unfold verdictY DomP; rw [tcfacts_tie]; decide
theorem accepts_welltyped_full_false : ¬ AcceptsWelltyped := fun h => by
  have := h progLogicalNested accepts_welltyped_witness.1
  rw [accepts_welltyped_witness.2.1] at this
  cases this

/-! #### regression examples of the fifth round: formerly failing replays agree with the specification, inside the domain -/

/-- F12-17 (52cb9ff, 1122c63): `v := nil`, `if nil {}`, `x := int(nil)`, `x := nil.(int)`, `var a int; x := true << a` — errors; Go panics before -/
def progDefineNil : Prog := main [.define .nil]
def progCondNil : Prog := main [.ifS .nil .nil .nil]
def progConvNil : Prog := main [.define (.conv tInt .nil)]
def progAssertNil : Prog := main [.define (.assert tInt .nil)]
def progBoolShift : Prog := main [.declz tInt, .define (.shift .shl (.lit .bool 1 false) (.var 0))]
theorem nil_operand_fixed :
    verdictY progDefineNil = .err ∧ verdictG progDefineNil = .err ∧ DomP progDefineNil = true ∧
    verdictY progCondNil = .err ∧ verdictG progCondNil = .err ∧ DomP progCondNil = true ∧
    verdictY progConvNil = .err ∧ verdictG progConvNil = .err ∧ DomP progConvNil = true ∧
    verdictY progAssertNil = .err ∧ verdictG progAssertNil = .err ∧ DomP progAssertNil = true ∧
    verdictY progBoolShift = .err ∧ verdictG progBoolShift = .err ∧ DomP progBoolShift = true ∧
    verdictBefore5 progDefineNil = .crash ∧ verdictBefore5 progCondNil = .crash ∧ verdictBefore5 progConvNil = .crash ∧
    verdictBefore5 progAssertNil = .crash ∧ verdictBefore5 progBoolShift = .crash := by
  unfold verdictY DomP; rw [tcfacts_tie]; decide

/-- F12-18 (5556d48): `var a int; x := a << int(-1)` and `var z [0]int; x := z[0]` — rejected; accepted before -/
def progNegShift : Prog := main [.declz tInt, .define (.shift .shl (.var 0) (.conv tInt (.lit .int (-1) false)))]
def progZeroLenIndex : Prog := main [.declz (.array 0 (.basic .int)), .define (.index (.var 0) (.lit .int 0 false))]
theorem constant_value_examined_fixed :
    verdictY progNegShift = .err ∧ verdictG progNegShift = .err ∧ DomP progNegShift = true ∧
    verdictY progZeroLenIndex = .err ∧ verdictG progZeroLenIndex = .err ∧ DomP progZeroLenIndex = true ∧
    verdictBefore5 progNegShift = .ok ∧ verdictBefore5 progZeroLenIndex = .ok := by
  unfold verdictY DomP; rw [tcfacts_tie]; decide

/-- F12-21 (29b7aa6): `func f() {}; v := int(f())` — an error; a Go panic before -/
def progConvNoValue : Prog := ⟨[⟨⟨[], []⟩, .nil⟩], body [.define (.conv tInt (.call 0 .nil))]⟩
theorem call_value_in_conversion_fixed :
    verdictY progConvNoValue = .err ∧ verdictG progConvNoValue = .err ∧ DomP progConvNoValue = true ∧
    verdictBefore5 progConvNoValue = .crash := by
  unfold verdictY DomP; rw [tcfacts_tie]; decide

/-- F12-23 (8b84ab3): `x := complex64(int(0))`, a constant conversion — accepted; rejected before -/
def progComplexOfTyped : Prog := main [.define (.conv (.s (.basic .complex64)) (.conv tInt (.lit .int 0 false)))]
theorem typed_constant_to_complex_fixed :
    verdictY progComplexOfTyped = .ok ∧ verdictG progComplexOfTyped = .ok ∧ DomP progComplexOfTyped = true ∧
    verdictBefore5 progComplexOfTyped = .err := by
  unfold verdictY DomP; rw [tcfacts_tie]; decide

/-- F12-11 (6110e8a, 61b9210): `var a chan int; var b <-chan int; x := a == b` is valid Go — accepted, rejected before;
    `var a chan int; var b chan N0; x := a == b` (same reflect type, different element types) stays rejected: the
    regression of 6110e8a alone (`.unnamedPair`) accepted it -/
def progChanCmp : Prog := main [.declz (.chan .both (.basic .int)), .declz (.chan .recv (.basic .int)), .define (.cmp .eq (.var 0) (.var 1))]
def progChanCmpElem : Prog := main [.declz (.chan .both (.basic .int)), .declz (.chan .both (.named ⟨0, .int, [0]⟩)), .define (.cmp .eq (.var 0) (.var 1))]
theorem channel_direction_comparison_fixed :
    verdictY progChanCmp = .ok ∧ verdictG progChanCmp = .ok ∧ DomP progChanCmp = true ∧
    verdictBefore5 progChanCmp = .err ∧
    verdictY progChanCmpElem = .err ∧ verdictG progChanCmpElem = .err ∧ DomP progChanCmpElem = true ∧
    (checkProg (rulesY { Expected.C12.tcFacts with ops := { Expected.C12.opFacts with cmpChanExempt := .unnamedPair } }) progChanCmpElem).verdict = .ok := by
  unfold verdictY DomP; rw [tcfacts_tie]; decide

/-- F12-4 (2988c87, the declaration part): `var a int; var b bool = a * a` — rejected; accepted before. The assignment
    and return forms stay open (`propagation_witness`) -/
def progDeclPropagated : Prog := main [.declz tInt, .decl (.s (.basic .bool)) (.bin .mul (.var 0) (.var 0))]
theorem declaration_propagation_fixed :
    verdictY progDeclPropagated = .err ∧ verdictG progDeclPropagated = .err ∧ verdictBefore5 progDeclPropagated = .ok := by
  unfold verdictY; rw [tcfacts_tie]; decide

/-! #### non-vacuity: non-trivial programs inside the domain -/

/-- `func f(a int, b string) int { if a < 3 { return a }; return a * 2 }` called with a mismatched argument:
    in the domain, ill-typed, rejected -/
private def fSig : Sig := ⟨[.basic .int, .basic .string], [.basic .int]⟩
private def fBody : Block := body [
  .ifS (.cmp .lt (.var 0) (.lit .int 3 false)) (body [.ret (.cons (.var 0) .nil)]) .nil,
  .ret (.cons (.bin .mul (.var 0) (.lit .int 2 false)) .nil)]
def progGood : Prog := ⟨[⟨fSig, fBody⟩],
  body [.declz tInt, .declz tStr, .define (.call 0 (.cons (.var 0) (.cons (.var 1) .nil))),
        .forS (.bin .land (.cmp .ne (.var 2) (.var 0)) (.cmp .lt (.var 0) (.lit .int 9 false)))
          (body [.incdec 2, .opassign .add 1 (.lit .string 0 false), .opassign .quo 0 (.lit .int 2 false)])]⟩
def progBadArg : Prog := ⟨[⟨fSig, fBody⟩],
  body [.declz tInt, .declz tStr, .define (.call 0 (.cons (.var 1) (.cons (.var 1) .nil)))]⟩
example : DomP progGood = true ∧ verdictG progGood = .ok ∧ verdictY progGood = .ok := by
  unfold verdictY DomP; rw [tcfacts_tie]; decide
example : DomP progBadArg = true ∧ verdictG progBadArg = .err ∧ verdictY progBadArg = .err := by
  unfold verdictY DomP; rw [tcfacts_tie]; decide

/-! #### what the domain does NOT exclude (syntactic characterisations, Proofs/C12Rules.lean) -/

/-- a typed non-constant value against a destination type: the assignment check of typecheck.go agrees with
    Go's assignability unless the value is of interface type and the destination is not, or the two types are
    different Go types with the same reflect.Type (modulo channel direction) -/
theorem assignment_typed_correct (x : Opnd) (t : Ty) (hx : x.rv = .none) (hxt : x.ty.isUntyped = false)
    (ht : t.isUntyped = false)
    (h1 : (x.ty.isIface && !t.isIface) = false) (h2 : reflectCollision x.ty t = false) :
    assignmentY Generated.C12.opFacts x t = (if Spec.assignableG x t then .ok () else .err) := by
  rw [opfacts_tie]; exact assignment_typed_agree x t hx hxt ht h1 h2

/-- unary operators, `++`/`--` and conditions on typed non-constant operands are always decided as the specification says -/
theorem unary_typed_correct (op : UnOp) (x : Opnd) (hx : x.rv = .none) (hxt : x.ty.isUntyped = false) :
    unY Generated.C12.tcFacts op x = Spec.unG op x := by
  rw [tcfacts_tie]; exact un_typed_agree op x hx hxt
theorem incdec_correct (t : Ty) (ht : t.isUntyped = false) : incdecY Generated.C12.tcFacts t = Spec.incdecG t := by
  rw [tcfacts_tie]; exact incdec_agree t ht
theorem cond_typed_correct (x : Opnd) (hx : x.rv = .none) (hxt : x.ty.isUntyped = false) :
    condY Generated.C12.tcFacts x = Spec.condG x := by
  rw [tcfacts_tie]; exact cond_typed_agree x hx hxt
/-- type assertions `x.(T)` / `v, ok := x.(T)`: for every operand but `nil` and every asserted type of the
    fragment, typeAssertionExpr accepts exactly the assertions the specification allows -/
theorem assert_correct (typ : Ty) (x : Opnd) :
    assertY Generated.C12.tcFacts typ x = Spec.assertG typ x := by
  rw [tcfacts_tie]; exact assert_agree typ x
theorem recv_typed_correct (x : Opnd) (hxt : x.ty.isUntyped = false) : recvY Generated.C12.tcFacts x = Spec.recvG x := by
  exact recv_typed_agree _ x hxt

/-- arithmetic operators on typed non-constant operands of non-interface types (outside a propagation zone),
    shifts and index expressions on typed non-constant operands: always decided as the specification says -/
theorem arith_typed_correct (op : BinOp) (x y : Opnd) (hop : op.propagates = true)
    (hx : x.rv = .none) (hy : y.rv = .none) (hxt : x.ty.isUntyped = false) (hyt : y.ty.isUntyped = false)
    (hxi : x.ty.isIface = false) (hyi : y.ty.isIface = false) :
    binY Generated.C12.tcFacts op none x y = Spec.binG op none x y := by
  rw [tcfacts_tie]; exact arith_typed_agree op x y hop hx hy hxt hyt hxi hyi
theorem shift_typed_correct (op : ShOp) (x y : Opnd) (hx : x.rv = .none) (hy : y.rv = .none)
    (hxt : x.ty.isUntyped = false) (hyt : y.ty.isUntyped = false) :
    shiftY Generated.C12.tcFacts op x y = Spec.shiftG op x y := by
  rw [tcfacts_tie]; exact shift_typed_agree op x y hx hy hxt hyt
theorem index_typed_correct (a i : Opnd) (ha : a.rv = .none) (hi : i.rv = .none) (hit : i.ty.isUntyped = false)
    (hb : (match a.ty with | .slice _ => true | .array _ _ => true | .s t => t.under == .string | _ => false) = true) :
    indexY Generated.C12.tcFacts a i = Spec.indexG a i := by
  rw [tcfacts_tie]; exact index_typed_agree a i ha hi hit hb

/-- comparisons of typed non-constant operands of non-interface types: `typecheck.comparison` decides as the
    specification does unless the two types collide in reflect (F12-5); channels of different directions are covered
    since 6110e8a / 61b9210 (F12-11: the hypothesis that excluded them is gone)
    (this is the check the mutant "comparison accepts mismatched operands" breaks) -/
theorem comparison_typed_correct (op : CmpOp) (x y : Opnd)
    (hx : x.rv = .none) (hy : y.rv = .none) (hxt : x.ty.isUntyped = false) (hyt : y.ty.isUntyped = false)
    (hxi : x.ty.isIface = false) (hyi : y.ty.isIface = false)
    (h2 : reflectCollision x.ty y.ty = false) (h2' : reflectCollision y.ty x.ty = false) :
    cmpY Generated.C12.tcFacts op x y = Spec.cmpG op x y := by
  rw [tcfacts_tie]; exact cmp_typed_agree op x y hx hy hxt hyt hxi hyi h2 h2'

/-- arity of calls: with the comparison operator extracted from `arguments`, a call whose arguments are each
    individually assignable is accepted exactly when the counts match -/
theorem call_arity_correct (params : List STy) (args : List Opnd)
    (h : ∀ p a, assignmentY Generated.C12.opFacts a (.s p) = .ok ()) :
    (callY Generated.C12.tcFacts params args = .ok ()) ↔ args.length = params.length := by
  rw [tcfacts_tie]; exact call_arity_agree params args (by rw [opfacts_tie] at h; exact h)

/-- constants: an integer constant is accepted for a basic integer type exactly when it is in range
    (all values, all integer kinds) -/
theorem representable_int_correct (v : Int) (b : Basic) (hb : b.kind.isInteger = true) :
    representableConstY Generated.C12.opFacts (.int v) b.kind = Spec.representableG (.int v) b := by
  rw [opfacts_tie]; exact representable_int_agree v b hb

/-- the bit-length reading (before the repair of F03) agrees only outside the gap of the narrow signed types -/
theorem representable_int_bitlen_partial (v : Int) (b : Basic) (hb : b.kind.isInteger = true)
    (hg : inBitLenGap b.kind v = false) :
    representableConstY { Expected.C12.opFacts with signedRepr := .bitLen } (.int v) b.kind = Spec.representableG (.int v) b :=
  representable_int_bitlen v b hb hg

/-! #### the rules repaired in the third round: full strength (no domain, no class) -/

/-- F12-12: a call used as a single value is decided as the specification says for EVERY result list
    (none: error; one: its type; several: outside the description on both sides) -/
theorem call_value_correct (rets : List STy) :
    callValueY Generated.C12.tcFacts false rets = Spec.callValueG false rets := by
  rw [tcfacts_tie]; exact callValue_agree rets
/-- …and as the operand of a conversion `T(f())` too since 29b7aa6 (F12-21): a single-value context, for EVERY result list -/
theorem call_value_conversion_correct (rets : List STy) :
    callValueY Generated.C12.tcFacts true rets = Spec.callValueG true rets := by
  rw [tcfacts_tie]; exact callValue_conv_agree rets

/-- F12-7: a send statement is decided as the specification says (direction, then assignability of the value to the
    element type) for EVERY channel operand (`nil` included since 2992617) and every value on which the assignment check itself agrees -/
theorem send_correct (c v : Opnd)
    (ha : ∀ d t, c.ty = .chan d t →
      assignmentY Generated.C12.opFacts v (.s t) = (if Spec.assignableG v (.s t) then .ok () else .err)) :
    sendY Generated.C12.tcFacts c v = Spec.sendG c v := by
  rw [tcfacts_tie]; exact send_agree c v (by rw [opfacts_tie] at ha; exact ha)

/-- F12-7, typed non-constant values: the only sends still decided differently are those of the open classes of
    assignments (an interface value for a concrete element type, F12-6; a reflect collision, F12-5) -/
theorem send_typed_correct (c v : Opnd) (hv : v.rv = .none) (hvt : v.ty.isUntyped = false)
    (h1 : ∀ d t, c.ty = .chan d t → v.ty.isIface = false)
    (h2 : ∀ d t, c.ty = .chan d t → reflectCollision v.ty (.s t) = false) :
    sendY Generated.C12.tcFacts c v = Spec.sendG c v := by
  rw [tcfacts_tie]; exact send_typed_agree c v hv hvt h1 h2

/-- F12-3: `&&` / `||` on typed non-constant operands of non-interface types (in any propagation zone) -/
theorem logical_typed_correct (op : BinOp) (hop : op.propagates = false) (z : Option Ty) (x y : Opnd)
    (hx : x.rv = .none) (hy : y.rv = .none) (hxt : x.ty.isUntyped = false) (hyt : y.ty.isUntyped = false)
    (hxi : x.ty.isIface = false) (hyi : y.ty.isIface = false) :
    binY Generated.C12.tcFacts op z x y = Spec.binG op z x y := by
  rw [tcfacts_tie]; exact logical_typed_agree op hop z x y hx hy hxt hyt hxi hyi

/-- F12-10: an operand that does not support indexing (a non-string simple type, a pointer, a channel, a function,
    a struct, an interface) is an error on both sides, whatever the index: no Go panic, no acceptance -/
theorem index_non_indexable_correct (a i : Opnd) (ha : a.rv = .none)
    (hb : (match a.ty with
           | .s t => t.under != .string
           | .ptr _ | .chan _ _ | .func _ _ | .struct _ _ _ | .iface _ _ => true
           | _ => false) = true) :
    indexY Generated.C12.tcFacts a i = .err ∧ Spec.indexG a i = .err := by
  rw [tcfacts_tie]; exact index_non_indexable_agree a i ha hb

/-- F12-9 / F12-10 / F12-11: `zeroConst` never panics, and on an operand of numeric type it sees exactly the zero
    constants of the specification, typed or not -/
theorem zero_const_correct (y : Opnd) :
    (∃ b, zeroConstY Generated.C12.tcFacts y = .ok b) ∧
    (isNumberT Generated.C12.opFacts y.ty = true → zeroConstY Generated.C12.tcFacts y = .ok (Spec.isZeroConst y)) := by
  rw [tcfacts_tie, opfacts_tie]; exact ⟨zeroConst_total y, zeroConst_agree y⟩

/-- F12-9: an integer constant returned for a basic integer result type: accepted exactly when in range -/
theorem return_int_const_correct (v : Int) (b : Basic) (hb : b.kind.isInteger = true) :
    retValsY Generated.C12.tcFacts [.basic b] [(.plain, ⟨.untyped .int, .const (.int v)⟩)] =
      (if Spec.representableG (.int v) b then .ok () else .err) := by
  rw [tcfacts_tie]; exact ret_int_const_agree v b hb

/-- F12-9: a negative constant index (untyped integer or typed) is rejected whatever the bound -/
theorem negative_index_rejected (i i' : Opnd) (max : Option Nat)
    (hc : convertUntypedY Generated.C12.opFacts i (.s (.basic .int)) = .ok i')
    (v : Int) (hv : i'.rv = .const (.int v) ∨ i'.rv = .typed (some v)) (hneg : v < 0) :
    indexCheckY Generated.C12.tcFacts i max = .err := by
  have hT : Generated.C12.tcFacts.indexNegChecked = true := by rw [tcfacts_tie]; rfl
  have ho : Generated.C12.tcFacts.ops = Generated.C12.opFacts := by rw [tcfacts_tie, opfacts_tie]; rfl
  exact index_negative_rejected _ hT i i' max (by rw [ho]; exact hc) v hv hneg

/-! #### array and slice literals (outside the expression fragment): the index discipline of `arrayLitExpr` -/

/-- **array / slice literal indexes**: for every array type of ANY length (0 included since 5556d48) and every slice type, and EVERY list of keyed
    and positional elements, typecheck.go `arrayLitExpr` accepts exactly the index sequences the specification allows
    (an element without key uses the previous index plus one; keys are non-negative; every index of an array literal
    is below the length; no index occurs twice) -/
theorem array_literal_index_correct (isArray : Bool) (length : Nat) (es : List LitElem) :
    arrayLitY Generated.C12.tcFacts isArray length es 0 0 [] =
      Spec.arrayLitG (if isArray then some length else none) es 0 [] := by
  rw [tcfacts_tie]
  exact arrayLit_agree _ rfl rfl rfl rfl isArray length es 0 0 []

/-- non-vacuity and the seeded change of seeded/C12-3: `[3]int{2: 30, 40}` (a key followed by a positional element
    running past the end) is rejected by both sides; with the bounds test reading the position in the literal
    (`.loopPosition`) the model accepts it; `[3]int{0: 1, 2: 3, 1: 2}` is accepted, `[]int{1: 1, 0: 0, 5}` (duplicate
    index 1) rejected -/
theorem array_literal_examples :
    (arrayLitY Generated.C12.tcFacts true 3 [.keyed 2, .pos] 0 0 []).verdict = .err ∧
    (Spec.arrayLitG (some 3) [.keyed 2, .pos] 0 []).verdict = .err ∧
    (arrayLitY { Expected.C12.tcFacts with arrayLitBound := .loopPosition } true 3 [.keyed 2, .pos] 0 0 []).verdict = .ok ∧
    (arrayLitY Generated.C12.tcFacts true 3 [.keyed 0, .keyed 2, .keyed 1] 0 0 []).verdict = .ok ∧
    (arrayLitY Generated.C12.tcFacts false 0 [.keyed 1, .keyed 0, .pos] 0 0 []).verdict = .err := by
  rw [tcfacts_tie]; decide

/-- F12-18 (zero-length arrays, 5556d48): `[0]int{0: 1}` — rejected by both sides; accepted under the facts of the tree before -/
theorem array_literal_zero_length_fixed :
    (arrayLitY Generated.C12.tcFacts true 0 [.keyed 0] 0 0 []).verdict = .err ∧
    (Spec.arrayLitG (some 0) [.keyed 0] 0 []).verdict = .err ∧
    (arrayLitY factsBeforeRound5 true 0 [.keyed 0] 0 0 []).verdict = .ok := by
  rw [tcfacts_tie]; decide

/-! #### round 7 -/

/-- F12-4 (aa2ac2f): the result of a non-constant operation (not a comparison) assigned by `v = <op>` or returned where a
    non-interface type is expected is checked as Go's assignability requires, outside the open classes of assignments
    (F12-5 reflect collision, F12-6 interface value for a concrete type) -/
theorem operation_result_correct (x : Opnd) (dst : Ty) (hx : x.rv = .none) (hxt : x.ty.isUntyped = false)
    (hdt : dst.isUntyped = false) (hdi : dst.isIface = false)
    (h1 : x.ty.isIface = false) (h2 : reflectCollision x.ty dst = false) :
    opResultY Generated.C12.tcFacts x dst = (if Spec.assignableG x dst then .ok () else .err) := by
  rw [tcfacts_tie]; exact opResult_typed_agree x dst hx hxt hdt hdi h1 h2

/-- F12-25 (2992617): receive from, send on, index of `nil`: errors on both sides, no Go panic -/
theorem nil_operand_errors_correct (v i : Opnd) :
    recvY Generated.C12.tcFacts ⟨.nil, .none⟩ = .err ∧ Spec.recvG ⟨.nil, .none⟩ = .err ∧
    sendY Generated.C12.tcFacts ⟨.nil, .none⟩ v = .err ∧ Spec.sendG ⟨.nil, .none⟩ v = .err ∧
    indexY Generated.C12.tcFacts ⟨.nil, .none⟩ i = .err ∧ Spec.indexG ⟨.nil, .none⟩ i = .err := by
  rw [tcfacts_tie]; exact nil_operand_errors v i

end YaegiVerif.Props.C12
