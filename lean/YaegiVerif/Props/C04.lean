import YaegiVerif.Model.Share
import YaegiVerif.Model.ShareDom
import YaegiVerif.Spec.GoValue
import YaegiVerif.Expected.C04
import YaegiVerif.Generated.C04
import YaegiVerif.Proofs.C04Store
import YaegiVerif.Proofs.C04Ops
/-
  C04 — property theorems: values are copied or shared exactly as Go prescribes.

  `runY F G st ops`       the model of yaegi's mechanism (frame slots: handles / variable slots / temporaries),
                          run with the facts F read from the source
  `Spec.runGo G st ops`   the Go specification's value semantics on the same store
  `G`                     capacity growth of append: a parameter shared by both sides (all theorems: ∀ G)

  Until 2026-09-26 the refinement was proved on a decidable domain `Dom` that excluded four classes of operation
  sequences (findings F04-4, F04-11, F04-5, F04-6, F04-12). Commits 1436613, 8bd8040 (+ 6ebc898), b312e89 and 5a404d3 of the
  repository repaired them (and 93fb945, da35a0b, 0780d8c three findings outside the former operation language: F04-10,
  F04-7, F04-9); each repair flipped or introduced extracted facts, the class left the domain, and no class remains:
  `ops_refine` below is the property at full strength, for the whole operation language. The replay program of every
  repaired finding is kept as a regression theorem (`…_fixed`), and a `fact_…_matters` theorem shows that the model run
  with the OLD fact reproduces the old divergence.
-/
namespace YaegiVerif.Props.C04
open YaegiVerif YaegiVerif.Share
open YaegiVerif.Expected.C04 (share)

/-! ### ties -/

/-- tie: the choices extracted from interp/run.go, interp/value.go and interp/cfg.go are the ones the proofs use -/
theorem sharefacts_tie : Generated.C04.share = Expected.C04.share := by decide

/-- tie: the extractor recognised every shape it looked for -/
theorem extraction_complete : Generated.C04.unrecognised = [] := by decide

/-- tie: the functions transcribed in Model/Share.lean are textually (modulo comments and layout) the ones the
    model was written from; if this breaks the model must be re-validated (the check then relies on the
    correspondence run) -/
theorem source_tie : Generated.C04.sourceHashes = Expected.C04.sourceHashes := by decide

/-! ### the refinement -/

/-- **After every step the visible state is the state Go prescribes** — for EVERY operation sequence of the language
    (assign / op-assign to variables, fields, elements, pointees; define, also of array / slice / map literals in loop
    bodies; multi-assign; multi-define, also with redeclared variables; append, whatever its operands alias; append of a
    slice; copy; 2- and 3-index slicing; map insert / delete / lookup / comma-ok lookup in both forms, also declared in
    loop bodies and with redeclared variables; address-of; dereference; identity call; call of a function that mutates
    its parameter; range over arrays, slices and pointers to arrays with mutation in the body; closures capturing a
    per-iteration variable), every start state and every capacity growth function: the mechanism model run with today's
    facts reaches the SAME state (store, bindings, printed lines, panic) as the specification. No domain restriction. -/
theorem ops_refine (G : Growth) (st : St) (ops : List Op) :
    runY share G st ops = Spec.runGo G st ops := runY_spec G ops st

/-- the observable form, from the empty state -/
theorem ops_refine_obs (G : Growth) (ops : List Op) :
    obsOf (runY share G St.empty ops) = obsOf (Spec.runGo G St.empty ops) := by
  rw [ops_refine G St.empty ops]

/-- the statement that could not be proved while findings F04-4 … F04-12 were open (it was refuted by
    `C04_full_statement_fails`); it is now a theorem -/
def C04_full_statement : Prop :=
  ∀ (G : Growth) (ops : List Op), obsOf (runY share G St.empty ops) = obsOf (Spec.runGo G St.empty ops)

theorem C04_full : C04_full_statement := ops_refine_obs

/-- the same statement about the facts regenerated from the repository on this run -/
theorem ops_refine_generated (G : Growth) (st : St) (ops : List Op) :
    runY Generated.C04.share G st ops = Spec.runGo G st ops := by
  rw [sharefacts_tie]; exact ops_refine G st ops

/-- one statement, first or repeated execution (what the loop bodies use) -/
theorem stmt_refine (G : Growth) (st : St) (o : SOp) (reexec : Bool) :
    sopY share G reexec st o = Spec.sop G st o := sopY_spec G st o reexec

/-! ### a non-trivial instance -/

def G0 : Growth := fun _ _ cap n => max (2 * cap) n

/-- arrays of structs, a slice of the array, a pointer into it, a swap through element expressions, an append
    that grows, a range over the array that mutates it, a call that mutates its parameter, closures -/
def exDom : List Op :=
  [.s (.define 1 (.lit (.arr (.cons (.str (.cons (.int 1) (.cons (.int 2) .nil))) (.cons (.str (.cons (.int 3) (.cons (.int 4) .nil))) .nil))))),
   .s (.define 2 (.slice (.var 1) none none none)),
   .s (.define 3 (.addr (.field (.index (.var 1) (.lit 1)) 0))),
   .s (.multi [.index (.var 1) (.lit 0), .index (.var 2) (.lit 1)] [.load (.index (.var 2) (.lit 1)), .load (.index (.var 1) (.lit 0))]),
   .s (.opassign (.deref (.var 3)) 10),
   .s (.append false (.var 2) (.load (.var 2)) [.lit (.str (.cons (.int 5) (.cons (.int 6) .nil)))] (.str (.cons (.int 0) (.cons (.int 0) .nil))) 16 true),
   .range (.var 1) 4 5 [.opassign (.field (.index (.var 1) (.lit 1)) 1) 100, .show [4, 5]],
   .s (.callMut true (.var 6) (.field (.index (.var 0) (.lit 0)) 0) 77 (.load (.var 1))),
   .capture (.var 1) 7 (.field (.var 0) 0) 1000 [0, 1, 0],
   .s (.show [1, 2, 3, 6])]

example :
    obsOf (runY share G0 St.empty exDom) =
      ⟨["v4=0 v5={3,4}", "v4=1 v5={11,2}", "c0={1003,4} c1={1011,202} c0={2003,4}",
        "v1=[{3,4},{11,202}] v2=s3/4[{3,4},{11,2},{5,6}] v3=&11 v6=[{77,4},{11,202}]"], "ok"⟩ := by decide

/-! ### copies are independent — for all value trees and all paths -/

/-- **Assigning an array or struct yields an independent copy**: after the value found at `src` has been stored
    at a disjoint location `dst`, NO later write through the source — at any path below it, of any value — is
    visible through the destination. Proved for every store, every value tree and every pair of paths
    (induction on the path through the tree: `Val.get_put_diverge`). -/
theorem assign_independent (cs cs1 cs2 : Cells) (src dst : Loc) (v w : Val) (p : Path)
    (hd : Loc.disjoint src dst = true) (_hr : readLoc cs src = some v)
    (h1 : writeLoc cs dst v = some cs1) (h2 : writeLoc cs1 ⟨src.cell, src.path ++ p⟩ w = some cs2) :
    readLoc cs2 dst = some v := by
  have hd' : Loc.disjoint ⟨src.cell, src.path ++ p⟩ dst = true := by
    simp only [Loc.disjoint, Bool.or_eq_true, bne_iff_ne, ne_eq] at hd ⊢
    cases hd with
    | inl h => exact .inl h
    | inr h => exact .inr (Path.diverge_append_left _ _ _ h)
  rw [readLoc_writeLoc_disjoint cs1 cs2 _ dst w hd' h2]
  exact readLoc_writeLoc_same cs cs1 dst v h1

/-- … and no later write through the destination is visible through the source -/
theorem assign_independent_rev (cs cs1 cs2 : Cells) (src dst : Loc) (v w : Val) (p : Path)
    (hd : Loc.disjoint src dst = true) (hr : readLoc cs src = some v)
    (h1 : writeLoc cs dst v = some cs1) (h2 : writeLoc cs1 ⟨dst.cell, dst.path ++ p⟩ w = some cs2) :
    readLoc cs2 src = some v := by
  have hd1 : Loc.disjoint dst src = true := by
    simp only [Loc.disjoint, Bool.or_eq_true, bne_iff_ne, ne_eq] at hd ⊢
    cases hd with
    | inl h => exact .inl (fun e => h e.symm)
    | inr h => exact .inr (by rw [Path.diverge_symm]; exact h)
  have hd' : Loc.disjoint ⟨dst.cell, dst.path ++ p⟩ src = true := by
    simp only [Loc.disjoint, Bool.or_eq_true, bne_iff_ne, ne_eq] at hd1 ⊢
    cases hd1 with
    | inl h => exact .inl h
    | inr h => exact .inr (Path.diverge_append_left _ _ _ h)
  rw [readLoc_writeLoc_disjoint cs1 cs2 _ src w hd' h2, readLoc_writeLoc_disjoint cs cs1 dst src v hd1 h1]
  exact hr

/-- the same, for the statement `ld = ls` as the mechanism executes it: whatever `ld` and `ls` are (variables,
    fields, elements, pointees), as long as they denote disjoint locations -/
theorem assign_independent_stmt (G : Growth) (st st1 st2 : St) (ld ls : LExp) (dst src : Loc) (p : Path) (v w : Val)
    (hrd : resolve st ld = .ok dst) (hrs : resolve st ls = .ok src) (hv : st.read src = .ok v)
    (hdis : Loc.disjoint src dst = true)
    (ha : sopY share G false st (.assign ld (.load ls)) = .ok st1)
    (hw : st1.write ⟨src.cell, src.path ++ p⟩ w = .ok st2) :
    st2.read dst = .ok v := by
  rw [sopY_spec G st _ false] at ha
  simp only [Spec.sop, Spec.assign, Spec.evalR, hrd, hrs, hv, bind, Except.bind] at ha
  unfold St.write at ha hw
  unfold St.read at hv ⊢
  cases hr : readLoc st.cells src with
  | none => simp [hr] at hv
  | some v' =>
    simp only [hr, Except.ok.injEq] at hv
    subst hv
    cases h1 : writeLoc st.cells dst v' with
    | none => simp [h1] at ha
    | some cs1 =>
      simp only [h1, Except.ok.injEq] at ha
      subst ha
      cases h2 : writeLoc cs1 ⟨src.cell, src.path ++ p⟩ w with
      | none => simp [h2] at hw
      | some cs2 =>
        simp only [h2, Except.ok.injEq] at hw
        subst hw
        simp [assign_independent st.cells cs1 cs2 src dst v' w p hdis hr h1 h2]

/-! ### references share their referent -/

/-- **Slices share**: two variables holding the same slice value; an element written through one is read
    through the other (the element is not the header of the second variable: different cells in any typed program) -/
theorem slice_shares (G : Growth) (st st1 : St) (s t : Name) (ls lt b : Loc) (off len cap i : Nat) (w : Val)
    (hs : st.var s = .ok ls) (ht : st.var t = .ok lt)
    (hrs : st.read ls = .ok (.slice b off len cap)) (hrt : st.read lt = .ok (.slice b off len cap))
    (hi : i < len) (hdis : Loc.disjoint ⟨b.cell, b.path ++ [off + i]⟩ lt = true)
    (ha : sopY share G false st (.assign (.index (.var s) (.lit i)) (.lit w)) = .ok st1) :
    (do let d ← resolve st1 (.index (.var t) (.lit i)); st1.read d) = .ok w := by
  rw [sopY_spec G st _ false] at ha
  simp only [Spec.sop, Spec.assign, Spec.evalR, resolve, idxVal, hs, hrs, hi, if_true, bind, Except.bind] at ha
  unfold St.write at ha
  cases h1 : writeLoc st.cells ⟨b.cell, b.path ++ [off + i]⟩ w with
  | none => simp [h1] at ha
  | some cs1 =>
    simp only [h1, Except.ok.injEq] at ha
    subst ha
    have hvt : St.var { st with cells := cs1 } t = .ok lt := ht
    have hrt' : St.read { st with cells := cs1 } lt = .ok (.slice b off len cap) := by
      unfold St.read at hrt ⊢
      simp only [readLoc_writeLoc_disjoint st.cells cs1 _ lt w hdis h1]
      exact hrt
    simp only [resolve, idxVal, hvt, hrt', hi, if_true, bind, Except.bind]
    simp [St.read, readLoc_writeLoc_same st.cells cs1 _ w h1]

/-- **Pointers share**: two variables holding the same pointer; a value stored through one is read through the other -/
theorem ptr_shares (G : Growth) (st st1 : St) (p q : Name) (lp lq tgt : Loc) (w : Val)
    (hp : st.var p = .ok lp) (hq : st.var q = .ok lq)
    (hrp : st.read lp = .ok (.ptr tgt)) (hrq : st.read lq = .ok (.ptr tgt))
    (hdis : Loc.disjoint tgt lq = true)
    (ha : sopY share G false st (.assign (.deref (.var p)) (.lit w)) = .ok st1) :
    (do let d ← resolve st1 (.deref (.var q)); st1.read d) = .ok w := by
  rw [sopY_spec G st _ false] at ha
  simp only [Spec.sop, Spec.assign, Spec.evalR, resolve, hp, hrp, bind, Except.bind] at ha
  unfold St.write at ha
  cases h1 : writeLoc st.cells tgt w with
  | none => simp [h1] at ha
  | some cs1 =>
    simp only [h1, Except.ok.injEq] at ha
    subst ha
    have hvq : St.var { st with cells := cs1 } q = .ok lq := hq
    have hrq' : St.read { st with cells := cs1 } lq = .ok (.ptr tgt) := by
      unfold St.read at hrq ⊢
      simp only [readLoc_writeLoc_disjoint st.cells cs1 tgt lq w hdis h1]
      exact hrq
    simp only [resolve, hvq, hrq', bind, Except.bind]
    simp [St.read, readLoc_writeLoc_same st.cells cs1 tgt w h1]

theorem entryFind_insert (es : List (Int × Val)) (k : Int) (w : Val) : entryFind (entryInsert es k w) k = some w := by
  induction es with
  | nil => simp [entryInsert, entryFind]
  | cons e es ih =>
    obtain ⟨k', v'⟩ := e
    simp only [entryInsert]
    by_cases h1 : k = k'
    · subst h1; simp [entryFind]
    · simp only [h1, if_false]
      by_cases h2 : k < k'
      · simp [h2, entryFind]
      · have : ¬ k' = k := fun e => h1 e.symm
        simp [h2, entryFind, this, ih]

theorem entriesOf_entriesVal (es : List (Int × Val)) : entriesOf (entriesVal es) = es := by
  have toList_ofList : ∀ (l : List Val), (Vals.ofList l).toList = l := by
    intro l; induction l with
    | nil => rfl
    | cons a l ih => simp [Vals.ofList, Vals.toList, ih]
  induction es with
  | nil => simp [entriesVal, entriesOf, Vals.ofList, Vals.toList]
  | cons e es ih =>
    obtain ⟨k, v⟩ := e
    simp only [entriesVal, entriesOf, toList_ofList] at ih ⊢
    simp [ih]

/-- **Maps share**: two variables holding the same map; an entry stored through one is found through the other -/
theorem map_shares (G : Growth) (st st1 : St) (m n : Name) (lm ln : Loc) (ref k : Nat) (w zero : Val)
    (hm : st.var m = .ok lm) (hn : st.var n = .ok ln)
    (hrm : st.read lm = .ok (.map ref)) (hrn : st.read ln = .ok (.map ref))
    (hdis : Loc.disjoint ⟨ref, []⟩ ln = true)
    (ha : sopY share G false st (.mapSet (.var m) (.lit k) (.lit w)) = .ok st1) :
    Spec.evalR st1 (.lookup (.var n) (.lit k) zero) = .ok (w, st1) := by
  rw [sopY_spec G st _ false] at ha
  simp only [Spec.sop, Spec.mapSet, Spec.evalR, resolve, keyVal, idxVal, hm, hrm, mapStore, bind, Except.bind] at ha
  cases hc : st.read ⟨ref, []⟩ with
  | error e => simp [hc] at ha
  | ok c =>
    simp only [hc] at ha
    unfold St.write at ha
    cases h1 : writeLoc st.cells ⟨ref, []⟩ (entriesVal (entryInsert (entriesOf c) (Int.ofNat k) w)) with
    | none => simp only [h1] at ha; cases ha
    | some cs1 =>
      simp only [h1, Except.ok.injEq] at ha
      subst ha
      have hvn : St.var { st with cells := cs1 } n = .ok ln := hn
      have hrn' : St.read { st with cells := cs1 } ln = .ok (.map ref) := by
        unfold St.read at hrn ⊢
        simp only [readLoc_writeLoc_disjoint st.cells cs1 _ ln _ hdis h1]
        exact hrn
      have hrc : St.read { st with cells := cs1 } ⟨ref, []⟩ = .ok (entriesVal (entryInsert (entriesOf c) (Int.ofNat k) w)) := by
        simp [St.read, readLoc_writeLoc_same st.cells cs1 _ _ h1]
      simp [Spec.evalR, resolve, keyVal, idxVal, hvn, hrn', mapLookup, hrc, bind, Except.bind, entriesOf_entriesVal, entryFind_insert]

/-! ### multi-assignment is two-phase -/

/-- **Swaps work**: `l1, l2 = l2, l1` exchanges the values of any two disjoint locations (variables, fields,
    elements, pointees) — all right-hand sides are copied before any store -/
theorem multiassign_two_phase (st st1 : St) (l1 l2 : LExp) (d1 d2 : Loc) (v1 v2 : Val)
    (h1 : resolve st l1 = .ok d1) (h2 : resolve st l2 = .ok d2) (hv1 : st.read d1 = .ok v1) (hv2 : st.read d2 = .ok v2)
    (hdis : Loc.disjoint d1 d2 = true)
    (hm : multiY share st [l1, l2] [.load l2, .load l1] = .ok st1) :
    st1.read d1 = .ok v2 ∧ st1.read d2 = .ok v1 := by
  rw [multiY_spec st _ _] at hm
  simp only [Spec.multi, resolveAll, Spec.evalAll, Spec.evalR, h1, h2, hv1, hv2, writeAll, bind, Except.bind] at hm
  unfold St.write at hm
  cases ha : writeLoc st.cells d1 v2 with
  | none => simp [ha] at hm
  | some csa =>
    simp only [ha] at hm
    cases hb : writeLoc csa d2 v1 with
    | none => simp [hb] at hm
    | some csb =>
      simp only [hb, Except.ok.injEq] at hm
      subst hm
      have hd21 : Loc.disjoint d2 d1 = true := by
        simp only [Loc.disjoint, Bool.or_eq_true, bne_iff_ne, ne_eq] at hdis ⊢
        cases hdis with
        | inl h => exact .inl (fun e => h e.symm)
        | inr h => exact .inr (by rw [Path.diverge_symm]; exact h)
      constructor
      · simp [St.read, readLoc_writeLoc_disjoint csa csb d2 d1 v1 hd21 hb, readLoc_writeLoc_same st.cells csa d1 v2 ha]
      · simp [St.read, readLoc_writeLoc_same csa csb d2 v1 hb]

/-- index operands are evaluated before any store: `i, a[i] = 2, 9` with i = 0 sets a[0] -/
theorem multiassign_index_before :
    obsOf (runY share G0 St.empty
      [.s (.define 1 (.lit (.int 0))),
       .s (.define 2 (.lit (.arr (.cons (.int 5) (.cons (.int 6) (.cons (.int 7) .nil)))))),
       .s (.multi [.var 1, .index (.var 2) (.var 1)] [.lit (.int 2), .lit (.int 9)]),
       .s (.show [1, 2])]) = ⟨["v1=2 v2=[9,6,7]"], "ok"⟩ := by decide

/-! ### range: arrays are snapshotted, slices are live -/

/-- **Ranging over an array iterates over a copy**: whatever the loop body has done to the store (`st'`), iteration
    k sees element k of the array as it was when the loop started -/
theorem range_array_snapshot (st : St) (l : LExp) (loc : Loc) (vs : Vals)
    (hr : resolve st l = .ok loc) (hv : st.read loc = .ok (.arr vs)) :
    ∃ src, rangeSrcY share st l = .ok src ∧ rangeLen src = vs.toList.length ∧
      ∀ (st' : St) (k : Nat) (v : Val), vs.toList[k]? = some v → rangeElem st' src k = .ok v := by
  refine ⟨.snapshot vs.toList, ?_, rfl, ?_⟩
  · simp [rangeSrcY, hr, hv, share_rangeSnapshotsArray, bind, Except.bind]
  · intro st' k v hk; simp [rangeElem, hk]

/-- **Ranging over a slice is live**: iteration k reads element k of the backing array in the CURRENT store (the
    length is fixed when the loop starts) -/
theorem range_slice_live (st : St) (l : LExp) (loc b : Loc) (off len cap : Nat)
    (hr : resolve st l = .ok loc) (hv : st.read loc = .ok (.slice b off len cap)) :
    ∃ src, rangeSrcY share st l = .ok src ∧ rangeLen src = len ∧
      ∀ (st' : St) (k : Nat), rangeElem st' src k = st'.read ⟨b.cell, b.path ++ [off + k]⟩ := by
  refine ⟨.live b off len, ?_, rfl, ?_⟩
  · simp [rangeSrcY, hr, hv, bind, Except.bind]
  · intro st' k; rfl

/-- both, on one program: the body adds 10 to the last element; the array loop still sees 3, the slice loop sees the 33 left by the first loop plus 20 -/
theorem range_snapshot_vs_live :
    obsOf (runY share G0 St.empty
      [.s (.define 1 (.lit (.arr (.cons (.int 1) (.cons (.int 2) (.cons (.int 3) .nil)))))),
       .range (.var 1) 2 3 [.opassign (.index (.var 1) (.lit 2)) 10, .show [3]],
       .s (.define 4 (.slice (.var 1) none none none)),
       .range (.var 4) 5 6 [.opassign (.index (.var 4) (.lit 2)) 10, .show [6]]])
    = ⟨["v3=1", "v3=2", "v3=3", "v6=1", "v6=2", "v6=53"], "ok"⟩ := by decide

/-! ### calls copy their arguments -/

/-- **Arguments are copied**: the callee's parameter lives in a fresh cell (`callMutY share` allocates it:
    `dest[i].Set(val)`), so a mutation that stays inside the parameter's own value tree (no slice / pointer / map
    crossed) leaves every cell of the caller unchanged -/
theorem call_args_copied (st st3 : St) (v res : Val) (sel : LExp) (k : Int) (d : Loc)
    (hsel : resolve { (st.alloc v).2 with env := [(0, ⟨st.cells.length, []⟩)] } sel = .ok d)
    (hd : d.cell = st.cells.length)
    (hb : runMutBody (st.alloc v).2 ⟨st.cells.length, []⟩ sel k = .ok (res, st3)) :
    ∀ l : Loc, l.cell < st.cells.length → readLoc st3.cells l = readLoc st.cells l := by
  intro l hl
  simp only [runMutBody, hsel, bind, Except.bind] at hb
  unfold St.write at hb
  cases h1 : writeLoc (st.cells ++ [v]) d (.int k) with
  | none => simp [St.alloc, h1] at hb
  | some cs1 =>
    simp only [St.alloc, h1] at hb
    cases h2 : St.read { cells := cs1, env := [(0, ⟨st.cells.length, []⟩)], out := st.out } ⟨st.cells.length, []⟩ with
    | error e => simp [h2] at hb
    | ok r =>
      simp only [h2, Except.ok.injEq, Prod.mk.injEq] at hb
      obtain ⟨_, rfl⟩ := hb
      have hdis : Loc.disjoint d l = true := by
        simp only [Loc.disjoint, Bool.or_eq_true, bne_iff_ne, ne_eq]
        exact .inl (by omega)
      simp only [readLoc_writeLoc_disjoint _ cs1 d l _ hdis h1]
      simp [readLoc, List.getElem?_append_left hl]

/-- the call of the model does allocate: `l = mut(a)` with an array argument leaves `a` alone -/
theorem call_args_copied_example :
    obsOf (runY share G0 St.empty
      [.s (.define 1 (.lit (.arr (.cons (.int 1) (.cons (.int 2) .nil))))),
       .s (.callMut true (.var 2) (.index (.var 0) (.lit 0)) 99 (.load (.var 1))),
       .s (.show [1, 2])]) = ⟨["v1=[1,2] v2=[99,2]"], "ok"⟩ := by decide

/-! ### regressions: the replay program of every repaired finding now refines the specification, and the model run
    with the fact as it was BEFORE the repair reproduces the old divergence -/

/-- F21 `a := 1; a, c := 2, a` — formerly: the multi-DEFINE branch of `assign` stored sequentially and c got the NEW a;
    repaired by commit 3e30c22 of the repository (all sources are read before any destination is set) -/
def progF21 : List Op :=
  [.s (.define 1 (.lit (.int 1))),
   .s (.multidef [1, 2] [true, false] [.int 0, .int 0] [.lit (.int 2), .load (.var 1)]),
   .s (.show [1, 2])]

theorem multidefine_two_phase_fixed :
    obsOf (runY share G0 St.empty progF21) = ⟨["v1=2 v2=1"], "ok"⟩ ∧
    obsOf (Spec.runGo G0 St.empty progF21) = ⟨["v1=2 v2=1"], "ok"⟩ := by decide

/-- … and with the sequential shape (the source before 3e30c22) the model reproduces F21: c = 2 -/
theorem fact_multiDefineTemps_matters :
    obsOf (runY { share with multiDefineTemps := false } G0 St.empty progF21) = ⟨["v1=2 v2=2"], "ok"⟩ := by decide

/-- since 8bd8040 the redeclared a is set IN PLACE, so the sources must be copied first (`if redeclare { … v.Set(t[i]) … }`):
    without the copy the second source still aliases a's cell and F21 is back -/
theorem fact_multiDefineRedeclCopies_matters :
    obsOf (runY { share with multiDefineRedeclCopies := false } G0 St.empty progF21) = ⟨["v1=2 v2=2"], "ok"⟩ := by decide

/-- `a, b := 1, 2; a, b = id(b), id(a)` — formerly finding F04-1 (a multi-assign whose right-hand sides are calls
    was not two-phase: 2 2), repaired by commit 647e2cf of the repository -/
def progCallSwap : List Op :=
  [.s (.define 1 (.lit (.int 1))), .s (.define 2 (.lit (.int 2))),
   .s (.multi [.var 1, .var 2] [.idcall (.load (.var 2)), .idcall (.load (.var 1))]),
   .s (.show [1, 2])]

/-- `a, c := 1, 5; a, b = id(b), c` — formerly: the assignments that are not calls were dropped (b stayed 2) -/
def progCallDrop : List Op :=
  [.s (.define 1 (.lit (.int 1))), .s (.define 2 (.lit (.int 2))), .s (.define 3 (.lit (.int 5))),
   .s (.multi [.var 1, .var 2] [.idcall (.load (.var 2)), .load (.var 3)]),
   .s (.show [1, 2])]

theorem multi_shortcut_fixed :
    obsOf (runY share G0 St.empty progCallSwap) = ⟨["v1=2 v2=1"], "ok"⟩ ∧
    obsOf (runY share G0 St.empty progCallDrop) = ⟨["v1=2 v2=5"], "ok"⟩ := by decide

/-- … and without the guard arm of cfg.go (the source before 647e2cf) the model reproduces the old divergence:
    2 2 for the swap, b unchanged for the mixed statement -/
theorem fact_shortcutGuardsSingle_matters :
    obsOf (runY { share with shortcutGuardsSingle := false } G0 St.empty progCallSwap) = ⟨["v1=2 v2=2"], "ok"⟩ ∧
    obsOf (runY { share with shortcutGuardsSingle := false } G0 St.empty progCallDrop) = ⟨["v1=2 v2=2"], "ok"⟩ ∧
    obsOf (Spec.runGo G0 St.empty progCallSwap) = ⟨["v1=2 v2=1"], "ok"⟩ ∧
    obsOf (Spec.runGo G0 St.empty progCallDrop) = ⟨["v1=2 v2=5"], "ok"⟩ := by decide

/-- `p := P{1,2}; q := &p; p = P{0,-7}; p.X = q.X` — formerly finding F04-2 (a struct literal assigned to a variable
    whose address was taken rebound the variable instead of storing through it: {1 -7} {1 2}); repaired by commit
    3590fb8 of the repository -/
def progStructLit : List Op :=
  [.s (.define 1 (.lit (.str (.cons (.int 1) (.cons (.int 2) .nil))))),
   .s (.define 2 (.addr (.var 1))),
   .s (.assign (.var 1) (.lit (.str (.cons (.int 0) (.cons (.int (-7)) .nil))))),
   .s (.assign (.field (.var 1) 0) (.load (.field (.var 2) 0))),
   .s (.show [1, 2])]

theorem struct_lit_assign_fixed :
    obsOf (runY share G0 St.empty progStructLit) = ⟨["v1={0,-7} v2=&{0,-7}"], "ok"⟩ := by decide

/-- … and without doComposite's arm for plain assignments (the source before 3590fb8) the model reproduces it -/
theorem fact_structLitAssignSets_matters :
    obsOf (runY { share with structLitAssignSets := false } G0 St.empty progStructLit) = ⟨["v1={1,-7} v2=&{1,2}"], "ok"⟩ ∧
    obsOf (Spec.runGo G0 St.empty progStructLit) = ⟨["v1={0,-7} v2=&{0,-7}"], "ok"⟩ := by decide

/-- `for _, k := range []int{1,2,1} { r, ok := m[k]; … }` with m = {1: 1} — formerly finding F04-3 (a missing key
    left r untouched: 1 1 1); repaired by commit 6b8d7ae of the repository (the zero value is stored) -/
def progLookup2 : List Op :=
  [.s (.define 1 (.mkmap (.cons (.str (.cons (.int 1) (.cons (.int 1) .nil))) .nil))),
   .s (.define 2 (.mkslice (.cons (.int 1) (.cons (.int 2) (.cons (.int 1) .nil))))),
   .range (.var 2) 3 4 [.lookup2 true 5 6 (.var 1) (.var 4) (.int 0) false false, .show [5, 6]]]

theorem lookup2_zero_fixed :
    obsOf (runY share G0 St.empty progLookup2) = ⟨["v5=1 v6=1", "v5=0 v6=0", "v5=1 v6=1"], "ok"⟩ ∧
    obsOf (Spec.runGo G0 St.empty progLookup2) = ⟨["v5=1 v6=1", "v5=0 v6=0", "v5=1 v6=1"], "ok"⟩ := by decide

theorem fact_lookup2OnlyIfValid_matters :
    obsOf (runY { share with lookup2OnlyIfValid := true, lookup2DefineFresh := false } G0 St.empty progLookup2)
      = ⟨["v5=1 v6=1", "v5=1 v6=0", "v5=1 v6=1"], "ok"⟩ := by decide

/-- F04-12 `for _, k := range []int{1,2,1} { r, ok := m[k]; ps = append(ps, &r) }` — formerly `r, ok := m[k]` in a loop
    body did not declare a new r per iteration (1 1 1 through the pointers); repaired by commit 5a404d3 of the repository
    (genValueDefine) -/
def progLookup2Loop : List Op :=
  [.s (.define 1 (.mkmap (.cons (.str (.cons (.int 1) (.cons (.int 1) .nil))) .nil))),
   .s (.define 2 (.mkslice (.cons (.int 1) (.cons (.int 2) (.cons (.int 1) .nil))))),
   .s (.define 7 (.mkslice .nil)),
   .range (.var 2) 3 4 [.lookup2 true 5 6 (.var 1) (.var 4) (.int 0) false false,
                        .append false (.var 7) (.load (.var 7)) [.addr (.var 5)] .nil 8 false],
   .s (.show [7])]

theorem lookup2_define_in_loop_fixed :
    shapesOf progLookup2Loop = ["lookup2-define-in-loop"] ∧
    obsOf (runY share G0 St.empty progLookup2Loop) = ⟨["v7=s3/4[&1,&0,&1]"], "ok"⟩ ∧
    obsOf (Spec.runGo G0 St.empty progLookup2Loop) = ⟨["v7=s3/4[&1,&0,&1]"], "ok"⟩ := by decide

/-- … and with plain `genValue` destinations (the source before 5a404d3) the three pointers are one variable -/
theorem fact_lookup2DefineFresh_matters :
    obsOf (runY { share with lookup2DefineFresh := false } G0 St.empty progLookup2Loop) = ⟨["v7=s3/4[&1,&1,&1]"], "ok"⟩ := by decide

/-- `v := 7; p := &v; v, ok := m[1]` with m = {1: 4}: v is only redeclared, it is assigned and p sees 4 -/
def progLookup2Redecl : List Op :=
  [.s (.define 1 (.mkmap (.cons (.str (.cons (.int 1) (.cons (.int 4) .nil))) .nil))),
   .s (.define 2 (.lit (.int 7))), .s (.define 3 (.addr (.var 2))),
   .s (.lookup2 true 2 4 (.var 1) (.lit 1) (.int 0) true false),
   .s (.show [2, 3, 4])]

/-- the guard of genValueDefine (`… || n.redeclared || …`) matters: without it the redeclared v would be re-created
    and p would keep the old variable -/
theorem fact_lookup2RedeclInPlace_matters :
    obsOf (runY share G0 St.empty progLookup2Redecl) = ⟨["v2=4 v3=&4 v4=1"], "ok"⟩ ∧
    obsOf (Spec.runGo G0 St.empty progLookup2Redecl) = ⟨["v2=4 v3=&4 v4=1"], "ok"⟩ ∧
    obsOf (runY { share with lookup2RedeclInPlace := false } G0 St.empty progLookup2Redecl) = ⟨["v2=4 v3=&7 v4=1"], "ok"⟩ := by decide

/-- F04-4 `for _, e := range [2]int{1,2} { v := [1]int{7}; p = append(p, &v) }; (*p[0])[0] += 100` — formerly an array
    literal declared in a loop body was stored through the cell of the previous iteration ([107] [107]); repaired by
    commit 1436613 of the repository (genValueLit) -/
def progLoopLit : List Op :=
  [.s (.define 1 (.lit (.arr (.cons (.int 1) (.cons (.int 2) .nil))))),
   .s (.define 2 (.mkslice .nil)),
   .range (.var 1) 3 4 [.define 5 (.lit (.arr (.cons (.int 7) .nil))),
                        .append false (.var 2) (.load (.var 2)) [.addr (.var 5)] .nil 8 false],
   .s (.opassign (.index (.deref (.index (.var 2) (.lit 0))) (.lit 0)) 100),
   .s (.show [2])]

theorem define_lit_in_loop_fixed :
    shapesOf progLoopLit = ["define-lit-in-loop"] ∧
    obsOf (runY share G0 St.empty progLoopLit) = ⟨["v2=s2/2[&[107],&[7]]"], "ok"⟩ ∧
    obsOf (Spec.runGo G0 St.empty progLoopLit) = ⟨["v2=s2/2[&[107],&[7]]"], "ok"⟩ := by decide

/-- the same with a slice literal and a map literal declared in the body, their addresses kept twice per iteration -/
def progLoopSliceLit : List Op :=
  [.s (.define 1 (.lit (.arr (.cons (.int 1) (.cons (.int 2) .nil))))),
   .s (.define 2 (.mkslice .nil)),
   .range (.var 1) 3 4 [.define 5 (.mkslice (.cons (.int 7) .nil)),
                        .append false (.var 2) (.load (.var 2)) [.addr (.var 5)] .nil 8 false,
                        .define 6 (.mkmap .nil), .mapSet (.var 6) (.lit 1) (.load (.var 4)),
                        .append false (.var 2) (.load (.var 2)) [.addr (.var 5)] .nil 8 false],
   .s (.assign (.deref (.index (.var 2) (.lit 0))) (.mkslice .nil)),
   .s (.show [2])]

/-- … and with `valueGenerator(n, n.findex)` in arrayLit / mapLit (the source before 1436613) every pointer is the one variable -/
theorem fact_arrayLitFresh_matters :
    obsOf (runY { share with arrayLitFresh := false } G0 St.empty progLoopLit) = ⟨["v2=s2/2[&[107],&[107]]"], "ok"⟩ ∧
    obsOf (runY share G0 St.empty progLoopSliceLit) = ⟨["v2=s4/4[&s0/0[],&s0/0[],&s1/1[7],&s1/1[7]]"], "ok"⟩ ∧
    obsOf (runY { share with arrayLitFresh := false } G0 St.empty progLoopSliceLit)
      = ⟨["v2=s4/4[&s0/0[],&s0/0[],&s0/0[],&s0/0[]]"], "ok"⟩ := by decide

/-- `a := [1]int{1}; p := &a; a = [1]int{2}`: genValueLit keeps the in-place store for a literal ASSIGNED to an existing
    variable (`if n.anc.kind == assignStmt`); without that arm the assignment would re-create a and p would keep [1] -/
def progLitAssign : List Op :=
  [.s (.define 1 (.lit (.arr (.cons (.int 1) .nil)))), .s (.define 2 (.addr (.var 1))),
   .s (.assign (.var 1) (.lit (.arr (.cons (.int 2) .nil)))), .s (.show [1, 2])]

theorem fact_arrayLitAssignInPlace_matters :
    obsOf (runY share G0 St.empty progLitAssign) = ⟨["v1=[2] v2=&[2]"], "ok"⟩ ∧
    obsOf (Spec.runGo G0 St.empty progLitAssign) = ⟨["v1=[2] v2=&[2]"], "ok"⟩ ∧
    obsOf (runY { share with arrayLitAssignInPlace := false } G0 St.empty progLitAssign) = ⟨["v1=[2] v2=&[1]"], "ok"⟩ := by decide

/-- F04-11 `for … { p := &[2]int{7,7}; p[0] = e; ps = append(ps, p) }` — formerly `&[n]T{…}` evaluated again yielded the
    same pointer; repaired by the same commit 1436613. (The model's `new` always allocated: the old behaviour of THIS
    shape was never expressible with a fact — it lives in the literal's own frame slot — and is covered by the source
    replay of F04-11 and the harness's default stream.) -/
def progAddrLitLoop : List Op :=
  [.s (.define 1 (.lit (.arr (.cons (.int 0) (.cons (.int 1) .nil))))),
   .s (.define 2 (.mkslice .nil)),
   .range (.var 1) 3 4 [.define 5 (.new (.arr (.cons (.int 7) (.cons (.int 7) .nil)))),
                        .assign (.index (.var 5) (.lit 0)) (.load (.var 4)),
                        .append false (.var 2) (.load (.var 2)) [.load (.var 5)] .nil 8 false],
   .s (.show [2])]

theorem addr_arraylit_in_loop_fixed :
    obsOf (runY share G0 St.empty progAddrLitLoop) = ⟨["v2=s2/2[&[0,7],&[1,7]]"], "ok"⟩ ∧
    obsOf (Spec.runGo G0 St.empty progAddrLitLoop) = ⟨["v2=s2/2[&[0,7],&[1,7]]"], "ok"⟩ := by decide

/-- F04-5 `a := 1; pa := &a; a, c := 2, 3` — formerly a merely redeclared variable got a new cell (*pa stayed 1);
    repaired by commits 8bd8040 and 6ebc898 of the repository -/
def progRedecl : List Op :=
  [.s (.define 1 (.lit (.int 1))), .s (.define 2 (.addr (.var 1))),
   .s (.multidef [1, 3] [true, false] [.int 0, .int 0] [.lit (.int 2), .lit (.int 3)]),
   .s (.show [1, 2, 3])]

theorem multidefine_redeclared_fixed :
    shapesOf progRedecl = ["multidefine-redeclared"] ∧
    obsOf (runY share G0 St.empty progRedecl) = ⟨["v1=2 v2=&2 v3=3"], "ok"⟩ ∧
    obsOf (Spec.runGo G0 St.empty progRedecl) = ⟨["v1=2 v2=&2 v3=3"], "ok"⟩ := by decide

theorem fact_multiDefineRedeclAssigns_matters :
    obsOf (runY { share with multiDefineRedeclAssigns := false } G0 St.empty progRedecl) = ⟨["v1=2 v2=&1 v3=3"], "ok"⟩ := by decide

/-- F04-6 `s := []int{1,2,3}; t := append(s[:0], s[1], s[0])` — formerly the operands of append were aliasing slots
    stored one by one ([2 2]); repaired by commit b312e89 of the repository -/
def progAppendAlias : List Op :=
  [.s (.define 1 (.mkslice (.cons (.int 1) (.cons (.int 2) (.cons (.int 3) .nil))))),
   .s (.append true (.var 2) (.slice (.var 1) none (some (.lit 0)) none)
        [.load (.index (.var 1) (.lit 1)), .load (.index (.var 1) (.lit 0))] (.int 0) 8 true),
   .s (.show [1, 2])]

theorem append_alias_fixed :
    shapesOf progAppendAlias = ["append-alias-args"] ∧
    obsOf (runY share G0 St.empty progAppendAlias) = ⟨["v1=s3/3[2,1,3] v2=s2/3[2,1]"], "ok"⟩ ∧
    obsOf (Spec.runGo G0 St.empty progAppendAlias) = ⟨["v1=s3/3[2,1,3] v2=s2/3[2,1]"], "ok"⟩ := by decide

theorem fact_appendArgsAreSlots_matters :
    obsOf (runY { share with appendArgsAreSlots := true } G0 St.empty progAppendAlias) = ⟨["v1=s3/3[2,2,3] v2=s2/3[2,2]"], "ok"⟩ := by decide

/-- F04-10 `m := map[int]int{2: 1}; ps := []*int{nil}; m[2] = *ps[0]` — formerly the nil dereference went unnoticed and
    the store deleted the key; repaired by commit 93fb945 of the repository (the dereference panics) -/
def progNilDerefMap : List Op :=
  [.s (.define 1 (.mkmap (.cons (.str (.cons (.int 2) (.cons (.int 1) .nil))) .nil))),
   .s (.define 2 (.mkslice (.cons .nil .nil))),
   .s (.mapSet (.var 1) (.lit 2) (.load (.deref (.index (.var 2) (.lit 0))))),
   .s (.show [1])]

theorem nil_deref_map_store_fixed :
    shapesOf progNilDerefMap = ["nil-deref-map-store"] ∧
    obsOf (runY share G0 St.empty progNilDerefMap) = ⟨[], "nilderef"⟩ ∧
    obsOf (Spec.runGo G0 St.empty progNilDerefMap) = ⟨[], "nilderef"⟩ := by decide

theorem fact_derefNilPanics_matters :
    obsOf (runY { share with derefNilPanics := false } G0 St.empty progNilDerefMap) = ⟨["v1=m[]"], "ok"⟩ := by decide

/-- F04-7 / F04-9 `a := [3]int{1,2,3}; pa := &a; for i, v := range pa { a[2] += 10 }; pa[1] = 5; q := &pa[0]; *q = 7` —
    ranging over a pointer to an array is live on the pointee and leaves the pointer usable (formerly the pointer variable
    was overwritten by the ranged array: repaired by da35a0b, a frame-layout matter the model has no fact for — its
    anchor is the fingerprint "cfg.go: rangeStmt, case ptrT"); `&pa[0]` is accepted (formerly a compile error:
    repaired by 0780d8c, fingerprint "addressExpr") -/
def progRangePtr : List Op :=
  [.s (.define 1 (.lit (.arr (.cons (.int 1) (.cons (.int 2) (.cons (.int 3) .nil)))))),
   .s (.define 2 (.addr (.var 1))),
   .range (.var 2) 3 4 [.opassign (.index (.var 1) (.lit 2)) 10, .show [3, 4]],
   .s (.assign (.index (.var 2) (.lit 1)) (.lit (.int 5))),
   .s (.define 5 (.addr (.index (.var 2) (.lit 0)))),
   .s (.assign (.deref (.var 5)) (.lit (.int 7))),
   .s (.show [1, 2, 5])]

theorem range_ptr_array_fixed :
    obsOf (runY share G0 St.empty progRangePtr)
      = ⟨["v3=0 v4=1", "v3=1 v4=2", "v3=2 v4=23", "v1=[7,5,33] v2=&[7,5,33] v5=&7"], "ok"⟩ ∧
    obsOf (Spec.runGo G0 St.empty progRangePtr)
      = ⟨["v3=0 v4=1", "v3=1 v4=2", "v3=2 v4=23", "v1=[7,5,33] v2=&[7,5,33] v5=&7"], "ok"⟩ := by decide

/-- **Ranging over a pointer to an array is live on the pointee**: iteration k reads element k of the array the pointer
    pointed to when the loop started, in the CURRENT store -/
theorem range_ptr_live (st : St) (l : LExp) (loc t : Loc) (vs : Vals)
    (hr : resolve st l = .ok loc) (hv : st.read loc = .ok (.ptr t)) (ha : st.read t = .ok (.arr vs)) :
    ∃ src, rangeSrcY share st l = .ok src ∧ rangeLen src = vs.length ∧
      ∀ (st' : St) (k : Nat), rangeElem st' src k = st'.read ⟨t.cell, t.path ++ [0 + k]⟩ := by
  refine ⟨.live t 0 vs.length, ?_, rfl, ?_⟩
  · simp [rangeSrcY, hr, hv, ha, bind, Except.bind]
  · intro st' k; rfl

/-- F08-7 `x := P{1,2}; p := &x; a := [2]int{0,0}; x = <-c (holding {5,6}); a[1] = <-c (holding 9)` — formerly the receive
    node took the place of the destination: the variable's cell was swapped (*p stale) and an element received nothing;
    repaired by commit 212dc2e of the repository (the received value is assigned like any other) -/
def progRecv : List Op :=
  [.s (.define 1 (.lit (.str (.cons (.int 1) (.cons (.int 2) .nil))))),
   .s (.define 2 (.addr (.var 1))),
   .s (.define 3 (.lit (.arr (.cons (.int 0) (.cons (.int 0) .nil))))),
   .s (.recv false (.var 1) (.lit (.str (.cons (.int 5) (.cons (.int 6) .nil))))),
   .s (.recv false (.index (.var 3) (.lit 1)) (.lit (.int 9))),
   .s (.recv false (.field (.var 2) 0) (.load (.index (.var 3) (.lit 1)))),
   .s (.show [1, 2, 3])]

theorem recv_assign_fixed :
    shapesOf progRecv = ["recv-assign-var", "recv-assign-elem", "recv-assign-elem"] ∧
    obsOf (runY share G0 St.empty progRecv) = ⟨["v1={9,6} v2=&{9,6} v3=[0,9]"], "ok"⟩ ∧
    obsOf (Spec.runGo G0 St.empty progRecv) = ⟨["v1={9,6} v2=&{9,6} v3=[0,9]"], "ok"⟩ := by decide

/-- … and with the `src.action == aRecv` arm of cfg.go (the source before 212dc2e) the model reproduces both halves of F08-7 -/
theorem fact_recvAssignsValue_matters :
    obsOf (runY { share with recvAssignsValue := false } G0 St.empty progRecv) = ⟨["v1={5,6} v2=&{1,2} v3=[0,0]"], "ok"⟩ := by decide

/-- F04-14 `for _, k := range []int{1,2,1} { v, ok := e.(int) /* holds 7 when k = 1, fails when k = 2 */; ps = append(ps, &v) }` —
    formerly one v for all iterations and a stale v after a failure; repaired by commit daee744 of the repository -/
def progAssertLoop : List Op :=
  [.s (.define 1 (.mkslice .nil)),
   .s (.define 2 (.lit (.arr (.cons (.int 7) (.cons (.int 8) .nil))))),
   .range (.var 2) 3 4 [.assert2 true 5 6 (.load (.var 4)) true (.int 0) false false,
                        .append false (.var 1) (.load (.var 1)) [.addr (.var 5)] .nil 8 false,
                        .assert2 false 5 6 (.load (.var 4)) false (.int 0) false false,
                        .show [5, 6]],
   .s (.show [1])]

theorem assert2_define_in_loop_fixed :
    obsOf (runY share G0 St.empty progAssertLoop) = ⟨["v5=0 v6=0", "v5=0 v6=0", "v1=s2/2[&0,&0]"], "ok"⟩ ∧
    obsOf (Spec.runGo G0 St.empty progAssertLoop) = ⟨["v5=0 v6=0", "v5=0 v6=0", "v1=s2/2[&0,&0]"], "ok"⟩ := by decide

/-- … without `setResult`'s zeroing the failed assertion leaves 7 / 8 in v; without genValueDefine both pointers are one variable -/
theorem fact_assert_matters :
    obsOf (runY { share with assertZeroOnFail := false } G0 St.empty progAssertLoop)
      = ⟨["v5=7 v6=0", "v5=8 v6=0", "v1=s2/2[&7,&8]"], "ok"⟩ ∧
    obsOf (runY { share with assertDefineFresh := false } G0 St.empty progAssertLoop)
      = ⟨["v5=0 v6=0", "v5=0 v6=0", "v1=s2/2[&0,&0]"], "ok"⟩ ∧
    obsOf (runY { share with assertDefineFresh := false, assertZeroOnFail := false } G0 St.empty progAssertLoop)
      = ⟨["v5=7 v6=0", "v5=8 v6=0", "v1=s2/2[&8,&8]"], "ok"⟩ := by decide

/-- F04-20 `g := P{1,2}; g = f(&g)` with `func f(q *P) (r P) { r.X = 5; r.Y = q.X; return }`, then `h := P{1,2}; h = f2(&h)` where f2
    only sets r.X, then an element destination — formerly the callee's named result WAS the destination's cell ({5 5}, {5 2}); repaired
    by commit 1b5ab85 of the repository (results are fresh cells of the callee frame, copied after the call) -/
def progCallNamed : List Op :=
  [.s (.define 1 (.lit (.str (.cons (.int 1) (.cons (.int 2) .nil))))),
   .s (.callNamed false (.var 1) (.var 1) (.field (.var 0) 0) 5 (.field (.var 0) 1) (.field (.var 0) 0) (.str (.cons (.int 0) (.cons (.int 0) .nil)))),
   .s (.define 2 (.lit (.str (.cons (.int 1) (.cons (.int 2) .nil))))),
   .s (.callNamed false (.var 2) (.var 2) (.field (.var 0) 0) 5 (.field (.var 0) 0) (.field (.var 0) 0) (.str (.cons (.int 0) (.cons (.int 0) .nil)))),
   .s (.define 3 (.lit (.arr (.cons (.str (.cons (.int 1) (.cons (.int 2) .nil))) (.cons (.str (.cons (.int 3) (.cons (.int 4) .nil))) .nil))))),
   .s (.callNamed false (.index (.var 3) (.lit 0)) (.index (.var 3) (.lit 0)) (.field (.var 0) 0) 5 (.field (.var 0) 1) (.field (.var 0) 0)
        (.str (.cons (.int 0) (.cons (.int 0) .nil)))),
   .s (.show [1, 2, 3])]

theorem call_named_result_fixed :
    obsOf (runY share G0 St.empty progCallNamed) = ⟨["v1={5,1} v2={1,0} v3=[{5,1},{3,4}]"], "ok"⟩ ∧
    obsOf (Spec.runGo G0 St.empty progCallNamed) = ⟨["v1={5,1} v2={1,0} v3=[{5,1},{3,4}]"], "ok"⟩ := by decide

/-- … and with the destination's cell as result slot (the source before 1b5ab85) the model reproduces F04-20 -/
theorem fact_callResultsFresh_matters :
    obsOf (runY { share with callResultsFresh := false } G0 St.empty progCallNamed) = ⟨["v1={5,5} v2={5,2} v3=[{5,5},{3,4}]"], "ok"⟩ := by decide

/-- F04-19 `x, y := sw()` and `a[0], a[1] = sw()` with `func sw() (a, b int) { a, b = 1, 2; return b, a }` — formerly 2 2; repaired by
    commit 8544122 of the repository -/
def progRetSwap : List Op :=
  [.s (.retSwap true (.var 1) (.var 2) (.int 1) (.int 2)),
   .s (.define 3 (.lit (.arr (.cons (.int 0) (.cons (.int 0) .nil))))),
   .s (.retSwap false (.index (.var 3) (.lit 0)) (.index (.var 3) (.lit 1)) (.int 7) (.int 8)),
   .s (.show [1, 2, 3])]

theorem return_permutes_results_fixed :
    obsOf (runY share G0 St.empty progRetSwap) = ⟨["v1=2 v2=1 v3=[8,7]"], "ok"⟩ ∧
    obsOf (Spec.runGo G0 St.empty progRetSwap) = ⟨["v1=2 v2=1 v3=[8,7]"], "ok"⟩ := by decide

theorem fact_returnTwoPhase_matters :
    obsOf (runY { share with returnTwoPhase := false } G0 St.empty progRetSwap) = ⟨["v1=2 v2=2 v3=[8,8]"], "ok"⟩ := by decide

/-! ### a literal whose operands read the destination -/

/-- **The operands of a composite literal see the OLD value of the destination**: `l = T{…, e_i, …}` where the `e_i` may be
    fields / elements of `l` itself (directly or through a pointer alias). If the operand expressions, evaluated in the state
    BEFORE the statement, yield `vs`, and the literal built from them is `v`, then after the statement — as the mechanism
    executes it — the destination holds exactly `v`. For every destination (variable, field, element, pointee), struct or
    array literal, positional / keyed / partial / nested (the paths), first or repeated execution. -/
theorem literal_reads_destination_safe (G : Growth) (st st1 st' : St) (reexec : Bool) (l : LExp) (isStruct : Bool) (zero : Val)
    (elems : List (Path × RExp)) (d : Loc) (vs : List Val) (v : Val)
    (hd : resolve st l = .ok d)
    (he : Spec.evalAll st (elems.map (·.2)) = .ok (vs, st1))
    (hb : buildLit zero (elems.map (·.1)) vs = .ok v)
    (hrun : sopY share G reexec st (.complit false l isStruct zero elems) = .ok st') :
    st'.read d = .ok v := by
  rw [sopY_spec G st _ reexec] at hrun
  simp only [Spec.sop, Spec.complit, Bool.false_eq_true, if_false, hd, he, hb, bind, Except.bind] at hrun
  unfold St.write at hrun
  cases hw : writeLoc st1.cells d v with
  | none => simp [hw] at hrun
  | some cs =>
    simp only [hw, Except.ok.injEq] at hrun
    subst hrun
    simp [St.read, readLoc_writeLoc_same st1.cells cs d v hw]

/-- `p := P{1,2}; q := &p; p = P{p.Y, p.X}; p = P{Y: q.X, X: q.Y}; r := [2]P{p, p}; r[0] = P{r[0].Y, r[1].X}; r = [2]P{r[1], {X: r[0].Y}}` -/
def progLitSwap : List Op :=
  [.s (.define 1 (.lit (.str (.cons (.int 1) (.cons (.int 2) .nil))))),
   .s (.define 2 (.addr (.var 1))),
   .s (.complit false (.var 1) true (.str (.cons (.int 0) (.cons (.int 0) .nil)))
        [([0], .load (.field (.var 1) 1)), ([1], .load (.field (.var 1) 0))]),
   .s (.show [1, 2]),
   .s (.complit false (.var 1) true (.str (.cons (.int 0) (.cons (.int 0) .nil)))
        [([1], .load (.field (.var 2) 0)), ([0], .load (.field (.var 2) 1))]),
   .s (.show [1, 2]),
   .s (.complit true (.var 3) false (.arr (.cons (.str (.cons (.int 0) (.cons (.int 0) .nil))) (.cons (.str (.cons (.int 0) (.cons (.int 0) .nil))) .nil)))
        [([0], .load (.var 1)), ([1], .load (.var 1))]),
   .s (.complit false (.index (.var 3) (.lit 0)) true (.str (.cons (.int 0) (.cons (.int 0) .nil)))
        [([0], .load (.field (.index (.var 3) (.lit 0)) 1)), ([1], .load (.field (.index (.var 3) (.lit 1)) 0))]),
   .s (.complit false (.var 3) false (.arr (.cons (.str (.cons (.int 0) (.cons (.int 0) .nil))) (.cons (.str (.cons (.int 0) (.cons (.int 0) .nil))) .nil)))
        [([0], .load (.index (.var 3) (.lit 1))), ([1, 0], .load (.field (.index (.var 3) (.lit 0)) 1))]),
   .s (.show [1, 2, 3])]

theorem literal_swap_example :
    obsOf (runY share G0 St.empty progLitSwap) = ⟨["v1={2,1} v2=&{2,1}", "v1={1,2} v2=&{1,2}", "v1={1,2} v2=&{1,2} v3=[{1,2},{1,0}]"], "ok"⟩ ∧
    obsOf (Spec.runGo G0 St.empty progLitSwap) = ⟨["v1={2,1} v2=&{2,1}", "v1={1,2} v2=&{1,2}", "v1={1,2} v2=&{1,2} v3=[{1,2},{1,0}]"], "ok"⟩ := by decide

/-- the struct must be built in a temporary: a doComposite that fills the destination variable itself (the seeded change
    C04-3: `inPlace := n.anc.kind == assignStmt && … len(values) == rt.NumField()`) reads p.X after it has been overwritten —
    the swap gives {2,2}, the swap back through the alias {2,2} again -/
theorem fact_structLitInTemp_matters :
    obsOf (runY { share with structLitInTemp := false } G0 St.empty progLitSwap)
      = ⟨["v1={2,2} v2=&{2,2}", "v1={2,2} v2=&{2,2}", "v1={2,2} v2=&{2,2} v3=[{2,2},{2,0}]"], "ok"⟩ := by decide

/-! ### the facts matter: with one choice flipped, a program tells the model from the specification
    (what the correspondence run would see after such a change of the source) -/

/-- `genValueRangeArray` without the `Interface()` round trip: ranging over an array becomes live -/
theorem fact_rangeSnapshotsArray_matters :
    let ops : List Op :=
      [.s (.define 1 (.lit (.arr (.cons (.int 1) (.cons (.int 2) .nil))))),
       .range (.var 1) 2 3 [.opassign (.index (.var 1) (.lit 1)) 10, .show [3]]]
    obsOf (runY { share with rangeSnapshotsArray := false } G0 St.empty ops) ≠ obsOf (Spec.runGo G0 St.empty ops) := by decide

/-- multi-assign without temporaries: a swap duplicates one value -/
theorem fact_multiTemps_matters :
    let ops : List Op :=
      [.s (.define 1 (.lit (.int 1))), .s (.define 2 (.lit (.int 2))),
       .s (.multi [.var 1, .var 2] [.load (.var 2), .load (.var 1)]), .s (.show [1, 2])]
    obsOf (runY { share with multiTemps := false } G0 St.empty ops) ≠ obsOf (Spec.runGo G0 St.empty ops) := by decide

/-- `dest[i] = val` in call: the parameter aliases the caller's variable -/
theorem fact_callCopiesArgs_matters :
    let ops : List Op :=
      [.s (.define 1 (.lit (.arr (.cons (.int 1) (.cons (.int 2) .nil))))),
       .s (.callMut true (.var 2) (.index (.var 0) (.lit 0)) 99 (.load (.var 1))), .s (.show [1, 2])]
    obsOf (runY { share with callCopiesArgs := false } G0 St.empty ops) ≠ obsOf (Spec.runGo G0 St.empty ops) := by decide

/-- getFunc without `clone()`: every closure sees the variable of the last iteration -/
theorem fact_closureClonesFrame_matters :
    let ops : List Op :=
      [.s (.define 1 (.lit (.arr (.cons (.int 1) (.cons (.int 2) .nil))))),
       .capture (.var 1) 2 (.var 0) 100 [0, 1]]
    obsOf (runY { share with closureClonesFrame := false } G0 St.empty ops) ≠ obsOf (Spec.runGo G0 St.empty ops) := by decide

/-- define without `reflect.New`: a variable declared in a loop body is one cell for all iterations -/
theorem fact_defineFresh_matters :
    let ops : List Op :=
      [.s (.define 1 (.lit (.arr (.cons (.int 1) (.cons (.int 2) .nil))))),
       .capture (.var 1) 2 (.var 0) 100 [0, 1]]
    obsOf (runY { share with defineFresh := false } G0 St.empty ops) ≠ obsOf (Spec.runGo G0 St.empty ops) := by decide

end YaegiVerif.Props.C04
