import YaegiVerif.Model.Ops
import YaegiVerif.Spec.GoInt
import YaegiVerif.Expected.C02
import YaegiVerif.Generated.C02
import YaegiVerif.Proofs.C02Core
import YaegiVerif.Proofs.C02Ring
import YaegiVerif.Proofs.C02Div
import YaegiVerif.Proofs.C02Shift
import YaegiVerif.Proofs.C02Cmp
import YaegiVerif.Proofs.C02Entry
import YaegiVerif.Proofs.C02Aux
import YaegiVerif.Proofs.C02Str
/-
  C02 — property theorems: operators and conversions on the integer kinds.

  Layout
    1. ties: the operator table / widening table regenerated from interp/op.go, run.go, value.go equal the
       hand-checked expectation (one theorem per function of op.go, so a broken tie names the function);
    2. `generated_wf`, `generated_widen_wf`: the REGENERATED tables themselves have the shape the theorems need;
    3. the structured operators (`binop`, `shiftop`, `unop`, `incdecop`, `convInt`: widen to 64 bits, operate,
       narrow) compute Go's results for ALL widths w ≤ 64 and ALL operand values — `add_correct` …;
    4. `optable_*`: for EVERY integer entry of the regenerated table, the closure (`evalEntry`) computes Go's
       result for the operator the function is named after — for all widths and all values;
    5. `C02_shl_full`, `C02_shr_full`: the shifts at full strength (possible since the repair 002dfac of F02), with
       regression theorems for the repaired findings F02 (`optable_shl_negative_count_panics`) and F02-2
       (`incdec_uintptr_regression`). The other repaired findings (F02-3, F02-5, F02-7, F02-8) and the open ones
       (F02-4, F02-9 … F02-13) concern which closure cfg.go selects, argument passing, floating-point / complex /
       string constants: outside this integer model, they are replayed by the harness on every run.

  Float, complex and string closures are covered by the ties (1) and by the enumeration against compiled Go
  only (no kernel IEEE-754 model): see props/C02.json.
-/
namespace YaegiVerif.Props.C02
open YaegiVerif YaegiVerif.Ops YaegiVerif.Spec.GoInt YaegiVerif.Proofs.C02

/-! ## 1. Ties -/

theorem tie_add : Generated.C02.t_add = Expected.C02.t_add := by decide
theorem tie_addConst : Generated.C02.t_addConst = Expected.C02.t_addConst := by decide
theorem tie_and : Generated.C02.t_and = Expected.C02.t_and := by decide
theorem tie_andConst : Generated.C02.t_andConst = Expected.C02.t_andConst := by decide
theorem tie_andNot : Generated.C02.t_andNot = Expected.C02.t_andNot := by decide
theorem tie_andNotConst : Generated.C02.t_andNotConst = Expected.C02.t_andNotConst := by decide
theorem tie_mul : Generated.C02.t_mul = Expected.C02.t_mul := by decide
theorem tie_mulConst : Generated.C02.t_mulConst = Expected.C02.t_mulConst := by decide
theorem tie_or : Generated.C02.t_or = Expected.C02.t_or := by decide
theorem tie_orConst : Generated.C02.t_orConst = Expected.C02.t_orConst := by decide
theorem tie_quo : Generated.C02.t_quo = Expected.C02.t_quo := by decide
theorem tie_quoConst : Generated.C02.t_quoConst = Expected.C02.t_quoConst := by decide
theorem tie_rem : Generated.C02.t_rem = Expected.C02.t_rem := by decide
theorem tie_remConst : Generated.C02.t_remConst = Expected.C02.t_remConst := by decide
theorem tie_shl : Generated.C02.t_shl = Expected.C02.t_shl := by decide
theorem tie_shlConst : Generated.C02.t_shlConst = Expected.C02.t_shlConst := by decide
theorem tie_shr : Generated.C02.t_shr = Expected.C02.t_shr := by decide
theorem tie_shrConst : Generated.C02.t_shrConst = Expected.C02.t_shrConst := by decide
theorem tie_sub : Generated.C02.t_sub = Expected.C02.t_sub := by decide
theorem tie_subConst : Generated.C02.t_subConst = Expected.C02.t_subConst := by decide
theorem tie_xor : Generated.C02.t_xor = Expected.C02.t_xor := by decide
theorem tie_xorConst : Generated.C02.t_xorConst = Expected.C02.t_xorConst := by decide
theorem tie_addAssign : Generated.C02.t_addAssign = Expected.C02.t_addAssign := by decide
theorem tie_andAssign : Generated.C02.t_andAssign = Expected.C02.t_andAssign := by decide
theorem tie_andNotAssign : Generated.C02.t_andNotAssign = Expected.C02.t_andNotAssign := by decide
theorem tie_mulAssign : Generated.C02.t_mulAssign = Expected.C02.t_mulAssign := by decide
theorem tie_orAssign : Generated.C02.t_orAssign = Expected.C02.t_orAssign := by decide
theorem tie_quoAssign : Generated.C02.t_quoAssign = Expected.C02.t_quoAssign := by decide
theorem tie_remAssign : Generated.C02.t_remAssign = Expected.C02.t_remAssign := by decide
theorem tie_shlAssign : Generated.C02.t_shlAssign = Expected.C02.t_shlAssign := by decide
theorem tie_shrAssign : Generated.C02.t_shrAssign = Expected.C02.t_shrAssign := by decide
theorem tie_subAssign : Generated.C02.t_subAssign = Expected.C02.t_subAssign := by decide
theorem tie_xorAssign : Generated.C02.t_xorAssign = Expected.C02.t_xorAssign := by decide
theorem tie_dec : Generated.C02.t_dec = Expected.C02.t_dec := by decide
theorem tie_inc : Generated.C02.t_inc = Expected.C02.t_inc := by decide
theorem tie_bitNotConst : Generated.C02.t_bitNotConst = Expected.C02.t_bitNotConst := by decide
theorem tie_negConst : Generated.C02.t_negConst = Expected.C02.t_negConst := by decide
theorem tie_notConst : Generated.C02.t_notConst = Expected.C02.t_notConst := by decide
theorem tie_posConst : Generated.C02.t_posConst = Expected.C02.t_posConst := by decide
theorem tie_equal : Generated.C02.t_equal = Expected.C02.t_equal := by decide
theorem tie_greater : Generated.C02.t_greater = Expected.C02.t_greater := by decide
theorem tie_greaterEqual : Generated.C02.t_greaterEqual = Expected.C02.t_greaterEqual := by decide
theorem tie_lower : Generated.C02.t_lower = Expected.C02.t_lower := by decide
theorem tie_lowerEqual : Generated.C02.t_lowerEqual = Expected.C02.t_lowerEqual := by decide
theorem tie_notEqual : Generated.C02.t_notEqual = Expected.C02.t_notEqual := by decide
theorem tie_neg : Generated.C02.t_neg = Expected.C02.t_neg := by decide
theorem tie_pos : Generated.C02.t_pos = Expected.C02.t_pos := by decide
theorem tie_bitNot : Generated.C02.t_bitNot = Expected.C02.t_bitNot := by decide
theorem tie_not : Generated.C02.t_not = Expected.C02.t_not := by decide

/-- the whole operator table -/
theorem optable_tie : Generated.C02.opTable = Expected.C02.opTable := by
  unfold Generated.C02.opTable Expected.C02.opTable
  rw [tie_add, tie_addConst, tie_and, tie_andConst, tie_andNot, tie_andNotConst, tie_mul, tie_mulConst, tie_or, tie_orConst, tie_quo, tie_quoConst, tie_rem, tie_remConst, tie_shl, tie_shlConst, tie_shr, tie_shrConst, tie_sub, tie_subConst, tie_xor, tie_xorConst, tie_addAssign, tie_andAssign, tie_andNotAssign, tie_mulAssign, tie_orAssign, tie_quoAssign, tie_remAssign, tie_shlAssign, tie_shrAssign, tie_subAssign, tie_xorAssign, tie_dec, tie_inc, tie_bitNotConst, tie_negConst, tie_notConst, tie_posConst, tie_equal, tie_greater, tie_greaterEqual, tie_lower, tie_lowerEqual, tie_notEqual, tie_neg, tie_pos, tie_bitNot, tie_not]

/-- the conversions inside genValueInt/genValueUint/genValueFloat/genComplex/vInt/vUint/vFloat/vComplex -/
theorem widen_tie : Generated.C02.widenTable = Expected.C02.widenTable := by decide

/-- no function was added to or removed from op.go -/
theorem functions_tie : Generated.C02.opFunctions = Expected.C02.opFunctions := by decide

/-- the extractor understood every construct of op.go / run.go / value.go it walked -/
theorem nothing_unrecognised : Generated.C02.unrecognised = [] := by decide

/-- the arms of run.go `convert` (no fast path of its own for any pair of kinds) -/
theorem convert_arms_tie : Generated.C02.convertArms = Expected.C02.convertArms := by decide

/-- run.go `convert` is textually the function that was read -/
theorem source_tie : Generated.C02.sourceHashes = Expected.C02.sourceHashes := by decide

/-! ## 2. Well-formedness of the regenerated tables -/

set_option maxRecDepth 100000 in
/-- every integer-class entry of the REGENERATED operator table has the template's shape: operands read with the
    extractors of its own class (shift count: vUint when constant, genValueShiftCount otherwise), the token of its function, the store of its class -/
theorem generated_wf : Generated.C02.opTable.all (fun e => !e.cls.isInt || wfEntry e) = true := by decide

theorem generated_widen_wf : wfWiden Generated.C02.widenTable = true := by decide

theorem wf_of_mem (e : Entry) (he : e ∈ Generated.C02.opTable) (hi : e.cls.isInt = true) : wfEntry e = true := by
  have h := List.all_eq_true.mp generated_wf e he
  simpa [hi] using h

variable {w : Nat}

/-! ## 3. The structured operators compute Go's results (all widths ≤ 64, all values) -/

def tokOfBin : BinOp → Tok
  | .add => .add | .sub => .sub | .mul => .mul | .quo => .quo | .rem => .rem
  | .and => .and | .or => .or | .xor => .xor | .andNot => .andNot

def tokOfCmp : CmpOp → Tok
  | .eql => .eql | .neq => .neq | .lss => .lss | .leq => .leq | .gtr => .gtr | .geq => .geq

def tokOfUn : UnOp → Tok
  | .neg => .neg | .pos => .pos | .bitNot => .bitNot

theorem add_correct (s : Bool) (x y : BitVec w) (h : w ≤ 64) :
    binop .add s x y = .val (.bits (wrap w (value s x + value s y))) := by
  simp [binop, apply64, Outcome.bind, narrowRes, model_add s x y h]

theorem sub_correct (s : Bool) (x y : BitVec w) (h : w ≤ 64) :
    binop .sub s x y = .val (.bits (wrap w (value s x - value s y))) := by
  simp [binop, apply64, Outcome.bind, narrowRes, model_sub s x y h]

theorem mul_correct (s : Bool) (x y : BitVec w) (h : w ≤ 64) :
    binop .mul s x y = .val (.bits (wrap w (value s x * value s y))) := by
  simp [binop, apply64, Outcome.bind, narrowRes, model_mul s x y h]

theorem and_correct (s : Bool) (x y : BitVec w) (h : w ≤ 64) : binop .and s x y = .val (.bits (x &&& y)) := by
  simp [binop, apply64, Outcome.bind, narrowRes, model_and s x y h]
theorem or_correct (s : Bool) (x y : BitVec w) (h : w ≤ 64) : binop .or s x y = .val (.bits (x ||| y)) := by
  simp [binop, apply64, Outcome.bind, narrowRes, model_or s x y h]
theorem xor_correct (s : Bool) (x y : BitVec w) (h : w ≤ 64) : binop .xor s x y = .val (.bits (x ^^^ y)) := by
  simp [binop, apply64, Outcome.bind, narrowRes, model_xor s x y h]
theorem andNot_correct (s : Bool) (x y : BitVec w) (h : w ≤ 64) : binop .andNot s x y = .val (.bits (x &&& ~~~y)) := by
  simp [binop, apply64, Outcome.bind, narrowRes, model_andNot s x y h]

/-- quotient: truncated towards zero, MinInt / −1 wraps to MinInt, division by zero panics -/
theorem quo_correct (s : Bool) (x y : BitVec w) (h : w ≤ 64) :
    binop .quo s x y = if value s y = 0 then .panicDiv else .val (.bits (wrap w ((value s x).tdiv (value s y)))) := by
  by_cases hz : value s y = 0
  · have := (widen_eq_zero_iff s y h).mpr hz
    simp [binop, apply64, Outcome.bind, this, hz]
  · have : widen s y ≠ 0#64 := fun e => hz ((widen_eq_zero_iff s y h).mp e)
    cases s
    · simp [binop, apply64, Outcome.bind, narrowRes, this, hz, model_udiv x y h]
    · simp [binop, apply64, Outcome.bind, narrowRes, this, hz, model_sdiv x y h]

/-- remainder: sign of the dividend, division by zero panics -/
theorem rem_correct (s : Bool) (x y : BitVec w) (h : w ≤ 64) :
    binop .rem s x y = if value s y = 0 then .panicDiv else .val (.bits (wrap w ((value s x).tmod (value s y)))) := by
  by_cases hz : value s y = 0
  · have := (widen_eq_zero_iff s y h).mpr hz
    simp [binop, apply64, Outcome.bind, this, hz]
  · have : widen s y ≠ 0#64 := fun e => hz ((widen_eq_zero_iff s y h).mp e)
    cases s
    · simp [binop, apply64, Outcome.bind, narrowRes, this, hz, model_umod x y h]
    · simp [binop, apply64, Outcome.bind, narrowRes, this, hz, model_srem x y h]

/-- every arithmetic / bitwise binary operator, in one statement -/
theorem binary_correct (op : BinOp) (s : Bool) (x y : BitVec w) (h : w ≤ 64) :
    binop (tokOfBin op) s x y = (binary op s x y).map Val.bits := by
  cases op <;> simp only [tokOfBin, binary, Outcome.map]
  · exact add_correct s x y h
  · exact sub_correct s x y h
  · exact mul_correct s x y h
  · rw [quo_correct s x y h]; split <;> rfl
  · rw [rem_correct s x y h]; split <;> rfl
  · exact and_correct s x y h
  · exact or_correct s x y h
  · exact xor_correct s x y h
  · exact andNot_correct s x y h

/-! ### shifts

  A run-time count is read through genValueShiftCount (`shiftopRun`: a negative count of a signed kind panics), a
  compile-time count through vUint (`shiftop`: the count as uint64). -/

/-- a count that is not negative (always true for an unsigned count): what the type checker guarantees for a
    CONSTANT count ("the shift count must be non-negative" is a compile-time error otherwise) -/
def NonNegCount (cs : Bool) {cw : Nat} (c : BitVec cw) : Prop := 0 ≤ value cs c

instance (cs : Bool) {cw : Nat} (c : BitVec cw) : Decidable (NonNegCount cs c) := by unfold NonNegCount; infer_instance

theorem shl_constcount_value (s : Bool) (x : BitVec w) (cs : Bool) {cw : Nat} (c : BitVec cw)
    (h : w ≤ 64) (hc : cw ≤ 64) (hd : NonNegCount cs c) :
    shiftop .shl s x cs c = .val (.bits (wrap w (value s x * 2 ^ (value cs c).toNat))) := by
  simp only [shiftop, apply64, Bool.false_eq_true, false_and, if_false, Outcome.bind, narrowRes, shl64_eq]
  rw [count_toNat cs c hc hd, model_shl s x _ h]

theorem shr_constcount_value (s : Bool) (x : BitVec w) (cs : Bool) {cw : Nat} (c : BitVec cw)
    (h : w ≤ 64) (hc : cw ≤ 64) (hd : NonNegCount cs c) :
    shiftop .shr s x cs c = .val (.bits (wrap w (value s x / 2 ^ (value cs c).toNat))) := by
  simp only [shiftop, apply64, Bool.false_eq_true, false_and, if_false, Outcome.bind, narrowRes, ushr64_eq, sshr64_eq]
  rw [count_toNat cs c hc hd]
  cases s
  · simp only [Bool.false_eq_true, if_false]; rw [model_ushr x _ h]
  · simp only [if_true]; rw [model_sshr x _ h]

/-- `x << c`, `x >> c` with a constant count c ≥ 0 (of any integer kind, counts ≥ width included) -/
theorem shl_constcount_correct (s : Bool) (x : BitVec w) (cs : Bool) {cw : Nat} (c : BitVec cw)
    (h : w ≤ 64) (hc : cw ≤ 64) (hd : NonNegCount cs c) :
    shiftop .shl s x cs c = (shl s x cs c).map Val.bits := by
  rw [shl_constcount_value s x cs c h hc hd]
  have : ¬ value cs c < 0 := by unfold NonNegCount at hd; omega
  simp [shl, this, Outcome.map]

theorem shr_constcount_correct (s : Bool) (x : BitVec w) (cs : Bool) {cw : Nat} (c : BitVec cw)
    (h : w ≤ 64) (hc : cw ≤ 64) (hd : NonNegCount cs c) :
    shiftop .shr s x cs c = (shr s x cs c).map Val.bits := by
  rw [shr_constcount_value s x cs c h hc hd]
  have : ¬ value cs c < 0 := by unfold NonNegCount at hd; omega
  simp [shr, this, Outcome.map]

/-- an unsigned count is never negative -/
theorem nonNegCount_unsigned {cw : Nat} (c : BitVec cw) : NonNegCount false c := by
  simp [NonNegCount, value]

/-- **`x << n` with a run-time count, at full strength**: for EVERY count of every integer kind — x * 2^n wrapped for
    n ≥ 0 (counts ≥ width included), the run-time panic for a negative count of a signed kind. (Before the repair
    002dfac this held only for n ≥ 0: finding F02.) -/
theorem shl_correct (s : Bool) (x : BitVec w) (cs : Bool) {cw : Nat} (c : BitVec cw) (h : w ≤ 64) (hc : cw ≤ 64) :
    shiftopRun .shl s x cs c = (shl s x cs c).map Val.bits := by
  unfold shiftopRun
  by_cases hneg : value cs c < 0
  · rw [if_pos ((count_neg_iff cs c hc).mpr hneg)]
    simp [shl, hneg, Outcome.map]
  · rw [if_neg (fun hm => hneg ((count_neg_iff cs c hc).mp hm))]
    exact shl_constcount_correct s x cs c h hc (by unfold NonNegCount; omega)

/-- **`x >> n` with a run-time count, at full strength**: floor(x / 2^n) wrapped for n ≥ 0, the panic for n < 0. -/
theorem shr_correct (s : Bool) (x : BitVec w) (cs : Bool) {cw : Nat} (c : BitVec cw) (h : w ≤ 64) (hc : cw ≤ 64) :
    shiftopRun .shr s x cs c = (shr s x cs c).map Val.bits := by
  unfold shiftopRun
  by_cases hneg : value cs c < 0
  · rw [if_pos ((count_neg_iff cs c hc).mpr hneg)]
    simp [shr, hneg, Outcome.map]
  · rw [if_neg (fun hm => hneg ((count_neg_iff cs c hc).mp hm))]
    exact shr_constcount_correct s x cs c h hc (by unfold NonNegCount; omega)

/-- regression for F02: `1 << s` with `s := -3` (both int) panics, `-1 >> s` too; an int8 count −128 as well -/
example : shiftopRun .shl true 1#64 true (BitVec.ofInt 64 (-3)) = (.panicShift : Outcome (Val 64)) := by decide
example : shiftopRun .shr true (BitVec.ofInt 64 (-1)) true (BitVec.ofInt 64 (-3)) = (.panicShift : Outcome (Val 64)) := by decide
example : shiftopRun .shl false 1#8 true (BitVec.ofInt 8 (-128)) = (.panicShift : Outcome (Val 8)) := by decide
/-- … and non-negative counts still shift (counts ≥ width included; an unsigned count with the top bit set is not negative) -/
example : shiftopRun .shl true (3#8) true (200#16) = .val (.bits 0#8) := by decide
example : shiftopRun .shr true (BitVec.ofInt 8 (-128)) false (7#8) = .val (.bits (BitVec.ofInt 8 (-1))) := by decide
example : shiftopRun .shr true (BitVec.ofInt 8 (-128)) false (255#8) = .val (.bits (BitVec.ofInt 8 (-1))) := by decide
example : NonNegCount true (200#16) ∧ shiftop .shl true (3#8) true (200#16) = .val (.bits 0#8) := by decide

/-! ### comparisons -/

/-- the six comparisons compare the mathematical values (signed or unsigned according to the kind) -/
theorem cmp_correct (op : CmpOp) (s : Bool) (x y : BitVec w) (h : w ≤ 64) :
    binop (tokOfCmp op) s x y = .val (.bool (Spec.GoInt.compare op s x y)) := by
  cases op <;> simp only [tokOfCmp, binop, apply64, Outcome.bind, narrowRes, Spec.GoInt.compare]
  · rw [model_eq s x y h]
  · rw [model_ne s x y h]
  · rw [model_lt s x y h]
  · rw [model_le s x y h]
  · rw [model_lt s y x h]
  · rw [model_le s y x h]

/-! ### unary operators, increment, decrement -/

theorem neg_correct (s : Bool) (x : BitVec w) (h : w ≤ 64) : unop .neg s x = .val (.bits (wrap w (- value s x))) := by
  simp [unop, apply64, Outcome.bind, narrowRes, model_neg s x h]

theorem bitNot_correct (s : Bool) (x : BitVec w) (h : w ≤ 64) : unop .bitNot s x = .val (.bits (wrap w (- value s x - 1))) := by
  simp [unop, apply64, Outcome.bind, narrowRes, model_not s x h, not_eq_wrap s x]

theorem pos_correct (s : Bool) (x : BitVec w) (h : w ≤ 64) : unop .pos s x = .val (.bits x) := by
  simp [unop, apply64, Outcome.bind, narrowRes, narrow_widen s x h]

theorem unary_correct (op : UnOp) (s : Bool) (x : BitVec w) (h : w ≤ 64) :
    unop (tokOfUn op) s x = .val (.bits (unary op s x)) := by
  cases op <;> simp only [tokOfUn, unary]
  · exact neg_correct s x h
  · exact pos_correct s x h
  · exact bitNot_correct s x h

/-- `x++` wraps around at the kind's width -/
theorem inc_correct (s : Bool) (x : BitVec w) (h : w ≤ 64) :
    incdecop .add s x = .val (.bits (incr s x)) := by
  simp only [incdecop, apply64, Outcome.bind, narrowRes, incr]
  rw [BitVec.setWidth_add _ _ h, narrow_widen s x h, setWidth_one64]
  simp only [wrap, BitVec.ofInt_add]; rw [← wrap, ← wrap, wrap_value, wrap_one]

theorem dec_correct (s : Bool) (x : BitVec w) (h : w ≤ 64) :
    incdecop .sub s x = .val (.bits (decr s x)) := by
  simp only [incdecop, apply64, Outcome.bind, narrowRes, decr]
  rw [setWidth_sub64 _ _ h, narrow_widen s x h, setWidth_one64]
  rw [Int.sub_eq_add_neg, BitVec.sub_eq_add_neg]
  simp only [wrap, BitVec.ofInt_add, BitVec.ofInt_neg]; rw [← wrap, ← wrap, wrap_value, wrap_one]

/-! ### conversions between integer kinds -/

/-- `T(x)`: sign- or zero-extend according to the SOURCE kind, truncate to the target width -/
theorem intconv_correct (s : Bool) (x : BitVec w) (w' : Nat) (h : w ≤ 64) (h' : w' ≤ 64) :
    convInt s x w' = convert s x w' := model_conv s x w' h h'

/-! ### conversion of an integer to a string -/

/-- in the REGENERATED arm list of run.go `convert`, the conversion of a (non-nil) value with no hook registered is
    served by `reflect.Value.Convert` — there is no arm of its own for integer → string (or any other pair) -/
theorem convert_value_through_reflect : valueConvAct Generated.C02.convertArms = some .reflectConvert := by decide

/-- **`string(x)` for an integer variable x** (every integer kind, every value): the arm the regenerated table
    selects, reflect.Value.Convert, yields the code point Go specifies — x if it is a valid code point, U+FFFD if it is
    negative, a surrogate half, above 0x10FFFF, or does not fit an int32 (`string(int64(1<<32 + 'A'))` is "\uFFFD", not "A"). -/
theorem intstring_correct (s : Bool) {w : Nat} (x : BitVec w) (h : w ≤ 64) :
    valueConvAct Generated.C02.convertArms = some .reflectConvert ∧ reflectIntString s x = intToString s x :=
  ⟨convert_value_through_reflect, reflectIntString_correct s x h⟩

example : reflectIntString true (BitVec.ofNat 64 (2 ^ 32 + 65)) = 0xFFFD := by decide
example : reflectIntString false (BitVec.ofNat 64 (2 ^ 64 - 1)) = 0xFFFD := by decide
example : reflectIntString true (BitVec.ofInt 8 (-1)) = 0xFFFD := by decide
example : reflectIntString false (BitVec.ofNat 16 0xD800) = 0xFFFD := by decide
example : reflectIntString true (65#32) = 65 ∧ reflectIntString false (0x10FFFF#32) = 0x10FFFF := by decide

/-! ### constant operands -/

/-- a constant representable in the kind (s, w) -/
def InRange (s : Bool) (w : Nat) (v : Int) : Prop :=
  if s then -(2 ^ (w - 1)) ≤ v ∧ v < 2 ^ (w - 1) else 0 ≤ v ∧ v < 2 ^ w

/-! ## 4. Every integer closure of the regenerated table computes Go's result -/

/-- the Go operator a function of op.go stands for -/
def goBinary : Fn → Option BinOp
  | .f_add | .f_addAssign | .f_addConst => some .add
  | .f_sub | .f_subAssign | .f_subConst => some .sub
  | .f_mul | .f_mulAssign | .f_mulConst => some .mul
  | .f_quo | .f_quoAssign | .f_quoConst => some .quo
  | .f_rem | .f_remAssign | .f_remConst => some .rem
  | .f_and | .f_andAssign | .f_andConst => some .and
  | .f_or | .f_orAssign | .f_orConst => some .or
  | .f_xor | .f_xorAssign | .f_xorConst => some .xor
  | .f_andNot | .f_andNotAssign | .f_andNotConst => some .andNot
  | _ => none

def goCompare : Fn → Option CmpOp
  | .f_equal => some .eql | .f_notEqual => some .neq | .f_lower => some .lss
  | .f_lowerEqual => some .leq | .f_greater => some .gtr | .f_greaterEqual => some .geq
  | _ => none

def goUnary : Fn → Option UnOp
  | .f_neg | .f_negConst => some .neg
  | .f_bitNot | .f_bitNotConst => some .bitNot
  | .f_posConst => some .pos
  | _ => none

theorem goBinary_group (fn : Fn) (op : BinOp) (h : goBinary fn = some op) :
    (fn.group = .arith ∨ fn.group = .assign ∨ fn.group = .fold ∨ fn.group = .cmp) ∧ fn.tok = tokOfBin op := by
  cases fn <;> simp [goBinary] at h <;> subst h <;> simp [Fn.group, Fn.tok, tokOfBin]

theorem goCompare_group (fn : Fn) (op : CmpOp) (h : goCompare fn = some op) :
    (fn.group = .arith ∨ fn.group = .assign ∨ fn.group = .fold ∨ fn.group = .cmp) ∧ fn.tok = tokOfCmp op := by
  cases fn <;> simp [goCompare] at h <;> subst h <;> simp [Fn.group, Fn.tok, tokOfCmp]

theorem goUnary_group (fn : Fn) (op : UnOp) (h : goUnary fn = some op) :
    (fn.group = .unaryRun ∨ fn.group = .unaryFold) ∧ fn.tok = tokOfUn op := by
  cases fn <;> simp [goUnary] at h <;> subst h <;> simp [Fn.group, Fn.tok, tokOfUn]

/-- **Arithmetic and bitwise closures.** For every entry of the REGENERATED table whose kind class is an integer class
    and whose function stands for the binary operator `op` (add, addAssign, addConst → `+`, …) — whatever the variant:
    interface destination, constant left, constant right, two variables, op-assign, compile-time folding — the closure
    computes, for every width w ≤ 64 and ALL operands x y of that kind, exactly Go's result: wrap-around `+ - *`,
    truncated `/` with MinInt / −1 = MinInt, `%` with the dividend's sign, a panic on division by zero, `& | ^ &^`. -/
theorem optable_binary_correct (e : Entry) (he : e ∈ Generated.C02.opTable) (hi : e.cls.isInt = true)
    (op : BinOp) (hop : goBinary e.fn = some op) {w : Nat} (h : w ≤ 64) (x y : BitVec w) :
    evalEntry Generated.C02.widenTable e (.typed e.cls.signed w x) (.typed e.cls.signed w y) e.cls.signed w
      = (binary op e.cls.signed x y).map Val.bits := by
  have hwf := wf_of_mem e he hi
  obtain ⟨hg, ht⟩ := goBinary_group e.fn op hop
  rw [entry_binary _ generated_widen_wf e hwf hg x y, (wf_unpack e hwf).2.2.2.2.1, ht]
  exact binary_correct op _ x y h

/-- **Comparison closures** (value form, branching form, interface destination, constant operands). -/
theorem optable_compare_correct (e : Entry) (he : e ∈ Generated.C02.opTable) (hi : e.cls.isInt = true)
    (op : CmpOp) (hop : goCompare e.fn = some op) {w : Nat} (h : w ≤ 64) (x y : BitVec w) :
    evalEntry Generated.C02.widenTable e (.typed e.cls.signed w x) (.typed e.cls.signed w y) e.cls.signed w
      = .val (.bool (Spec.GoInt.compare op e.cls.signed x y)) := by
  have hwf := wf_of_mem e he hi
  obtain ⟨hg, ht⟩ := goCompare_group e.fn op hop
  rw [entry_binary _ generated_widen_wf e hwf hg x y, (wf_unpack e hwf).2.2.2.2.1, ht]
  exact cmp_correct op _ x y h

/-- **Shift closures with a run-time count** (`shl`, `shr` in the variants interface destination / constant left / two
    variables, `shlAssign`, `shrAssign` with a variable count), at full strength: for a count of ANY integer kind
    (cs, cw) and ANY value — x * 2^n resp. floor(x / 2^n) wrapped for n ≥ 0 (counts ≥ width included), the run-time panic
    for a negative count of a signed kind. No side condition (before the repair 002dfac: n ≥ 0 only, finding F02). -/
theorem optable_shl_correct (e : Entry) (he : e ∈ Generated.C02.opTable) (hi : e.cls.isInt = true)
    (hfn : e.fn = .f_shl ∨ e.fn = .f_shlAssign) (hv : e.variant ≠ .cr)
    {w cw : Nat} (h : w ≤ 64) (hc : cw ≤ 64) (x : BitVec w) (cs : Bool) (c : BitVec cw) :
    evalEntry Generated.C02.widenTable e (.typed e.cls.signed w x) (.typed cs cw c) e.cls.signed w
      = (shl e.cls.signed x cs c).map Val.bits := by
  have hwf := wf_of_mem e he hi
  have hg : RunCount e := ⟨hv, by rcases hfn with h | h <;> simp [h, Fn.group]⟩
  have ht : e.fn.tok = .shl := by rcases hfn with h | h <;> simp [h, Fn.tok]
  rw [entry_shift_run _ generated_widen_wf e hwf hg x cs c, (wf_unpack e hwf).2.2.2.2.1, ht]
  exact shl_correct _ x cs c h hc

theorem optable_shr_correct (e : Entry) (he : e ∈ Generated.C02.opTable) (hi : e.cls.isInt = true)
    (hfn : e.fn = .f_shr ∨ e.fn = .f_shrAssign) (hv : e.variant ≠ .cr)
    {w cw : Nat} (h : w ≤ 64) (hc : cw ≤ 64) (x : BitVec w) (cs : Bool) (c : BitVec cw) :
    evalEntry Generated.C02.widenTable e (.typed e.cls.signed w x) (.typed cs cw c) e.cls.signed w
      = (shr e.cls.signed x cs c).map Val.bits := by
  have hwf := wf_of_mem e he hi
  have hg : RunCount e := ⟨hv, by rcases hfn with h | h <;> simp [h, Fn.group]⟩
  have ht : e.fn.tok = .shr := by rcases hfn with h | h <;> simp [h, Fn.tok]
  rw [entry_shift_run _ generated_widen_wf e hwf hg x cs c, (wf_unpack e hwf).2.2.2.2.1, ht]
  exact shr_correct _ x cs c h hc

/-- **Shift closures with a compile-time count** (variant constant-right of `shl`, `shr`, `shlAssign`, `shrAssign`, and
    the folding functions `shlConst`, `shrConst`): Go's result for every constant count the language allows
    (`NonNegCount`: a negative constant count is a compile-time error, there is no run-time behaviour to compare). -/
theorem optable_shl_constcount_correct (e : Entry) (he : e ∈ Generated.C02.opTable) (hi : e.cls.isInt = true)
    (hfn : ((e.fn = .f_shl ∨ e.fn = .f_shlAssign) ∧ e.variant = .cr) ∨ e.fn = .f_shlConst)
    {w cw : Nat} (h : w ≤ 64) (hc : cw ≤ 64) (x : BitVec w) (cs : Bool) (c : BitVec cw) (hd : NonNegCount cs c) :
    evalEntry Generated.C02.widenTable e (.typed e.cls.signed w x) (.typed cs cw c) e.cls.signed w
      = (shl e.cls.signed x cs c).map Val.bits := by
  have hwf := wf_of_mem e he hi
  have hg : ConstCount e := by
    rcases hfn with ⟨h | h, hv⟩ | h
    · exact Or.inl ⟨hv, by simp [h, Fn.group]⟩
    · exact Or.inl ⟨hv, by simp [h, Fn.group]⟩
    · exact Or.inr (by simp [h, Fn.group])
  have ht : e.fn.tok = .shl := by rcases hfn with ⟨h | h, _⟩ | h <;> simp [h, Fn.tok]
  rw [entry_shift_const _ generated_widen_wf e hwf hg x cs c, (wf_unpack e hwf).2.2.2.2.1, ht]
  exact shl_constcount_correct _ x cs c h hc hd

theorem optable_shr_constcount_correct (e : Entry) (he : e ∈ Generated.C02.opTable) (hi : e.cls.isInt = true)
    (hfn : ((e.fn = .f_shr ∨ e.fn = .f_shrAssign) ∧ e.variant = .cr) ∨ e.fn = .f_shrConst)
    {w cw : Nat} (h : w ≤ 64) (hc : cw ≤ 64) (x : BitVec w) (cs : Bool) (c : BitVec cw) (hd : NonNegCount cs c) :
    evalEntry Generated.C02.widenTable e (.typed e.cls.signed w x) (.typed cs cw c) e.cls.signed w
      = (shr e.cls.signed x cs c).map Val.bits := by
  have hwf := wf_of_mem e he hi
  have hg : ConstCount e := by
    rcases hfn with ⟨h | h, hv⟩ | h
    · exact Or.inl ⟨hv, by simp [h, Fn.group]⟩
    · exact Or.inl ⟨hv, by simp [h, Fn.group]⟩
    · exact Or.inr (by simp [h, Fn.group])
  have ht : e.fn.tok = .shr := by rcases hfn with ⟨h | h, _⟩ | h <;> simp [h, Fn.tok]
  rw [entry_shift_const _ generated_widen_wf e hwf hg x cs c, (wf_unpack e hwf).2.2.2.2.1, ht]
  exact shr_constcount_correct _ x cs c h hc hd

/-- **`x++`, `x--`.** -/
theorem optable_incdec_correct (e : Entry) (he : e ∈ Generated.C02.opTable) (hi : e.cls.isInt = true)
    (hfn : e.fn = .f_inc ∨ e.fn = .f_dec) {w : Nat} (h : w ≤ 64) (x : BitVec w) :
    evalEntry Generated.C02.widenTable e (.typed e.cls.signed w x) .absent e.cls.signed w
      = .val (.bits (if e.fn = .f_inc then incr e.cls.signed x else decr e.cls.signed x)) := by
  have hwf := wf_of_mem e he hi
  have hg : e.fn.group = .incdec := by rcases hfn with h | h <;> simp [h, Fn.group]
  rw [entry_incdec _ generated_widen_wf e hwf hg x, (wf_unpack e hwf).2.2.2.2.1]
  rcases hfn with hf | hf <;> simp only [hf, Fn.tok, reduceCtorEq, if_true, if_false]
  · exact inc_correct _ x h
  · exact dec_correct _ x h

/-- **Unary `-x`, `^x`, `+x`** (run.go neg / bitNot and the folding functions negConst / bitNotConst / posConst). -/
theorem optable_unary_correct (e : Entry) (he : e ∈ Generated.C02.opTable) (hi : e.cls.isInt = true)
    (op : UnOp) (hop : goUnary e.fn = some op) {w : Nat} (h : w ≤ 64) (x : BitVec w) :
    evalEntry Generated.C02.widenTable e (.typed e.cls.signed w x) .absent e.cls.signed w
      = .val (.bits (unary op e.cls.signed x)) := by
  have hwf := wf_of_mem e he hi
  obtain ⟨hg, ht⟩ := goUnary_group e.fn op hop
  rw [entry_unary _ e hwf hg x, (wf_unpack e hwf).2.2.2.2.1, ht]
  exact unary_correct op _ x h

set_option maxRecDepth 100000 in
/-- the theorems above are not vacuous and leave nothing out: the regenerated table has 126 + 84 + (16 + 12) + 14 + 4 = 256
    integer-class entries (16 shift closures with a run-time count, 12 with a compile-time count), and every one of them
    falls under exactly the hypotheses of one of the theorems; the inc / dec entries are those of the classes int and
    uint (uintptr included: repair 517ecf5 of F02-2), no entry is left in the class without uintptr -/
theorem optable_covered :
    (Generated.C02.opTable.filter (fun e => e.cls.isInt && (goBinary e.fn).isSome)).length = 126 ∧
    (Generated.C02.opTable.filter (fun e => e.cls.isInt && (goCompare e.fn).isSome)).length = 84 ∧
    (Generated.C02.opTable.filter (fun e => e.cls.isInt &&
        (e.fn == .f_shl || e.fn == .f_shlAssign || e.fn == .f_shr || e.fn == .f_shrAssign) && e.variant != .cr)).length = 16 ∧
    (Generated.C02.opTable.filter (fun e => e.cls.isInt &&
        ((e.fn == .f_shl || e.fn == .f_shlAssign || e.fn == .f_shr || e.fn == .f_shrAssign) && e.variant == .cr ||
          e.fn == .f_shlConst || e.fn == .f_shrConst))).length = 12 ∧
    (Generated.C02.opTable.filter (fun e => e.cls.isInt && (goUnary e.fn).isSome)).length = 14 ∧
    (Generated.C02.opTable.filter (fun e => e.cls.isInt && (e.fn == .f_inc || e.fn == .f_dec))).length = 4 ∧
    (Generated.C02.opTable.filter (fun e => (e.cls == .int || e.cls == .uint) && (e.fn == .f_inc || e.fn == .f_dec))).length = 4 ∧
    (Generated.C02.opTable.filter (fun e => e.cls == .uintNoPtr)).length = 0 ∧
    (Generated.C02.opTable.filter (fun e => e.cls.isInt)).length = 256 := by
  decide

/-- regression for F02 at the level of the table: EVERY integer `<<` closure with a run-time count, run on `1 << s` with
    s = −3 of type int (the replay input of F02), panics like Go (it yielded 0 before the repair 002dfac) -/
theorem optable_shl_negative_count_panics (e : Entry) (he : e ∈ Generated.C02.opTable) (hi : e.cls.isInt = true)
    (hfn : e.fn = .f_shl ∨ e.fn = .f_shlAssign) (hv : e.variant ≠ .cr) :
    evalEntry Generated.C02.widenTable e (.typed e.cls.signed 64 1#64) (.typed true 64 (BitVec.ofInt 64 (-3))) e.cls.signed 64
      = .panicShift ∧
    shl e.cls.signed (1#64) true (BitVec.ofInt 64 (-3)) = .panicShift := by
  rw [optable_shl_correct e he hi hfn hv (by omega) (by omega)]
  cases e.cls.signed <;> decide

set_option maxRecDepth 100000 in
/-- regression for F02-2: the regenerated table has an `inc` and a `dec` closure for the unsigned class that includes
    uintptr, and on `p := uintptr(5); p++` / `p--` (the replay input of F02-2) they yield 6 / 4; 0-- wraps -/
theorem incdec_uintptr_regression :
    (∃ e ∈ Generated.C02.opTable, e.fn = .f_inc ∧ e.cls = .uint ∧
      evalEntry Generated.C02.widenTable e (.typed false 64 5#64) .absent false 64 = .val (.bits 6#64)) ∧
    (∃ e ∈ Generated.C02.opTable, e.fn = .f_dec ∧ e.cls = .uint ∧
      evalEntry Generated.C02.widenTable e (.typed false 64 5#64) .absent false 64 = .val (.bits 4#64) ∧
      evalEntry Generated.C02.widenTable e (.typed false 64 0#64) .absent false 64 = .val (.bits (BitVec.allOnes 64))) := by
  refine ⟨⟨⟨.f_inc, .uint, .plain, .none, ⟨.genValueUint, 0, .none⟩, ⟨.lit1, 9, .none⟩, .add, .setUint, .inplace⟩, ?_, rfl, rfl, ?_⟩,
          ⟨⟨.f_dec, .uint, .plain, .none, ⟨.genValueUint, 0, .none⟩, ⟨.lit1, 9, .none⟩, .sub, .setUint, .inplace⟩, ?_, rfl, rfl, ?_, ?_⟩⟩ <;> decide

/-! ### constant operands

  A constant operand that typecheck.go has converted to the kind of the other operand reaches the closure as a
  reflect.Value of that kind and is read by vInt / vUint: in the model it is a `.typed` operand, and the theorems
  above cover it (they hold for the `cl`, `cr` and `fold` entries like for any other).
  An UNTYPED constant (a go/constant value, e.g. the left operand of `1 << s`) is read by vInt / vUint through
  `constant.Int64Val(constant.ToInt(c))`: -/

/-- reading an in-range untyped constant at 64 bits = widening the constant converted to the kind -/
theorem const_widen (s : Bool) {w : Nat} (h0 : 0 < w) (h : w ≤ 64) (v : Int) (hr : InRange s w v) :
    BitVec.ofInt 64 v = widen s (wrap w v) := by
  cases s
  · simp only [InRange, Bool.false_eq_true, if_false] at hr
    apply BitVec.eq_of_toNat_eq
    rw [toNat_widen_false _ h]
    simp only [wrap, BitVec.toNat_ofInt]
    have h64 := pow_le_pow64 h
    have e1 : v % ((2 ^ 64 : Nat) : Int) = v := Int.emod_eq_of_lt hr.1 (by rw [cast_pow2]; omega)
    have e2 : v % ((2 ^ w : Nat) : Int) = v := Int.emod_eq_of_lt hr.1 (by rw [cast_pow2]; omega)
    rw [e1, e2]
  · simp only [InRange, if_true] at hr
    apply BitVec.eq_of_toInt_eq
    rw [toInt_widen_true _ h]
    simp only [wrap, BitVec.toInt_ofInt]
    have h63 := pow_le_pow63 h
    have hw : (2:Int) ^ w = 2 * 2 ^ (w - 1) := by
      have : w = (w - 1) + 1 := by omega
      conv => lhs; rw [this, Int.pow_succ]
      omega
    have h64 : (2:Int) ^ 64 = 2 * 2 ^ 63 := by decide
    rw [Int.bmod_eq_of_le_mul_two (by rw [cast_pow2]; omega) (by rw [cast_pow2]; omega),
        Int.bmod_eq_of_le_mul_two (by rw [cast_pow2]; omega) (by rw [cast_pow2]; omega)]

theorem load_untyped (W : List WidenEntry) (hW : wfWiden W = true) (s : Bool) {w : Nat} (h0 : 0 < w) (h : w ≤ 64)
    (v : Int) (hr : InRange s w v) (b : Arg) :
    loadOperand W ⟨vX s, 0, .none⟩ (.untyped v) b = loadOperand W ⟨vX s, 0, .none⟩ (.typed s w (wrap w v)) b := by
  rw [(load_g W hW s s 0 (wrap w v) (.typed s w (wrap w v)) b (by simp)).2]
  obtain ⟨_, _, _, _, _, _, _, _, h9, h10, _, _⟩ := wfWiden_unpack W hW
  have := const_widen s h0 h v hr
  cases s <;> simp [loadOperand, vX, Arg.cls, h9, h10, evalConv, Outcome.map, this]

/-- **Untyped constant left operand** (`1 << s`, constant folding of an untyped with a typed constant): for every
    integer `cl` / folding entry of the regenerated table, an untyped constant v representable in the kind behaves
    exactly as the typed constant `T(v)`, for which the theorems above give Go's result. -/
theorem constform_left_correct (e : Entry) (he : e ∈ Generated.C02.opTable) (hi : e.cls.isInt = true)
    (hv : (e.variant = .cl ∧ (e.fn.group = .arith ∨ e.fn.group = .shift ∨ e.fn.group = .cmp)) ∨
          e.fn.group = .fold ∨ e.fn.group = .shiftFold)
    {w : Nat} (h0 : 0 < w) (h : w ≤ 64) (v : Int) (hr : InRange e.cls.signed w v) (b : Arg) (ds : Bool) (dw : Nat) :
    evalEntry Generated.C02.widenTable e (.untyped v) b ds dw
      = evalEntry Generated.C02.widenTable e (.typed e.cls.signed w (wrap w v)) b ds dw := by
  have hwf := wf_of_mem e he hi
  obtain ⟨_, _, hl, hr', _, _⟩ := wf_unpack e hwf
  have hL : e.l = ⟨vX e.cls.signed, 0, .none⟩ := by
    rw [hl]; rcases hv with ⟨hv, hg | hg | hg⟩ | hg | hg <;> simp [hg, expL, *]
  have hR : e.r.child = 1 := by
    rw [hr']; rcases hv with ⟨hv, hg | hg | hg⟩ | hg | hg <;> simp only [hg, expR] <;> (try split) <;> rfl
  unfold evalEntry
  rw [hL, load_untyped _ generated_widen_wf _ h0 h v hr b]
  have : loadOperand Generated.C02.widenTable e.r (.untyped v) b
       = loadOperand Generated.C02.widenTable e.r (.typed e.cls.signed w (wrap w v)) b := by
    simp [loadOperand, hR]
  rw [this]

/-! ### the executable forms of the shift specification used by the driver -/

theorem shl_exec_eq (s : Bool) {w : Nat} (x : BitVec w) (cs : Bool) {cw : Nat} (c : BitVec cw) :
    shlExec s x cs c = shl s x cs c := by
  unfold shlExec shl
  by_cases hneg : value cs c < 0
  · simp [hneg]
  · simp only [hneg, if_false]
    by_cases hbig : (w : Int) ≤ value cs c
    · simp only [hbig, if_true]
      have : w ≤ (value cs c).toNat := by omega
      rw [wrap_mul_pow_eq_zero this]
    · simp only [hbig, if_false]

theorem shr_exec_eq (s : Bool) {w : Nat} (x : BitVec w) (cs : Bool) {cw : Nat} (c : BitVec cw) :
    shrExec s x cs c = shr s x cs c := by
  unfold shrExec shr
  by_cases hneg : value cs c < 0
  · simp [hneg]
  · simp only [hneg, if_false]
    by_cases hbig : (w : Int) ≤ value cs c
    · simp only [hbig, if_true]
      have hn : w ≤ (value cs c).toNat := by omega
      rw [ediv_pow_of_small hn (value s x) (le_value s x) (value_lt s x)]
      by_cases hv : value s x < 0
      · simp [hv, wrap, BitVec.ofInt_neg, BitVec.neg_one_eq_allOnes]
      · simp [hv, wrap]
    · simp only [hbig, if_false]

/-! ## 5. The property at full strength on the integer kinds

  Sections 3–4 prove every operator family at full strength. For the shifts this became possible with the repair
  002dfac (F02): the statement below is the former `C02_shift_full_statement`, which the unrepaired code refuted. -/

/-- Full strength: EVERY integer `<<` closure of the regenerated table yields Go's outcome for EVERY count the language
    allows there — any count at all (including the run-time panic on a negative one) when the count is a run-time value,
    any non-negative count when it is a constant. -/
theorem C02_shl_full (e : Entry) (he : e ∈ Generated.C02.opTable) (hi : e.cls.isInt = true)
    (hfn : e.fn = .f_shl ∨ e.fn = .f_shlAssign ∨ e.fn = .f_shlConst)
    {w cw : Nat} (h : w ≤ 64) (hc : cw ≤ 64) (x : BitVec w) (cs : Bool) (c : BitVec cw)
    (hconst : e.variant = .cr ∨ e.fn = .f_shlConst → NonNegCount cs c) :
    evalEntry Generated.C02.widenTable e (.typed e.cls.signed w x) (.typed cs cw c) e.cls.signed w
      = (shl e.cls.signed x cs c).map Val.bits := by
  by_cases hk : e.variant = .cr ∨ e.fn = .f_shlConst
  · refine optable_shl_constcount_correct e he hi ?_ h hc x cs c (hconst hk)
    rcases hk with hv | hf
    · rcases hfn with h1 | h1 | h1
      · exact Or.inl ⟨Or.inl h1, hv⟩
      · exact Or.inl ⟨Or.inr h1, hv⟩
      · exact Or.inr h1
    · exact Or.inr hf
  · have hv : e.variant ≠ .cr := fun hv => hk (Or.inl hv)
    have hf : e.fn ≠ .f_shlConst := fun hf => hk (Or.inr hf)
    refine optable_shl_correct e he hi ?_ hv h hc x cs c
    rcases hfn with h1 | h1 | h1
    · exact Or.inl h1
    · exact Or.inr h1
    · exact absurd h1 hf

theorem C02_shr_full (e : Entry) (he : e ∈ Generated.C02.opTable) (hi : e.cls.isInt = true)
    (hfn : e.fn = .f_shr ∨ e.fn = .f_shrAssign ∨ e.fn = .f_shrConst)
    {w cw : Nat} (h : w ≤ 64) (hc : cw ≤ 64) (x : BitVec w) (cs : Bool) (c : BitVec cw)
    (hconst : e.variant = .cr ∨ e.fn = .f_shrConst → NonNegCount cs c) :
    evalEntry Generated.C02.widenTable e (.typed e.cls.signed w x) (.typed cs cw c) e.cls.signed w
      = (shr e.cls.signed x cs c).map Val.bits := by
  by_cases hk : e.variant = .cr ∨ e.fn = .f_shrConst
  · refine optable_shr_constcount_correct e he hi ?_ h hc x cs c (hconst hk)
    rcases hk with hv | hf
    · rcases hfn with h1 | h1 | h1
      · exact Or.inl ⟨Or.inl h1, hv⟩
      · exact Or.inl ⟨Or.inr h1, hv⟩
      · exact Or.inr h1
    · exact Or.inr hf
  · have hv : e.variant ≠ .cr := fun hv => hk (Or.inl hv)
    have hf : e.fn ≠ .f_shrConst := fun hf => hk (Or.inr hf)
    refine optable_shr_correct e he hi ?_ hv h hc x cs c
    rcases hfn with h1 | h1 | h1
    · exact Or.inl h1
    · exact Or.inr h1
    · exact absurd h1 hf

set_option maxRecDepth 100000 in
/-- the run-time-count theorems are not vacuous: the regenerated table has such a closure -/
theorem shl_entry_exists : ∃ e ∈ Generated.C02.opTable, e.cls.isInt = true ∧ e.fn = .f_shl ∧ e.variant ≠ .cr := by
  refine ⟨⟨.f_shl, .int, .vv, .none, ⟨.genValueInt, 0, .none⟩, ⟨.genValueShiftCount, 1, .none⟩, .shl, .setInt, .dest⟩, ?_, rfl, rfl, by decide⟩
  decide

end YaegiVerif.Props.C02
