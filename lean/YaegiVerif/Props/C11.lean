import YaegiVerif.Model.Piecewise
import YaegiVerif.Expected.C11
import YaegiVerif.Generated.C11
import YaegiVerif.Proofs.C11Pieces
/-
  C11 — evaluating a program piecewise equals evaluating it whole. Property theorems.

  Full statement (not true of the code, see the witnesses of the findings that are still open):
    for every program `items` and every cut list,
      evalPieces (split cuts items) = evalWhole items        (output, global frame, scope, code).
  Proved: `chunks_eq_whole` for every cut list on the decidable domain `Dom` — since the repair of
  F11-1 (a9bfd4c) without any condition on what the initialisers name —, `texts_eq_whole_partial`
  for every session of texts of one kind each, for the facts read from the source (`…_generated`).
  Repaired and now regression examples: F11-1 (initialiser naming a variable of an earlier Eval),
  F11-7 (method declared again), F11-8 (main re-run).
-/
namespace YaegiVerif.Props.C11
open YaegiVerif YaegiVerif.Piecewise YaegiVerif.Proofs.C11

/-! ### ties to the source -/

/-- tie: the choices the model is parametrised by, as re-read from the source: resizeFrame copies
    the old frame, gta assigns the function symbol unconditionally, scope.add allocates at the end,
    the incremental parser prefixes exactly const/func/import/type/var and wraps the rest in main,
    CompileAST appends main to the init list of the program that declares it, addMethod replaces a
    method declared again, genGlobalVarDecl waits only for the variables of its own call -/
theorem facts_tie : Generated.C11.facts = Expected.C11.facts := by decide

/-- tie: the call graph of Eval, EvalPath, eval, Compile, compileSrc, CompileAST, Execute -/
theorem pipeline_tie : Generated.C11.pipeline = Expected.C11.pipeline := by decide

/-- tie: the statements the facts were recognised from -/
theorem shapes_tie : Generated.C11.shapes = Expected.C11.shapes := by rfl

/-- tie: the functions Model/Piecewise.lean was written from are textually (modulo comments and
    layout) the ones that were read; if this breaks the model must be re-validated (the check then
    relies on the correspondence run and on the search for a failing input) -/
theorem source_tie : Generated.C11.sourceHashes = Expected.C11.sourceHashes := by decide

abbrev fx0 : Facts := Expected.C11.facts

theorem good_expected : Good fx0 := ⟨rfl, rfl, by decide, by decide, by decide, by decide, by decide, rfl, rfl, rfl, rfl, rfl⟩

theorem good_generated : Good Generated.C11.facts := facts_tie ▸ good_expected

/-! ### frame growth (resizeFrame) -/

/-- **growing the frame keeps the cells of all earlier symbols** — for all frames and all sizes -/
theorem frame_growth_preserves (fx : Facts) (h : fx.resizeCopiesPrefix = true) (cells : List Int) (n i : Nat)
    (hi : i < cells.length) : (resizeCells fx cells n)[i]? = cells[i]? := by
  unfold resizeCells
  split
  · rfl
  · rw [List.getElem?_append_left hi]

/-- the new frame has the size of the layout (never shrinks) -/
theorem frame_growth_length (fx : Facts) (cells : List Int) (n : Nat) :
    (resizeCells fx cells n).length = max cells.length n := by
  unfold resizeCells
  split
  · omega
  · split <;> simp <;> omega

/-- the new cells hold the zero value -/
theorem frame_growth_zero (fx : Facts) (cells : List Int) (n i : Nat) (h1 : cells.length ≤ i) (h2 : i < n) :
    (resizeCells fx cells n)[i]? = some 0 := by
  unfold resizeCells
  rw [if_neg (by omega)]
  split
  · rw [List.getElem?_append_right h1, List.getElem?_replicate, if_pos (by omega)]
  · rw [List.getElem?_append_right (by rw [List.length_replicate]; exact h1), List.getElem?_replicate,
      if_pos (by rw [List.length_replicate]; omega)]

/-- growing the frame does not touch the scope: the indices of all symbols are unchanged, and so
    is the value of every variable -/
theorem frame_growth_globals (fx : Facts) (h : fx.resizeCopiesPrefix = true) (s : State) (n : Nat) (x : Name) (i : Nat)
    (hx : lookup x s.c.tab.syms = some (.var i)) (hi : i < s.r.cells.length) :
    ({ s with r := s.r.resize fx n } : State).c = s.c ∧ ({ s with r := s.r.resize fx n } : State).global x = s.global x := by
  refine ⟨rfl, ?_⟩
  simp only [State.global, hx, RState.resize, List.getD_eq_getElem?_getD, frame_growth_preserves fx h _ n i hi]

/-- without the copy the values are lost (what the mutated source would do) -/
theorem frame_growth_nocopy_witness :
    resizeCells { fx0 with resizeCopiesPrefix := false } [5, 6] 3 = [0, 0, 0] := by decide

/-! ### piecewise = whole -/

/-- the full statement of the property on the model: every program, every cut list -/
def chunks_eq_whole_full_statement : Prop :=
  ∀ (fuel : Nat) (items : List Item) (cuts : List Nat),
    evalPieces fx0 fuel State.empty (split cuts items) = evalWhole fx0 fuel State.empty items

/-- **a session equals the whole program** (partial: on the domain). The texts of the session are
    of one kind each (what the incremental parser accepts) and their concatenation is a program of the
    domain (definition before use with fresh names, variables before init functions before
    statements, declarations do not mention the variables of main, the program does not declare
    `main`). Then feeding the texts one by one to ONE interpreter ends in exactly the state of
    evaluating the program in one piece: same output, same global frame, same scope, same compiled
    functions. From any state a session can reach (it may have declared and run a `main`). Since
    the repairs of F11-1 and F11-8 nothing is asked of what the initialisers name nor of the
    session before. -/
theorem texts_eq_whole_partial (fuel : Nat) (s : State) (texts : List (List Item)) (hwf : WF s)
    (hdom : Dom fx0 s texts.flatten = true) (ht : ∀ t ∈ texts, homogeneous t = true) :
    texts.foldl (evalText fx0 fuel) s = evalWhole fx0 fuel s texts.flatten :=
  texts_eq_whole fx0 good_expected fuel texts s hwf hdom ht

/-- **chunks_eq_whole**: for a program of the domain, EVERY way of cutting it gives the result of
    the whole program (outputs concatenate to the same log, the final global state is equal). By
    induction over the texts of the cut program. -/
theorem chunks_eq_whole (fuel : Nat) (items : List Item) (hdom : Dom fx0 State.empty items = true) :
    ∀ cuts, evalPieces fx0 fuel State.empty (split cuts items) = evalWhole fx0 fuel State.empty items :=
  fun cuts => cuts_eq_whole fx0 good_expected fuel State.empty items WF_empty hdom cuts

/-- the same from any reachable state (a session continued) -/
theorem chunks_eq_whole_from (fuel : Nat) (s : State) (hwf : WF s) (items : List Item) (hdom : Dom fx0 s items = true) :
    ∀ cuts, evalPieces fx0 fuel s (split cuts items) = evalWhole fx0 fuel s items :=
  fun cuts => cuts_eq_whole fx0 good_expected fuel s items hwf hdom cuts

/-- the same for the facts regenerated from the source -/
theorem chunks_eq_whole_generated (fuel : Nat) (items : List Item) (hdom : Dom Generated.C11.facts State.empty items = true) :
    ∀ cuts, evalPieces Generated.C11.facts fuel State.empty (split cuts items) = evalWhole Generated.C11.facts fuel State.empty items :=
  fun cuts => cuts_eq_whole _ good_generated fuel State.empty items WF_empty hdom cuts

/-- no variable of a program of the domain ever waits for itself, wherever the chunk starts:
    genGlobalVarDecl's "variable definition loop" cannot be reported (what F11-1 violated) -/
theorem no_definition_loop_in_domain (s : State) (hwf : WF s) (items : List Item) (hdom : Dom fx0 s items = true) :
    ∃ r, compileItems (regItems fx0 s.c.tab.nvars (s.c.tab, s.c.code.length) items).1 s.c.code.length items = some r ∧
      varDepsOk fx0 s.c.tab.nvars (varDeps (s.c.code ++ r.1) r.2) = true := by
  unfold Dom DefBeforeUse at hdom
  simp only [Bool.and_eq_true] at hdom
  obtain ⟨r, hr, _⟩ := scoped_compile fx0 _ items (s.c.tab, s.c.code.length) _ hdom.1.1.1 (Ext.refl _)
  exact ⟨r, hr, varDepsOk_of_scoped fx0 good_expected s hwf items hdom.1.1.1 r hr⟩

/-- what the equality of states says about the observations -/
theorem chunks_eq_whole_observed (fuel : Nat) (items : List Item) (hdom : Dom fx0 State.empty items = true)
    (cuts : List Nat) :
    (evalPieces fx0 fuel State.empty (split cuts items)).r.out = (evalWhole fx0 fuel State.empty items).r.out ∧
    (evalPieces fx0 fuel State.empty (split cuts items)).r.halt = (evalWhole fx0 fuel State.empty items).r.halt ∧
    ∀ x, (evalPieces fx0 fuel State.empty (split cuts items)).global x = (evalWhole fx0 fuel State.empty items).global x := by
  rw [chunks_eq_whole fuel items hdom cuts]
  exact ⟨rfl, rfl, fun _ => rfl⟩

/-- the invariant of sessions holds initially and is kept by every text of the domain (used above;
    stated for the record: indices below the frame size, function identities below the code size) -/
theorem session_invariant (fuel : Nat) (s : State) (t rest : List Item) (hwf : WF s) (hdom : Dom fx0 s (t ++ rest) = true)
    (hh : homogeneous t = true) (hne : t ≠ []) :
    WF (evalText fx0 fuel s t) ∧ Dom fx0 (evalText fx0 fuel s t) rest = true := by
  cases t with
  | nil => exact absurd rfl hne
  | cons it tl =>
    rcases homogeneous_cases it tl hh with hd | hs
    · rw [evalText_decl fx0 good_expected fuel s it tl hd]
      exact (evalChunk_append fx0 good_expected fuel .file s (it :: tl) rest hwf hdom (Or.inl ⟨rfl, hd⟩)).2
    · rw [evalText_stmt fx0 good_expected fuel s it tl hs]
      exact (evalChunk_append fx0 good_expected fuel .block s (it :: tl) rest hwf hdom (Or.inr ⟨rfl, hs⟩)).2

/-! non-vacuity: a program of the domain with a variable, a logging function that writes it, a
    recursive function, a method, an init function, statements and a variable of main — cut
    everywhere it prints what the whole program prints -/

def demo : List Item :=
  [.var "a" (.num 1),
   .func "f" ⟨none, [.set "a" (.bin .add (.glob "a") .arg), .print 1 (.glob "a")], .glob "a"⟩,
   .var "b" (.call "f" (.num 2)),
   .func "fact" ⟨some (.num 1), [], .bin .mul (.call "fact" (.bin .sub .arg (.num 1))) .arg⟩,
   .type "T",
   .method "T" "M" ⟨none, [], .bin .add .recv (.call "f" .arg)⟩,
   .init ⟨none, [.print 2 (.glob "b")], .num 0⟩,
   .stmt (.print 3 (.call "fact" (.num 4))),
   .define "l" (.mcall "T" "M" (.num 10) (.num 5)),
   .stmt (.print 4 (.bin .add (.glob "l") (.glob "a")))]

theorem dom_nonempty : Dom fx0 State.empty demo = true ∧ demo.length = 10 := by decide

example : (evalWhole fx0 40 State.empty demo).r.out = [(1, 3), (2, 3), (3, 24), (1, 8), (4, 26)] := by decide
example : (evalPieces fx0 40 State.empty (split [1, 1, 1, 1, 1, 1, 1, 1, 1] demo)).r.out = [(1, 3), (2, 3), (3, 24), (1, 8), (4, 26)] := by decide

/-! ### constants: values fixed at declaration, iota restarts in every const declaration -/

/-- a constant gets its value when it is declared: the expression evaluated with the scope's iota -/
theorem const_value_fixed (fx : Facts) (st : Nat) (p : Tab × Nat) (x : Name) (e : KExpr) (last : Bool) :
    lookup x (regItem fx st p (.const x e last)).1.syms = some (.const (evalK p.1 e)) := by
  simp [regItem, lookup_cons]

/-- …and no later declaration of another name changes it -/
theorem const_value_kept (fx : Facts) (st : Nat) (p : Tab × Nat) (x : Name) (items : List Item)
    (h : ∀ it ∈ items, it.declName ≠ some x) :
    lookup x (regItems fx st p items).1.syms = lookup x p.1.syms :=
  regItems_other fx st x items p h

/-- **iota restarts**: after the last spec of a const declaration the scope's counter is 0 again,
    after any other spec it is one more (the fact read from cfg.go and gta.go) -/
theorem const_decl_resets_iota (fx : Facts) (h : fx.iotaResetAtEnd = true) (st : Nat) (p : Tab × Nat) (x : Name) (e : KExpr) :
    (regItem fx st p (.const x e true)).1.iota = 0 ∧ (regItem fx st p (.const x e false)).1.iota = p.1.iota + 1 := by
  simp [regItem, h]

/-- only const specs move the counter -/
theorem iota_untouched (fx : Facts) (st : Nat) (p : Tab × Nat) (it : Item) (h : it.token ≠ "const") :
    (regItem fx st p it).1.iota = p.1.iota := by
  cases it <;> simp_all [regItem, Item.token]
  case func f b => split <;> rfl

/-- two const declarations using iota (implicit repetition written out), a named type, a function and
    statements that use them: in the domain, so every cut list gives the whole program (chunks_eq_whole) -/
def demoConst : List Item :=
  [.const "Limit" (.num 10) true,
   .const "Red" .iota false, .const "Green" .iota false, .const "Blue" .iota true,
   .type "Weekday",
   .const "Monday" (.bin .add .iota (.num 1)) false, .const "Tuesday" (.bin .add .iota (.num 1)) false,
   .const "Wednesday" (.bin .add .iota (.num 1)) true,
   .func "scale" ⟨none, [], .bin .mul .arg (.glob "Limit")⟩,
   .stmt (.print 1 (.glob "Blue")), .stmt (.print 2 (.glob "Monday")),
   .stmt (.print 3 (.call "scale" (.glob "Wednesday")))]

theorem const_dom : Dom fx0 State.empty demoConst = true := by decide

theorem const_pieces_eq_whole (fuel : Nat) :
    ∀ cuts, evalPieces fx0 fuel State.empty (split cuts demoConst) = evalWhole fx0 fuel State.empty demoConst :=
  chunks_eq_whole fuel demoConst const_dom

example : (evalPieces fx0 20 State.empty (split [1, 3, 1, 3, 1] demoConst)).r.out = [(1, 2), (2, 1), (3, 30)] := by decide
example : (evalWhole fx0 20 State.empty demoConst).global "Wednesday" = some 3 := by decide

/-- without the reset the second declaration's constants are shifted (the mutated source) -/
theorem iota_reset_needed :
    (evalWhole { fx0 with iotaResetAtEnd := false } 20 State.empty demoConst).r.out = [(1, 3), (2, 5), (3, 70)] := by decide

/-! ### what the domain excludes: witnesses (each is the replay input of a finding that is still open) -/

/-- forward reference across a cut: `k` calls `h`, `h` arrives in a later text — the session stops
    with "undefined", the whole program runs (F11-2) -/
def wForward : List Item :=
  [.func "k" ⟨none, [], .bin .add (.call "h" (.num 0)) (.num 1)⟩, .func "h" ⟨none, [], .num 3⟩, .stmt (.print 1 (.call "k" (.num 0)))]

theorem forward_reference_witness :
    (evalPieces fx0 20 State.empty (split [1] wForward)).r.halt = some .undefined ∧
    (evalWhole fx0 20 State.empty wForward).r.out = [(1, 4)] ∧ (evalWhole fx0 20 State.empty wForward).r.halt = none := by decide

theorem chunks_eq_whole_witness : ¬ chunks_eq_whole_full_statement := by
  intro h
  have := congrArg (fun s => s.r.halt) (h 20 wForward [1])
  revert this
  decide

/-! regression, F11-1 (repaired by a9bfd4c): an initialiser that names a variable of an earlier text.
    The program is in the domain, so `chunks_eq_whole` covers it; the replay input of the finding,
    and with the fact of the code before the repair the "variable definition loop" it reported -/
def wVarDep : List Item := [.var "a" (.num 1), .var "b" (.bin .add (.glob "a") (.num 1)), .stmt (.print 1 (.glob "b"))]

theorem var_names_earlier_var_regression :
    Dom fx0 State.empty wVarDep = true ∧
    (evalPieces fx0 20 State.empty (split [1] wVarDep)).r.out = [(1, 2)] ∧
    (evalPieces fx0 20 State.empty (split [1] wVarDep)).r.halt = none ∧
    (evalWhole fx0 20 State.empty wVarDep).r.out = [(1, 2)] := by decide

theorem var_names_earlier_var_every_cut (fuel : Nat) :
    ∀ cuts, evalPieces fx0 fuel State.empty (split cuts wVarDep) = evalWhole fx0 fuel State.empty wVarDep :=
  chunks_eq_whole fuel wVarDep var_names_earlier_var_regression.1

/-- the same through a function literal and through the body of a function (getVarDependencies follows both) -/
example : (evalPieces fx0 20 State.empty (split [1, 1, 1]
    [.var "a" (.num 1), .func "f" ⟨none, [], .bin .add (.glob "a") .arg⟩, .closure "c" ⟨none, [], .glob "a"⟩,
     .var "b" (.call "f" (.num 1)), .stmt (.print 1 (.bin .add (.glob "b") (.callv "c" (.num 0))))])).r.out = [(1, 3)] := by decide

/-- the code before the repair (the fact `depsPendingOnly` reverted): "variable definition loop" -/
theorem pending_set_needed :
    (evalPieces { fx0 with depsPendingOnly := false } 20 State.empty (split [1] wVarDep)).r.halt = some .defloop ∧
    (evalPieces { fx0 with depsPendingOnly := false } 20 State.empty (split [2] wVarDep)).r.out = [(1, 2)] := by decide

/-- what still is a definition loop (ab398ff): a variable whose initialiser depends on the variable
    itself — directly, through a function of the same text, or in its own function literal; a
    redeclaration `var a = a + 1` in a later text names the NEW `a` (registered before the text is
    compiled). Go reports an initialization cycle. -/
theorem self_dependency_is_a_loop :
    ([[.var "a" (.num 1)], [.var "a" (.bin .add (.glob "a") (.num 1))]].foldl (evalText fx0 20) State.empty).r.halt = some .defloop ∧
    ([[.var "a" (.num 1)], [.func "f" ⟨none, [], .glob "a"⟩, .var "a" (.call "f" (.num 0))]].foldl
      (evalText fx0 20) State.empty).r.halt = some .defloop ∧
    ([[.closure "c" ⟨some (.num 0), [], .callv "c" (.bin .sub .arg (.num 1))⟩]].foldl (evalText fx0 20) State.empty).r.halt
      = some .defloop ∧
    -- a function compiled by an EARLIER text keeps the old variable: no loop
    ([[.var "a" (.num 1), .func "f" ⟨none, [], .glob "a"⟩], [.var "a" (.call "f" (.num 0))],
      [.stmt (.print 1 (.glob "a"))]].foldl (evalText fx0 20) State.empty).r.out = [(1, 1)] := by decide

/-- an initialiser with an effect, declared after a statement of an earlier text, runs after it;
    in the whole program it runs before (F11-3) -/
def wOrder : List Item :=
  [.func "f" ⟨none, [.print 9 (.num 0)], .num 1⟩, .stmt (.print 1 (.num 7)), .var "x" (.call "f" (.num 0))]

theorem init_order_witness :
    (evalPieces fx0 20 State.empty (split [2] wOrder)).r.out = [(1, 7), (9, 0)] ∧
    (evalWhole fx0 20 State.empty wOrder).r.out = [(9, 0), (1, 7)] := by decide

/-- a function that mentions a variable of main: accepted by the session (the variable is global
    there), rejected as a whole program (F11-4) -/
def wLocal : List Item :=
  [.define "l" (.num 1), .func "f" ⟨none, [], .bin .add (.glob "l") .arg⟩, .stmt (.print 1 (.call "f" (.num 1)))]

theorem decl_uses_main_local_witness :
    (evalPieces fx0 20 State.empty (split [] wLocal)).r.out = [(1, 2)] ∧
    (evalWhole fx0 20 State.empty wLocal).r.halt = some .undefined := by decide

/-- a statement that mentions a variable defined by a later statement of the same text prints the
    zero value; the whole program is rejected (F11-5) -/
def wUseBefore : List Item := [.stmt (.print 1 (.glob "l")), .define "l" (.num 3)]

theorem use_before_define_witness :
    (evalPieces fx0 20 State.empty (split [] wUseBefore)).r.out = [(1, 0)] ∧
    (evalWhole fx0 20 State.empty wUseBefore).r.halt = some .undefined := by decide

/-- the same name declared twice: a whole program is rejected, a session gets a new variable (F11-6) -/
def wRedecl : List Item := [.var "a" (.num 1), .var "a" (.num 2), .stmt (.print 1 (.glob "a"))]

theorem redeclaration_witness :
    (evalPieces fx0 20 State.empty (split [1] wRedecl)).r.out = [(1, 2)] ∧
    (evalWhole fx0 20 State.empty wRedecl).r.halt = some .redeclared := by decide

/-! regression, F11-7 (repaired by 3b1b93d): a method declared again by a later text replaces the
    earlier one for the code compiled afterwards; code compiled before keeps the node it was
    compiled against (as for functions) -/
def hMethod : List (List Item) :=
  [[.type "T", .method "T" "M" ⟨none, [], .bin .add .recv .arg⟩, .func "g" ⟨none, [], .mcall "T" "M" .arg (.num 1)⟩],
   [.stmt (.print 1 (.mcall "T" "M" (.num 3) (.num 4)))],
   [.method "T" "M" ⟨none, [], .bin .mul .recv .arg⟩],
   [.stmt (.print 2 (.mcall "T" "M" (.num 3) (.num 4))), .stmt (.print 3 (.call "g" (.num 3)))]]

theorem method_redefinition_regression :
    (hMethod.foldl (evalText fx0 20) State.empty).r.out = [(1, 7), (2, 12), (3, 4)] := by decide

/-- the code before the repair (the fact `methodReplaces` reverted): the old body is still called -/
theorem method_replace_needed :
    (hMethod.foldl (evalText { fx0 with methodReplaces := false } 20) State.empty).r.out = [(1, 7), (2, 7), (3, 4)] := by decide

/-- a method declared again is bound to the new node, every other method is where it was -/
theorem method_redefine_binds_new (fx : Facts) (h : fx.methodReplaces = true) (st : Nat) (p : Tab × Nat) (t m : Name) (b : SBody) :
    lookup (t, m) (regItem fx st p (.method t m b)).1.meths = some p.2 ∧
    ∀ k, k ≠ (t, m) → lookup k (regItem fx st p (.method t m b)).1.meths = lookup k p.1.meths := by
  simp only [regItem, h, if_true]
  cases hl : lookup (t, m) p.1.meths with
  | some v =>
    simp only [Option.isSome_some, if_true, lookup_cons]
    exact ⟨trivial, fun k hk => by rw [if_neg (fun e => hk e.symm)]⟩
  | none =>
    simp only [Option.isSome_none, Bool.false_eq_true, if_false]
    refine ⟨by rw [lookup_append_none _ _ _ hl]; simp [lookup_cons], fun k hk => ?_⟩
    cases hk' : lookup k p.1.meths with
    | some w => exact lookup_append_some k w _ _ hk'
    | none => rw [lookup_append_none _ _ _ hk', lookup_cons, if_neg (fun e => hk e.symm)]; rfl

/-! regression, F11-8 (repaired by 2b45c53): `main` runs with the text that declares it and with no later one -/
def hMain : List (List Item) :=
  [[.func "main" ⟨none, [.print 5 (.num 0)], .num 0⟩], [.stmt (.print 1 (.num 1))], [.var "v" (.num 2)],
   [.stmt (.print 2 (.glob "v"))]]

theorem main_runs_once_regression :
    (hMain.foldl (evalText fx0 20) State.empty).r.out = [(5, 0), (1, 1), (2, 2)] := by decide

/-- the code before the repair (the fact `mainOwnOnly` reverted): every later text runs it again -/
theorem main_own_needed :
    (hMain.foldl (evalText { fx0 with mainOwnOnly := false } 20) State.empty).r.out
      = [(5, 0), (1, 1), (5, 0), (5, 0), (2, 2), (5, 0)] := by decide

/-- a `main` declared again runs once more, with the text that declares it again -/
example : ([[.func "main" ⟨none, [.print 5 (.num 0)], .num 0⟩], [.stmt (.print 1 (.num 1))],
    [.func "main" ⟨none, [.print 6 (.num 0)], .num 0⟩], [.stmt (.print 2 (.num 2))]].foldl (evalText fx0 20) State.empty).r.out
    = [(5, 0), (1, 1), (6, 0), (2, 2)] := by decide

/-- after a session that declared (and ran) `main`, a program of the domain still equals its pieces:
    the state is reachable and `Dom` no longer asks anything of it -/
theorem session_with_main_continues (fuel : Nat) :
    ∀ cuts, evalPieces fx0 fuel (evalText fx0 20 State.empty [.func "main" ⟨none, [.print 5 (.num 0)], .num 0⟩]) (split cuts wVarDep)
      = evalWhole fx0 fuel (evalText fx0 20 State.empty [.func "main" ⟨none, [.print 5 (.num 0)], .num 0⟩]) wVarDep := by
  have hs : evalText fx0 20 State.empty [.func "main" ⟨none, [.print 5 (.num 0)], .num 0⟩] =
      ⟨⟨⟨[("main", .fn 0)], [], 0, 0⟩, [⟨none, [.print 5 (.num 0)], .num 0⟩]⟩, ⟨[], [(5, 0)], none⟩⟩ := by decide
  rw [hs]
  refine chunks_eq_whole_from fuel _ ⟨⟨fun x v h => ?_, fun k f h => ?_⟩, fun b hb => ?_, rfl⟩ wVarDep (by decide)
  · simp only [lookup] at h
    split at h <;> simp at h
    subst h; simp [SymOk]
  · simp [lookup] at h
  · simp only [List.mem_singleton] at hb
    subst hb; decide

/-! ### statements that start with a function literal (seed round 4)

    `func() { s }()` starts with the token `func`: the incremental parser first takes the text for a
    file of declarations, fails ("expected 'IDENT', found '{'"), and parses it again wrapped in main —
    unless the first error is an incomplete input, which it never is. -/

/-- **a text of statements is compiled as the body of main whatever its first token** -/
theorem statement_text_is_body_of_main (fuel : Nat) (s : State) (it : Item) (tl : List Item)
    (h : (it :: tl).all (·.isStmt) = true) : evalText fx0 fuel s (it :: tl) = evalChunk fx0 fuel .block s (it :: tl) :=
  evalText_stmt fx0 good_expected fuel s it tl h

def demoLit : List Item :=
  [.var "total" (.num 0),
   .func "add" ⟨none, [.set "total" (.bin .add (.glob "total") .arg)], .glob "total"⟩,
   .stmt (.eval (.call "add" (.num 1))),
   .stmt (.lit (.eval (.call "add" (.num 10)))),
   .define "x" (.bin .mul (.glob "total") (.num 2)),
   .stmt (.print 1 (.glob "x")),
   .stmt (.set "x" (.call "add" (.num 0)))]

/-- the seeded demo program is in the domain: every cut gives the whole program, in particular the
    cut that makes the literal call the first statement of a longer text -/
theorem literal_call_first_in_text :
    Dom fx0 State.empty demoLit = true ∧
    (evalPieces fx0 20 State.empty (split [3] demoLit)).r.out = [(1, 22)] ∧
    (evalPieces fx0 20 State.empty (split [3] demoLit)).r.halt = none ∧
    (evalWhole fx0 20 State.empty demoLit).r.out = [(1, 22)] := by decide

theorem literal_call_every_cut (fuel : Nat) :
    ∀ cuts, evalPieces fx0 fuel State.empty (split cuts demoLit) = evalWhole fx0 fuel State.empty demoLit :=
  chunks_eq_whole fuel demoLit literal_call_first_in_text.1

/-- without the second attempt, or if another error than the first could veto it, such a text is a syntax error -/
theorem func_retry_needed :
    (evalPieces { fx0 with funcRetry := false } 20 State.empty (split [3] demoLit)).r.halt = some .parse ∧
    (evalPieces { fx0 with firstErrorDecides := false } 20 State.empty (split [3] demoLit)).r.halt = some .parse ∧
    -- a function declaration after the literal call: the second attempt fails as well
    (evalText fx0 20 State.empty [.stmt (.lit (.print 1 (.num 1))), .func "f" ⟨none, [], .num 1⟩]).r.halt = some .parse := by decide

/-! the model is sensitive to the facts: with a mutated fact the session differs from the whole program -/

def wFrame : List Item := [.var "a" (.num 5), .var "b" (.num 6), .stmt (.print 1 (.glob "a"))]

theorem resize_copy_needed :
    Dom fx0 State.empty wFrame = true ∧
    (evalPieces { fx0 with resizeCopiesPrefix := false } 20 State.empty (split [1] wFrame)).r.out = [(1, 0)] ∧
    (evalWhole { fx0 with resizeCopiesPrefix := false } 20 State.empty wFrame).r.out = [(1, 5)] := by decide

theorem alloc_at_end_needed :
    (evalPieces { fx0 with allocAtEnd := false } 20 State.empty (split [1] wFrame)).r.out = [(1, 6)] ∧
    (evalWhole { fx0 with allocAtEnd := false } 20 State.empty wFrame).r.out = [(1, 5)] := by decide

theorem decl_prefix_needed :
    (evalPieces { fx0 with declTokens := [] } 20 State.empty (split [1] wForward)).r.halt = some .parse := by decide

/-! ### redefinition -/

/-- `Eval("func f(n int) int { … }")` in a session -/
def redefine (fx : Facts) (fuel : Nat) (s : State) (f : Name) (b : SBody) : State :=
  evalText fx fuel s [.func f b]

theorem redefine_eq (fx : Facts) (hg : Good fx) (fuel : Nat) (s : State) (f : Name) (b : SBody) :
    redefine fx fuel s f b = evalChunk fx fuel .file s [.func f b] :=
  evalText_decl fx hg fuel s _ _ (by rfl)

/-- whatever happens to the chunk (compiled or not), its scope is the registered one and the code
    compiled before is still there, in place -/
theorem redefine_shape (fx : Facts) (hg : Good fx) (fuel : Nat) (s : State) (f : Name) (b : SBody) :
    (redefine fx fuel s f b).c.tab = (regItem fx s.c.tab.nvars (s.c.tab, s.c.code.length) (.func f b)).1 ∧
    ∃ extra, (redefine fx fuel s f b).c.code = s.c.code ++ extra := by
  rw [redefine_eq fx hg]
  unfold evalChunk
  simp only [List.filterMap_cons, Item.declName, List.filterMap_nil, hasDup, List.contains_nil, Bool.or_self,
    Bool.false_eq_true, if_false, regItems, List.foldl_cons, List.foldl_nil]
  split
  · exact ⟨rfl, [], by simp⟩
  · split
    · exact ⟨rfl, [], by simp⟩
    · split
      · exact ⟨rfl, _, rfl⟩
      · exact ⟨rfl, _, rfl⟩

/-- **redefining `f` changes no other symbol**: `lookup (redefine s f b) g = lookup s g` for `g ≠ f` -/
theorem redefine_only_that (fx : Facts) (hg : Good fx) (fuel : Nat) (s : State) (f g : Name) (b : SBody) (h : f ≠ g) :
    lookup g (redefine fx fuel s f b).c.tab.syms = lookup g s.c.tab.syms := by
  rw [(redefine_shape fx hg fuel s f b).1]
  exact regItem_other fx _ _ _ g (by simpa [Item.declName] using h)

/-- nor any method, nor the layout of the frame -/
theorem redefine_keeps_layout (fx : Facts) (hg : Good fx) (fuel : Nat) (s : State) (f : Name) (b : SBody) :
    (redefine fx fuel s f b).c.tab.meths = s.c.tab.meths ∧ (redefine fx fuel s f b).c.tab.nvars = s.c.tab.nvars := by
  rw [(redefine_shape fx hg fuel s f b).1]
  simp only [regItem]
  split <;> exact ⟨rfl, rfl⟩

/-- the functions compiled before keep their identity and their code -/
theorem redefine_keeps_compiled (fx : Facts) (hg : Good fx) (fuel : Nat) (s : State) (f : Name) (b : SBody) (k : Nat)
    (hk : k < s.c.code.length) : (redefine fx fuel s f b).c.code[k]? = s.c.code[k]? := by
  obtain ⟨extra, he⟩ := (redefine_shape fx hg fuel s f b).2
  rw [he, List.getElem?_append_left hk]

/-- …and therefore run as before: code compiled earlier (closed in the old store) computes the same
    in the new store — what previously compiled callers of `f` do is what they did -/
theorem redefine_old_code_unchanged (fx : Facts) (hg : Good fx) (fuel : Nat) (s : State) (f : Name) (b : SBody)
    (hwf : WF s) (n : Nat) (t : Task) (r : RState) (hr : r.cells.length = s.c.tab.nvars)
    (ht : closedT s.c.code.length s.c.tab.nvars t = true) :
    run (redefine fx fuel s f b).c.code n t r = run s.c.code n t r := by
  obtain ⟨extra, he⟩ := (redefine_shape fx hg fuel s f b).2
  have := run_ext s.c.code extra s.c.tab.nvars [] hwf.closed n t r hr ht
  have e : ∀ q : RState, RState.ext q [] = q := fun q => by simp [RState.ext]
  rw [e, e] at this
  rw [he, this]

/-- **later evaluations see the new body**: when the new body compiles, `f` denotes a new function
    whose code is the new body; a call of `f` compiled afterwards goes there -/
theorem redefine_sees_new (fx : Facts) (hg : Good fx) (hfo : fx.funcOverwrites = true) (fuel : Nat) (s : State)
    (f : Name) (b : SBody) (cb : CBody)
    (hc : resolveB (regItem fx s.c.tab.nvars (s.c.tab, s.c.code.length) (.func f b)).1 b = some cb) :
    lookup f (redefine fx fuel s f b).c.tab.syms = some (.fn s.c.code.length) ∧
    (redefine fx fuel s f b).c.code = s.c.code ++ [cb] ∧
    ∀ a, resolveE (redefine fx fuel s f b).c.tab (.call f a) =
      (resolveE (redefine fx fuel s f b).c.tab a).map (.call s.c.code.length) := by
  have hl : lookup f (redefine fx fuel s f b).c.tab.syms = some (.fn s.c.code.length) := by
    rw [(redefine_shape fx hg fuel s f b).1]
    simp [regItem, hfo, lookup_cons]
  refine ⟨hl, ?_, ?_⟩
  · rw [redefine_eq fx hg]
    unfold evalChunk
    simp [hasDup, Item.declName, regItems, localsOk, stmtsOk, Item.isStmt, defineNames, compileItems, compileItem, hc,
      varDepsOk, varDeps, typeLoop]
  · intro a
    simp only [resolveE, hl]
    cases resolveE (redefine fx fuel s f b).c.tab a <;> rfl

/-- a history: define `f` and a caller `g`, use, redefine `f`, use again — the new `f` is seen by
    the statement compiled afterwards, `g` (compiled before) still calls the old one -/
theorem redefine_history_example :
    ([[.func "f" ⟨none, [], .num 1⟩, .func "g" ⟨none, [], .bin .mul (.call "f" .arg) (.num 10)⟩],
      [.stmt (.print 1 (.call "f" (.num 0))), .stmt (.print 2 (.call "g" (.num 0)))],
      [.func "f" ⟨none, [], .num 100⟩],
      [.stmt (.print 3 (.call "f" (.num 0))), .stmt (.print 4 (.call "g" (.num 0)))]].foldl
        (evalText fx0 20) State.empty).r.out = [(1, 1), (2, 10), (3, 100), (4, 10)] := by decide

/-- without the overwrite in gta the old function would still be called (the mutated source) -/
theorem overwrite_needed :
    ([[.func "f" ⟨none, [], .num 1⟩], [.func "f" ⟨none, [], .num 100⟩], [.stmt (.print 3 (.call "f" (.num 0)))]].foldl
        (evalText { fx0 with funcOverwrites := false } 20) State.empty).r.out = [(3, 1)] := by decide

/-- evaluating a chunk leaves every symbol it does not declare where it was (identity across calls) -/
theorem chunk_keeps_other_symbols (fx : Facts) (fuel : Nat) (mode : Mode) (s : State) (items : List Item) (y : Name)
    (hy : ∀ it ∈ items, it.declName ≠ some y) :
    lookup y (evalChunk fx fuel mode s items).c.tab.syms = lookup y s.c.tab.syms := by
  have h := regItems_other fx s.c.tab.nvars y items (s.c.tab, s.c.code.length) hy
  unfold evalChunk
  split
  · rfl
  · dsimp only
    split
    · exact h
    · split
      · exact h
      · split <;> exact h

/-! ### the entry points share one pipeline -/

/-- **Eval = Compile then Execute = parse then CompileAST then Execute; EvalPath on a file = read
    it, then the same**: the sequences of primitive phases (parse, ast, gta, cfg, genRun,
    resizeFrame, run root, global variables, init functions) are equal, read from the call graph -/
theorem entrypoints_agree_expected :
    flat Expected.C11.pipeline 6 "Eval" = flat Expected.C11.pipeline 6 "Compile" ++ flat Expected.C11.pipeline 6 "Execute" ∧
    flat Expected.C11.pipeline 6 "Compile" = "parse" :: flat Expected.C11.pipeline 6 "CompileAST" ∧
    flat Expected.C11.pipeline 6 "EvalPath" = "ReadFile" :: flat Expected.C11.pipeline 6 "Eval" ∧
    flat Expected.C11.pipeline 6 "Execute" = ["genRun", "resizeFrame", "run", "genGlobalVars", "run", "run"] := by decide

theorem entrypoints_agree :
    flat Generated.C11.pipeline 6 "Eval" = flat Generated.C11.pipeline 6 "Compile" ++ flat Generated.C11.pipeline 6 "Execute" ∧
    flat Generated.C11.pipeline 6 "Compile" = "parse" :: flat Generated.C11.pipeline 6 "CompileAST" ∧
    flat Generated.C11.pipeline 6 "EvalPath" = "ReadFile" :: flat Generated.C11.pipeline 6 "Eval" ∧
    flat Generated.C11.pipeline 6 "Execute" = ["genRun", "resizeFrame", "run", "genGlobalVars", "run", "run"] :=
  pipeline_tie ▸ entrypoints_agree_expected

/-- Eval and Compile parse incrementally (`inc = true`), EvalPath does not -/
theorem entrypoints_inc :
    argsOf Generated.C11.pipeline "Eval" "eval" = some "src,\"\",true" ∧
    argsOf Generated.C11.pipeline "Compile" "compileSrc" = some "src,\"\",true" ∧
    argsOf Generated.C11.pipeline "EvalPath" "eval" = some "string(b),path,false" ∧
    argsOf Generated.C11.pipeline "eval" "compileSrc" = some "src,name,inc" ∧
    argsOf Generated.C11.pipeline "compileSrc" "parse" = some "src,interp.name,inc" := by
  rw [pipeline_tie]; decide

/-- nothing is executed unless compilation succeeded: in `eval` the call of compileSrc is followed
    by the early return on error, before Execute; likewise parse before CompileAST -/
theorem execute_only_after_compile :
    checkedCall Generated.C11.pipeline "eval" "compileSrc" = true ∧
    checkedCall Generated.C11.pipeline "compileSrc" "parse" = true ∧
    checkedCall Generated.C11.pipeline "CompileAST" "gtaRetry" = true ∧
    checkedCall Generated.C11.pipeline "CompileAST" "cfg" = true := by
  rw [pipeline_tie]; decide

end YaegiVerif.Props.C11
