import YaegiVerif.Model.Bind
import YaegiVerif.Expected.C14
import YaegiVerif.Generated.C14
/-
  C14 — every standard-library binding denotes the symbol it is named after. Property theorems.

  `Generated.C14.files` is the list of binding tables regenerated from the repository on this run (quick: the
  tables the toolchain selects on this host for the newest release, plus go1.21 os/log/fmt/flag/math/strings and
  the hand-written tables; thorough: every table of every file), each paired with the reference the installed
  toolchain gives for the namesake package on the platform of the file. Each generated module
  `Generated/C14/F_*.lean` carries the seven kernel-evaluated obligations of its table (theorems
  `Props.C14.Gen.<file>.*`); `Generated.C14.files_ok` collects them. The theorems below turn them into the
  statements of the property, through the soundness theorems of `Model/Bind.lean`.
-/
namespace YaegiVerif.Props.C14
open YaegiVerif YaegiVerif.Bind

abbrev R : List Repl := Expected.C14.repls
abbrev D : List (Nat × Nat) := Expected.C14.floatRounded
abbrev files : List (File × Ref) := Generated.C14.files

/-! ### ties -/

/-- `extract/extract.go restricted` and the declarations of `stdlib/restricted.go` are the ones read -/
theorem restricted_tie : Generated.C14.Facts.restricted = Expected.C14.restricted := by decide
/-- the coded replacement table is the readable one -/
theorem repls_coded : Expected.C14.repls = Expected.C14.replNames.map (fun t => ⟨enc t.1, enc t.2.1, enc t.2.2⟩) := by decide
/-- every restricted identifier of `extract.go` is one of the documented replacements (same package, key, identifier) -/
theorem restricted_are_replacements :
    ∀ t ∈ Expected.C14.restricted, (t.2.1, t.2.2.1, t.1) ∈ Expected.C14.replNames := by decide
/-- the coded divergence class is the readable one -/
theorem floatRounded_coded :
    Expected.C14.floatRounded = Expected.C14.floatRoundedNames.map (fun t => (enc t.1, enc t.2)) := by decide
/-- go:generate lines: syscall excludes exactly what unrestricted includes -/
theorem patterns_tie :
    Generated.C14.Facts.syscallExclude = Expected.C14.exitPatterns ∧ Generated.C14.Facts.unrestrictedInclude = Expected.C14.exitPatterns ∧
    Generated.C14.Facts.syscallInclude = [] ∧ Generated.C14.Facts.unrestrictedExclude = [] := by decide
/-- the tables of the hand-written files (stdlib.go, syscall.go, unsafe.go, unrestricted.go) are the ones read -/
theorem hand_tables_tie : Generated.C14.Facts.handTables = Expected.C14.handTables := by decide
/-- nothing else touches `Symbols`; every generated file is exactly one table; the reference could be built -/
theorem nothing_unrecognised :
    Generated.C14.Facts.unrecognised = [] ∧ Generated.C14.Facts.strayGenerated = [] ∧ Generated.C14.loadErrors = [] := by decide
/-- the reference is the installed toolchain's source except for the listed, documented corrections -/
theorem ref_corrections_tie : Generated.C14.Facts.refCorrections = Expected.C14.refCorrections := by decide
/-- **platform census (F14-1)**: on the probe platforms the literal constants of the platform-independent files
    agree with their namesakes except for exactly the listed ones (class `platform-frozen-const`); the comparison
    is the extractor's (go/types per platform), the list is the hand-read one -/
theorem platform_frozen_tie : Generated.C14.Facts.platformFrozen = Expected.C14.platformFrozen := by decide
/-- the census is a witness too: on linux/386 the table does not carry the value of `math.MaxInt` -/
theorem platform_frozen_witness :
    "math.MaxInt on linux/386: bound int:9223372036854775807, namesake int:2147483647" ∈ Generated.C14.Facts.platformFrozen := by
  decide
/-- `MapTypes` registrations of maptypes.go and wrapper-composed.go are the ones read -/
theorem map_types_tie : Generated.C14.Facts.mapTypes = Expected.C14.mapTypes := by decide
/-- the coded table of composed wrappers is the readable one -/
theorem composed_coded : Expected.C14.composed =
    Expected.C14.composedNames.map (fun t => (enc t.1, t.2.map fun q => (enc q.1, enc q.2))) := by decide
/-- number of generated files per directory and release -/
theorem census_tie : Generated.C14.Facts.census = Expected.C14.census := by decide

/-- **every package of the go:generate lists has its file for each release it exists in** -/
theorem every_package_has_its_files :
    ∀ w ∈ Generated.C14.Facts.wanted, ∀ r ∈ [21, 22], w.2 ≤ r → (0, r, w.1) ∈ Generated.C14.Facts.genFiles := by
  decide +kernel

/-! ### the coding of names -/

/-- names, paths and type strings are compared through their codes; the coding is injective -/
theorem name_coding_injective (xs ys : List Nat) (hx : ∀ b ∈ xs, b < 256) (hy : ∀ b ∈ ys, b < 256)
    (h : encBytes xs = encBytes ys) : xs = ys := encBytes_inj xs ys hx hy h

theorem name_coding_decodes (bs : List Nat) (h : ∀ b ∈ bs, b < 256) : decBytes (encBytes bs) = bs :=
  decBytes_encBytes bs h

/-! ### the property, over every table of the run -/

theorem every_file_ok : ∀ fr ∈ files, FileOk R D fr.1 fr.2 := Generated.C14.files_ok.all

/-- the key of `Symbols` is `importpath/pkgname` of the namesake package, the header names that package and
    the build constraint selects the release of the file name -/
theorem table_keys : ∀ fr ∈ files,
    decBytes fr.1.symKey = decBytes fr.1.pkg ++ 47 :: decBytes fr.1.pkgName ∧ fr.1.headerOk = true := by
  intro fr h
  have := (every_file_ok fr h).header
  simpa [headOk] using this

/-- **names_match**: the identifier bound under key `K` of the table of package `p` is `p.K` (the qualifier
    resolved through the import list of the file), or one of the documented replacements; a wrapper key `_X` is
    bound to the local struct `_p_X` -/
theorem names_match : ∀ fr ∈ files, ∀ e ∈ fr.1.entries,
    (e.form ≠ .wrap → e.form ≠ .lit → NameDenotes R fr.1.pkg e) ∧ (e.form = .wrap → WrapDenotes fr.1.pkg e) :=
  fun fr h => namesOk_sound (every_file_ok fr h).names

/-- the full-strength statement: every key is the name of an exported, non-generic object of the namesake package
    and the form of the binding is the one its kind demands: function value, variable by address, nil pointer to the
    type, literal of the kind (INT, CHAR, FLOAT, STRING) of an untyped constant, plain value for typed, boolean and
    complex constants -/
def FormsMatch : Prop :=
  ∀ fr ∈ files, ∀ e ∈ fr.1.entries, e.form ≠ .wrap → ∃ o ∈ fr.2.objs, o.name = e.key ∧ FormAgrees e o

/-- **forms_match (partial)**: the statement holds for every entry whose namesake is not an untyped RUNE constant;
    those (class `untyped-rune-as-int`, F14-2) are bound to an INT literal: `extract.go fixConst` goes through
    go/constant, which has no rune kind, so the constant keeps its value (const_values_exact) but becomes an untyped
    integer constant -/
theorem forms_match_partial : ∀ fr ∈ files, ∀ e ∈ fr.1.entries, e.form ≠ .wrap →
    ∃ o ∈ fr.2.objs, o.name = e.key ∧
      (o.ck ≠ .rune → FormAgrees e o) ∧ (o.ck = .rune → o.kind = .const ∧ e.form = .lit ∧ e.tok = .int) :=
  fun fr h => formsOk_sound (every_file_ok fr h).forms

private theorem maxRune_b :
    (Generated.C14.unicodeFile.1.entries.any fun e => e.key == enc "MaxRune" && e.form != .wrap &&
      Generated.C14.unicodeFile.2.objs.all fun o => o.name != enc "MaxRune" || !formOk e o) = true := by decide +kernel

/-- **witness (F14-2)**: `unicode.MaxRune` is an untyped rune constant bound as an INT literal -/
theorem forms_match_witness : ¬ FormsMatch := by
  intro hall
  have hb := maxRune_b
  simp only [List.any_eq_true, Bool.and_eq_true, beq_iff_eq, bne_iff_ne, List.all_eq_true, Bool.or_eq_true,
    Bool.not_eq_true'] at hb
  obtain ⟨e, he, ⟨hk, hf⟩, hall'⟩ := hb
  obtain ⟨o, ho, hn, hag⟩ := hall _ Generated.C14.unicodeFile_mem e he hf
  rcases hall' o ho with h1 | h1
  · exact h1 (hn.trans hk)
  · simp [FormAgrees, h1] at hag

/-- the partial theorem is not vacuous: tables are full of entries whose namesake is not a rune constant -/
theorem forms_match_dom_nonempty :
    ∃ e ∈ Generated.C14.unicodeFile.1.entries, ∃ o ∈ Generated.C14.unicodeFile.2.objs,
      o.name = e.key ∧ o.ck ≠ .rune ∧ e.key = enc "IsUpper" ∧ FormAgrees e o := by
  unfold FormAgrees
  decide +kernel

/-- the full-strength statement: every literal carries exactly the value of its namesake -/
def ConstValuesExact : Prop :=
  ∀ fr ∈ files, ∀ e ∈ fr.1.entries, e.form = .lit → ∃ o ∈ fr.2.objs, o.name = e.key ∧ e.val = o.val

/-- the decidable side condition: the constant is not one of the listed non-dyadic floating-point constants -/
def Dom (pkg key : Nat) : Prop := (pkg, key) ∉ D
instance (pkg key : Nat) : Decidable (Dom pkg key) := by unfold Dom; infer_instance

/-- **const_values_exact (partial)**: every literal is evaluated and is exactly what the model of
    `extract.go fixConst` (`Bind.asBuilt`: binary rounding to max(bitlen num, bitlen den, 64) bits, then decimal
    rounding to as many significant digits) yields for the go/types value of the namesake; outside the class
    `float-const-rounded` that IS the exact value, kind included (inside the class it is not:
    `float_rounded_all_diverge`) -/
theorem const_values_exact_partial : ∀ fr ∈ files, ∀ e ∈ fr.1.entries, e.form = .lit →
    ∃ o ∈ fr.2.objs, o.name = e.key ∧ e.val = asBuilt o.val ∧ e.val ≠ .none ∧
      (Dom fr.1.pkg e.key → e.val = o.val) :=
  fun fr h => valuesOk_sound (every_file_ok fr h).values

/-- integers, strings and binary fractions that fit the precision pass through `fixConst` unchanged; a third does not -/
example : asBuilt (.int true 5) = .int true 5 ∧ asBuilt (.rat false 3 8) = .rat false 3 8 ∧
    asBuilt (.rat false 1 3) ≠ .rat false 1 3 := by decide +kernel

/-- the class is tight: every listed constant of a checked table is a literal that differs from every object of
    its name (so the list hides nothing that is exact) -/
theorem float_rounded_all_diverge : ∀ fr ∈ files, ∀ key, (fr.1.pkg, key) ∈ D →
    ∃ e ∈ fr.1.entries, e.key = key ∧ e.form = .lit ∧ e.val ≠ .none ∧ ∀ o ∈ fr.2.objs, o.name = key → e.val ≠ o.val :=
  fun fr h => divergeOk_sound (every_file_ok fr h).diverge

theorem mathFile_pkg : Generated.C14.mathFile.1.pkg = enc "math" := by decide +kernel

/-- **witness (F13)**: `math.Pi` of the newest release's table is bound to a literal that is not the value of
    the constant -/
theorem const_values_exact_witness : ¬ ConstValuesExact := by
  intro hall
  have hm := Generated.C14.mathFile_mem
  have hD : (Generated.C14.mathFile.1.pkg, enc "Pi") ∈ D := by rw [mathFile_pkg]; decide
  obtain ⟨e, he, hk, hl, _, hne⟩ := float_rounded_all_diverge _ hm (enc "Pi") hD
  obtain ⟨o, ho, hn, hv⟩ := hall _ hm e he hl
  exact hne o ho (hn.trans hk) hv

/-- the partial theorem is not vacuous: the table of package math has literal constants inside the domain -/
theorem const_values_dom_nonempty :
    ∃ e ∈ Generated.C14.mathFile.1.entries, e.form = .lit ∧ Dom Generated.C14.mathFile.1.pkg e.key ∧ e.key = enc "MaxInt64" := by
  decide +kernel

/-- **complete**: every exported package-level object that GOROOT/api declares up to the release of the file
    (for its platform; minus except.txt and the include/exclude lists of the directory) is a key, unless `extract`
    skips it (generic function or type, constraint interface) -/
theorem complete : ∀ fr ∈ files, fr.1.full = true → ∀ n ∈ fr.2.api, n ∉ skipped fr.2.objs →
    ∃ e ∈ fr.1.entries, e.key = n ∧ e.form ≠ .wrap :=
  fun fr h => completeOk_sound (every_file_ok fr h).complete

/-- **wrappers_forward**: every wrapper struct is named after an interface of the namesake package, has `IValue`
    and one field per method, and has exactly the exported methods of that interface (as of the release), each
    forwarding to the field `W<Method>` of the receiver with the same parameter, variadic and result lists;
    wrapper keys and wrapper structs correspond one to one; in a generated file every interface has its wrapper -/
theorem wrappers_forward : ∀ fr ∈ files,
    (∀ w ∈ fr.1.wrappers, WrapperForwards fr.1.pkg fr.2.ifaces w) ∧
    (∀ e ∈ fr.1.entries, e.form = .wrap → ∃ w ∈ fr.1.wrappers, w.struct = e.sel) ∧
    (∀ w ∈ fr.1.wrappers, ∃ e ∈ fr.1.entries, e.form = .wrap ∧ e.sel = w.struct) ∧
    (fr.1.full = true → ∀ i ∈ fr.2.ifaces, ∃ w ∈ fr.1.wrappers, w.iface = i.name) :=
  fun fr h => wrappersOk_sound (every_file_ok fr h).wrappers

/-- **wrappers_forward, hand-written part** (`stdlib/wrapper-composed.go`): each of the three composed wrappers has
    `IValue`, one field per method, and for every method of the interfaces it composes (as of the newest release) a
    method forwarding to the field `W<Method>` with the same signature — and no further method -/
theorem composed_wrappers_forward :
    Generated.C14.Composed.wrappers.length = Expected.C14.composed.length ∧
    ∀ s ∈ Expected.C14.composed, ∃ w ∈ Generated.C14.Composed.wrappers, w.struct = s.1 ∧ w.hasIValue = true ∧
      ∃ rms, unionMethods Generated.C14.Composed.ifaces s.2 = some rms ∧ w.methods.length = rms.length ∧
        w.fields.length = w.methods.length ∧ ∀ rm ∈ rms, ∃ m ∈ w.methods, Forwards w m rm :=
  composedOk_sound Gen.Composed.composed_forward

/-- what forwarding gives for one method: the field called is `W` followed by the method's name, it exists in the
    struct with the method's signature, which is the signature of the interface method -/
theorem forwards_same_field {w : Wrapper} {m : WMethod} {rm : RefMethod} (h : Forwards w m rm) :
    decBytes m.field = 87 :: decBytes m.name ∧ (∃ fl ∈ w.fields, fl.name = m.field ∧ fl.sig = rm.sig) ∧ m.name = rm.name := by
  obtain ⟨fl, hfl, hn, hs⟩ := h.fieldSig
  exact ⟨h.field, ⟨fl, hfl, hn, hs.trans h.sig⟩, h.name⟩

/-! ### non-vacuity -/

/-- the run checked a substantial number of tables and entries (quick tier: at least 150 tables, 8000 entries) -/
theorem run_is_substantial : 150 ≤ Generated.C14.tableCount ∧ 8000 ≤ Generated.C14.entryCount ∧ files ≠ [] := by
  refine ⟨by decide, by decide, ?_⟩
  intro h
  have := Generated.C14.mathFile_mem
  simp [files] at h
  rw [h] at this
  cases this

/-- the checkers are not trivially true: a mis-bound name, a wrong form, a wrong digit, a missing key and a
    wrapper forwarding to the wrong field are each rejected -/
example : namesOk R (enc "os") [eV (enc "Chown") (enc "os") (enc "Chmod")] = false := by decide
example : namesOk R (enc "os") [eV (enc "Exit") 0 (enc "osExit")] = true := by decide
example : formsOk [eV (enc "Args") (enc "os") (enc "Args")] [oV (enc "Args")] = false := by decide
example : valuesOk D (enc "os") [eI (enc "O_RDWR") 3] [oI (enc "O_RDWR") 2] = false := by decide
example : completeOk { (default : File) with full := true, entries := [eV 5 1 5] } { objs := [oF 5, oF 6], api := [5, 6], ifaces := [] } = false := by
  decide
example : methodOk { struct := 0, iface := 0, hasIValue := true, fields := [⟨enc "WRead", ⟨[], false, []⟩⟩, ⟨enc "WWrite", ⟨[], false, []⟩⟩], methods := [] }
    ⟨enc "Read", ⟨[], false, []⟩, true, enc "WWrite", [], [], false, false, true⟩ ⟨enc "Read", ⟨[], false, []⟩⟩ = false := by decide

end YaegiVerif.Props.C14
