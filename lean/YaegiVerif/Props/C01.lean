import YaegiVerif.Proofs.C01Sim
import YaegiVerif.Expected.C01
import YaegiVerif.Generated.C01
/-
  C01 — property theorems for the core fragment (Spec/GoCore.lean, Model/Cfg.lean).
-/
namespace YaegiVerif.Props.C01
open YaegiVerif YaegiVerif.Core

/-- tie: the clauses of cfg.go / run.go that Model/Cfg.lean transcribes (if/for wiring, &&/||,
    break/continue, wireChild, setFNext, the runCfg loop) are textually the ones it was written from -/
theorem source_tie : Generated.C01.sourceHashes = Expected.C01.sourceHashes := by decide

/-- the outcome the property compares: what was printed, and whether the run ended in a panic -/
structure Outcome where
  out : List Val
  panicked : Bool
  deriving DecidableEq

def specOutcome (fs : Funs) (fuel : Nat) (p : Stmt) (s : St) : Option Outcome :=
  match exec fs fuel p s with
  | some (.panic, s') => some ⟨s'.out, true⟩
  | some (_, s') => some ⟨s'.out, false⟩
  | none => none

def machineOutcome : MState → Outcome
  | .run _ s _ => ⟨s.out, false⟩
  | .done s => ⟨s.out, false⟩
  | .panicked s => ⟨s.out, true⟩

/-- the execution loop stops when the outermost function has returned and after a panic -/
theorem halted_done (code : List Instr) (s : St) : step code (.done s) = none := rfl
theorem halted_panicked (code : List Instr) (s : St) : step code (.panicked s) = none := rfl

/-- `runFuel` (what the driver executes) follows `steps` until the machine halts -/
theorem runFuel_of_steps (code : List Instr) : ∀ (n : Nat) (m final : MState),
    steps code n m = some final → step code final = none → runFuel code (n + 1) m = some final := by
  intro n
  induction n with
  | zero =>
    intro m final h hf
    simp only [steps, Option.some.injEq] at h
    subst h
    simp [runFuel, hf]
  | succ n ih =>
    intro m final h hf
    simp only [steps] at h
    cases hs : step code m with
    | none => simp [hs] at h
    | some m' =>
      simp only [hs, Option.bind_some] at h
      simp only [runFuel, hs]
      exact ih m' final h hf

/-- the step-by-step simulation (all statements, all embeddings of the compiled fragment in a larger graph,
    all break/continue targets, all stacks of enclosing labelled loops, all stacks of suspended callers): the induction behind `compile_correct` -/
theorem simulation (code : List Instr) (fs : Funs) (ent : Nat → Nat)
    (hfe : FunsEmbed code fs ent) (hfw : Funs.wf fs)
    (fuel : Nat) (p : Stmt) (s s' : St) (sig : Sig) (base next brk cont fin : Nat)
    (ls : List (Nat × Nat)) (σ : List Frame)
    (hwf : p.wf = true) (h : exec fs fuel p s = some (sig, s'))
    (hemb : Embeds code (compile ent fin ls p base next brk cont) base) :
    ∃ n, steps code n (.run base s σ) = some (target next brk cont fin ls σ sig s') :=
  sim code fs ent hfe hfw fuel p s s' sig base next brk cont fin ls σ hwf h hemb

/-- conditions: `&&` / `||` / `!` compiled to branches reach the true or the false exit according to
    Go's short-circuit evaluation, and an operand that panics panics the machine -/
theorem condition_simulation (code : List Instr) (s : St) (σ : List Frame) (c : BExpr) (base t f : Nat)
    (hemb : Embeds code (compileCond c base t f) base) :
    (∀ v, c.eval s = some v → ∃ n, steps code n (.run base s σ) = some (.run (if v then t else f) s σ)) ∧
    (c.eval s = none → ∃ n, steps code n (.run base s σ) = some (.panicked s)) :=
  cond_sim code s σ c base t f hemb

/-- the layout of a compiled program: main at address 0, every declared function at its entry -/
theorem program_layout (fs : Funs) (main : Stmt) :
    Embeds (compileProg fs main) (compileFn (entryOf main fs) main 0) 0 ∧
    FunsEmbed (compileProg fs main) fs (entryOf main fs) :=
  ⟨compileProg_main fs main, compileProg_funs fs main⟩

/-- **Compilation to the control-flow graph and the closure loop preserve behaviour.**
    For every program — a main body and declared (possibly recursive) functions, all well formed —
    every start state and every amount of fuel: if the Go semantics terminates (normally, by
    `return`, or with a run-time panic), the execution loop over the compiled graph halts after
    finitely many closures with the same printed output and the same kind of end. -/
theorem compile_correct (fs : Funs) (p : Stmt) (s : St) (fuel : Nat) (o : Outcome)
    (hwf : p.wf = true) (hfw : Funs.wf fs) (h : specOutcome fs fuel p s = some o) :
    ∃ n final, runFuel (compileProg fs p) n (.run 0 s []) = some final ∧ machineOutcome final = o := by
  unfold specOutcome at h
  cases hx : exec fs fuel p s with
  | none => simp [hx] at h
  | some r =>
    obtain ⟨sig, s'⟩ := r
    have hmain := compileProg_main fs p
    unfold compileFn at hmain
    have hbody := hmain.left
    have hret := Embeds.head hmain.right
    rw [compile_length] at hret
    simp only [Nat.zero_add] at hret hbody
    obtain ⟨n, hn⟩ := sim (compileProg fs p) fs (entryOf p fs) (compileProg_funs fs p) hfw fuel p s s' sig
      0 p.size p.size p.size p.size [] [] hwf hx hbody
    -- a main body that ends without `return` reaches the trailing `return 0`
    have fell : target p.size p.size p.size p.size [] [] sig s' = .run p.size s' [] →
        steps (compileProg fs p) (n + 1) (.run 0 s []) = some (.done s') := by
      intro ht
      rw [ht] at hn
      refine steps_trans hn ?_
      simp [steps, step, hret, Expr.eval, doReturn]
    cases sig with
    | normal =>
      simp only [hx, Option.some.injEq] at h
      exact ⟨n + 1 + 1, .done s', runFuel_of_steps _ _ _ _ (fell rfl) rfl, by simp [machineOutcome, ← h]⟩
    | brk =>
      simp only [hx, Option.some.injEq] at h
      exact ⟨n + 1 + 1, .done s', runFuel_of_steps _ _ _ _ (fell rfl) rfl, by simp [machineOutcome, ← h]⟩
    | cont =>
      simp only [hx, Option.some.injEq] at h
      exact ⟨n + 1 + 1, .done s', runFuel_of_steps _ _ _ _ (fell rfl) rfl, by simp [machineOutcome, ← h]⟩
    | brkL k =>
      simp only [hx, Option.some.injEq] at h
      exact ⟨n + 1 + 1, .done s', runFuel_of_steps _ _ _ _ (fell (by simp [target, labelBrk])) rfl,
        by simp [machineOutcome, ← h]⟩
    | contL k =>
      simp only [hx, Option.some.injEq] at h
      exact ⟨n + 1 + 1, .done s', runFuel_of_steps _ _ _ _ (fell (by simp [target, labelCont])) rfl,
        by simp [machineOutcome, ← h]⟩
    | panic =>
      simp only [hx, Option.some.injEq] at h
      exact ⟨n + 1, .panicked s', runFuel_of_steps _ _ _ _ (by simpa [target] using hn) rfl,
        by simp [machineOutcome, ← h]⟩
    | ret v =>
      simp only [hx, Option.some.injEq] at h
      exact ⟨n + 1, .done s', runFuel_of_steps _ _ _ _ (by simpa [target, doReturn] using hn) rfl,
        by simp [machineOutcome, ← h]⟩

/-- the machine is deterministic, so the outcome above is *the* outcome of the compiled program:
    any two halting runs agree -/
theorem run_deterministic (code : List Instr) (n : Nat) (m a b : MState)
    (ha : runFuel code n m = some a) (hb : runFuel code n m = some b) : a = b := by
  rw [ha] at hb; exact Option.some.inj hb

/-- more fuel does not change a finished run -/
theorem runFuel_mono (code : List Instr) : ∀ (n : Nat) (m final : MState),
    runFuel code n m = some final → runFuel code (n + 1) m = some final := by
  intro n
  induction n with
  | zero => intro m final h; simp [runFuel] at h
  | succ n ih =>
    intro m final h
    simp only [runFuel] at h ⊢
    cases hs : step code m with
    | none => simpa [hs] using h
    | some m' =>
      simp only [hs] at h ⊢
      exact ih m' final h

/-- non-vacuity: a program with a three-clause loop, `continue`, `break`, `&&`, an `if`/`else`
    and a division is well-formed and terminates in the Go semantics -/
def exProg : Stmt :=
  .seq (.assign 0 (.lit 0))
   (.seq (.assign 1 (.lit 0))
    (.seq (.loop (.cmp .lt (.var 0) (.lit 10))
        (.seq (.ite (.land (.cmp .gt (.var 0) (.lit 2)) (.cmp .eq (.bin .rem (.var 0) (.lit 2)) (.lit 0))) .cont .skip)
          (.seq (.ite (.cmp .ge (.var 0) (.lit 7)) .brk .skip)
            (.seq (.assign 1 (.bin .add (.var 1) (.var 0))) (.print (.var 1)))))
        (.assign 0 (.bin .add (.var 0) (.lit 1))))
      (.print (.bin .quo (.var 1) (.lit 3)))))

def st0 : St := { vars := fun _ => 0, out := [] }

example : exProg.wf = true ∧ specOutcome [] 60 exProg st0 = some ⟨[0, 1, 3, 6, 11, 3], false⟩ := by
  constructor
  · rfl
  · decide

/-- a switch with a tag, `fallthrough`, a `break` inside a clause and a default clause -/
def exSwitch : Stmt :=
  .seq (.assign 0 (.lit 0))
    (.loop (.cmp .lt (.var 0) (.lit 4))
      (.switch
        (.cons (.cmp .eq (.var 0) (.lit 0)) (.print (.lit 100)) true
        (.cons (.cmp .eq (.var 0) (.lit 1)) (.seq (.ite (.cmp .eq (.var 0) (.lit 0)) .brk .skip) (.print (.lit 101))) false
        (.cons (.cmp .eq (.var 0) (.lit 2)) .cont false
        (.cons (.cmp .eq (.lit 0) (.lit 0)) (.print (.lit 199)) false .nil)))))
      (.assign 0 (.bin .add (.var 0) (.lit 1))))

example : exSwitch.wf = true ∧ specOutcome [] 60 exSwitch st0 = some ⟨[100, 101, 199], false⟩ := by
  constructor
  · rfl
  · decide

/-- a recursive function (factorial with an accumulator, written with a temporary for the call) -/
def exFact : Stmt :=
  .ite (.cmp .le (.var 0) (.lit 0)) (.ret (.var 1))
    (.seq (.call 2 0 [.bin .sub (.var 0) (.lit 1), .bin .mul (.var 1) (.var 0)]) (.ret (.var 2)))

def exCallMain : Stmt := .seq (.call 0 0 [.lit 5, .lit 1]) (.print (.var 0))

example : exCallMain.wf = true ∧ exFact.wf = true ∧
    specOutcome [exFact] 40 exCallMain st0 = some ⟨[120], false⟩ := by
  refine ⟨rfl, rfl, ?_⟩
  decide

/-- … and a division by zero ends in a panic after the output produced so far -/
example : specOutcome [] 10 (.seq (.print (.lit 5)) (.print (.bin .quo (.lit 1) (.var 0)))) st0 = some ⟨[5], true⟩ := by
  decide

/-- labelled `continue` and `break` naming the outer of two nested loops -/
def exLabel : Stmt :=
  .seq (.assign 0 (.lit 0))
    (.loop (.cmp .lt (.var 0) (.lit 3))
      (.seq (.assign 1 (.lit 0))
        (.loop (.cmp .lt (.var 1) (.lit 3))
          (.seq (.ite (.cmp .eq (.var 1) (.lit 1)) (.contL 1) .skip)
            (.seq (.ite (.cmp .eq (.var 0) (.lit 2)) (.brkL 1) .skip)
              (.print (.bin .add (.bin .mul (.var 0) (.lit 10)) (.var 1)))))
          (.assign 1 (.bin .add (.var 1) (.lit 1)))))
      (.assign 0 (.bin .add (.var 0) (.lit 1))))

example : exLabel.wf = true ∧ specOutcome [] 60 exLabel st0 = some ⟨[0, 10], false⟩ := by
  constructor
  · rfl
  · decide

end YaegiVerif.Props.C01
