import YaegiVerif.Proofs.C01Sim
import YaegiVerif.Proofs.C01Slots
import YaegiVerif.Proofs.C01Clos
import YaegiVerif.Expected.C01
import YaegiVerif.Generated.C01
/-
  C01 — property theorems for the core fragment (Spec/GoCore.lean, Model/Cfg.lean).
-/
namespace YaegiVerif.Props.C01
open YaegiVerif YaegiVerif.Core

/-- tie: the clauses of cfg.go / run.go that Model/Cfg.lean transcribes (if/for wiring, &&/||,
    break/continue, wireChild, setFNext, the runCfg loop) are textually the ones it was written from -/
theorem source_tie : Generated.C01.sourceHashes = Expected.C01.sourceHashes := by decide

/-- the outcome the property compares: what was printed, and whether the run ended in a panic -/
structure Outcome where
  out : List Val
  panicked : Bool
  deriving DecidableEq

def specOutcome (fs : Funs) (fuel : Nat) (p : Stmt) (s : St) : Option Outcome :=
  match exec fs fuel p s with
  | some (.panic, s') => some ⟨s'.out, true⟩
  | some (_, s') => some ⟨s'.out, false⟩
  | none => none

def machineOutcome : MState → Outcome
  | .run _ s _ => ⟨s.out, false⟩
  | .done s => ⟨s.out, false⟩
  | .panicked s => ⟨s.out, true⟩

/-- the execution loop stops when the outermost function has returned and after a panic -/
theorem halted_done (code : List Instr) (s : St) : step code (.done s) = none := rfl
theorem halted_panicked (code : List Instr) (s : St) : step code (.panicked s) = none := rfl

/-- `runFuel` (what the driver executes) follows `steps` until the machine halts -/
theorem runFuel_of_steps (code : List Instr) : ∀ (n : Nat) (m final : MState),
    steps code n m = some final → step code final = none → runFuel code (n + 1) m = some final := by
  intro n
  induction n with
  | zero =>
    intro m final h hf
    simp only [steps, Option.some.injEq] at h
    subst h
    simp [runFuel, hf]
  | succ n ih =>
    intro m final h hf
    simp only [steps] at h
    cases hs : step code m with
    | none => simp [hs] at h
    | some m' =>
      simp only [hs, Option.bind_some] at h
      simp only [runFuel, hs]
      exact ih m' final h hf

/-- the step-by-step simulation (all statements, all embeddings of the compiled fragment in a larger graph,
    all break/continue targets, all stacks of enclosing labelled loops, all stacks of suspended callers): the induction behind `compile_correct` -/
theorem simulation (code : List Instr) (fs : Funs) (ent : Nat → Nat)
    (hfe : FunsEmbed code fs ent) (hfw : Funs.wf fs)
    (fuel : Nat) (p : Stmt) (s s' : St) (sig : Sig) (base next brk cont fin : Nat)
    (ls : List (Nat × Nat)) (σ : List Frame)
    (hwf : p.wf = true) (h : exec fs fuel p s = some (sig, s'))
    (hemb : Embeds code (compile ent fin ls p base next brk cont) base) :
    ∃ n, steps code n (.run base s σ) = some (target next brk cont fin ls σ sig s') :=
  sim code fs ent hfe hfw fuel p s s' sig base next brk cont fin ls σ hwf h hemb

/-- conditions: `&&` / `||` / `!` compiled to branches reach the true or the false exit according to
    Go's short-circuit evaluation, and an operand that panics panics the machine -/
theorem condition_simulation (code : List Instr) (s : St) (σ : List Frame) (c : BExpr) (base t f : Nat)
    (hemb : Embeds code (compileCond c base t f) base) :
    (∀ v, c.eval s = some v → ∃ n, steps code n (.run base s σ) = some (.run (if v then t else f) s σ)) ∧
    (c.eval s = none → ∃ n, steps code n (.run base s σ) = some (.panicked s)) :=
  cond_sim code s σ c base t f hemb

/-- the layout of a compiled program: main at address 0, every declared function at its entry -/
theorem program_layout (fs : Funs) (main : Stmt) :
    Embeds (compileProg fs main) (compileFn (entryOf main fs) main 0) 0 ∧
    FunsEmbed (compileProg fs main) fs (entryOf main fs) :=
  ⟨compileProg_main fs main, compileProg_funs fs main⟩

/-- **Compilation to the control-flow graph and the closure loop preserve behaviour.**
    For every program — a main body and declared (possibly recursive) functions, all well formed —
    every start state and every amount of fuel: if the Go semantics terminates (normally, by
    `return`, or with a run-time panic), the execution loop over the compiled graph halts after
    finitely many closures with the same printed output and the same kind of end. -/
theorem compile_correct (fs : Funs) (p : Stmt) (s : St) (fuel : Nat) (o : Outcome)
    (hwf : p.wf = true) (hfw : Funs.wf fs) (h : specOutcome fs fuel p s = some o) :
    ∃ n final, runFuel (compileProg fs p) n (.run 0 s []) = some final ∧ machineOutcome final = o := by
  unfold specOutcome at h
  cases hx : exec fs fuel p s with
  | none => simp [hx] at h
  | some r =>
    obtain ⟨sig, s'⟩ := r
    have hmain := compileProg_main fs p
    unfold compileFn at hmain
    have hbody := hmain.left
    have hret := Embeds.head hmain.right
    rw [compile_length] at hret
    simp only [Nat.zero_add] at hret hbody
    obtain ⟨n, hn⟩ := sim (compileProg fs p) fs (entryOf p fs) (compileProg_funs fs p) hfw fuel p s s' sig
      0 p.size p.size p.size p.size [] [] hwf hx hbody
    -- a main body that ends without `return` reaches the trailing `return 0`
    have fell : target p.size p.size p.size p.size [] [] sig s' = .run p.size s' [] →
        steps (compileProg fs p) (n + 1) (.run 0 s []) = some (.done s') := by
      intro ht
      rw [ht] at hn
      refine steps_trans hn ?_
      simp [steps, step, hret, Expr.eval, doReturn]
    cases sig with
    | normal =>
      simp only [hx, Option.some.injEq] at h
      exact ⟨n + 1 + 1, .done s', runFuel_of_steps _ _ _ _ (fell rfl) rfl, by simp [machineOutcome, ← h]⟩
    | brk =>
      simp only [hx, Option.some.injEq] at h
      exact ⟨n + 1 + 1, .done s', runFuel_of_steps _ _ _ _ (fell rfl) rfl, by simp [machineOutcome, ← h]⟩
    | cont =>
      simp only [hx, Option.some.injEq] at h
      exact ⟨n + 1 + 1, .done s', runFuel_of_steps _ _ _ _ (fell rfl) rfl, by simp [machineOutcome, ← h]⟩
    | brkL k =>
      simp only [hx, Option.some.injEq] at h
      exact ⟨n + 1 + 1, .done s', runFuel_of_steps _ _ _ _ (fell (by simp [target, labelBrk])) rfl,
        by simp [machineOutcome, ← h]⟩
    | contL k =>
      simp only [hx, Option.some.injEq] at h
      exact ⟨n + 1 + 1, .done s', runFuel_of_steps _ _ _ _ (fell (by simp [target, labelCont])) rfl,
        by simp [machineOutcome, ← h]⟩
    | panic =>
      simp only [hx, Option.some.injEq] at h
      exact ⟨n + 1, .panicked s', runFuel_of_steps _ _ _ _ (by simpa [target] using hn) rfl,
        by simp [machineOutcome, ← h]⟩
    | ret v =>
      simp only [hx, Option.some.injEq] at h
      exact ⟨n + 1, .done s', runFuel_of_steps _ _ _ _ (by simpa [target, doReturn] using hn) rfl,
        by simp [machineOutcome, ← h]⟩

/-- the machine is deterministic, so the outcome above is *the* outcome of the compiled program:
    any two halting runs agree -/
theorem run_deterministic (code : List Instr) (n : Nat) (m a b : MState)
    (ha : runFuel code n m = some a) (hb : runFuel code n m = some b) : a = b := by
  rw [ha] at hb; exact Option.some.inj hb

/-- more fuel does not change a finished run -/
theorem runFuel_mono (code : List Instr) : ∀ (n : Nat) (m final : MState),
    runFuel code n m = some final → runFuel code (n + 1) m = some final := by
  intro n
  induction n with
  | zero => intro m final h; simp [runFuel] at h
  | succ n ih =>
    intro m final h
    simp only [runFuel] at h ⊢
    cases hs : step code m with
    | none => simpa [hs] using h
    | some m' =>
      simp only [hs] at h ⊢
      exact ih m' final h

/-- non-vacuity: a program with a three-clause loop, `continue`, `break`, `&&`, an `if`/`else`
    and a division is well-formed and terminates in the Go semantics -/
def exProg : Stmt :=
  .seq (.assign 0 (.lit 0))
   (.seq (.assign 1 (.lit 0))
    (.seq (.loop (.cmp .lt (.var 0) (.lit 10))
        (.seq (.ite (.land (.cmp .gt (.var 0) (.lit 2)) (.cmp .eq (.bin .rem (.var 0) (.lit 2)) (.lit 0))) .cont .skip)
          (.seq (.ite (.cmp .ge (.var 0) (.lit 7)) .brk .skip)
            (.seq (.assign 1 (.bin .add (.var 1) (.var 0))) (.print (.var 1)))))
        (.assign 0 (.bin .add (.var 0) (.lit 1))))
      (.print (.bin .quo (.var 1) (.lit 3)))))

def st0 : St := { vars := fun _ => 0, out := [] }

example : exProg.wf = true ∧ specOutcome [] 60 exProg st0 = some ⟨[0, 1, 3, 6, 11, 3], false⟩ := by
  constructor
  · rfl
  · decide

/-- a switch with a tag, `fallthrough`, a `break` inside a clause and a default clause -/
def exSwitch : Stmt :=
  .seq (.assign 0 (.lit 0))
    (.loop (.cmp .lt (.var 0) (.lit 4))
      (.switch
        (.cons (.cmp .eq (.var 0) (.lit 0)) (.print (.lit 100)) true
        (.cons (.cmp .eq (.var 0) (.lit 1)) (.seq (.ite (.cmp .eq (.var 0) (.lit 0)) .brk .skip) (.print (.lit 101))) false
        (.cons (.cmp .eq (.var 0) (.lit 2)) .cont false
        (.cons (.cmp .eq (.lit 0) (.lit 0)) (.print (.lit 199)) false .nil)))))
      (.assign 0 (.bin .add (.var 0) (.lit 1))))

example : exSwitch.wf = true ∧ specOutcome [] 60 exSwitch st0 = some ⟨[100, 101, 199], false⟩ := by
  constructor
  · rfl
  · decide

/-- a recursive function (factorial with an accumulator, written with a temporary for the call) -/
def exFact : Stmt :=
  .ite (.cmp .le (.var 0) (.lit 0)) (.ret (.var 1))
    (.seq (.call 2 0 [.bin .sub (.var 0) (.lit 1), .bin .mul (.var 1) (.var 0)]) (.ret (.var 2)))

def exCallMain : Stmt := .seq (.call 0 0 [.lit 5, .lit 1]) (.print (.var 0))

example : exCallMain.wf = true ∧ exFact.wf = true ∧
    specOutcome [exFact] 40 exCallMain st0 = some ⟨[120], false⟩ := by
  refine ⟨rfl, rfl, ?_⟩
  decide

/-- … and a division by zero ends in a panic after the output produced so far -/
example : specOutcome [] 10 (.seq (.print (.lit 5)) (.print (.bin .quo (.lit 1) (.var 0)))) st0 = some ⟨[5], true⟩ := by
  decide

/-- labelled `continue` and `break` naming the outer of two nested loops -/
def exLabel : Stmt :=
  .seq (.assign 0 (.lit 0))
    (.loop (.cmp .lt (.var 0) (.lit 3))
      (.seq (.assign 1 (.lit 0))
        (.loop (.cmp .lt (.var 1) (.lit 3))
          (.seq (.ite (.cmp .eq (.var 1) (.lit 1)) (.contL 1) .skip)
            (.seq (.ite (.cmp .eq (.var 0) (.lit 2)) (.brkL 1) .skip)
              (.print (.bin .add (.bin .mul (.var 0) (.lit 10)) (.var 1)))))
          (.assign 1 (.bin .add (.var 1) (.lit 1)))))
      (.assign 0 (.bin .add (.var 0) (.lit 1))))

example : exLabel.wf = true ∧ specOutcome [] 60 exLabel st0 = some ⟨[0, 10], false⟩ := by
  constructor
  · rfl
  · decide

/-! ## Level 2 — frame slots (Model/CfgSlots.lean, Proofs/C01Slots.lean)

  Every expression node has a frame slot of its own, operator nodes are closures reading operands
  (slot or constant) and writing a slot, and cfg.go's shortcuts write results straight into the
  destination: `x = a op b` (top operator node writes x, the assign node is a `nop`), `x = f(args)` (the
  call writes x), `return a op b` (top operator node writes the result slot). -/

def machineOutcome2 : MState2 → Outcome
  | .run _ _ out _ => ⟨out, false⟩
  | .done out => ⟨out, false⟩
  | .panicked out => ⟨out, true⟩

/-- related states have the same observable outcome -/
theorem outcome_rel (nv : Nat) (code2 : List Instr2) (A : Nat → Nat) (m : MState) (m2 : MState2)
    (h : Rel nv code2 A m m2) : machineOutcome2 m2 = machineOutcome m := by
  cases m with
  | run pc s σ =>
    cases m2 with
    | run pc2 fr out σ2 => obtain ⟨_, _, ho, _⟩ := Rel_run.1 h; simp [machineOutcome, machineOutcome2, ho]
    | panicked _ => exact absurd h (by simp [Rel])
    | done _ => exact absurd h (by simp [Rel])
  | panicked s =>
    cases m2 with
    | run _ _ _ _ => exact absurd h (by simp [Rel])
    | panicked out => simp [machineOutcome, machineOutcome2, Rel_panicked.1 h]
    | done _ => exact absurd h (by simp [Rel])
  | done s =>
    cases m2 with
    | run _ _ _ _ => exact absurd h (by simp [Rel])
    | panicked _ => exact absurd h (by simp [Rel])
    | done out => simp [machineOutcome, machineOutcome2, Rel_done.1 h]

/-- **expressions at the slot level.** For every expression over variables `< nv`, every first free
    temporary `tmp ≥ nv`, every destination hint (any slot at all, a variable of the expression included)
    and every frame: the operator closures of `compileExpr e tmp dst` panic iff `e.eval` is `none`;
    otherwise they end with the returned operand denoting `e.eval`, and every variable slot other than
    `dst` is unchanged. -/
theorem expr_slots (nv : Nat) (e : Expr) (tmp : Nat) (dst : Option Nat) (fr : Nat → Val)
    (hv : e.varsLt nv = true) (ht : nv ≤ tmp) :
    (∀ v, e.eval ⟨fr, []⟩ = some v →
      ∃ fr', evalPre (compileExpr e tmp dst).1 fr = some fr' ∧ (compileExpr e tmp dst).2.1.get fr' = v ∧
        ∀ i, i < nv → dst ≠ some i → fr' i = fr i) ∧
    (e.eval ⟨fr, []⟩ = none ↔ evalPre (compileExpr e tmp dst).1 fr = none) := by
  have spec := compileExpr_spec nv e tmp dst fr hv ht
  refine ⟨?_, spec.pan, ?_⟩
  · intro v h
    obtain ⟨fr', e1, g1, p1⟩ := spec.val v h
    exact ⟨fr', e1, g1, fun i hi hne => p1 i (Or.inl (by omega)) hne⟩
  · intro h
    cases he : e.eval ⟨fr, []⟩ with
    | none => rfl
    | some v =>
      obtain ⟨fr', e1, _, _⟩ := spec.val v he
      rw [h] at e1
      exact absurd e1 (by simp)

/-- **the slot level refines level 1.** For every level-1 graph over variables `< nv` (any graph, not
    only compiled ones), under the relation "same node through `addrOf`, frames agree on the variable
    slots, same output, stacks of suspended callers related pointwise":
    (1) one iteration of the level-1 loop is matched by at least one iteration of the slot-level loop
    over `expand nv code`; (2) so is every finite run; (3) where level 1 halts, level 2 halts, with the
    same output and the same kind of end. -/
theorem slots_refine (nv : Nat) (code : List Instr) (hok : AllOK nv code) :
    (∀ (m m' : MState) (m2 : MState2), Rel nv (expand nv code) (addrOf nv code) m m2 → step code m = some m' →
      ∃ n m2', steps2 (expand nv code) (n + 1) m2 = some m2' ∧ Rel nv (expand nv code) (addrOf nv code) m' m2') ∧
    (∀ (n : Nat) (m m' : MState) (m2 : MState2), Rel nv (expand nv code) (addrOf nv code) m m2 →
      steps code n m = some m' →
      ∃ k m2', n ≤ k ∧ steps2 (expand nv code) k m2 = some m2' ∧ Rel nv (expand nv code) (addrOf nv code) m' m2') ∧
    (∀ (m : MState) (m2 : MState2), Rel nv (expand nv code) (addrOf nv code) m m2 → step code m = none →
      step2 (expand nv code) m2 = none ∧ machineOutcome2 m2 = machineOutcome m) :=
  ⟨step_sim nv code _ _ hok (expand_block nv code),
   steps_sim nv code _ _ hok (expand_block nv code),
   fun m m2 hr hs => ⟨halt_sim nv code _ _ (expand_none nv code) m m2 hr hs, outcome_rel _ _ _ m m2 hr⟩⟩

/-- the start states correspond -/
theorem start_rel (nv : Nat) (code : List Instr) (fr : Nat → Val) (out : List Val) :
    Rel nv (expand nv code) (addrOf nv code) (.run 0 ⟨fr, out⟩ []) (.run 0 fr out []) :=
  Rel_run.2 ⟨(addrOf_zero nv code).symm, fun _ _ => rfl, rfl, .nil⟩

/-- **End to end, down to frame slots.** For every well-formed program whose variables are `< nv`,
    every start frame, every output so far and every fuel: if the Go semantics terminates with outcome
    `o`, the slot-level execution loop over the expanded graph of the compiled program — operator
    closures writing their own temporaries, the top node of a right-hand side writing the destination
    slot directly, calls writing their result into the destination slot — halts with outcome `o`. -/
theorem compile_correct_slots (nv : Nat) (fs : Funs) (p : Stmt) (fr : Nat → Val) (out0 : List Val) (fuel : Nat)
    (o : Outcome) (hwf : p.wf = true) (hfw : Funs.wf fs)
    (hv : p.varsLt nv = true) (hfv : fs.all (Stmt.varsLt nv) = true)
    (h : specOutcome fs fuel p ⟨fr, out0⟩ = some o) :
    ∃ n final, runFuel2 (expand nv (compileProg fs p)) n (.run 0 fr out0 []) = some final ∧
      machineOutcome2 final = o := by
  obtain ⟨n, final, hrun, hout⟩ := compile_correct fs p ⟨fr, out0⟩ fuel o hwf hfw h
  obtain ⟨k, hk, hfin⟩ := runFuel_steps _ n _ final hrun
  obtain ⟨_, hsteps, hhalt⟩ := slots_refine nv (compileProg fs p) (compileProg_varsLt nv fs p hv hfv)
  obtain ⟨k2, m2', _, hs2, hr2⟩ := hsteps k _ final _ (start_rel nv _ fr out0) hk
  obtain ⟨hstop, hsame⟩ := hhalt final m2' hr2 hfin
  exact ⟨k2 + 1, m2', runFuel2_of_steps2 _ _ _ _ hs2 hstop, by rw [hsame, hout]⟩

/-- the slot-level machine is deterministic too -/
theorem run2_deterministic (code : List Instr2) (n : Nat) (m a b : MState2)
    (ha : runFuel2 code n m = some a) (hb : runFuel2 code n m = some b) : a = b := by
  rw [ha] at hb; exact Option.some.inj hb

/-- the outcome of a slot-level run of a whole program from the all-zero frame -/
def slotOutcome (nv fuel : Nat) (fs : Funs) (p : Stmt) : Option Outcome :=
  (runFuel2 (expand nv (compileProg fs p)) fuel (.run 0 (fun _ => 0) [] [])).map machineOutcome2

/-- non-vacuity: `x = x*2 + x` — the destination is also an operand of the top node and of a child.
    The child `x*2` gets a temporary (slot 2; slot 1 is the result slot), the top node writes x. -/
example : blockPre 1 (.assign 0 (.bin .add (.bin .mul (.var 0) (.lit 2)) (.var 0)) 7) =
    [.op 2 .mul (.slot 0) (.const 2), .op 0 .add (.slot 2) (.slot 0)] := by decide

example : blockTail 1 id 9 (.assign 0 (.bin .add (.bin .mul (.var 0) (.lit 2)) (.var 0)) 7) = [.nop 7] ∧
    blockTail 1 id 9 (.assign 0 (.var 1) 7) = [.mov 0 (.slot 1) 7] ∧
    blockTail 1 id 9 (.assign 0 (.lit 5) 7) = [.mov 0 (.const 5) 7] := by decide

def exSelf : Stmt :=
  .seq (.assign 0 (.lit 3))
    (.seq (.assign 0 (.bin .add (.bin .mul (.var 0) (.lit 2)) (.var 0)))
      (.seq (.assign 0 (.bin .sub (.neg (.var 0)) (.bin .mul (.bin .add (.var 0) (.lit 1)) (.var 0))))
        (.print (.var 0))))

example : exSelf.wf = true ∧ exSelf.varsLt 1 = true ∧
    specOutcome [] 20 exSelf st0 = some ⟨[-99], false⟩ ∧ slotOutcome 1 40 [] exSelf = some ⟨[-99], false⟩ := by
  refine ⟨rfl, rfl, ?_, ?_⟩ <;> decide

/-- a recursive call whose arguments are operator nodes (each in a temporary of its own), the result
    written straight into the caller's variable, `return` of an operator node through the result slot -/
def exFact2 : Stmt :=
  .ite (.cmp .le (.var 0) (.lit 0)) (.ret (.bin .add (.var 1) (.lit 0)))
    (.seq (.call 1 0 [.bin .sub (.var 0) (.lit 1), .bin .mul (.var 1) (.var 0)]) (.ret (.var 1)))

example : exCallMain.varsLt 2 = true ∧ [exFact2].all (Stmt.varsLt 2) = true ∧ exFact2.wf = true ∧
    specOutcome [exFact2] 40 exCallMain st0 = some ⟨[120], false⟩ ∧
    slotOutcome 2 200 [exFact2] exCallMain = some ⟨[120], false⟩ := by
  refine ⟨rfl, rfl, rfl, ?_, ?_⟩ <;> decide

example : blockPre 2 (.call 1 30 [.bin .sub (.var 0) (.lit 1), .bin .mul (.var 1) (.var 0)] 8) =
      [.op 3 .sub (.slot 0) (.const 1), .op 4 .mul (.slot 1) (.slot 0)] ∧
    blockTail 2 id 12 (.call 1 30 [.bin .sub (.var 0) (.lit 1), .bin .mul (.var 1) (.var 0)] 8) =
      [.call 1 30 [.slot 3, .slot 4] 13, .nop 8] ∧
    blockPre 2 (.ret (.bin .add (.var 1) (.lit 0))) = [.op 2 .add (.slot 1) (.const 0)] ∧
    blockTail 2 id 5 (.ret (.bin .add (.var 1) (.lit 0))) = [.ret (.slot 2)] := by decide

/-- a zero divisor inside a nested operator panics the slot-level run after the output so far -/
example : slotOutcome 1 40 [] (.seq (.print (.lit 5)) (.assign 0 (.bin .add (.lit 1) (.bin .quo (.lit 1) (.var 0))))) =
    some ⟨[5], true⟩ := by decide

/-- the labelled-loop example runs to the same output at the slot level -/
example : exLabel.varsLt 2 = true ∧ slotOutcome 2 400 [] exLabel = some ⟨[0, 10], false⟩ := by
  refine ⟨rfl, ?_⟩; decide

/-- the mis-optimisation the side condition excludes: handing the destination hint DOWN to the left
    child (here `x+1` of `x = (x+1)*x` written straight into x) -/
def compileExprDown : Expr → (tmp : Nat) → (dst : Option Nat) → List Pre × Operand × Nat
  | .bin o a b, tmp, dst =>
    let ra := compileExprDown a tmp dst            -- wrong: the child inherits the destination
    let rb := compileExprDown b ra.2.2 none
    match dst with
    | some d => (ra.1 ++ rb.1 ++ [.op d o ra.2.1 rb.2.1], .slot d, rb.2.2)
    | none => (ra.1 ++ rb.1 ++ [.op rb.2.2 o ra.2.1 rb.2.1], .slot rb.2.2, rb.2.2 + 1)
  | e, tmp, dst => compileExpr e tmp dst

/-- **witness**: with x = 3, `x = (x+1)*x` is 12 in Go and in the model (`x+1` goes to a temporary), but
    16 if `x+1` is written into x before the multiplication reads x: only the top node of a right-hand
    side may take the destination slot -/
theorem dst_down_witness :
    (Expr.bin .mul (.bin .add (.var 0) (.lit 1)) (.var 0)).eval ⟨fun _ => 3, []⟩ = some 12 ∧
    (evalPre (compileExpr (.bin .mul (.bin .add (.var 0) (.lit 1)) (.var 0)) 2 (some 0)).1 (fun _ => 3)).map (· 0)
      = some 12 ∧
    (evalPre (compileExprDown (.bin .mul (.bin .add (.var 0) (.lit 1)) (.var 0)) 2 (some 0)).1 (fun _ => 3)).map (· 0)
      = some 16 := by decide

/-! ## Level 3 — variables as cells, `:=`, function literals, loop variables
     (Spec/GoClosure.lean, Model/Closures.lean, Proofs/C01Clos.lean)

  The Go side: environments of locations, closures = code + environment, `:=` allocates, every iteration of a
  three-clause or range loop has its own variable. The yaegi side: names resolved to (level, slot) at compile
  time, frames of cells chained through `anc`, `getFunc` clones the frame, `:=` puts a fresh cell into the
  slot, `loopVarFor` / `loopVarForEnd` / `loopVarKey` copy the loop variable into and out of a per-iteration cell. -/

/-- tie: the functions and clauses Model/Closures.lean transcribes are textually the reviewed ones -/
theorem closure_source_tie : Generated.C01.closureHashes = Expected.C01.closureHashes := by decide

/-- tie: the choices of the source the model is parametrised by, as the extractor recognises them -/
theorem mech_tie : Generated.C01.mechFacts = Expected.C01.mechFacts := by decide

/-- the recognised choices are the mechanism the theorems are about -/
theorem mech_expected : Clos.Mech.ofFacts Expected.C01.mechFacts = Clos.Mech.yaegi := by decide

/-- **yaegi's frame mechanism implements Go's lexical scoping.** For every program of the closure fragment
    that is well scoped (every name is declared before use in an enclosing scope: what the Go compiler
    checks — no other condition since the repairs of F51 and F52) and every amount of fuel: resolving
    names to (level, slot) and running over frames of cells — clone on function literal, fresh cell on
    `:=`, `Set` through the cell on `=`, per-iteration cells for loop variables — gives the result of the
    Go semantics over environments and locations: both out of fuel, or the same printed values and the
    same kind of end (normal, run-time panic, stuck). -/
theorem closure_frames_correct (p : Clos.Stmt) (fuel : Nat) (hws : p.wellScoped [] = true) :
    Clos.runM Clos.Mech.yaegi fuel p = Clos.runS fuel p :=
  Clos.run_agree p fuel hws

/-- … as both implications -/
theorem closure_outcomes (p : Clos.Stmt) (fuel : Nat) (o : Clos.Outcome)
    (hws : p.wellScoped [] = true) :
    Clos.runS fuel p = some o ↔ Clos.runM Clos.Mech.yaegi fuel p = some o := by
  rw [closure_frames_correct p fuel hws]

/-- … and about what the driver computes: the model instantiated with the extracted facts -/
theorem closure_frames_correct_extracted (p : Clos.Stmt) (fuel : Nat)
    (hws : p.wellScoped [] = true) :
    Clos.runM (Clos.Mech.ofFacts Generated.C01.mechFacts) fuel p = Clos.runS fuel p := by
  rw [mech_tie, mech_expected]; exact closure_frames_correct p fuel hws

/-- the invariant behind it, at every statement, for every fuel: from states related by a partial bijection
    `β` between locations and cells — for every name the scope resolves, the cell at
    `getFrame(level).data[index]` is the `β`-image of the location the environment gives the name; related
    locations hold related values; a closure is related to a function value whose cloned frame holds the
    cells of the closure's environment — a well-scoped statement and its resolved code both run out of
    fuel, or both fail the same way with the same output, or end the same way in states related by an
    extension of `β` that maps new locations to new cells only and leaves the slots below the statement's
    first free slot alone. Also for the iterations of three-clause loops (`SimFor`: between body and
    condition the current variable's location has no counterpart, its value lives in the loop variable's
    own cell) and of range loops (`SimRng`). -/
theorem closure_simulation (fuel : Nat) : Clos.SimStmt fuel ∧ Clos.SimFor fuel ∧ Clos.SimRng fuel := Clos.sim fuel

namespace ClosEx
/-- statements in sequence -/
def sq : List Clos.Stmt → Clos.Stmt
  | [] => .skip
  | [s] => s
  | s :: ss => .seq s (sq ss)
def v (x : Nat) : Clos.XExpr Nat := .var x
def n (k : Nat) : Clos.XExpr Nat := .lit (BitVec.ofNat 64 k)
/-- `x = func() int { return r }` / `x := …` -/
def lit0 (d : Bool) (x : Nat) (r : Clos.XExpr Nat) : Clos.Stmt := .setFn d x [] .skip r
/-- `r := f(); fmt.Println(r)` with r = name 9 -/
def callPrint (d : Bool) (f : Nat) : Clos.Stmt := .seq (.setCall d 9 f []) (.print (v 9))

/-- (a) the classic: names 0 = i, 1 2 3 = f0 f1 f2
    `f0, f1, f2 := …; for i := 0; i < 3; i = i + 1 { if i == 0 { f0 = func() int { return i } } … }; print f0(), f1(), f2()` -/
def loopClosures : Clos.Stmt := sq [
  lit0 true 1 (n 0), lit0 true 2 (n 0), lit0 true 3 (n 0),
  .forc 0 (n 0) (.cmp .lt (v 0) (n 3)) 0 (.bin .add (v 0) (n 1)) (sq [
    .ite (.cmp .eq (v 0) (n 0)) (lit0 false 1 (v 0)) .skip,
    .ite (.cmp .eq (v 0) (n 1)) (lit0 false 2 (v 0)) .skip,
    .ite (.cmp .eq (v 0) (n 2)) (lit0 false 3 (v 0)) .skip]),
  callPrint true 1, callPrint false 2, callPrint false 3]

/-- … the same with `for i := range 3` -/
def rangeClosures : Clos.Stmt := sq [
  lit0 true 1 (n 0), lit0 true 2 (n 0), lit0 true 3 (n 0),
  .rng 0 (n 3) (sq [
    .ite (.cmp .eq (v 0) (n 0)) (lit0 false 1 (v 0)) .skip,
    .ite (.cmp .eq (v 0) (n 1)) (lit0 false 2 (v 0)) .skip,
    .ite (.cmp .eq (v 0) (n 2)) (lit0 false 3 (v 0)) .skip]),
  callPrint true 1, callPrint false 2, callPrint false 3]

/-- (b) names 0 = x, 1 = f, 3 = k:
    `k := 0; f := …; for k < 2 { x := k + 10; if k == 0 { f = func() int { return x } }; k = k + 1; print f() }` -/
def redefine : Clos.Stmt := sq [
  .set true 3 (n 0), lit0 true 1 (n 0),
  .while (.cmp .lt (v 3) (n 2)) (sq [
    .set true 0 (.bin .add (v 3) (n 10)),
    .ite (.cmp .eq (v 3) (n 0)) (lit0 false 1 (v 0)) .skip,
    .set false 3 (.bin .add (v 3) (n 1)),
    callPrint true 1])]

/-- (c) `x := 1; f := func() int { return x }; x = 5; print f()` -/
def assignAfter : Clos.Stmt := sq [.set true 0 (n 1), lit0 true 1 (v 0), .set false 0 (n 5), callPrint true 1]

/-- (d) `for i := 0; i < 6; i = i + 1 { print i; i = i + 1 }` -/
def bodyAssign : Clos.Stmt :=
  .forc 0 (n 0) (.cmp .lt (v 0) (n 6)) 0 (.bin .add (v 0) (n 1)) (sq [.print (v 0), .set false 0 (.bin .add (v 0) (n 1))])

/-- a function literal two levels down referring to a variable of `main` and one of the enclosing literal;
    recursion through a variable assigned after the literal was created; shadowing in a block:
    `x := 2; fact := …; fact = func(k) int { if k <= 0 { return 1 }; t := fact(k - 1); return k * t }
     mk := func(a) int { g := func(b) int { return x + a + b }; { x := 100; x = x + 1 }; r := g(1); return r }
     print fact(5); print mk(10)`   names 0 = x, 1 = fact, 2 = k, 3 = t, 4 = mk, 5 = a, 6 = g, 7 = b, 8 = r -/
def nested : Clos.Stmt := sq [
  .set true 0 (n 2),
  .setFn true 1 [2] .skip (n 0),
  .setFn false 1 [2] (sq [.ite (.cmp .le (v 2) (n 0)) (.ret (n 1)) .skip, .setCall true 3 1 [.bin .sub (v 2) (n 1)]])
    (.bin .mul (v 2) (v 3)),
  .setFn true 4 [5] (sq [
    .setFn true 6 [7] .skip (.bin .add (.bin .add (v 0) (v 5)) (v 7)),
    .block (sq [.set true 0 (n 100), .set false 0 (.bin .add (v 0) (n 1))]),
    .setCall true 8 6 [n 1]]) (v 8),
  .setCall true 9 1 [n 5], .print (v 9), .setCall false 9 4 [n 10], .print (v 9)]

/-- F52: `for i := 0; i < 2; i = i + 1 { i := 5; print i }` and `for i := 0; i < 2; i = i + 1 { i := i; i = i + 5; print i }` -/
def redeclLit : Clos.Stmt :=
  .forc 0 (n 0) (.cmp .lt (v 0) (n 2)) 0 (.bin .add (v 0) (n 1)) (sq [.set true 0 (n 5), .print (v 0)])
def redeclSelf : Clos.Stmt :=
  .forc 0 (n 0) (.cmp .lt (v 0) (n 2)) 0 (.bin .add (v 0) (n 1))
    (sq [.set true 0 (v 0), .set false 0 (.bin .add (v 0) (n 5)), .print (v 0)])

/-- F51: `m := 3; for i := range m { m = 1; print i }` — names 0 = i, 1 = m -/
def rangeVarBound : Clos.Stmt := sq [.set true 1 (n 3), .rng 0 (v 1) (sq [.set false 1 (n 1), .print (v 0)])]
end ClosEx

/-- non-vacuity of the hypothesis: the examples are well scoped -/
example : ClosEx.loopClosures.wellScoped [] = true ∧ ClosEx.rangeClosures.wellScoped [] = true ∧
    ClosEx.redefine.wellScoped [] = true ∧ ClosEx.assignAfter.wellScoped [] = true ∧
    ClosEx.bodyAssign.wellScoped [] = true ∧ ClosEx.nested.wellScoped [] = true ∧
    ClosEx.rangeVarBound.wellScoped [] = true ∧ ClosEx.redeclLit.wellScoped [] = true ∧
    ClosEx.redeclSelf.wellScoped [] = true := by
  decide

/-- … and a use before the declaration, or a name of another function's block, is not -/
example : (Clos.Stmt.seq (.print (ClosEx.v 0)) (.set true 0 (ClosEx.n 1))).wellScoped [] = false ∧
    (Clos.Stmt.seq (.block (.set true 0 (ClosEx.n 1))) (.print (ClosEx.v 0))).wellScoped [] = false := by decide

/-- (a) closures created in different iterations of a three-clause loop see different copies of the loop variable
    (consequence of `closure_frames_correct`; the right-hand side is the Go semantics) -/
theorem per_iteration_copies :
    Clos.runM Clos.Mech.yaegi 40 ClosEx.loopClosures = some ⟨[0, 1, 2], .normal⟩ := by
  rw [closure_frames_correct _ _ (by decide)]; decide

/-- … of a range loop too -/
theorem per_iteration_copies_range :
    Clos.runM Clos.Mech.yaegi 40 ClosEx.rangeClosures = some ⟨[0, 1, 2], .normal⟩ := by
  rw [closure_frames_correct _ _ (by decide)]; decide

/-- (b) a closure created before `x := …` is executed again keeps the previous x -/
theorem redefine_keeps_captured :
    Clos.runM Clos.Mech.yaegi 40 ClosEx.redefine = some ⟨[10, 10], .normal⟩ := by
  rw [closure_frames_correct _ _ (by decide)]; decide

/-- (c) an assignment `x = …` after the closure was created IS seen by it -/
theorem assignment_seen_by_closure :
    Clos.runM Clos.Mech.yaegi 40 ClosEx.assignAfter = some ⟨[5], .normal⟩ := by
  rw [closure_frames_correct _ _ (by decide)]; decide

/-- (d) assignments to the loop variable in the body are seen by the post statement and the condition -/
theorem body_assignment_seen_by_post :
    Clos.runM Clos.Mech.yaegi 40 ClosEx.bodyAssign = some ⟨[0, 2, 4], .normal⟩ := by
  rw [closure_frames_correct _ _ (by decide)]; decide

/-- nested literals (level 2), recursion through a variable, shadowing in a block -/
theorem nested_levels :
    Clos.runM Clos.Mech.yaegi 60 ClosEx.nested = some ⟨[120, 13], .normal⟩ := by
  rw [closure_frames_correct _ _ (by decide)]; decide

/-- the model itself computes these (not only through the theorem), and the resolved addresses are what one
    expects: in `g`'s body `x` is two frames up, `a` one, `b` its own slot 0 -/
example : Clos.runM Clos.Mech.yaegi 40 ClosEx.loopClosures = some ⟨[0, 1, 2], .normal⟩ ∧
    Clos.runM Clos.Mech.yaegi 60 ClosEx.nested = some ⟨[120, 13], .normal⟩ := by decide

example : ((((Clos.Scope.mk [(0, 0)] 1 []).pushFunc [5]).declare 6).pushFunc [7]).lookup 0 = some (2, 0) ∧
    ((((Clos.Scope.mk [(0, 0)] 1 []).pushFunc [5]).declare 6).pushFunc [7]).lookup 5 = some (1, 0) ∧
    ((((Clos.Scope.mk [(0, 0)] 1 []).pushFunc [5]).declare 6).pushFunc [7]).lookup 7 = some (0, 0) := by decide

/-- **witness** — `:=` implemented as `Set` into the cell already in the slot: the closure and the new x share -/
theorem define_in_place_witness :
    Clos.runS 40 ClosEx.redefine = some ⟨[10, 10], .normal⟩ ∧
    Clos.runM { Clos.Mech.yaegi with defineFresh := false } 40 ClosEx.redefine = some ⟨[10, 11], .normal⟩ := by decide

/-- **witness** — no per-iteration cell (loopVarFor copies into the cell already in the body's slot): all
    closures see the last iteration's value -/
theorem no_iteration_copy_witness :
    Clos.runS 40 ClosEx.loopClosures = some ⟨[0, 1, 2], .normal⟩ ∧
    Clos.runM { Clos.Mech.yaegi with loopFresh := false } 40 ClosEx.loopClosures = some ⟨[2, 2, 2], .normal⟩ ∧
    Clos.runM { Clos.Mech.yaegi with keyFresh := false } 40 ClosEx.rangeClosures = some ⟨[2, 2, 2], .normal⟩ := by decide

/-- **witness** — without loopVarForEnd the body's assignments are lost (finding F24, repaired by 8ca6eff) -/
theorem no_copy_back_witness :
    Clos.runS 40 ClosEx.bodyAssign = some ⟨[0, 2, 4], .normal⟩ ∧
    Clos.runM { Clos.Mech.yaegi with loopCopyBack := false } 40 ClosEx.bodyAssign = some ⟨[0, 1, 2, 3, 4, 5], .normal⟩ := by
  decide

/-- **witness** — the closure keeps a reference to the live frame instead of a clone: a later `:=` (here: of a
    later iteration) replaces the cell under the closure's feet -/
theorem clone_by_reference_witness :
    Clos.runM { Clos.Mech.yaegi with cloneFrame := false } 40 ClosEx.redefine = some ⟨[10, 11], .normal⟩ ∧
    Clos.runM { Clos.Mech.yaegi with cloneFrame := false } 40 ClosEx.loopClosures = some ⟨[2, 2, 2], .normal⟩ := by decide

/-- the mechanism before the repairs 716c992 (F51) and 26ad67e (F52) -/
def mechBeforeF51 : Clos.Mech := { Clos.Mech.yaegi with boundAlias := true }
def mechBeforeF52 : Clos.Mech := { Clos.Mech.yaegi with redeclNop := true }

/-- **witness (F51, repaired by 716c992)** — with the OLD rangeInt the hidden slot of `for i := range m` held the
    variable's own cell, so `m = 1` in the body ended the loop after one iteration; Go evaluates the bound once -/
theorem range_bound_alias_witness :
    Clos.runS 40 ClosEx.rangeVarBound = some ⟨[0, 1, 2], .normal⟩ ∧
    Clos.runM mechBeforeF51 40 ClosEx.rangeVarBound = some ⟨[0], .normal⟩ := by decide

/-- … regression example: the repaired mechanism, through the theorem and by running the model -/
theorem range_bound_copied : Clos.runM Clos.Mech.yaegi 40 ClosEx.rangeVarBound = some ⟨[0, 1, 2], .normal⟩ := by
  rw [closure_frames_correct _ _ (by decide)]; decide
example : Clos.runM Clos.Mech.yaegi 40 ClosEx.rangeVarBound = some ⟨[0, 1, 2], .normal⟩ := by decide

/-- **witness (F52, repaired by 26ad67e)** — the OLD cfg.go turned a define of the loop variable's name at the top
    level of the loop body into a `nop` (meant for the pre-1.22 idiom `i := i`), so `i := 5` was lost, and after
    `i := i` the body worked on the loop variable itself -/
theorem loopvar_redeclared_witness :
    Clos.runS 40 ClosEx.redeclLit = some ⟨[5, 5], .normal⟩ ∧
    Clos.runM mechBeforeF52 40 ClosEx.redeclLit = some ⟨[0, 1], .normal⟩ ∧
    Clos.runS 40 ClosEx.redeclSelf = some ⟨[5, 6], .normal⟩ ∧
    Clos.runM mechBeforeF52 40 ClosEx.redeclSelf = some ⟨[5], .normal⟩ := by decide

/-- … regression examples: a new variable that shadows the per-iteration copy for the rest of the body -/
theorem loopvar_redeclared_shadows :
    Clos.runM Clos.Mech.yaegi 40 ClosEx.redeclLit = some ⟨[5, 5], .normal⟩ ∧
    Clos.runM Clos.Mech.yaegi 40 ClosEx.redeclSelf = some ⟨[5, 6], .normal⟩ := by
  rw [closure_frames_correct _ _ (by decide), closure_frames_correct _ _ (by decide)]; decide
example : Clos.runM Clos.Mech.yaegi 40 ClosEx.redeclLit = some ⟨[5, 5], .normal⟩ := by decide

/-! ## case lists of a tagless switch (`case c, d, …:`; cfg.go post-order `case switchIfStmt` since 3b98047)

  A clause condition of the fragment is one `BExpr`; a case list is the condition `caseList c ds = c || (d || …)`.
  The two lemmas below say that this is not an approximation: the Go semantics of a list (left to right, chosen at
  the first true condition, the rest not evaluated) is the evaluation of that condition, and the wiring cfg.go gives
  a list (every condition: true → body, false → next condition, the last one → next clause) is literally what
  `compile` emits for it — so `compile_correct`, `simulation` and `compile_correct_slots` cover tagless switches
  with case lists as they stand. -/

theorem case_list_semantics (s : St) (c : BExpr) (ds : List BExpr) :
    (caseList c ds).eval s = evalCaseList s c ds := caseList_eval s ds c

theorem case_list_wiring (c : BExpr) (ds : List BExpr) (base t f : Nat) :
    compileCaseList true c ds base t f = compileCond (caseList c ds) base t f := compileCaseList_chained ds c base t f

/-- the chained conditions reach the clause body or the next clause according to the list semantics, and a condition
    that panics panics the machine -/
theorem case_list_simulation (code : List Instr) (s : St) (σ : List Frame) (c : BExpr) (ds : List BExpr) (base t f : Nat)
    (hemb : Embeds code (compileCaseList true c ds base t f) base) :
    (∀ v, evalCaseList s c ds = some v → ∃ n, steps code n (.run base s σ) = some (.run (if v then t else f) s σ)) ∧
    (evalCaseList s c ds = none → ∃ n, steps code n (.run base s σ) = some (.panicked s)) := by
  rw [case_list_wiring] at hemb
  rw [← case_list_semantics]
  exact condition_simulation code s σ (caseList c ds) base t f hemb

/-- tie: the extractor finds the chained wiring in the source -/
theorem case_list_tie : Clos.factIs Generated.C01.mechFacts "switchIfStmt chains every condition of a case list" = true := by
  rw [mech_tie]; decide

/-- non-vacuity: `switch { case x == 0, x == 1: print 100; case x > 5 || x < 0, x == 3: print 200; default: print 300 }`
    for x = 0 … 3 — a well-formed program of the fragment, so `compile_correct` applies to it -/
def exCaseList : Stmt :=
  .seq (.assign 0 (.lit 0))
    (.loop (.cmp .lt (.var 0) (.lit 4))
      (.switch
        (.cons (caseList (.cmp .eq (.var 0) (.lit 0)) [.cmp .eq (.var 0) (.lit 1)]) (.print (.lit 100)) false
        (.cons (caseList (.lor (.cmp .gt (.var 0) (.lit 5)) (.cmp .lt (.var 0) (.lit 0))) [.cmp .eq (.var 0) (.lit 3)])
          (.print (.lit 200)) false
        (.cons (.cmp .eq (.lit 0) (.lit 0)) (.print (.lit 300)) false .nil))))
      (.assign 0 (.bin .add (.var 0) (.lit 1))))

example : exCaseList.wf = true ∧ specOutcome [] 60 exCaseList st0 = some ⟨[100, 100, 300, 200], false⟩ := by
  constructor
  · rfl
  · decide

/-- where the machine is after `n` steps (program counter only) -/
def pcAfter (code : List Instr) (n : Nat) (m : MState) : Option Nat :=
  match steps code n m with
  | some (.run pc _ _) => some pc
  | _ => none

/-- **witness (F53, repaired by 3b98047)** — `case x == 0, x == 1:` with x = 1: the clause is chosen in Go; the chained
    wiring reaches the body (address 7); with only the first condition wired, as before the repair, the machine goes
    to the next clause (address 9) -/
theorem case_list_first_only_witness :
    evalCaseList ⟨fun _ => 1, []⟩ (.cmp .eq (.var 0) (.lit 0)) [.cmp .eq (.var 0) (.lit 1)] = some true ∧
    pcAfter (compileCaseList true (.cmp .eq (.var 0) (.lit 0)) [.cmp .eq (.var 0) (.lit 1)] 0 7 9) 2 (.run 0 ⟨fun _ => 1, []⟩ []) = some 7 ∧
    pcAfter (compileCaseList false (.cmp .eq (.var 0) (.lit 0)) [.cmp .eq (.var 0) (.lit 1)] 0 7 9) 1 (.run 0 ⟨fun _ => 1, []⟩ []) = some 9 := by
  decide

end YaegiVerif.Props.C01
