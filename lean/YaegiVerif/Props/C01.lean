import YaegiVerif.Proofs.C01Sim
import YaegiVerif.Expected.C01
import YaegiVerif.Generated.C01
/-
  C01 — property theorems for the core fragment (Spec/GoCore.lean, Model/Cfg.lean).
-/
namespace YaegiVerif.Props.C01
open YaegiVerif YaegiVerif.Core

/-- tie: the clauses of cfg.go / run.go that Model/Cfg.lean transcribes (if/for wiring, &&/||,
    break/continue, wireChild, setFNext, the runCfg loop) are textually the ones it was written from -/
theorem source_tie : Generated.C01.sourceHashes = Expected.C01.sourceHashes := by decide

/-- the outcome the property compares: what was printed, and whether the run ended in a panic -/
structure Outcome where
  out : List Val
  panicked : Bool
  deriving DecidableEq

def specOutcome (fuel : Nat) (p : Stmt) (s : St) : Option Outcome :=
  match exec fuel p s with
  | some (.panic, s') => some ⟨s'.out, true⟩
  | some (_, s') => some ⟨s'.out, false⟩
  | none => none

def machineOutcome : MState → Outcome
  | .run _ s => ⟨s.out, false⟩
  | .panicked s => ⟨s.out, true⟩

theorem embeds_self (code : List Instr) : Embeds code code 0 := by
  intro i _; simp

/-- the execution loop stops at the end of the code and after a panic -/
theorem halted_at_end (code : List Instr) (s : St) : step code (.run code.length s) = none := by
  simp [step]
theorem halted_panicked (code : List Instr) (s : St) : step code (.panicked s) = none := rfl

/-- `runFuel` (what the driver executes) follows `steps` until the machine halts -/
theorem runFuel_of_steps (code : List Instr) : ∀ (n : Nat) (m final : MState),
    steps code n m = some final → step code final = none → runFuel code (n + 1) m = some final := by
  intro n
  induction n with
  | zero =>
    intro m final h hf
    simp only [steps, Option.some.injEq] at h
    subst h
    simp [runFuel, hf]
  | succ n ih =>
    intro m final h hf
    simp only [steps] at h
    cases hs : step code m with
    | none => simp [hs] at h
    | some m' =>
      simp only [hs, Option.bind_some] at h
      simp only [runFuel, hs]
      exact ih m' final h hf

/-- the step-by-step simulation (all statements, all embeddings of the compiled fragment in a larger graph,
    all break/continue targets): the induction behind `compile_correct` -/
theorem simulation (code : List Instr) (fuel : Nat) (p : Stmt) (s s' : St) (sig : Sig) (base next brk cont : Nat)
    (hwf : p.wf = true) (h : exec fuel p s = some (sig, s'))
    (hemb : Embeds code (compile p base next brk cont) base) :
    ∃ n, steps code n (.run base s) = some (target next brk cont sig s') :=
  sim code fuel p s s' sig base next brk cont hwf h hemb

/-- conditions: `&&` / `||` / `!` compiled to branches reach the true or the false exit according to
    Go's short-circuit evaluation, and an operand that panics panics the machine -/
theorem condition_simulation (code : List Instr) (s : St) (c : BExpr) (base t f : Nat)
    (hemb : Embeds code (compileCond c base t f) base) :
    (∀ v, c.eval s = some v → ∃ n, steps code n (.run base s) = some (.run (if v then t else f) s)) ∧
    (c.eval s = none → ∃ n, steps code n (.run base s) = some (.panicked s)) :=
  cond_sim code s c base t f hemb

/-- **Compilation to the control-flow graph and the closure loop preserve behaviour.**
    For every well-formed program of the fragment, every start state and every amount of fuel:
    if the Go semantics terminates (normally or with a run-time panic), the execution loop over
    the compiled graph halts after finitely many closures with the same printed output and the
    same kind of end. -/
theorem compile_correct (p : Stmt) (s : St) (fuel : Nat) (o : Outcome)
    (hwf : p.wf = true) (h : specOutcome fuel p s = some o) :
    ∃ n final, runFuel (compileProg p) n (.run 0 s) = some final ∧ machineOutcome final = o := by
  unfold specOutcome at h
  cases hx : exec fuel p s with
  | none => simp [hx] at h
  | some r =>
    obtain ⟨sig, s'⟩ := r
    obtain ⟨n, hn⟩ := sim (compileProg p) fuel p s s' sig 0 p.size p.size p.size hwf hx
      (by simpa [compileProg] using embeds_self (compileProg p))
    have hlen : (compileProg p).length = p.size := compile_length p 0 p.size p.size p.size
    refine ⟨n + 1, target p.size p.size p.size sig s', ?_, ?_⟩
    · apply runFuel_of_steps _ _ _ _ hn
      cases sig <;> simp only [target]
      · rw [← hlen]; exact halted_at_end _ _
      · rw [← hlen]; exact halted_at_end _ _
      · rw [← hlen]; exact halted_at_end _ _
      · rfl
    · cases sig <;> simp [hx] at h <;> simp [target, machineOutcome, ← h]

/-- the machine is deterministic, so the outcome above is *the* outcome of the compiled program:
    any two halting runs agree -/
theorem run_deterministic (code : List Instr) (n : Nat) (m a b : MState)
    (ha : runFuel code n m = some a) (hb : runFuel code n m = some b) : a = b := by
  rw [ha] at hb; exact Option.some.inj hb

/-- more fuel does not change a finished run -/
theorem runFuel_mono (code : List Instr) : ∀ (n : Nat) (m final : MState),
    runFuel code n m = some final → runFuel code (n + 1) m = some final := by
  intro n
  induction n with
  | zero => intro m final h; simp [runFuel] at h
  | succ n ih =>
    intro m final h
    simp only [runFuel] at h ⊢
    cases hs : step code m with
    | none => simpa [hs] using h
    | some m' =>
      simp only [hs] at h ⊢
      exact ih m' final h

/-- non-vacuity: a program with a three-clause loop, `continue`, `break`, `&&`, an `if`/`else`
    and a division is well-formed and terminates in the Go semantics -/
def exProg : Stmt :=
  .seq (.assign 0 (.lit 0))
   (.seq (.assign 1 (.lit 0))
    (.seq (.loop (.cmp .lt (.var 0) (.lit 10))
        (.seq (.ite (.land (.cmp .gt (.var 0) (.lit 2)) (.cmp .eq (.bin .rem (.var 0) (.lit 2)) (.lit 0))) .cont .skip)
          (.seq (.ite (.cmp .ge (.var 0) (.lit 7)) .brk .skip)
            (.seq (.assign 1 (.bin .add (.var 1) (.var 0))) (.print (.var 1)))))
        (.assign 0 (.bin .add (.var 0) (.lit 1))))
      (.print (.bin .quo (.var 1) (.lit 3)))))

def st0 : St := { vars := fun _ => 0, out := [] }

example : exProg.wf = true ∧ specOutcome 60 exProg st0 = some ⟨[0, 1, 3, 6, 11, 3], false⟩ := by
  constructor
  · rfl
  · decide

/-- a switch with a tag, `fallthrough`, a `break` inside a clause and a default clause -/
def exSwitch : Stmt :=
  .seq (.assign 0 (.lit 0))
    (.loop (.cmp .lt (.var 0) (.lit 4))
      (.switch
        (.cons (.cmp .eq (.var 0) (.lit 0)) (.print (.lit 100)) true
        (.cons (.cmp .eq (.var 0) (.lit 1)) (.seq (.ite (.cmp .eq (.var 0) (.lit 0)) .brk .skip) (.print (.lit 101))) false
        (.cons (.cmp .eq (.var 0) (.lit 2)) .cont false
        (.cons (.cmp .eq (.lit 0) (.lit 0)) (.print (.lit 199)) false .nil)))))
      (.assign 0 (.bin .add (.var 0) (.lit 1))))

example : exSwitch.wf = true ∧ specOutcome 60 exSwitch st0 = some ⟨[100, 101, 199], false⟩ := by
  constructor
  · rfl
  · decide

/-- … and a division by zero ends in a panic after the output produced so far -/
example : specOutcome 10 (.seq (.print (.lit 5)) (.print (.bin .quo (.lit 1) (.var 0)))) st0 = some ⟨[5], true⟩ := by
  decide

end YaegiVerif.Props.C01
