import YaegiVerif.Model.Debug
import YaegiVerif.Expected.C19
import YaegiVerif.Generated.C19
import YaegiVerif.Proofs.C19Sim
import YaegiVerif.Proofs.C19Track
import YaegiVerif.Proofs.C19Reach
/-
  C19 — running under the debugger does not change program behaviour. Property theorems.

  Full statement, in three parts:
   (1) the debug loop executes the closures the plain loop executes (hence same output, result,
       panics): `debug_exec_sequence_eq_plain` — proved at full strength, for every graph, every
       semantics of closures, every breakpoint set, every sequence of resume requests without
       terminate, and every value of the facts read from the source;
   (2) the session ends with a terminate event: `terminate_event_last` — full strength;
   (3) a breakpoint is reported once each time an activation enters its line, before anything on
       the line runs (`breakpoints_reported_full_statement`, `breakpoints_reported_in_order`: the
       break stops are those of the line-level reference `refRun`; `ref_reports_on_entering`,
       `ref_silent_within_line`, `ref_previous_step` spell the reference out) — full strength, for
       every graph and every program that follows its edges: since d1e6c4c (F20) and 3d77a98 (F19-1)
       the debugger knows which node executes (`debug_eq_reference`), since 0a3a691 (F19-2 … F19-7)
       every step of a requested line that is on a path of a control-flow graph carries the
       breakpoint (`placeSteps_sound`, `placeSteps_complete`) and it is reported on entering the
       line. The former witnesses are regression examples (`f20_regression`, `f19_1_regression`,
       `jump_line_regression`, `for_clause_regression`, `tagless_case_regression`,
       `panic_line_regression`, `signature_line_regression`); the model run with the facts of the
       older code reproduces the findings (`…_old_facts`, and the `preLineF` halves).
       Proved since: `executed_node_in_cfgNodes`, `executed_line_is_valid` (the correspondence still compares, on
       every case, the marks-based reference with a reference that reads requested *lines* only).
-/
namespace YaegiVerif.Props.C19
open YaegiVerif YaegiVerif.Debug YaegiVerif.Proofs.C19

/-! ### ties to the source -/

/-- tie: the structure of the debugger loop and of `(*Debugger).exec` read from the source is the
    one the proofs use -/
theorem facts_tie : Generated.C19.facts = Expected.C19.facts := by decide

/-- tie: the functions transcribed in Model/Debug.lean are textually, modulo comments and layout,
    the ones the model was written from -/
theorem source_tie : Generated.C19.sourceHashes = Expected.C19.sourceHashes := by decide

/-- the parameters of the executable model, as derived from the expected facts -/
def expF : LoopFacts := LoopFacts.ofRaw Expected.C19.facts
def genF : LoopFacts := LoopFacts.ofRaw Generated.C19.facts

theorem expF_val : expF = ⟨false, [.tnext, .fnext], true, true, true, .gt, .ge, true, true, true,
    ["breakStmt", "continueStmt", "fallthroughStmt", "gotoStmt"], ["funcType", "constDecl", "varDecl"]⟩ := by decide
theorem genF_eq : genF = expF := by unfold genF expF; rw [facts_tie]

/-! ### (1) the debugger never changes what executes -/

/-- **For every graph, closure semantics, breakpoint set, facts, and every sequence of resume
    requests without terminate: after any number of steps the debug loop is where the plain loop is
    — same executed closures (in the same order), same program state (hence same output), same
    activations, same outcome (running / finished / panicked).** The tracked node `m`, the
    breakpoints and the stepping mode never influence `exec`. -/
theorem debug_exec_sequence_eq_plain (S : Setup) (P : Prog σ) (st : σ) (cmds : List Cmd) (n : Nat)
    (h : Cmd.terminate ∉ cmds) :
    (drun S P n (DCfg.init st cmds)).trace = (prun P n (PCfg.init st)).trace ∧
    (drun S P n (DCfg.init st cmds)).st = (prun P n (PCfg.init st)).st ∧
    (drun S P n (DCfg.init st cmds)).ctl = (prun P n (PCfg.init st)).ctl ∧
    (drun S P n (DCfg.init st cmds)).stack.map (·.cur) = (prun P n (PCfg.init st)).stack := by
  have hn : NoTerm (DCfg.init st cmds) := by
    unfold NoTerm DCfg.init
    cases cmds with
    | nil => simp [Dbg.apply]
    | cons c cs =>
      simp only [List.mem_cons, not_or] at h
      exact ⟨apply_noterm _ c (by simp [Dbg.init]) (fun e => h.1 e.symm), h.2⟩
  have := (drun_proj S P n (DCfg.init st cmds) hn).1
  have hp : (DCfg.init st cmds).proj = PCfg.init st := rfl
  rw [hp] at this
  rw [← this]
  exact ⟨rfl, rfl, rfl, rfl⟩

/-- the same, read on whole runs: if the plain run has finished after `n` steps (normally or by a
    panic), so has the debug run, in the same way -/
theorem debug_outcome_eq_plain (S : Setup) (P : Prog σ) (st : σ) (cmds : List Cmd) (n : Nat) (b : Bool)
    (h : Cmd.terminate ∉ cmds) (hp : (prun P n (PCfg.init st)).ctl = .halt b) :
    (drun S P n (DCfg.init st cmds)).ctl = .halt b := by
  rw [(debug_exec_sequence_eq_plain S P st cmds n h).2.2.1]; exact hp

/-- the model parameters regenerated from the source are covered too (the statement holds for every `S`) -/
theorem debug_exec_sequence_eq_plain_generated (g : Graph) (mk mc : Nat → Bool) (P : Prog σ) (st : σ)
    (cmds : List Cmd) (n : Nat) (h : Cmd.terminate ∉ cmds) :
    (drun ⟨genF, g, mk, mc, false⟩ P n (DCfg.init st cmds)).trace = (prun P n (PCfg.init st)).trace :=
  (debug_exec_sequence_eq_plain _ P st cmds n h).1

/-! ### (2) events of a session -/

/-- **The events of a session end with terminate, and terminate is reported only there**; every
    other event is the routine entry/exit or a stop of `(*Debugger).exec` (break, pause, entry,
    step into/over/out). For every request sequence, with or without terminate. -/
theorem terminate_event_last (S : Setup) (P : Prog σ) (st : σ) (cmds : List Cmd) (n : Nat) :
    ∃ pre, sessionReasons (drun S P n (DCfg.init st cmds)) = pre ++ [.terminate] ∧ Reason.terminate ∉ pre := by
  have hev : EventsOk (drun S P n (DCfg.init st cmds)) :=
    drun_events S P n _ (by intro e he; simp [DCfg.init] at he)
  refine ⟨.enterG :: ((drun S P n (DCfg.init st cmds)).events.reverse.map (·.reason)) ++ [.exitG], ?_, ?_⟩
  · simp [sessionReasons]
  · intro hmem
    simp only [List.cons_append, List.mem_cons, List.mem_append, List.mem_map, List.mem_reverse,
      List.not_mem_nil, or_false] at hmem
    rcases hmem with h | ⟨e, he, hr⟩ | h
    · cases h
    · have := hev e he
      rw [hr] at this
      unfold StopReason at this
      simp at this
    · cases h

/-- **After a terminate request nothing more is reported** and the request cannot be undone -/
theorem after_terminate_silent (S : Setup) (P : Prog σ) (d : DCfg σ) (n : Nat) (h : d.dbg.mode = .terminate) :
    (drun S P n d).events = d.events ∧ (drun S P n d).dbg.mode = .terminate := by
  have := drun_silent S P d.events n d ⟨h, rfl⟩
  exact ⟨this.2, this.1⟩

/-! ### stepping -/

/-- where `(*Debugger).exec` stops, for a mode and depths (no breakpoint on the node) -/
def stopsAt (d : Dbg) : Prop :=
  match d.mode with
  | .run => False
  | .over => d.fDepth ≤ d.fStep
  | .out => d.fDepth < d.fStep
  | .terminate => False
  | _ => True

/-- **Step modes stop where specified** (an invariant of `(*Debugger).exec`, for the comparison
    operators read from the source): on a node with a position and without breakpoint, the debugger
    stops iff the mode is pause/entry/step-into, or step-over and the call depth is at most the depth
    recorded by the request, or step-out and the call depth is below it; it never stops in run mode;
    the event carries the mode as its reason, the tracked node, and the current depth. -/
theorem step_modes_stop_where_specified (g : Graph) (mk : Nat → Bool) (d : Dbg) (m : Option Nat)
    (cmds : List Cmd) (k : Nat) (hv : visible g m = true) (hb : shouldBreak mk m = false)
    (ht : d.mode ≠ .terminate) :
    ((dbgExec expF g mk d m cmds k).ev.isSome ↔ stopsAt d) ∧
    (∀ e, (dbgExec expF g mk d m cmds k).ev = some e → e = ⟨d.mode.reason, m, k, d.fDepth⟩) := by
  unfold dbgExec stopReason stopsAt
  rw [expF_val]
  simp only [hv, hb, Bool.not_true, Bool.false_eq_true, ↓reduceIte, ht]
  cases hm : d.mode <;> simp [hm] at ht ⊢
  · cases cmds <;> simp [Mode.reason]
  · cases cmds <;> simp [Mode.reason]
  · cases cmds <;> simp [Mode.reason]
  · by_cases hc : d.fDepth > d.fStep
    · simp [Cmp.eval, hc]
    · simp only [Cmp.eval, hc, decide_false, Bool.false_eq_true, ↓reduceIte]
      cases cmds <;> simp [Mode.reason] <;> omega
  · by_cases hc : d.fDepth ≥ d.fStep
    · simp [Cmp.eval, hc]
    · simp only [Cmp.eval, hc, decide_false, Bool.false_eq_true, ↓reduceIte]
      cases cmds <;> simp [Mode.reason] <;> omega

/-- a step request records the current call depth (unless the session is terminated) -/
theorem step_records_depth (d : Dbg) (ht : d.mode ≠ .terminate) :
    (d.apply (.step .into) = ⟨.into, d.fDepth, d.fDepth⟩) ∧
    (d.apply (.step .over) = ⟨.over, d.fDepth, d.fDepth⟩) ∧
    (d.apply (.step .out) = ⟨.out, d.fDepth, d.fDepth⟩) := by
  simp [Dbg.apply, Dbg.setMode, ht]

/-- a breakpoint on a node with a position is reported whatever the mode (unless terminated) -/
theorem breakpoint_always_stops (F : LoopFacts) (g : Graph) (mk : Nat → Bool) (d : Dbg) (m : Option Nat)
    (cmds : List Cmd) (k : Nat) (hv : visible g m = true) (hb : shouldBreak mk m = true)
    (ht : d.mode ≠ .terminate) :
    (dbgExec F g mk d m cmds k).ev = some ⟨.brk, m, k, d.fDepth⟩ := by
  unfold dbgExec stopReason
  simp only [hv, hb, Bool.not_true, Bool.false_eq_true, ↓reduceIte, ht]
  cases cmds <;> rfl

/-- **The depth the step modes compare is the number of live `runCfg` activations** (enterCall /
    exitCall are balanced), at every point of every session -/
theorem depth_counts_activations (S : Setup) (P : Prog σ) (st : σ) (cmds : List Cmd) (n : Nat) :
    (drun S P n (DCfg.init st cmds)).dbg.fDepth = (drun S P n (DCfg.init st cmds)).stack.length := by
  apply drun_depth
  unfold DepthOk DCfg.init
  cases cmds with
  | nil => rfl
  | cons c cs => simp [apply_depth, Dbg.init]

/-! ### (3) breakpoints are reported when control enters their line -/

/-- the full statement: the break stops of the debugger are those of the line-level reference
    `refRun` (it is told which node executes; per activation, **a marked node is reported when the
    activation enters its line — first step, step after a step of another line, or the same node
    again — before it runs, and not again while the activation stays on the line**; a function
    breakpoint whenever its node is about to run), in order — for every graph whose data is well
    formed (`idSeparates`) and every program that runs on it (`Respects`) -/
def breakpoints_reported_full_statement : Prop :=
  ∀ (σ : Type) (g : Graph) (mk mc : Nat → Bool) (P : Prog σ) (st : σ) (cmds : List Cmd) (n : Nat),
    idSeparates g = true → Respects g P → Cmd.terminate ∉ cmds →
    brkNodes (drun ⟨expF, g, mk, mc, false⟩ P n (DCfg.init st cmds)).events
      = (refRun ⟨expF, g, mk, mc, false⟩ (drun ⟨expF, g, mk, mc, false⟩ P n (DCfg.init st cmds)).log).out

theorem init_noterm (st : σ) (cmds : List Cmd) (h : Cmd.terminate ∉ cmds) : NoTerm (DCfg.init st cmds) := by
  unfold NoTerm DCfg.init
  cases cmds with
  | nil => simp [Dbg.apply]
  | cons c cs =>
    simp only [List.mem_cons, not_or] at h
    exact ⟨apply_noterm _ c (by simp [Dbg.init]) (fun e => h.1 e.symm), h.2⟩

/-- **The node the debugger tracks is the node that executes**, in every live activation, at every
    step of every session: for every graph — successors made by the same generator (F20) and back
    edges taken through forwarding closures (F19-1) included — and every program that follows its
    edges. -/
theorem tracked_node_is_executing_node (g : Graph) (mk mc : Nat → Bool) (P : Prog σ) (st : σ) (cmds : List Cmd)
    (n : Nat) (hid : idSeparates g = true) (hR : Respects g P) :
    ∀ fr ∈ (drun ⟨expF, g, mk, mc, false⟩ P n (DCfg.init st cmds)).stack, fr.m = some fr.cur.owner :=
  drun_track ⟨expF, g, mk, mc, false⟩ P n (DCfg.init st cmds) (by rw [expF_val]) (by rw [expF_val]) (by rw [expF_val])
    (by rw [expF_val]) hid hR (by intro fr hfr; simp [DCfg.init] at hfr)

/-- **The debugger is the reference debugger**: when the closures follow the edges of the graph
    (`Respects`), the whole configuration — tracked nodes, previous steps of the frames, events
    with reasons, nodes and step counts, mode, log — is at every step the one of the debugger that is
    told which node executes. -/
theorem debug_eq_reference (g : Graph) (mk mc : Nat → Bool) (P : Prog σ) (st : σ) (cmds : List Cmd)
    (n : Nat) (hid : idSeparates g = true) (hR : Respects g P) :
    drun ⟨expF, g, mk, mc, false⟩ P n (DCfg.init st cmds) = drun ⟨expF, g, mk, mc, true⟩ P n (DCfg.init st cmds) := by
  have := drun_ideal ⟨expF, g, mk, mc, false⟩ P n (DCfg.init st cmds) rfl (by rw [expF_val]) (by rw [expF_val])
    (by rw [expF_val]) (by rw [expF_val]) hid hR (by intro fr hfr; simp [DCfg.init] at hfr)
  exact this.symm

theorem refRun_ideal (S : Setup) (log : List LogItem) : refRun S.toIdeal log = refRun S log := rfl

/-- the debugger that is told which node executes makes exactly the break stops of the line-level
    reference, for every program (no side condition) -/
theorem reference_is_line_level (g : Graph) (mk mc : Nat → Bool) (P : Prog σ) (st : σ) (cmds : List Cmd)
    (n : Nat) (h : Cmd.terminate ∉ cmds) :
    brkNodes (drun ⟨expF, g, mk, mc, true⟩ P n (DCfg.init st cmds)).events
      = (refRun ⟨expF, g, mk, mc, true⟩ (drun ⟨expF, g, mk, mc, true⟩ P n (DCfg.init st cmds)).log).out :=
  ((drun_ref ⟨expF, g, mk, mc, true⟩ P n (DCfg.init st cmds) rfl (by rw [expF_val])
    (init_noterm st cmds h) (by
      refine ⟨rfl, rfl, ?_, ?_⟩
      · intro fr hfr; simp [DCfg.init] at hfr
      · intro _ fr rest e; simp [DCfg.init] at e)).2.1).symm

/-- **One break stop per visit of a line, before the line runs**: the break stops of the debugger
    are, in order, those of the line-level reference — for every graph, every program that follows
    its edges, every set of line and function breakpoints and every request sequence without
    terminate. -/
theorem breakpoints_reported_in_order (g : Graph) (mk mc : Nat → Bool) (P : Prog σ) (st : σ)
    (cmds : List Cmd) (n : Nat) (hid : idSeparates g = true) (hR : Respects g P)
    (h : Cmd.terminate ∉ cmds) :
    brkNodes (drun ⟨expF, g, mk, mc, false⟩ P n (DCfg.init st cmds)).events
      = (refRun ⟨expF, g, mk, mc, false⟩ (drun ⟨expF, g, mk, mc, false⟩ P n (DCfg.init st cmds)).log).out := by
  rw [debug_eq_reference g mk mc P st cmds n hid hR]
  exact reference_is_line_level g mk mc P st cmds n h

/-- the full statement holds -/
theorem breakpoints_reported_full_statement_holds : breakpoints_reported_full_statement :=
  fun _ g mk mc P st cmds n hid hR h => breakpoints_reported_in_order g mk mc P st cmds n hid hR h

/-- the same for the parameters regenerated from the source -/
theorem breakpoints_reported_in_order_generated (g : Graph) (mk mc : Nat → Bool) (P : Prog σ) (st : σ)
    (cmds : List Cmd) (n : Nat) (hid : idSeparates g = true) (hR : Respects g P)
    (h : Cmd.terminate ∉ cmds) :
    brkNodes (drun ⟨genF, g, mk, mc, false⟩ P n (DCfg.init st cmds)).events
      = (refRun ⟨genF, g, mk, mc, false⟩ (drun ⟨genF, g, mk, mc, false⟩ P n (DCfg.init st cmds)).log).out := by
  rw [genF_eq]; exact breakpoints_reported_in_order g mk mc P st cmds n hid hR h

/-! #### what the reference does at one step (it is `refStep`; spelled out) -/

/-- a line breakpoint on a node with a position is reported when the activation enters the line:
    no step executed yet, the previous step is on another line, or it is this very node -/
theorem ref_reports_on_entering (g : Graph) (mk mc : Nat → Bool) (p : Option Nat) (rest : List (Option Nat))
    (out : List (Option Nat)) (o : Nat) (hv : g.posValid o = true) (hm : mk o = true)
    (he : p = none ∨ p = some o ∨ ∃ q, p = some q ∧ g.line q ≠ g.line o) :
    (refStep ⟨expF, g, mk, mc, true⟩ ⟨p :: rest, out⟩ (.exec o)).out = some o :: out := by
  have : entersLine g p o = true := by
    unfold entersLine
    rcases he with e | e | ⟨q, e, hq⟩
    · simp [e]
    · simp [e]
    · simp [e, hq]
  simp [refStep, Setup.hit, hv, hm, this]

/-- and not again while the activation stays on the line (unless the node carries a function
    breakpoint) -/
theorem ref_silent_within_line (g : Graph) (mk mc : Nat → Bool) (q : Nat) (rest : List (Option Nat))
    (out : List (Option Nat)) (o : Nat) (hc : mc o = false) (hne : q ≠ o) (hl : g.line q = g.line o) :
    (refStep ⟨expF, g, mk, mc, true⟩ ⟨some q :: rest, out⟩ (.exec o)).out = out := by
  have : entersLine g (some q) o = false := by simp [entersLine, hne, hl]
  simp [refStep, Setup.hit, hc, this, expF_val]

/-- the previous step of an activation is the last node it executed that is a step (join points of
    compound statements and nodes without position do not count) -/
theorem ref_previous_step (g : Graph) (mk mc : Nat → Bool) (p : Option Nat) (rest : List (Option Nat))
    (out : List (Option Nat)) (o : Nat) :
    (refStep ⟨expF, g, mk, mc, true⟩ ⟨p :: rest, out⟩ (.exec o)).stack =
      (if isStep expF g o then some o else p) :: rest := by
  simp [refStep, Setup.bumpPrev, expF_val]

/-! ### regression examples for the repaired findings (F20: d1e6c4c, F19-1: 3d77a98) -/

/-- `if c { x = 1 } else { x = 2 }` with `c` false (the replay of F20).
    node 1: the condition (branch), node 2: `x = 1` (line 9), node 3: `x = 2` (line 11), node 4: end of
    the block. Both assignments are closures of the same generator (code 20), and two objects
    (201, 301). -/
def ifElseGraph : Graph := #[
  { children := [1, 2, 3, 4] },
  { code := 10, clo := 101, tnext := some 2, fnext := some 3, line := 8, posValid := true, isNop := false, parent := some 0 },
  { code := 20, clo := 201, tnext := some 4, line := 9, posValid := true, isNop := false, parent := some 0 },
  { code := 20, clo := 301, tnext := some 4, line := 11, posValid := true, isNop := false, parent := some 0 },
  { code := 30, clo := 401, line := 5, posValid := true, parent := some 0 } ]

/-- the program: `Execute` calls the body once; the condition is false -/
def ifElseProg : Prog Nat :=
  ⟨fun st c _ =>
    if c = baseClo then (if st = 0 then (1, .call 1 (entryClo ifElseGraph 1)) else (st, .next none))
    else if c.owner = 1 then (st, .next (some (nodeClo ifElseGraph 3)))
    else if c.owner = 2 then (st, .next (some (nodeClo ifElseGraph 4)))
    else if c.owner = 3 then (st, .next (some (nodeClo ifElseGraph 4)))
    else (st, .next none)⟩

def bothArms (i : Nat) : Bool := i == 2 || i == 3

theorem ifElse_respects : Respects ifElseGraph ifElseProg := by
  intro st c r
  by_cases hb : c = baseClo
  · by_cases h0 : st = 0 <;> simp [ifElseProg, hb, h0]
  · by_cases h1 : c.owner = 1
    · simp only [ifElseProg, hb, h1, ↓reduceIte]
      exact ⟨3, by decide, by decide, rfl, .inl rfl⟩
    · by_cases h2 : c.owner = 2
      · simp only [ifElseProg, hb, h2, ↓reduceIte]
        exact ⟨4, by decide, by decide, rfl, .inl rfl⟩
      · by_cases h3 : c.owner = 3
        · simp only [ifElseProg, hb, h3, ↓reduceIte]
          exact ⟨4, by decide, by decide, rfl, .inl rfl⟩
        · simp [ifElseProg, hb, h1, h2, h3]

/-- the facts of the unchanged code -/
def oldF : LoopFacts := LoopFacts.ofRaw Expected.C19.factsBeforeRepair
theorem oldF_val : oldF = ⟨false, [.tnext, .fnext], false, false, false, .gt, .ge, false, false, false,
    ["absent"], ["absent"]⟩ := by decide

/-- **F20 repaired**: with breakpoints on both arms and the condition false, the else arm (node 3)
    executes and is reported. The graph is outside the old domain (`codeSeparates` fails) and
    inside the hypotheses of the theorem. -/
theorem f20_regression :
    let S : Setup := ⟨expF, ifElseGraph, bothArms, fun _ => false, false⟩
    let d := drun S ifElseProg 8 (DCfg.init 0 [.cont])
    d.ctl = .halt false ∧
    d.trace.reverse.map (·.owner) = [1, 3, 4] ∧
    (refRun S d.log).out = [some 3] ∧
    brkNodes d.events = [some 3] ∧
    codeSeparates ifElseGraph = false ∧ idSeparates ifElseGraph = true := by decide

/-- the same input with the facts of the unchanged code reproduces F20: the then arm (node 2) is
    reported, the else arm, which executes, is missed -/
theorem f20_old_facts :
    let S : Setup := ⟨oldF, ifElseGraph, bothArms, fun _ => false, false⟩
    let d := drun S ifElseProg 8 (DCfg.init 0 [.cont])
    d.trace.reverse.map (·.owner) = [1, 3, 4] ∧ brkNodes d.events = [some 2] := by
  decide

/-- `for x < 2 { x++ }`: node 1 the condition, node 2 the body, node 3 the exit. The closure of the
    body hands over to the forwarding closure of setExec for the back edge (code 99, object 199),
    which setForwardExec records on node 1. -/
def loopGraph : Graph := #[
  { children := [1, 2, 3] },
  { code := 10, clo := 101, fwd := 199, tnext := some 2, fnext := some 3, line := 7, posValid := true, isNop := false, parent := some 0 },
  { code := 20, clo := 201, tnext := some 1, line := 8, posValid := true, isNop := false, parent := some 0 },
  { code := 30, clo := 301, line := 5, posValid := true, parent := some 0 } ]

/-- state: (phase of Execute, x) -/
def loopProg : Prog (Nat × Nat) :=
  ⟨fun st c _ =>
    if c = baseClo then (if st.1 = 0 then ((1, st.2), .call 1 (entryClo loopGraph 1)) else (st, .next none))
    else if c.owner = 1 then (if st.2 < 2 then (st, .next (some (nodeClo loopGraph 2))) else (st, .next (some (nodeClo loopGraph 3))))
    else if c.owner = 2 then ((st.1, st.2 + 1), .next (some ⟨1, 99, 199⟩))
    else (st, .next none)⟩

theorem loop_respects : Respects loopGraph loopProg := by
  intro st c r
  by_cases hb : c = baseClo
  · by_cases h0 : st.1 = 0 <;> simp [loopProg, hb, h0]
  · by_cases h1 : c.owner = 1
    · by_cases hx : st.2 < 2
      · simp only [loopProg, hb, h1, hx, ↓reduceIte]
        exact ⟨2, by decide, by decide, rfl, .inl rfl⟩
      · simp only [loopProg, hb, h1, hx, ↓reduceIte]
        exact ⟨3, by decide, by decide, rfl, .inl rfl⟩
    · by_cases h2 : c.owner = 2
      · simp only [loopProg, hb, h2, ↓reduceIte]
        exact ⟨1, by decide, by decide, rfl, .inr ⟨by decide, rfl⟩⟩
      · simp [loopProg, hb, h1, h2]

/-- **F19-1 repaired**: a breakpoint on the loop condition is reported at every iteration, the
    back edge being taken through the forwarding closure -/
theorem f19_1_regression :
    let S : Setup := ⟨expF, loopGraph, fun i => i == 1, fun _ => false, false⟩
    let d := drun S loopProg 12 (DCfg.init (0, 0) [.cont])
    d.ctl = .halt false ∧
    d.trace.reverse.map (·.owner) = [1, 2, 1, 2, 1, 3] ∧
    (refRun S d.log).out = [some 1, some 1, some 1] ∧
    brkNodes d.events = [some 1, some 1, some 1] ∧
    idSeparates loopGraph = true := by decide

/-- stepping through the same loop: every stop has the node that executes -/
theorem f19_1_step_regression :
    let S : Setup := ⟨expF, loopGraph, fun _ => false, fun _ => false, false⟩
    let d := drun S loopProg 12 (DCfg.init (0, 0) (List.replicate 10 (.step .into)))
    d.events.reverse.map (·.node) = [some 1, some 2, some 1, some 2, some 1, some 3] := by decide

/-- the same input with the facts of the unchanged code reproduces F19-1: the breakpoint is reported
    on the first iteration only, and stepping stops without a node after each back edge -/
theorem f19_1_old_facts :
    brkNodes (drun ⟨oldF, loopGraph, fun i => i == 1, fun _ => false, false⟩ loopProg 12 (DCfg.init (0, 0) [.cont])).events = [some 1] ∧
    (drun ⟨oldF, loopGraph, fun _ => false, fun _ => false, false⟩ loopProg 12
        (DCfg.init (0, 0) (List.replicate 10 (.step .into)))).events.reverse.map (·.node)
      = [some 1, some 2, none, some 2, none, some 3] := by decide

/-! ### non-vacuity of the hypotheses -/

/-- the hypotheses of `breakpoints_reported_in_order` are satisfied by the branching program whose
    arms share their code, with breakpoints in both arms, and by the loop whose back edge goes
    through a forwarding closure — the two shapes the unchanged code got wrong -/
theorem hyps_nonempty :
    (idSeparates ifElseGraph = true ∧ Respects ifElseGraph ifElseProg ∧
      brkNodes (drun ⟨expF, ifElseGraph, bothArms, fun _ => false, false⟩ ifElseProg 8 (DCfg.init 0 [.cont])).events = [some 3]) ∧
    (idSeparates loopGraph = true ∧ Respects loopGraph loopProg ∧
      brkNodes (drun ⟨expF, loopGraph, fun i => i == 1, fun _ => false, false⟩ loopProg 12 (DCfg.init (0, 0) [.cont])).events
        = [some 1, some 1, some 1]) :=
  ⟨⟨by decide, ifElse_respects, by decide⟩, ⟨by decide, loop_respects, by decide⟩⟩

/-! ### regression examples for the line-level findings F19-3 … F19-7 (0a3a691)

`SetBreakpoints` marked the first node of the line in walk order that has an action and a closure —
the outermost node, which executes last. It now marks every step of the line that is on a path of a
control-flow graph (`placeLine`), and the debugger reports when an activation enters the line.
Each example is run twice: with today's facts, and with the facts before 0a3a691 (`preLineF`), which
reproduce the finding. -/

/-- the facts before 0a3a691 -/
def preLineF : LoopFacts := LoopFacts.ofRaw Expected.C19.factsBeforeLineRepair

/-- lines of the executed nodes, in execution order -/
def linesExecuted (g : Graph) (d : DCfg σ) : List Nat := d.trace.reverse.map fun c => g.line c.owner

/-- a session with line requests `rs`: marks as `SetBreakpoints` places them, then `drun` -/
def lineSession (F : LoopFacts) (g : Graph) (rs : List BpReq) (P : Prog σ) (st : σ) (n : Nat) : DCfg σ :=
  let marks := placeLine F g 0 rs
  drun ⟨F, g, fun i => marks.contains i, fun _ => false, false⟩ P n (DCfg.init st [.cont])

/-- (node, step) of the stops -/
def stopsOf (d : DCfg σ) : List (Option Nat × Nat) := d.events.reverse.map fun e => (e.node, e.step)

/-- `if x == 2 { continue }`: node 1 the condition (line 9), node 2 the `continue` statement
    (line 10): it has a position and a closure (it executes), and no action (`aNop`) -/
def jumpGraph : Graph := #[
  { children := [1, 2, 3], start := some 1 },
  { code := 10, clo := 101, tnext := some 2, fnext := some 3, line := 9, posValid := true, isNop := false, parent := some 0, kind := "binaryExpr" },
  { code := 20, clo := 201, tnext := some 3, line := 10, posValid := true, isNop := true, parent := some 0, kind := "continueStmt" },
  { code := 30, clo := 301, line := 7, posValid := true, parent := some 0, kind := "forStmt" } ]

/-- **F19-3 repaired**: the line of a `continue` gets a breakpoint (the statement is a step though it
    has no action); before, it was refused -/
theorem jump_line_regression :
    placeLine expF jumpGraph 0 [.line 10] = [2] ∧ lineValid jumpGraph (placeLine expF jumpGraph 0 [.line 10]) 10 = true ∧
    placeLine preLineF jumpGraph 0 [.line 10] = [] := by decide

/-- `for i := 0; i < 2; i++ { s += i }`: node 1 `i := 0`, node 2 `i < 2`, node 3 `i++` (all on line
    7, in walk order), node 4 the body (line 8), node 5 the exit -/
def forClauseGraph : Graph := #[
  { children := [1, 2, 3, 4, 5], start := some 1 },
  { code := 10, clo := 101, tnext := some 2, line := 7, posValid := true, isNop := false, parent := some 0 },
  { code := 20, clo := 201, fwd := 299, tnext := some 4, fnext := some 5, line := 7, posValid := true, isNop := false, parent := some 0 },
  { code := 30, clo := 301, tnext := some 2, line := 7, posValid := true, isNop := false, parent := some 0 },
  { code := 40, clo := 401, tnext := some 3, line := 8, posValid := true, isNop := false, parent := some 0 },
  { code := 50, clo := 501, line := 10, posValid := true, parent := some 0 } ]

/-- state: (phase of Execute, i) -/
def forClauseProg : Prog (Nat × Nat) :=
  ⟨fun st c _ =>
    if c = baseClo then (if st.1 = 0 then ((1, st.2), .call 1 (entryClo forClauseGraph 1)) else (st, .next none))
    else if c.owner = 1 then (st, .next (some (nodeClo forClauseGraph 2)))
    else if c.owner = 2 then (if st.2 < 2 then (st, .next (some (nodeClo forClauseGraph 4))) else (st, .next (some (nodeClo forClauseGraph 5))))
    else if c.owner = 4 then (st, .next (some (nodeClo forClauseGraph 3)))
    else if c.owner = 3 then ((st.1, st.2 + 1), .next (some ⟨2, 99, 299⟩))
    else (st, .next none)⟩

/-- **F19-4 repaired**: a breakpoint on the line of a three-clause `for` is carried by the init
    statement, the condition and the post statement, and reported once each time control comes to the
    line: at the init statement, then at the post statement after each iteration — not again at the
    condition that follows on the same line -/
theorem for_clause_regression :
    let d := lineSession expF forClauseGraph [.line 7] forClauseProg (0, 0) 20
    placeLine expF forClauseGraph 0 [.line 7] = [1, 2, 3] ∧ d.ctl = .halt false ∧
    linesExecuted forClauseGraph d = [7, 7, 8, 7, 7, 8, 7, 7, 10] ∧
    stopsOf d = [(some 1, 0), (some 3, 3), (some 3, 6)] := by decide

/-- before 0a3a691: the init statement only, once -/
theorem for_clause_old_facts :
    placeLine preLineF forClauseGraph 0 [.line 7] = [1] ∧
    stopsOf (lineSession preLineF forClauseGraph [.line 7] forClauseProg (0, 0) 20) = [(some 1, 0)] := by decide

/-- `switch { case y < 2: x = 1 … }`: node 1 the case clause (line 9: it has an action and a
    closure, and is not on any path of the control-flow graph), node 2 its condition `y < 2`
    (line 9), node 3 the body (line 10), node 4 the exit -/
def taglessCaseGraph : Graph := #[
  { children := [1, 4], start := some 2 },
  { code := 30, clo := 101, line := 9, posValid := true, isNop := false, parent := some 0, children := [2, 3] },
  { code := 10, clo := 201, tnext := some 3, fnext := some 4, line := 9, posValid := true, isNop := false, parent := some 1 },
  { code := 20, clo := 301, tnext := some 4, line := 10, posValid := true, isNop := false, parent := some 1 },
  { code := 40, clo := 401, line := 8, posValid := true, parent := some 0 } ]

def taglessCaseProg : Prog Nat :=
  ⟨fun st c _ =>
    if c = baseClo then (if st = 0 then (1, .call 2 (entryClo taglessCaseGraph 2)) else (st, .next none))
    else if c.owner = 2 then (st, .next (some (nodeClo taglessCaseGraph 3)))
    else if c.owner = 3 then (st, .next (some (nodeClo taglessCaseGraph 4)))
    else (st, .next none)⟩

/-- **F19-5 repaired**: a breakpoint on `case cond:` of a switch without tag is carried by the
    condition, which executes, not by the case clause node, which is on no path; before, it was
    accepted and never reported -/
theorem tagless_case_regression :
    placeLine expF taglessCaseGraph 0 [.line 9] = [2] ∧
    stopsOf (lineSession expF taglessCaseGraph [.line 9] taglessCaseProg 0 10) = [(some 2, 0)] ∧
    placeLine preLineF taglessCaseGraph 0 [.line 9] = [1] ∧
    stopsOf (lineSession preLineF taglessCaseGraph [.line 9] taglessCaseProg 0 10) = [] := by decide

/-- `x := bad(2)` where `bad` panics: node 1 the define statement (line 12), node 2 the call (line
    12; operands execute first), node 3 the body of `bad` (line 7) -/
def panicLineGraph : Graph := #[
  { children := [1, 3], start := some 2 },
  { code := 10, clo := 101, line := 12, posValid := true, isNop := false, parent := some 0, children := [2] },
  { code := 20, clo := 201, tnext := some 1, line := 12, posValid := true, isNop := false, parent := some 1 },
  { code := 40, clo := 301, line := 7, posValid := true, isNop := false, parent := some 0 } ]

def panicLineProg : Prog Nat :=
  ⟨fun st c resumed =>
    if c = baseClo then (if st = 0 then (1, .call 2 (entryClo panicLineGraph 2)) else (st, .next none))
    else if c.owner = 2 then (if resumed then (st, .next (some (nodeClo panicLineGraph 1))) else (st, .call 3 (entryClo panicLineGraph 3)))
    else if c.owner = 3 then (st, .panic)
    else (st, .next none)⟩

/-- **F19-6 repaired**: the stop of a breakpoint on `x := bad(2)` comes before the call (step 0: the
    first node of the line to execute), and is made although `bad` panics; before, the outermost node
    of the line carried the breakpoint and nothing was reported -/
theorem panic_line_regression :
    let d := lineSession expF panicLineGraph [.line 12] panicLineProg 0 10
    placeLine expF panicLineGraph 0 [.line 12] = [1, 2] ∧ d.ctl = .halt true ∧
    linesExecuted panicLineGraph d = [12, 7] ∧ stopsOf d = [(some 2, 0)] ∧
    placeLine preLineF panicLineGraph 0 [.line 12] = [1] ∧
    stopsOf (lineSession preLineF panicLineGraph [.line 12] panicLineProg 0 10) = [] := by decide

/-- `func (t *T) inc() { t.n++ }` on one line: node 1 the function declaration with its four
    children — node 2 the receiver, which holds node 6, the `*T` (an action and a closure, on no
    path), node 3 the name, node 4 the `funcType`, node 5 the body, whose start is node 7, `t.n++` -/
def signatureGraph : Graph := #[
  { children := [1] },
  { children := [2, 3, 4, 5], line := 7, posValid := true, parent := some 0, kind := "funcDecl", func := some "inc", start := some 7 },
  { children := [6], line := 7, posValid := true, parent := some 1, kind := "fieldList" },
  { line := 7, posValid := true, parent := some 1, kind := "identExpr" },
  { line := 7, posValid := true, parent := some 1, kind := "funcType" },
  { code := 50, clo := 501, children := [7], line := 7, posValid := true, parent := some 1, kind := "blockStmt", start := some 7 },
  { code := 60, clo := 601, line := 7, posValid := true, isNop := false, parent := some 2, kind := "starExpr" },
  { code := 70, clo := 701, tnext := some 5, line := 7, posValid := true, isNop := false, parent := some 5, kind := "incDecStmt", start := some 7 } ]

/-- **F19-7 repaired**: on a line that holds a signature and the body, the breakpoint is carried by
    the statement of the body (reached from the entry point of the function, which `cfgNodes` finds
    through the `funcType` node), not by the `*T` of the receiver -/
theorem signature_line_regression :
    placeLine expF signatureGraph 0 [.line 7] = [7] ∧ placeLine preLineF signatureGraph 0 [.line 7] = [6] ∧
    cfgNodes expF signatureGraph 0 = [5, 7] := by decide

/-! ### breakpoint placement -/

/-- a line breakpoint sits on a node that has a position, an action and a closure, on a requested
    line, and no line gets two nodes -/
theorem placeLines_sound (g : Graph) (lines : List Nat) (order seen : List Nat) :
    ∀ i ∈ placeLines g lines order seen, lineCandidate g i = true ∧ g.line i ∈ lines ∧ g.line i ∉ seen := by
  induction order generalizing seen with
  | nil => intro i hi; simp [placeLines] at hi
  | cons x rest ih =>
    intro i hi
    unfold placeLines at hi
    split at hi
    · rename_i hc
      simp only [List.mem_cons] at hi
      cases hi with
      | inl e => rw [e]; exact hc
      | inr e =>
        have := ih (g.line x :: seen) i e
        exact ⟨this.1, this.2.1, fun hm => this.2.2 (List.mem_cons_of_mem _ hm)⟩
    · exact ih seen i hi

/-- every requested line that has a candidate node in the walk gets a breakpoint -/
theorem placeLines_complete (g : Graph) (lines : List Nat) (order seen : List Nat) (i : Nat)
    (hi : i ∈ order) (hc : lineCandidate g i = true) (hl : g.line i ∈ lines) (hs : g.line i ∉ seen) :
    ∃ j ∈ placeLines g lines order seen, g.line j = g.line i := by
  induction order generalizing seen with
  | nil => simp at hi
  | cons x rest ih =>
    unfold placeLines
    by_cases hx : lineCandidate g x = true ∧ g.line x ∈ lines ∧ g.line x ∉ seen
    · rw [if_pos hx]
      by_cases hsame : g.line x = g.line i
      · exact ⟨x, List.mem_cons_self, hsame⟩
      · simp only [List.mem_cons] at hi
        cases hi with
        | inl e => rw [e] at hsame; exact absurd rfl hsame
        | inr e =>
          obtain ⟨j, hj, hjl⟩ := ih (g.line x :: seen) e (by
            simp only [List.mem_cons, not_or]; exact ⟨fun e' => hsame e'.symm, hs⟩)
          exact ⟨j, List.mem_cons_of_mem _ hj, hjl⟩
    · rw [if_neg hx]
      simp only [List.mem_cons] at hi
      cases hi with
      | inl e => rw [← e] at hx; exact absurd ⟨hc, hl, hs⟩ hx
      | inr e => exact ih seen e hs

/-- since 0a3a691: a line breakpoint sits on steps of a requested line that are on a path of a
    control-flow graph … -/
theorem placeSteps_sound (F : LoopFacts) (g : Graph) (root : Nat) (lines : List Nat) :
    ∀ i ∈ placeSteps F g root lines, isStep F g i = true ∧ i ∈ cfgNodes F g root ∧ g.line i ∈ lines := by
  intro i hi
  unfold placeSteps at hi
  simp only [List.mem_filter, Bool.and_eq_true, List.contains_iff_mem] at hi
  exact ⟨hi.2.1.1, hi.2.1.2, hi.2.2⟩

/-- … and on all of them: every such node of the program carries the breakpoint, so whichever of
    them executes first when control reaches the line reports it -/
theorem placeSteps_complete (F : LoopFacts) (g : Graph) (root : Nat) (lines : List Nat) (i : Nat)
    (hw : i ∈ preorder g (walkFuel g) [root]) (hs : isStep F g i = true) (hr : i ∈ cfgNodes F g root)
    (hl : g.line i ∈ lines) : i ∈ placeSteps F g root lines := by
  unfold placeSteps
  simp only [List.mem_filter, Bool.and_eq_true, List.contains_iff_mem]
  exact ⟨hw, ⟨hs, hr⟩, hl⟩

/-! ### every node that executes is in `cfgNodes` -/

/-- the entry points `cfgNodes(root)` starts from -/
def entriesOf (F : LoopFacts) (g : Graph) (root : Nat) : List Nat :=
  cfgEntries F g (preorder g (walkFuel g) [root]) root

theorem cfgNodes_closed (F : LoopFacts) (g : Graph) (root : Nat) :
    ClosedSet g (entriesOf F g root) (cfgNodes F g root) :=
  cfgReach_closed g (entriesOf F g root)

/-- **Every node that executes is in `cfgNodes(root)`** — for every graph, every program that follows
    its edges (`Respects`) and enters `runCfg` only at the entry points `cfgNodes` starts from
    (`CallsEnter`: the start of a function body, of a declaration or of the root — what `genRun`
    generates from), at every step of the run: the owners of the executed closures and of the
    closures of the live activations are reachable. (The walk of `cfgNodes` completes for every
    graph: `cfgReach_closed`.) -/
theorem executed_node_in_cfgNodes (F : LoopFacts) (g : Graph) (root : Nat) (P : Prog σ) (st : σ) (n : Nat)
    (hR : Respects g P) (hE : CallsEnter P (entriesOf F g root)) :
    (∀ c ∈ (prun P n (PCfg.init st)).trace, c.owner ∈ cfgNodes F g root) ∧
    (∀ c ∈ (prun P n (PCfg.init st)).stack, c.owner ∈ cfgNodes F g root) := by
  have := prun_inR g P (entriesOf F g root) (cfgNodes F g root) (cfgNodes_closed F g root) hR hE n (PCfg.init st)
    ⟨by intro c hc; simp [PCfg.init] at hc, by intro c hc; simp [PCfg.init] at hc⟩
  exact ⟨this.2, this.1⟩

/-- the same under the debugger (it executes what the plain loop executes) -/
theorem executed_node_in_cfgNodes_debug (S : Setup) (root : Nat) (P : Prog σ) (st : σ) (cmds : List Cmd) (n : Nat)
    (hR : Respects S.g P) (hE : CallsEnter P (entriesOf S.F S.g root)) (h : Cmd.terminate ∉ cmds) :
    ∀ c ∈ (drun S P n (DCfg.init st cmds)).trace, c.owner ∈ cfgNodes S.F S.g root := by
  rw [(debug_exec_sequence_eq_plain S P st cmds n h).1]
  exact (executed_node_in_cfgNodes S.F S.g root P st n hR hE).1

/-- **A line on which a step executes is valid**: when a step of the program that lies below the root
    (`(*node).Walk` reaches it: not so for the instances of the methods of generic types, F19-8) executes
    on a requested line, `SetBreakpoints` has marked it: the request is `Valid`, and the node that
    executes carries the breakpoint -/
theorem executed_line_is_valid (g : Graph) (root : Nat) (P : Prog σ) (st : σ) (n : Nat) (rs : List BpReq)
    (hR : Respects g P) (hE : CallsEnter P (entriesOf expF g root)) (c : Clo)
    (hc : c ∈ (prun P n (PCfg.init st)).trace) (hs : isStep expF g c.owner = true)
    (hw : c.owner ∈ preorder g (walkFuel g) [root]) (hl : BpReq.line (g.line c.owner) ∈ rs) :
    c.owner ∈ placeLine expF g root rs ∧ lineValid g (placeLine expF g root rs) (g.line c.owner) = true := by
  have hreach := (executed_node_in_cfgNodes expF g root P st n hR hE).1 c hc
  have hlines : g.line c.owner ∈ reqLines rs := by
    unfold reqLines
    simp only [List.mem_filterMap]
    exact ⟨.line (g.line c.owner), hl, rfl⟩
  have hm : c.owner ∈ placeLine expF g root rs := by
    have hp : expF.placeSteps = true := by rw [expF_val]
    unfold placeLine
    simp only [hp, ↓reduceIte]
    exact placeSteps_complete expF g root (reqLines rs) c.owner hw hs hreach hlines
  refine ⟨hm, ?_⟩
  unfold lineValid
  simp only [List.any_eq_true, beq_iff_eq]
  exact ⟨c.owner, hm, rfl⟩

end YaegiVerif.Props.C19
