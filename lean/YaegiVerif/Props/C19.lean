import YaegiVerif.Model.Debug
import YaegiVerif.Expected.C19
import YaegiVerif.Generated.C19
import YaegiVerif.Proofs.C19Sim
import YaegiVerif.Proofs.C19Track
/-
  C19 — running under the debugger does not change program behaviour. Property theorems.

  Full statement, in three parts:
   (1) the debug loop executes the closures the plain loop executes (hence same output, result,
       panics): `debug_exec_sequence_eq_plain` — proved at full strength, for every graph, every
       semantics of closures, every breakpoint set, every sequence of resume requests without
       terminate, and every value of the facts read from the source;
   (2) the session ends with a terminate event: `terminate_event_last` — full strength;
   (3) every breakpoint on a node that executes is reported, in order
       (`breakpoints_reported_full_statement`) — NOT true of the unchanged code
       (`tracking_witness`, `backedge_witness`); proved as `breakpoints_reported_in_order_partial`
       on the domain `codeSeparates g ∧ Respects g P`.
-/
namespace YaegiVerif.Props.C19
open YaegiVerif YaegiVerif.Debug YaegiVerif.Proofs.C19

/-! ### ties to the source -/

/-- tie: the structure of the debugger loop and of `(*Debugger).exec` read from the source is the
    one the proofs use -/
theorem facts_tie : Generated.C19.facts = Expected.C19.facts := by decide

/-- tie: the functions transcribed in Model/Debug.lean are textually, modulo comments and layout,
    the ones the model was written from -/
theorem source_tie : Generated.C19.sourceHashes = Expected.C19.sourceHashes := by decide

/-- the parameters of the executable model, as derived from the expected facts -/
def expF : LoopFacts := LoopFacts.ofRaw Expected.C19.facts
def genF : LoopFacts := LoopFacts.ofRaw Generated.C19.facts

theorem expF_val : expF = ⟨false, [.tnext, .fnext], .gt, .ge⟩ := by decide
theorem genF_eq : genF = expF := by unfold genF expF; rw [facts_tie]

/-! ### (1) the debugger never changes what executes -/

/-- **For every graph, closure semantics, breakpoint set, facts, and every sequence of resume
    requests without terminate: after any number of steps the debug loop is where the plain loop is
    — same executed closures (in the same order), same program state (hence same output), same
    activations, same outcome (running / finished / panicked).** The tracked node `m`, the
    breakpoints and the stepping mode never influence `exec`. -/
theorem debug_exec_sequence_eq_plain (S : Setup) (P : Prog σ) (st : σ) (cmds : List Cmd) (n : Nat)
    (h : Cmd.terminate ∉ cmds) :
    (drun S P n (DCfg.init st cmds)).trace = (prun P n (PCfg.init st)).trace ∧
    (drun S P n (DCfg.init st cmds)).st = (prun P n (PCfg.init st)).st ∧
    (drun S P n (DCfg.init st cmds)).ctl = (prun P n (PCfg.init st)).ctl ∧
    (drun S P n (DCfg.init st cmds)).stack.map (·.cur) = (prun P n (PCfg.init st)).stack := by
  have hn : NoTerm (DCfg.init st cmds) := by
    unfold NoTerm DCfg.init
    cases cmds with
    | nil => simp [Dbg.apply]
    | cons c cs =>
      simp only [List.mem_cons, not_or] at h
      exact ⟨apply_noterm _ c (by simp [Dbg.init]) (fun e => h.1 e.symm), h.2⟩
  have := (drun_proj S P n (DCfg.init st cmds) hn).1
  have hp : (DCfg.init st cmds).proj = PCfg.init st := rfl
  rw [hp] at this
  rw [← this]
  exact ⟨rfl, rfl, rfl, rfl⟩

/-- the same, read on whole runs: if the plain run has finished after `n` steps (normally or by a
    panic), so has the debug run, in the same way -/
theorem debug_outcome_eq_plain (S : Setup) (P : Prog σ) (st : σ) (cmds : List Cmd) (n : Nat) (b : Bool)
    (h : Cmd.terminate ∉ cmds) (hp : (prun P n (PCfg.init st)).ctl = .halt b) :
    (drun S P n (DCfg.init st cmds)).ctl = .halt b := by
  rw [(debug_exec_sequence_eq_plain S P st cmds n h).2.2.1]; exact hp

/-- the model parameters regenerated from the source are covered too (the statement holds for every `S`) -/
theorem debug_exec_sequence_eq_plain_generated (g : Graph) (mk : Nat → Bool) (P : Prog σ) (st : σ)
    (cmds : List Cmd) (n : Nat) (h : Cmd.terminate ∉ cmds) :
    (drun ⟨genF, g, mk, false⟩ P n (DCfg.init st cmds)).trace = (prun P n (PCfg.init st)).trace :=
  (debug_exec_sequence_eq_plain _ P st cmds n h).1

/-! ### (2) events of a session -/

/-- **The events of a session end with terminate, and terminate is reported only there**; every
    other event is the routine entry/exit or a stop of `(*Debugger).exec` (break, pause, entry,
    step into/over/out). For every request sequence, with or without terminate. -/
theorem terminate_event_last (S : Setup) (P : Prog σ) (st : σ) (cmds : List Cmd) (n : Nat) :
    ∃ pre, sessionReasons (drun S P n (DCfg.init st cmds)) = pre ++ [.terminate] ∧ Reason.terminate ∉ pre := by
  have hev : EventsOk (drun S P n (DCfg.init st cmds)) :=
    drun_events S P n _ (by intro e he; simp [DCfg.init] at he)
  refine ⟨.enterG :: ((drun S P n (DCfg.init st cmds)).events.reverse.map (·.reason)) ++ [.exitG], ?_, ?_⟩
  · simp [sessionReasons]
  · intro hmem
    simp only [List.cons_append, List.mem_cons, List.mem_append, List.mem_map, List.mem_reverse,
      List.not_mem_nil, or_false] at hmem
    rcases hmem with h | ⟨e, he, hr⟩ | h
    · cases h
    · have := hev e he
      rw [hr] at this
      unfold StopReason at this
      simp at this
    · cases h

/-- **After a terminate request nothing more is reported** and the request cannot be undone -/
theorem after_terminate_silent (S : Setup) (P : Prog σ) (d : DCfg σ) (n : Nat) (h : d.dbg.mode = .terminate) :
    (drun S P n d).events = d.events ∧ (drun S P n d).dbg.mode = .terminate := by
  have := drun_silent S P d.events n d ⟨h, rfl⟩
  exact ⟨this.2, this.1⟩

/-! ### stepping -/

/-- where `(*Debugger).exec` stops, for a mode and depths (no breakpoint on the node) -/
def stopsAt (d : Dbg) : Prop :=
  match d.mode with
  | .run => False
  | .over => d.fDepth ≤ d.fStep
  | .out => d.fDepth < d.fStep
  | .terminate => False
  | _ => True

/-- **Step modes stop where specified** (an invariant of `(*Debugger).exec`, for the comparison
    operators read from the source): on a node with a position and without breakpoint, the debugger
    stops iff the mode is pause/entry/step-into, or step-over and the call depth is at most the depth
    recorded by the request, or step-out and the call depth is below it; it never stops in run mode;
    the event carries the mode as its reason, the tracked node, and the current depth. -/
theorem step_modes_stop_where_specified (g : Graph) (mk : Nat → Bool) (d : Dbg) (m : Option Nat)
    (cmds : List Cmd) (k : Nat) (hv : visible g m = true) (hb : shouldBreak mk m = false)
    (ht : d.mode ≠ .terminate) :
    ((dbgExec expF g mk d m cmds k).ev.isSome ↔ stopsAt d) ∧
    (∀ e, (dbgExec expF g mk d m cmds k).ev = some e → e = ⟨d.mode.reason, m, k, d.fDepth⟩) := by
  unfold dbgExec stopReason stopsAt
  rw [expF_val]
  simp only [hv, hb, Bool.not_true, Bool.false_eq_true, ↓reduceIte, ht]
  cases hm : d.mode <;> simp [hm] at ht ⊢
  · cases cmds <;> simp [Mode.reason]
  · cases cmds <;> simp [Mode.reason]
  · cases cmds <;> simp [Mode.reason]
  · by_cases hc : d.fDepth > d.fStep
    · simp [Cmp.eval, hc]
    · simp only [Cmp.eval, hc, decide_false, Bool.false_eq_true, ↓reduceIte]
      cases cmds <;> simp [Mode.reason] <;> omega
  · by_cases hc : d.fDepth ≥ d.fStep
    · simp [Cmp.eval, hc]
    · simp only [Cmp.eval, hc, decide_false, Bool.false_eq_true, ↓reduceIte]
      cases cmds <;> simp [Mode.reason] <;> omega

/-- a step request records the current call depth (unless the session is terminated) -/
theorem step_records_depth (d : Dbg) (ht : d.mode ≠ .terminate) :
    (d.apply (.step .into) = ⟨.into, d.fDepth, d.fDepth⟩) ∧
    (d.apply (.step .over) = ⟨.over, d.fDepth, d.fDepth⟩) ∧
    (d.apply (.step .out) = ⟨.out, d.fDepth, d.fDepth⟩) := by
  simp [Dbg.apply, Dbg.setMode, ht]

/-- a breakpoint on a node with a position is reported whatever the mode (unless terminated) -/
theorem breakpoint_always_stops (F : LoopFacts) (g : Graph) (mk : Nat → Bool) (d : Dbg) (m : Option Nat)
    (cmds : List Cmd) (k : Nat) (hv : visible g m = true) (hb : shouldBreak mk m = true)
    (ht : d.mode ≠ .terminate) :
    (dbgExec F g mk d m cmds k).ev = some ⟨.brk, m, k, d.fDepth⟩ := by
  unfold dbgExec stopReason
  simp only [hv, hb, Bool.not_true, Bool.false_eq_true, ↓reduceIte, ht]
  cases cmds <;> rfl

/-- **The depth the step modes compare is the number of live `runCfg` activations** (enterCall /
    exitCall are balanced), at every point of every session -/
theorem depth_counts_activations (S : Setup) (P : Prog σ) (st : σ) (cmds : List Cmd) (n : Nat) :
    (drun S P n (DCfg.init st cmds)).dbg.fDepth = (drun S P n (DCfg.init st cmds)).stack.length := by
  apply drun_depth
  unfold DepthOk DCfg.init
  cases cmds with
  | nil => rfl
  | cons c cs => simp [apply_depth, Dbg.init]

/-! ### (3) breakpoints are reported in execution order -/

/-- the full statement: the nodes of the break events are the marked nodes (with a position) among
    the owners of the executed closures, in order -/
def breakpoints_reported_full_statement : Prop :=
  ∀ (σ : Type) (g : Graph) (mk : Nat → Bool) (P : Prog σ) (st : σ) (cmds : List Cmd) (n : Nat),
    Cmd.terminate ∉ cmds →
    brkNodes (drun ⟨expF, g, mk, false⟩ P n (DCfg.init st cmds)).events
      = expected ⟨expF, g, mk, false⟩ (drun ⟨expF, g, mk, false⟩ P n (DCfg.init st cmds)).trace

theorem init_noterm (st : σ) (cmds : List Cmd) (h : Cmd.terminate ∉ cmds) : NoTerm (DCfg.init st cmds) := by
  unfold NoTerm DCfg.init
  cases cmds with
  | nil => simp [Dbg.apply]
  | cons c cs =>
    simp only [List.mem_cons, not_or] at h
    exact ⟨apply_noterm _ c (by simp [Dbg.init]) (fun e => h.1 e.symm), h.2⟩

/-- **On the domain, the debugger is the reference debugger**: when the closures follow the edges
    of the graph (`Respects`) and the two successors of every branching node have different code
    (`codeSeparates`, decidable on the graph), the whole configuration — tracked nodes, events with
    reasons, nodes and step counts, mode — is at every step the one of the debugger that is told
    which node executes. -/
theorem debug_eq_reference_partial (g : Graph) (mk : Nat → Bool) (P : Prog σ) (st : σ) (cmds : List Cmd)
    (n : Nat) (hsep : codeSeparates g = true) (hR : Respects g P) :
    drun ⟨expF, g, mk, false⟩ P n (DCfg.init st cmds) = drun ⟨expF, g, mk, true⟩ P n (DCfg.init st cmds) := by
  have := drun_ideal ⟨expF, g, mk, false⟩ P n (DCfg.init st cmds) rfl (by rw [expF_val]) (by rw [expF_val])
    hsep hR (by intro fr hfr; simp [DCfg.init] at hfr)
  exact this.symm

/-- **Every breakpoint on a node that executes is reported, in execution order, and nothing else is
    reported as a breakpoint** — on the domain `codeSeparates g ∧ Respects g P`, for every request
    sequence without terminate. -/
theorem breakpoints_reported_in_order_partial (g : Graph) (mk : Nat → Bool) (P : Prog σ) (st : σ)
    (cmds : List Cmd) (n : Nat) (hsep : codeSeparates g = true) (hR : Respects g P)
    (h : Cmd.terminate ∉ cmds) :
    brkNodes (drun ⟨expF, g, mk, false⟩ P n (DCfg.init st cmds)).events
      = expected ⟨expF, g, mk, false⟩ (drun ⟨expF, g, mk, false⟩ P n (DCfg.init st cmds)).trace := by
  rw [debug_eq_reference_partial g mk P st cmds n hsep hR]
  have := drun_brk ⟨expF, g, mk, true⟩ P n (DCfg.init st cmds) rfl (by rw [expF_val])
    (init_noterm st cmds h) (by simp [BrkInv, DCfg.init, brkNodes, expected])
  exact this

/-- the same for the parameters regenerated from the source -/
theorem breakpoints_reported_in_order_generated (g : Graph) (mk : Nat → Bool) (P : Prog σ) (st : σ)
    (cmds : List Cmd) (n : Nat) (hsep : codeSeparates g = true) (hR : Respects g P)
    (h : Cmd.terminate ∉ cmds) :
    brkNodes (drun ⟨genF, g, mk, false⟩ P n (DCfg.init st cmds)).events
      = expected ⟨genF, g, mk, false⟩ (drun ⟨genF, g, mk, false⟩ P n (DCfg.init st cmds)).trace := by
  rw [genF_eq]; exact breakpoints_reported_in_order_partial g mk P st cmds n hsep hR h

/-- the reference debugger reports exactly the marked nodes that execute, for every program
    (no side condition): what is lost outside the domain is lost by the tracking alone -/
theorem reference_reports_all (g : Graph) (mk : Nat → Bool) (P : Prog σ) (st : σ) (cmds : List Cmd)
    (n : Nat) (h : Cmd.terminate ∉ cmds) :
    brkNodes (drun ⟨expF, g, mk, true⟩ P n (DCfg.init st cmds)).events
      = expected ⟨expF, g, mk, true⟩ (drun ⟨expF, g, mk, true⟩ P n (DCfg.init st cmds)).trace :=
  drun_brk ⟨expF, g, mk, true⟩ P n (DCfg.init st cmds) rfl (by rw [expF_val])
    (init_noterm st cmds h) (by simp [BrkInv, DCfg.init, brkNodes, expected])

/-! ### witnesses: what the domain excludes is a real difference -/

/-- `if c { x = 1 } else { x = 2 }` with `c` false (F20).
    node 1: the condition (branch), node 2: `x = 1` (line 9), node 3: `x = 2` (line 11), node 4: end of
    the block. Both assignments are closures of the same generator (code 20). -/
def ifElseGraph : Graph := #[
  { children := [1, 2, 3, 4] },
  { code := 10, tnext := some 2, fnext := some 3, line := 8, posValid := true, isNop := false, parent := some 0 },
  { code := 20, tnext := some 4, line := 9, posValid := true, isNop := false, parent := some 0 },
  { code := 20, tnext := some 4, line := 11, posValid := true, isNop := false, parent := some 0 },
  { code := 30, line := 5, posValid := true, parent := some 0 } ]

/-- the program: `Execute` calls the body once; the condition is false -/
def ifElseProg : Prog Nat :=
  ⟨fun st c _ =>
    if c = baseClo then (if st = 0 then (1, .call 1 (entryClo ifElseGraph 1)) else (st, .next none))
    else if c.owner = 1 then (st, .next (some (nodeClo ifElseGraph 3)))
    else if c.owner = 2 then (st, .next (some (nodeClo ifElseGraph 4)))
    else if c.owner = 3 then (st, .next (some (nodeClo ifElseGraph 4)))
    else (st, .next none)⟩

def bothArms (i : Nat) : Bool := i == 2 || i == 3

/-- **F20**: with breakpoints on both arms and the condition false, the else arm (node 3) executes
    and the debugger reports the then arm (node 2): the report is wrong and the executed line is
    missed. The program respects the graph; only `codeSeparates` fails. -/
theorem tracking_witness :
    let S : Setup := ⟨expF, ifElseGraph, bothArms, false⟩
    let d := drun S ifElseProg 8 (DCfg.init 0 [.cont])
    d.ctl = .halt false ∧
    d.trace.reverse.map (·.owner) = [1, 3, 4] ∧
    expected S d.trace = [some 3] ∧
    brkNodes d.events = [some 2] ∧
    codeSeparates ifElseGraph = false := by decide

theorem ifElse_respects : Respects ifElseGraph ifElseProg := by
  intro st c r
  by_cases hb : c = baseClo
  · by_cases h0 : st = 0 <;> simp [ifElseProg, hb, h0]
  · by_cases h1 : c.owner = 1
    · simp only [ifElseProg, hb, h1, ↓reduceIte]
      exact ⟨3, rfl, by decide, by decide⟩
    · by_cases h2 : c.owner = 2
      · simp only [ifElseProg, hb, h2, ↓reduceIte]
        exact ⟨4, rfl, by decide, by decide⟩
      · by_cases h3 : c.owner = 3
        · simp only [ifElseProg, hb, h3, ↓reduceIte]
          exact ⟨4, rfl, by decide, by decide⟩
        · simp [ifElseProg, hb, h1, h2, h3]

/-- hence the full statement does not hold -/
theorem breakpoints_reported_full_statement_fails : ¬ breakpoints_reported_full_statement := by
  intro h
  have := h Nat ifElseGraph bothArms ifElseProg 0 [.cont] 8 (by decide)
  revert this
  decide

/-- `for x < 2 { x++ }`: node 1 the condition, node 2 the body, node 3 the exit. The closure of the
    body hands over to a forwarding closure of setExec (code 99) for the back edge. -/
def loopGraph : Graph := #[
  { children := [1, 2, 3] },
  { code := 10, tnext := some 2, fnext := some 3, line := 7, posValid := true, isNop := false, parent := some 0 },
  { code := 20, tnext := some 1, line := 8, posValid := true, isNop := false, parent := some 0 },
  { code := 30, line := 5, posValid := true, parent := some 0 } ]

/-- state: (phase of Execute, x) -/
def loopProg : Prog (Nat × Nat) :=
  ⟨fun st c _ =>
    if c = baseClo then (if st.1 = 0 then ((1, st.2), .call 1 (entryClo loopGraph 1)) else (st, .next none))
    else if c.owner = 1 then (if st.2 < 2 then (st, .next (some (nodeClo loopGraph 2))) else (st, .next (some (nodeClo loopGraph 3))))
    else if c.owner = 2 then ((st.1, st.2 + 1), .next (some ⟨1, 99⟩))
    else (st, .next none)⟩

/-- **back edge**: a breakpoint on the loop condition is reported the first time only — after the
    back edge the debugger has no node (`originalExecNode` finds no closure with the code of the
    forwarding closure), although the graph separates codes. -/
theorem backedge_witness :
    let S : Setup := ⟨expF, loopGraph, fun i => i == 1, false⟩
    let d := drun S loopProg 12 (DCfg.init (0, 0) [.cont])
    d.ctl = .halt false ∧
    d.trace.reverse.map (·.owner) = [1, 2, 1, 2, 1, 3] ∧
    expected S d.trace = [some 1, some 1, some 1] ∧
    brkNodes d.events = [some 1] ∧
    codeSeparates loopGraph = true := by decide

/-- stepping through the same loop: after the back edge the debugger stops with no node at all
    (the event has no position), then finds the body again through `originalExecNode` -/
theorem backedge_step_witness :
    let S : Setup := ⟨expF, loopGraph, fun _ => false, false⟩
    let d := drun S loopProg 12 (DCfg.init (0, 0) (List.replicate 10 (.step .into)))
    d.events.reverse.map (·.node) = [some 1, some 2, none, some 2, none, some 3] := by decide

/-! ### non-vacuity of the domain -/

/-- `if c { x = 1 } else { y = f() }`: the arms have different code -/
def sepGraph : Graph := #[
  { children := [1, 2, 3, 4] },
  { code := 10, tnext := some 2, fnext := some 3, line := 8, posValid := true, isNop := false, parent := some 0 },
  { code := 20, tnext := some 4, line := 9, posValid := true, isNop := false, parent := some 0 },
  { code := 21, tnext := some 4, line := 11, posValid := true, isNop := false, parent := some 0 },
  { code := 30, line := 5, posValid := true, parent := some 0 } ]

def sepProg : Prog Nat :=
  ⟨fun st c _ =>
    if c = baseClo then (if st = 0 then (1, .call 1 (entryClo sepGraph 1)) else (st, .next none))
    else if c.owner = 1 then (st, .next (some (nodeClo sepGraph 3)))
    else if c.owner = 2 then (st, .next (some (nodeClo sepGraph 4)))
    else if c.owner = 3 then (st, .next (some (nodeClo sepGraph 4)))
    else (st, .next none)⟩

theorem sep_respects : Respects sepGraph sepProg := by
  intro st c r
  by_cases hb : c = baseClo
  · by_cases h0 : st = 0 <;> simp [sepProg, hb, h0]
  · by_cases h1 : c.owner = 1
    · simp only [sepProg, hb, h1, ↓reduceIte]
      exact ⟨3, rfl, by decide, by decide⟩
    · by_cases h2 : c.owner = 2
      · simp only [sepProg, hb, h2, ↓reduceIte]
        exact ⟨4, rfl, by decide, by decide⟩
      · by_cases h3 : c.owner = 3
        · simp only [sepProg, hb, h3, ↓reduceIte]
          exact ⟨4, rfl, by decide, by decide⟩
        · simp [sepProg, hb, h1, h2, h3]

/-- the hypotheses of the partial theorem are satisfiable by a branching program with breakpoints
    in both arms, and there the else arm is reported -/
theorem dom_nonempty :
    codeSeparates sepGraph = true ∧ Respects sepGraph sepProg ∧
    brkNodes (drun ⟨expF, sepGraph, bothArms, false⟩ sepProg 8 (DCfg.init 0 [.cont])).events = [some 3] :=
  ⟨by decide, sep_respects, by decide⟩

/-! ### breakpoint placement -/

/-- a line breakpoint sits on a node that has a position, an action and a closure, on a requested
    line, and no line gets two nodes -/
theorem placeLines_sound (g : Graph) (lines : List Nat) (order seen : List Nat) :
    ∀ i ∈ placeLines g lines order seen, lineCandidate g i = true ∧ g.line i ∈ lines ∧ g.line i ∉ seen := by
  induction order generalizing seen with
  | nil => intro i hi; simp [placeLines] at hi
  | cons x rest ih =>
    intro i hi
    unfold placeLines at hi
    split at hi
    · rename_i hc
      simp only [List.mem_cons] at hi
      cases hi with
      | inl e => rw [e]; exact hc
      | inr e =>
        have := ih (g.line x :: seen) i e
        exact ⟨this.1, this.2.1, fun hm => this.2.2 (List.mem_cons_of_mem _ hm)⟩
    · exact ih seen i hi

/-- every requested line that has a candidate node in the walk gets a breakpoint -/
theorem placeLines_complete (g : Graph) (lines : List Nat) (order seen : List Nat) (i : Nat)
    (hi : i ∈ order) (hc : lineCandidate g i = true) (hl : g.line i ∈ lines) (hs : g.line i ∉ seen) :
    ∃ j ∈ placeLines g lines order seen, g.line j = g.line i := by
  induction order generalizing seen with
  | nil => simp at hi
  | cons x rest ih =>
    unfold placeLines
    by_cases hx : lineCandidate g x = true ∧ g.line x ∈ lines ∧ g.line x ∉ seen
    · rw [if_pos hx]
      by_cases hsame : g.line x = g.line i
      · exact ⟨x, List.mem_cons_self, hsame⟩
      · simp only [List.mem_cons] at hi
        cases hi with
        | inl e => rw [e] at hsame; exact absurd rfl hsame
        | inr e =>
          obtain ⟨j, hj, hjl⟩ := ih (g.line x :: seen) e (by
            simp only [List.mem_cons, not_or]; exact ⟨fun e' => hsame e'.symm, hs⟩)
          exact ⟨j, List.mem_cons_of_mem _ hj, hjl⟩
    · rw [if_neg hx]
      simp only [List.mem_cons] at hi
      cases hi with
      | inl e => rw [← e] at hx; exact absurd ⟨hc, hl, hs⟩ hx
      | inr e => exact ih seen e hs

end YaegiVerif.Props.C19
