import YaegiVerif.Model.RunId
import YaegiVerif.Proofs.C09Inv
import YaegiVerif.Proofs.C09Stop
import YaegiVerif.Proofs.C09Pre
import YaegiVerif.Expected.C09
import YaegiVerif.Generated.C09
/-
  C09 — cancellation stops all interpreted activity. Property theorems over the run-id machine
  (Model/RunId.lean); helper lemmas are in Proofs/C09{Inv,Stop,Pre}.lean.

  Reading guide. A state `σ` of the machine is: the interpreter id, whether `done` is closed, the id of the
  root frame, the entries `Execute` has not started yet, and the goroutines (each a stack of frames over an
  abstract operation tree, `armed` = has passed the run-id guard for its next operation — where the step hook
  sits —, `blocked` = parked in a channel operation). `runSched F σ sched` applies an arbitrary list of choices
  (goroutine i moves / a blocked operation completes by communication / the context is cancelled).
  `opsOf σ i` and `ticksOf σ i` count the operations and host calls goroutine `i` has executed.
-/
namespace YaegiVerif.Props.C09
open YaegiVerif YaegiVerif.RunId YaegiVerif.Proofs.C09

/-! ### ties to the source -/

/-- tie: the run-id facts extracted from interp/{interp,program,run}.go are the ones the proofs use -/
theorem runidfacts_tie : Generated.C09.facts = Expected.C09.facts := by decide

/-- tie: the run list of `Execute` (root code and global variables on the root frame, then every init and main) -/
theorem execruns_tie : Generated.C09.execRuns = Expected.C09.execRuns := by decide

/-- tie: the extractor recognised every shape it looked at -/
theorem notes_tie : Generated.C09.notes = [] := by decide

/-- tie: the small functions transcribed in Model/RunId.lean are textually the ones the model was written from -/
theorem source_tie : Generated.C09.sourceHashes = Expected.C09.sourceHashes := by decide

theorem expected_sound : Sound Expected.C09.facts := by
  constructor <;> decide

theorem ideal_sound : Sound Expected.C09.ideal := by
  constructor <;> decide

/-! ### the invariant, over all schedules -/

/-- **Invariant, for all schedules**: from the state in which `EvalWithContext` starts `Execute`, after any
    sequence of goroutine transitions, completed communications and the cancellation, every live frame and the
    root frame carry an id at most the interpreter's, and all frames of a goroutine carry the same id
    (a callee or a spawned goroutine is stale exactly when its creator is). -/
theorem invariant_all_schedules (id rootId : Nat) (entries : List Entry) (h : rootId ≤ id) (sched : List Choice) :
    Inv (runSched Generated.C09.facts (start Generated.C09.facts id rootId entries) sched) := by
  rw [runidfacts_tie]
  exact inv_runSched expected_sound sched _ (inv_start _ id rootId entries h)

/-- a frame created by an operation of a frame with id `c` (callee, closure call, host callback, goroutine)
    gets the id `c`: children of stale frames are stale -/
theorem children_of_stale_are_stale (s : Site) (parent cur : Nat) :
    newId (Generated.C09.facts.site s) parent cur = parent := by
  rw [runidfacts_tie]; cases s <;> rfl

/-- a stale frame executes nothing: the guard of `runCfg` fails -/
theorem stale_frame_fails_guard (fid cur : Nat) (h : fid < cur) : guardOk Generated.C09.facts fid cur = false := by
  rw [runidfacts_tie]; exact guard_stale expected_sound h

/-! ### blocking operations -/

/-- **Every blocking generator listed by the extractor races `done`** when its closure was generated while
    `cancelChan` was set (recv, recv2, send), and unconditionally for `range` over a channel and `select`. -/
theorem blocking_ops_cancellable (k : BlkKind) :
    cancellable Generated.C09.facts k true = true ∧
    (k = .range ∨ k = .select → ∀ c, cancellable Generated.C09.facts k c = true) := by
  rw [runidfacts_tie]
  cases k <;> refine ⟨by decide, ?_⟩ <;> intro h c <;> cases c <;> first | rfl | (rcases h with h | h <;> cases h)

/-- a goroutine blocked in an operation that races the channel `stop()` closes is released once it is closed, and
    its frame ends (the operation returns `nil`); an operation blocks with that property exactly when its variant
    is cancellable and its frame's done channel is the current one (`execOp`) -/
theorem blocked_op_enabled_by_done (σ : St) (i : Nat) (g : G) (k : BlkKind)
    (hg : σ.gs[i]? = some g) (hb : g.blocked = some (k, true)) (hd : σ.done = true) :
    (stepC Generated.C09.facts σ (.run i)).gs[i]? = some { g with blocked := none, stack := g.stack.tail } := by
  have hi : i < σ.gs.length := (List.getElem?_eq_some_iff.mp hg).1
  show (stepRun Generated.C09.facts σ i).gs[i]? = _
  unfold stepRun
  simp only [hg]
  rw [(markReturn_gs _ _ _).1]
  simp [stepG, hb, wake, hd, hi]

/-! ### the cancellation -/

/-- the domain of the partial theorem (decidable): the cancellation arrives while `Execute` is inside the last
    entry of its run list (nothing is pending), every blocking operation of the program is of a cancellable
    variant (no channel operation compiled by a plain `Eval`), and no closure made by an earlier evaluation is
    called (`Prog.canc` checks both) -/
def Dom (F : RunIdFacts) (entries : List Entry) (σ : St) : Bool :=
  σ.runList.isEmpty && entries.all (fun e => e.prog.canc F)

/-- what the property demands of a cancellation in state `σ1` (reached while the call is still watching its
    context): after any further schedule every goroutine has executed at most the one operation it had in
    flight, has made at most the one host call that operation may be, every goroutine can be run to its end
    (empty stack, not blocked), and the call has returned the context's error -/
def StopsEverything (F : RunIdFacts) (σ1 : St) : Prop :=
  ∀ post : List Choice,
    let σ3 := runSched F (stepC F σ1 .stop) post
    (∀ i, opsOf σ3 i ≤ opsOf σ1 i + (if armedOf σ1 i then 1 else 0)) ∧
    (∀ i, ticksOf σ3 i ≤ ticksOf σ1 i + (if armedOf σ1 i then 1 else 0)) ∧
    (∀ g ∈ (drain F σ3 σ3.weight).gs, finished g = true) ∧
    σ3.ret = some .ctxErr

/-- the full-strength statement: for every program, every schedule before the cancellation and every moment of it -/
def C09_full_statement (F : RunIdFacts) : Prop :=
  ∀ (id rootId : Nat) (entries : List Entry) (pre : List Choice), rootId ≤ id →
    (runSched F (start F id rootId entries) pre).watching = true →
    StopsEverything F (runSched F (start F id rootId entries) pre)

/-- the general form, for any fact record with the sound id choices: the two conditions of `Dom` may each be
    replaced by the corresponding repair of the interpreter -/
theorem stops_everything_of {F : RunIdFacts} (hF : Sound F) (id rootId : Nat) (entries : List Entry)
    (pre : List Choice) (hroot : rootId ≤ id)
    (hw : (runSched F (start F id rootId entries) pre).watching = true)
    (hl : (runSched F (start F id rootId entries) pre).runList = [] ∨ F.execChecksCancel = true)
    (hc : ∀ e ∈ entries, e.prog.canc F = true) :
    StopsEverything F (runSched F (start F id rootId entries) pre) := by
  intro post
  have hinv := inv_runSched hF pre _ (inv_start F id rootId entries hroot)
  have hpre := pre_runSched F pre _ (pre_start F id rootId entries hc)
  have hdead := dead_of_stop hF _ hinv hpre hw hl
  have hstopgs : (stepStop F (runSched F (start F id rootId entries) pre)).gs = (runSched F (start F id rootId entries) pre).gs := by
    simp [stepStop, hw]
  have hd3 := dead_runSched hF post _ hdead
  refine ⟨?_, ?_, ?_, ?_⟩
  · intro i
    have h1 := potAt_runSched hF post _ hdead i
    have h2 := opsOf_le_potAt (runSched F (stepStop F (runSched F (start F id rootId entries) pre)) post) i
    have h3 : potAt (stepStop F (runSched F (start F id rootId entries) pre)) i =
        opsOf (runSched F (start F id rootId entries) pre) i + (if armedOf (runSched F (start F id rootId entries) pre) i then 1 else 0) := by
      rw [← potAt_eq]; simp only [potAt, hstopgs]
    show opsOf (runSched F (stepStop F _) post) i ≤ _
    omega
  · intro i
    have h1 := tpotAt_runSched hF post _ hdead i
    have h2 := ticksOf_le_tpotAt (runSched F (stepStop F (runSched F (start F id rootId entries) pre)) post) i
    have h3 : tpotAt (stepStop F (runSched F (start F id rootId entries) pre)) i =
        ticksOf (runSched F (start F id rootId entries) pre) i + (if armedOf (runSched F (start F id rootId entries) pre) i then 1 else 0) := by
      rw [← tpotAt_eq]; simp only [tpotAt, hstopgs]
    show ticksOf (runSched F (stepStop F _) post) i ≤ _
    omega
  · have := drain_terminates hF _ _ hd3 (Nat.le_refl _)
    exact weight_zero_finished _ this.1
  · have hs : (stepStop F (runSched F (start F id rootId entries) pre)).watching = false ∧
        (stepStop F (runSched F (start F id rootId entries) pre)).ret = some .ctxErr := by
      simp [stepStop, hw, hF.werr]
    have := ret_stable F post _ hs.1
    exact this.2.trans hs.2

/-- **At most one operation after stop** (partial: `Dom`). For every program whose blocking operations are all
    cancellable, every schedule before the cancellation, a cancellation that arrives while `Execute` is in its
    last entry, and every schedule afterwards: each goroutine executes at most the one operation it had in
    flight (and makes at most that one host call), every goroutine terminates, the call returns `ctx.Err()`. -/
theorem at_most_one_op_after_stop_partial (id rootId : Nat) (entries : List Entry) (pre : List Choice)
    (hroot : rootId ≤ id)
    (hw : (runSched Generated.C09.facts (start Generated.C09.facts id rootId entries) pre).watching = true)
    (hdom : Dom Generated.C09.facts entries (runSched Generated.C09.facts (start Generated.C09.facts id rootId entries) pre) = true) :
    StopsEverything Generated.C09.facts (runSched Generated.C09.facts (start Generated.C09.facts id rootId entries) pre) := by
  simp only [Dom, Bool.and_eq_true, List.isEmpty_iff, List.all_eq_true] at hdom
  revert hw hdom
  rw [runidfacts_tie]
  intro hw hdom
  exact stops_everything_of expected_sound id rootId entries pre hroot hw (Or.inl hdom.1) hdom.2

/-- non-vacuity: a program with a goroutine blocked in a `select`, a busy main, cancelled in the middle, is in `Dom`,
    and something is in flight at that moment -/
def exEntries : List Entry :=
  [{ root := true, prog := .step .done },
   { root := false, prog := .tick (.spawn .call (.step (.block .select true .done)) (.step (.step (.tick .done)))) }]
def exPre : List Choice := [.run 0, .run 0, .run 0, .run 0, .run 0, .run 0, .run 0, .run 0, .run 0, .run 1, .run 1, .run 1, .run 1, .run 0]
example :
    let σ1 := runSched Generated.C09.facts (start Generated.C09.facts 0 0 exEntries) exPre
    σ1.watching = true ∧ Dom Generated.C09.facts exEntries σ1 = true ∧ armedOf σ1 0 = true ∧
      (σ1.gs[1]?.map (·.blocked)) = some (some (.select, true)) ∧ opsOf σ1 0 = 3 := by
  decide

/-- **The call returns the context's error**, whatever the program is doing and wherever `Execute` is: once the
    watcher has seen `ctx.Done()` the result is `ctx.Err()` and stays so. -/
theorem eval_returns_ctx_err (σ : St) (post : List Choice) (hw : σ.watching = true) :
    (runSched Generated.C09.facts (stepC Generated.C09.facts σ .stop) post).ret = some .ctxErr := by
  rw [runidfacts_tie]
  have hs : (stepStop Expected.C09.facts σ).watching = false ∧ (stepStop Expected.C09.facts σ).ret = some .ctxErr := by
    simp [stepStop, hw, Expected.C09.facts]
  exact (ret_stable _ post _ hs.1).2.trans hs.2

/-! ### what `Dom` excludes (F09, F26) -/

/-- F09. A global initialiser `var x = f()` is running (`f` has executed one operation) when the context is
    cancelled; `init` and `main` (one host call each) still run afterwards. -/
def f09Entries : List Entry :=
  [{ root := true, prog := .call .call (.step (.step .done)) (.step .done) },
   { root := false, prog := .tick .done },
   { root := false, prog := .tick (.step .done) }]
def f09Pre : List Choice := [.run 0, .run 0, .run 0, .run 0, .run 0, .run 0]

theorem cancel_during_init_witness :
    let σ1 := runSched Generated.C09.facts (start Generated.C09.facts 0 0 f09Entries) f09Pre
    let σ3 := runSched Generated.C09.facts (stepC Generated.C09.facts σ1 .stop) (List.replicate 20 (.run 0))
    σ1.watching = true ∧ σ1.runList.length = 2 ∧ opsOf σ1 0 = 2 ∧ armedOf σ1 0 = true ∧
      opsOf σ3 0 = 6 ∧ ticksOf σ1 0 = 0 ∧ ticksOf σ3 0 = 2 := by
  decide

/-- the full-strength statement is false for the interpreter as it is -/
theorem full_statement_false : ¬ C09_full_statement Generated.C09.facts := by
  intro h
  have := (h 0 0 f09Entries f09Pre (Nat.le_refl 0) (by decide) (List.replicate 20 (.run 0))).1 0
  revert this
  decide

/-- F26. A goroutine is blocked in `<-c` whose closure was generated by a plain `Eval` (`canc = false`): after
    the cancellation, in the last entry of the run list, it is still blocked however long the goroutines are run. -/
def f26Entries : List Entry :=
  [{ root := false, prog := .spawn .call (.step (.block .recv false .done)) (.step (.step (.step .done))) }]
def f26Pre : List Choice := [.run 0, .run 0, .run 0, .run 1, .run 1, .run 1, .run 1, .run 0, .run 0]

theorem stale_variant_witness :
    let σ1 := runSched Generated.C09.facts (start Generated.C09.facts 0 0 f26Entries) f26Pre
    let σ3 := drain Generated.C09.facts (stepC Generated.C09.facts σ1 .stop) 20
    σ1.watching = true ∧ σ1.runList = [] ∧ (σ1.gs[1]?.map (·.blocked)) = some (some (.recv, false)) ∧
      (σ3.gs[1]?.map (·.blocked)) = some (some (.recv, false)) ∧ (σ3.gs[0]?.map finished) = some true ∧
      (stepC Generated.C09.facts σ3 (.run 1)).gs = σ3.gs := by
  decide

/-- F09-2. A goroutine runs a closure made by an earlier evaluation (`Site.earlier`: the cloned frame kept that
    evaluation's done channel) and is blocked in a `select` — an operation that always lists `f.done`; the
    cancellation does not release it: the channel it races is not the one `stop()` closes. -/
def f092Entries : List Entry :=
  [{ root := false, prog := .spawn .earlier (.step (.block .select true .done)) (.step (.step (.step .done))) }]

theorem stale_done_witness :
    let σ1 := runSched Generated.C09.facts (start Generated.C09.facts 0 0 f092Entries) f26Pre
    let σ3 := drain Generated.C09.facts (stepC Generated.C09.facts σ1 .stop) 20
    σ1.watching = true ∧ σ1.runList = [] ∧ (σ1.gs[1]?.map (·.blocked)) = some (some (.select, false)) ∧
      (σ3.gs[1]?.map (·.blocked)) = some (some (.select, false)) ∧ (σ3.gs[0]?.map finished) = some true ∧
      (stepC Generated.C09.facts σ3 (.run 1)).gs = σ3.gs := by
  decide

/-! ### the repairs -/

theorem ideal_all_cancellable (p : Prog) : p.canc Expected.C09.ideal = true := by
  have hcur : ∀ s, childCur Expected.C09.ideal s true = true := by intro s; cases s <;> rfl
  induction p with
  | done => rfl
  | step p ih => simpa [Prog.canc] using ih
  | tick p ih => simpa [Prog.canc] using ih
  | mkclosure p ih => simpa [Prog.canc] using ih
  | call s b p ihb ihp => simp [Prog.canc, ihb, ihp, hcur]
  | spawn s b p ihb ihp => simp [Prog.canc, ihb, ihp, hcur]
  | block k c p ih =>
    simp only [Prog.canc, ih, Bool.and_true]
    cases k <;> cases c <;> rfl

/-- **With three repairs the statement holds at full strength**: if `Execute` abandons its run list after a
    cancellation, the channel generators do not depend on when they were generated, and a closure's frame takes the
    done channel of the evaluation that calls it (`Expected.C09.ideal`, the specification column of the
    correspondence): every program, every schedule, every moment. -/
theorem ideal_full : C09_full_statement Expected.C09.ideal := by
  intro id rootId entries pre hroot hw
  exact stops_everything_of ideal_sound id rootId entries pre hroot hw (Or.inr rfl)
    (fun e _ => ideal_all_cancellable e.prog)

end YaegiVerif.Props.C09
