import YaegiVerif.Model.RunId
import YaegiVerif.Proofs.C09Inv
import YaegiVerif.Proofs.C09Stop
import YaegiVerif.Proofs.C09Pre
import YaegiVerif.Expected.C09
import YaegiVerif.Generated.C09
/-
  C09 — cancellation stops all interpreted activity. Property theorems over the run-id machine
  (Model/RunId.lean); helper lemmas are in Proofs/C09{Inv,Stop,Pre}.lean.

  Reading guide. A state `σ` of the machine is: the interpreter id, whether `done` is closed (and replaced), the id
  and the done channel of the root frame, the entries `Execute` has not started yet, and the goroutines (each a
  stack of frames over an abstract operation tree, `armed` = has passed the run-id guard for its next operation —
  where the step hook sits —, `blocked` = parked in a channel operation, `pending` = started by a `go` statement and
  has not made its frame yet). `runSched F σ sched` applies an arbitrary list of choices (goroutine i moves / a
  blocked operation completes by communication / the context is cancelled). `opsOf σ i` and `ticksOf σ i` count
  the operations and host calls goroutine `i` has executed.

  State after the repairs of round 2 (c403bf5 F09, cc65000 F26, 1578873 F09-2, d26dd9e F09-1, ba001d8, 50c4f88,
  4a41b28 F10) and the epoch repair of round 4 (dc95f3e, 2db9fe7): the clauses the domain of the main theorem had for
  F09, F26, F09-2 and F09-3 are gone. A call of a function value gets the interpreter's CURRENT id when its frame is
  made, unless the evaluation that made the function value (its epoch) has been cancelled — then an id the
  interpreter never has. What is left, knowingly, is F09-5: a function value of an EARLIER, completed evaluation (or
  made inside one) whose call or `go` statement is in flight at the cancellation belongs to no cancelled epoch: its
  frame gets the new id and it runs in full. `Dom` is exactly the absence of that.
-/
namespace YaegiVerif.Props.C09
open YaegiVerif YaegiVerif.RunId YaegiVerif.Proofs.C09

/-! ### ties to the source -/

/-- tie: the run-id facts extracted from interp/{interp,program,run,src}.go are the ones the proofs use -/
theorem runidfacts_tie : Generated.C09.facts = Expected.C09.facts := by decide

/-- tie: the run list of `Execute` (root code and global variables on the root frame, then every init and main) -/
theorem execruns_tie : Generated.C09.execRuns = Expected.C09.execRuns := by decide

/-- tie: the extractor recognised every shape it looked at -/
theorem notes_tie : Generated.C09.notes = [] := by decide

/-- tie: the small functions transcribed in Model/RunId.lean are textually the ones the model was written from -/
theorem source_tie : Generated.C09.sourceHashes = Expected.C09.sourceHashes := by decide

theorem expected_sound : Sound Expected.C09.facts := by
  constructor <;> decide

theorem ideal_sound : Sound Expected.C09.ideal := by
  constructor <;> decide

/-! ### the invariant, over all schedules -/

/-- **Invariant, for all schedules**: from the state in which `EvalWithContext` starts `Execute`, after any
    sequence of goroutine transitions, completed communications and the cancellation, every live frame, every
    goroutine that has not made its frame yet and the root frame carry an id at most the interpreter's, and the
    goroutine of `Execute` is the first one and the only one flagged so. -/
theorem invariant_all_schedules (id rootId : Nat) (entries : List Entry) (h : rootId ≤ id) (sched : List Choice) :
    Inv (runSched Generated.C09.facts (start Generated.C09.facts id rootId entries) sched) ∧
    MainOk (runSched Generated.C09.facts (start Generated.C09.facts id rootId entries) sched) := by
  rw [runidfacts_tie]
  exact ⟨inv_runSched expected_sound sched _ (inv_start _ id rootId entries h),
    mainOk_runSched _ sched _ (mainOk_start _ id rootId entries)⟩

/-- a frame made by a call of a declared function (or a `go` statement of one) from a frame with id `c` gets the id
    `c`: callees and spawned goroutines of stale frames are stale -/
theorem callee_of_stale_is_stale (parent cur root : Nat) (dead : Bool) :
    newId (Generated.C09.facts.site .call) parent cur root dead = parent := by
  rw [runidfacts_tie]; rfl

/-- a frame made by a call of a function value (closure, method value, function handed to native code) gets the
    interpreter's CURRENT id, read when the frame is made — unless the epoch of the function value has been
    cancelled: then the dead id — whatever the frame that made the function value or the call carries -/
theorem function_value_frame_current_or_dead (s : Site) (hs : s.kind ≠ .call) (parent cur root : Nat) (dead : Bool) :
    newId (Generated.C09.facts.site s) parent cur root dead = if dead then 0 else cur := by
  rw [runidfacts_tie]
  obtain ⟨k, e, l⟩ := s
  cases k <;> first | rfl | exact absurd rfl hs

/-- after a `stop()` the dead id is stale for ever, and a function value of the cancelled evaluation is dead -/
theorem cancelled_epoch_is_dead (σ : St) (hm : σ.marked = true) : deadNow σ false = true := by
  simp [deadNow, hm]

/-- an entry of the run list gets the id `Execute` stored in the root frame when it started (c403bf5): entries
    started after a cancellation are stale -/
theorem entry_takes_root_id (cur root : Nat) (dead : Bool) : newId Generated.C09.facts.entryId root cur root dead = root := by
  rw [runidfacts_tie]; rfl

/-- a stale frame executes nothing: the guard of `runCfg` fails -/
theorem stale_frame_fails_guard (fid cur : Nat) (h : fid < cur) : guardOk Generated.C09.facts fid cur = false := by
  rw [runidfacts_tie]; exact guard_stale expected_sound h

/-! ### blocking operations -/

/-- **Every blocking generator listed by the extractor races `done`**, whenever and by whatever kind of evaluation
    its closure was generated (cc65000: `cancelChan` is set in `New`). -/
theorem blocking_ops_cancellable (k : BlkKind) (c : Bool) : cancellable Generated.C09.facts k c = true := by
  rw [runidfacts_tie]
  cases k <;> cases c <;> rfl

/-- every frame of an evaluation races the done channel `stop()` will close: `newFrame` copies the creating frame's,
    `newCallFrame` takes the interpreter's current one (dc95f3e), which exists from `New` on and is replaced by
    `stop()` only (2db9fe7) -/
theorem frames_race_current_done (s : Site) : childCur Generated.C09.facts s true true true = true := by
  rw [runidfacts_tie]
  obtain ⟨k, e, l⟩ := s
  cases k <;> rfl

/-- hence every program is inside the part of the domain that used to exclude F26 and F09-2 -/
theorem all_cancellable (p : Prog) : p.canc Generated.C09.facts = true := by
  induction p with
  | done => rfl
  | step p ih => simpa [Prog.canc] using ih
  | tick p ih => simpa [Prog.canc] using ih
  | mkclosure p ih => simpa [Prog.canc] using ih
  | call s b p ihb ihp => simp [Prog.canc, ihb, ihp, frames_race_current_done]
  | spawn s b p ihb ihp => simp [Prog.canc, ihb, ihp, frames_race_current_done]
  | block k c p ih => simp [Prog.canc, ih, blocking_ops_cancellable]

/-- a goroutine blocked in an operation that races the channel `stop()` closes is released once it is closed, and
    its frame ends (the operation returns `nil`) -/
theorem blocked_op_enabled_by_done (σ : St) (i : Nat) (g : G) (k : BlkKind)
    (hg : σ.gs[i]? = some g) (hb : g.blocked = some (k, true)) (hd : σ.done = true) :
    (stepC Generated.C09.facts σ (.run i)).gs[i]? = some { g with blocked := none, stack := g.stack.tail } := by
  have hi : i < σ.gs.length := (List.getElem?_eq_some_iff.mp hg).1
  show (stepRun Generated.C09.facts σ i).gs[i]? = _
  rw [(stepRun_gs _ σ i g hg).1]
  simp [stepG, hb, wake, hd, hi]

/-! ### the cancellation -/

/-- the domain of the partial theorem, a decidable predicate of the state at the moment of the cancellation: no
    goroutine is about to make a frame for a call of a function value of an EARLIER, completed evaluation (made by one,
    or made by a frame of one) — no such call and no such `go` statement is in flight, no goroutine started by such a
    `go` statement has still to make its frame (`G.fvPending`). Function values of the cancelled evaluation itself, in
    flight in any goroutine, called by native code at any later time, are inside the domain; so are cancellations in
    any entry of the run list and functions compiled by a plain `Eval`. -/
def Dom (F : RunIdFacts) (σ : St) : Bool := σ.gs.all (fun g => !g.fvPending F)

/-- what the property demands of a cancellation in state `σ1` (reached while the call is still watching its
    context): after any further schedule every goroutine has executed at most the one operation it had in
    flight, has made at most the one host call that operation may be, every goroutine can be run to its end
    (empty stack, not blocked) and `Execute` to the end of its run list, and the call has returned the context's error -/
def StopsEverything (F : RunIdFacts) (σ1 : St) : Prop :=
  ∀ post : List Choice,
    let σ3 := runSched F (stepC F σ1 .stop) post
    (∀ i, opsOf σ3 i ≤ opsOf σ1 i + (if armedOf σ1 i then 1 else 0)) ∧
    (∀ i, ticksOf σ3 i ≤ ticksOf σ1 i + (if armedOf σ1 i then 1 else 0)) ∧
    ((∀ g ∈ (drain F σ3 σ3.weight).gs, finished g = true) ∧ (drain F σ3 σ3.weight).runList = []) ∧
    σ3.ret = some .ctxErr

/-- the full-strength statement: for every program, every schedule before the cancellation and every moment of it -/
def C09_full_statement (F : RunIdFacts) : Prop :=
  ∀ (id rootId : Nat) (entries : List Entry) (pre : List Choice), rootId ≤ id →
    (runSched F (start F id rootId entries) pre).watching = true →
    StopsEverything F (runSched F (start F id rootId entries) pre)

theorem weight_zero_all (σ : St) (h : σ.weight = 0) : (∀ g ∈ σ.gs, finished g = true) ∧ σ.runList = [] := by
  unfold St.weight at h
  exact ⟨weight_zero_finished _ (by omega), List.length_eq_zero_iff.mp (by omega)⟩

/-- the general form, for any fact record with sound id choices -/
theorem stops_everything_of {F : RunIdFacts} (hF : Sound F) (id rootId : Nat) (entries : List Entry)
    (pre : List Choice) (hroot : rootId ≤ id)
    (hw : (runSched F (start F id rootId entries) pre).watching = true)
    (hc : ∀ e ∈ entries, e.prog.canc F = true)
    (hdom : Dom F (runSched F (start F id rootId entries) pre) = true) :
    StopsEverything F (runSched F (start F id rootId entries) pre) := by
  intro post
  have hinv := inv_runSched hF pre _ (inv_start F id rootId entries hroot)
  have hmain := mainOk_runSched F pre _ (mainOk_start F id rootId entries)
  have hpre := pre_runSched F pre _ (pre_start F id rootId entries hc)
  have hdom' : ∀ g ∈ (runSched F (start F id rootId entries) pre).gs, g.fvPending F = false := by
    intro g hg
    have := List.all_eq_true.mp hdom g hg
    simpa using this
  have hdead := dead_of_stop hF _ hinv hmain hpre hw hdom'
  have hstopgs : (stepStop F (runSched F (start F id rootId entries) pre)).gs = (runSched F (start F id rootId entries) pre).gs := by
    simp [stepStop, hw]
  have hd3 := dead_runSched hF post _ hdead
  refine ⟨?_, ?_, ?_, ?_⟩
  · intro i
    have h1 := potAt_runSched hF post _ hdead i
    have h2 := opsOf_le_potAt (runSched F (stepStop F (runSched F (start F id rootId entries) pre)) post) i
    have h3 : potAt (stepStop F (runSched F (start F id rootId entries) pre)) i =
        opsOf (runSched F (start F id rootId entries) pre) i + (if armedOf (runSched F (start F id rootId entries) pre) i then 1 else 0) := by
      rw [← potAt_eq]; simp only [potAt, hstopgs]
    show opsOf (runSched F (stepStop F _) post) i ≤ _
    omega
  · intro i
    have h1 := tpotAt_runSched hF post _ hdead i
    have h2 := ticksOf_le_tpotAt (runSched F (stepStop F (runSched F (start F id rootId entries) pre)) post) i
    have h3 : tpotAt (stepStop F (runSched F (start F id rootId entries) pre)) i =
        ticksOf (runSched F (start F id rootId entries) pre) i + (if armedOf (runSched F (start F id rootId entries) pre) i then 1 else 0) := by
      rw [← tpotAt_eq]; simp only [tpotAt, hstopgs]
    show ticksOf (runSched F (stepStop F _) post) i ≤ _
    omega
  · exact weight_zero_all _ (drain_terminates hF _ _ hd3 (Nat.le_refl _)).1
  · have hs : (stepStop F (runSched F (start F id rootId entries) pre)).watching = false ∧
        (stepStop F (runSched F (start F id rootId entries) pre)).ret = some .ctxErr := by
      simp [stepStop, hw, hF.werr]
    have := ret_stable F post _ hs.1
    exact this.2.trans hs.2

/-- **At most one operation after stop** (partial: `Dom`, the knowingly open case F09-5 only). For EVERY program — run
    lists with global initialisers and init functions, functions compiled by a plain `Eval`, function values of the
    evaluation called or started in any goroutine or by native code —, every schedule before the cancellation, a
    cancellation at ANY moment at which no call / `go` of a function value of an EARLIER evaluation is in flight, and
    every schedule afterwards: each goroutine executes at most the one operation it had in
    flight (and makes at most that one host call), every goroutine terminates and `Execute` reaches the end of its
    run list without running anything, the call returns `ctx.Err()`. -/
theorem at_most_one_op_after_stop_partial (id rootId : Nat) (entries : List Entry) (pre : List Choice)
    (hroot : rootId ≤ id)
    (hw : (runSched Generated.C09.facts (start Generated.C09.facts id rootId entries) pre).watching = true)
    (hdom : Dom Generated.C09.facts (runSched Generated.C09.facts (start Generated.C09.facts id rootId entries) pre) = true) :
    StopsEverything Generated.C09.facts (runSched Generated.C09.facts (start Generated.C09.facts id rootId entries) pre) := by
  have hc : ∀ e ∈ entries, e.prog.canc Generated.C09.facts = true := fun e _ => all_cancellable e.prog
  revert hw hdom hc
  rw [runidfacts_tie]
  intro hw hdom hc
  exact stops_everything_of expected_sound id rootId entries pre hroot hw hc hdom

/-- non-vacuity: a run list of three entries; the cancellation arrives in the SECOND one (an init function), while
    it has a call of a closure in flight; a second goroutine, started by a global initialiser through a function
    literal, has a late native callback in flight (the F09-3 situation), a third one is blocked in a receive compiled
    by a plain `Eval`; `main` is pending -/
def exEntries : List Entry :=
  [{ root := true, prog := .spawn .call (.step (.block .recv false .done))
                       (.spawn .closure (.step (.call .wrapperLate (.tick .done) (.step .done))) (.step .done)) },
   { root := false, prog := .tick (.call .closure (.step (.block .select true .done)) (.step (.tick .done))) },
   { root := false, prog := .tick (.step .done) }]
def exPre : List Choice :=
  [.run 0, .run 0, .run 0, .run 1, .run 1, .run 1, .run 1, .run 1, .run 0, .run 0, .run 2, .run 2, .run 2, .run 2,
   .run 0, .run 0, .run 0, .run 0, .run 0, .run 0, .run 0]
example :
    let σ1 := runSched Generated.C09.facts (start Generated.C09.facts 0 0 exEntries) exPre
    σ1.watching = true ∧ Dom Generated.C09.facts σ1 = true ∧ armedOf σ1 0 = true ∧ armedOf σ1 2 = true ∧ σ1.runList.length = 1 ∧
      (σ1.gs[1]?.map (·.blocked)) = some (some (.recv, true)) ∧
      (σ1.gs[0]?.map (fun g => g.stack.head?.map (·.pc))) =
        some (some (.call .closure (.step (.block .select true .done)) (.step (.tick .done)))) ∧
      (σ1.gs[2]?.map (fun g => g.stack.head?.map (·.pc))) = some (some (.call .wrapperLate (.tick .done) (.step .done))) := by
  decide

/-- **The call returns the context's error**, whatever the program is doing and wherever `Execute` is: once the
    watcher has seen `ctx.Done()` the result is `ctx.Err()` and stays so. -/
theorem eval_returns_ctx_err (σ : St) (post : List Choice) (hw : σ.watching = true) :
    (runSched Generated.C09.facts (stepC Generated.C09.facts σ .stop) post).ret = some .ctxErr := by
  rw [runidfacts_tie]
  have hs : (stepStop Expected.C09.facts σ).watching = false ∧ (stepStop Expected.C09.facts σ).ret = some .ctxErr := by
    simp [stepStop, hw, Expected.C09.facts]
  exact (ret_stable _ post _ hs.1).2.trans hs.2

/-! ### the repaired findings: regression examples on the extracted facts, witnesses on the old facts -/

/-- F09. A global initialiser `var x = f()` is running (`f` has executed one operation) when the context is
    cancelled; an `init` function and `main` (one host call each) are pending. -/
def f09Entries : List Entry :=
  [{ root := true, prog := .call .call (.step (.step .done)) (.step .done) },
   { root := false, prog := .tick .done },
   { root := false, prog := .tick (.step .done) }]
def f09Pre : List Choice := [.run 0, .run 0, .run 0, .run 0, .run 0, .run 0]

/-- F09 repaired (c403bf5): only the operation in flight runs; `Execute` walks the two pending entries without
    executing anything and returns (the root frame stays stale: nothing refreshes it any more) -/
theorem cancel_during_init_stops :
    let σ1 := runSched Generated.C09.facts (start Generated.C09.facts 0 0 f09Entries) f09Pre
    let σ3 := runSched Generated.C09.facts (stepC Generated.C09.facts σ1 .stop) (List.replicate 20 (.run 0))
    σ1.watching = true ∧ σ1.runList.length = 2 ∧ opsOf σ1 0 = 2 ∧ armedOf σ1 0 = true ∧
      opsOf σ3 0 = 3 ∧ ticksOf σ3 0 = 0 ∧ σ3.runList = [] ∧ (σ3.gs[0]?.map finished) = some true ∧ σ3.rootId < σ3.id := by
  decide

/-- F09 before the repair (`interp.run` gave every entry the interpreter's current id): `init` and `main` still ran -/
theorem cancel_during_init_witness_old :
    let F := Expected.C09.oldFacts
    let σ1 := runSched F (start F 0 0 f09Entries) f09Pre
    let σ3 := runSched F (stepC F σ1 .stop) (List.replicate 20 (.run 0))
    σ1.watching = true ∧ σ1.runList.length = 2 ∧ opsOf σ1 0 = 2 ∧ armedOf σ1 0 = true ∧
      opsOf σ3 0 = 6 ∧ ticksOf σ1 0 = 0 ∧ ticksOf σ3 0 = 2 := by
  decide

/-- F26. A goroutine is blocked in `<-c` whose closure was generated by a plain `Eval` (`canc = false`). -/
def f26Entries : List Entry :=
  [{ root := false, prog := .spawn .call (.step (.block .recv false .done)) (.step (.step (.step .done))) }]
def f26Pre : List Choice := [.run 0, .run 0, .run 0, .run 1, .run 1, .run 1, .run 1, .run 1, .run 0, .run 0]

/-- F26 repaired (cc65000): the operation races `done`, the cancellation releases it, the goroutine ends -/
theorem plain_eval_chanop_released :
    let σ1 := runSched Generated.C09.facts (start Generated.C09.facts 0 0 f26Entries) f26Pre
    let σ3 := drain Generated.C09.facts (stepC Generated.C09.facts σ1 .stop) 20
    σ1.watching = true ∧ (σ1.gs[1]?.map (·.blocked)) = some (some (.recv, true)) ∧
      (σ3.gs[1]?.map finished) = some true ∧ (σ3.gs[0]?.map finished) = some true ∧ opsOf σ3 1 = opsOf σ1 1 := by
  decide

/-- F26 before the repair: the bare variant was compiled, the goroutine stayed blocked however long it was run -/
theorem stale_variant_witness_old :
    let F := Expected.C09.oldFacts
    let σ1 := runSched F (start F 0 0 f26Entries) f26Pre
    let σ3 := drain F (stepC F σ1 .stop) 20
    σ1.watching = true ∧ σ1.runList = [] ∧ (σ1.gs[1]?.map (·.blocked)) = some (some (.recv, false)) ∧
      (σ3.gs[1]?.map (·.blocked)) = some (some (.recv, false)) ∧ (σ3.gs[0]?.map finished) = some true ∧
      (stepC F σ3 (.run 1)).gs = σ3.gs := by
  decide

/-- F09-2. A goroutine runs a closure made by an earlier evaluation (`Site.earlier`) and is blocked in a `select`. -/
def f092Entries : List Entry :=
  [{ root := false, prog := .spawn .earlier (.step (.block .select true .done)) (.step (.step (.step .done))) }]

/-- F09-2 repaired (1578873): the frame of the call races the done channel of the evaluation that makes the call -/
theorem earlier_closure_released :
    let σ1 := runSched Generated.C09.facts (start Generated.C09.facts 0 0 f092Entries) f26Pre
    let σ3 := drain Generated.C09.facts (stepC Generated.C09.facts σ1 .stop) 20
    σ1.watching = true ∧ (σ1.gs[1]?.map (·.blocked)) = some (some (.select, true)) ∧
      (σ3.gs[1]?.map finished) = some true ∧ (σ3.gs[0]?.map finished) = some true := by
  decide

/-- F09-2 before the repair: the cloned frame kept the done channel of the evaluation that made the closure -/
theorem stale_done_witness_old :
    let F := Expected.C09.oldFacts
    let σ1 := runSched F (start F 0 0 f092Entries) f26Pre
    let σ3 := drain F (stepC F σ1 .stop) 20
    σ1.watching = true ∧ σ1.runList = [] ∧ (σ1.gs[1]?.map (·.blocked)) = some (some (.select, false)) ∧
      (σ3.gs[1]?.map (·.blocked)) = some (some (.select, false)) ∧ (σ3.gs[0]?.map finished) = some true ∧
      (stepC F σ3 (.run 1)).gs = σ3.gs := by
  decide

/-- the full-strength statement was false for the interpreter before the repairs (F09) -/
theorem full_statement_false_old : ¬ C09_full_statement Expected.C09.oldFacts := by
  intro h
  have := (h 0 0 f09Entries f09Pre (Nat.le_refl 0) (by decide) (List.replicate 20 (.run 0))).1 0
  revert this
  decide

/-! ### F09-3 (repaired by dc95f3e): regressions on the extracted facts, witnesses on the facts of round 2 -/

/-- `main` has `go func() { tick; step; tick }()` in flight when the context is cancelled. -/
def f093Entries : List Entry :=
  [{ root := false, prog := .step (.spawn .closure (.tick (.step (.tick .done))) .done) }]
def f093Pre : List Choice := [.run 0, .run 0, .run 0, .run 0]
def f093Post : List Choice := [.run 0, .run 0, .run 0, .run 1, .run 1, .run 1, .run 1, .run 1, .run 1, .run 1]
def f093Post' : List Choice := [.run 0, .run 1, .run 0, .run 0, .run 1, .run 1, .run 1, .run 1, .run 1, .run 1]

/-- F09-3 repaired: whether `Execute` returns before or after the new goroutine makes its frame, the function literal
    belongs to the cancelled epoch: the frame gets the dead id, nothing runs. The state is inside `Dom`. -/
theorem funcvalue_in_flight_stops :
    let F := Generated.C09.facts
    let σ1 := runSched F (start F 0 0 f093Entries) f093Pre
    let σ3 := runSched F (stepC F σ1 .stop) f093Post
    let σ3' := runSched F (stepC F σ1 .stop) f093Post'
    σ1.watching = true ∧ Dom F σ1 = true ∧ armedOf σ1 0 = true ∧ σ3.ret = some .ctxErr ∧
      opsOf σ3 1 = 0 ∧ ticksOf σ3 1 = 0 ∧ (σ3.gs[1]?.map finished) = some true ∧ opsOf σ3' 1 = 0 ∧ (σ3'.gs[1]?.map finished) = some true := by
  decide

/-- F09-3 with the facts of round 2 (root id, refreshed when `Execute` returns): the whole goroutine ran when `Execute`
    returned first -/
theorem funcvalue_in_flight_witness_round2 :
    let F := Expected.C09.round2Facts
    let σ1 := runSched F (start F 0 0 f093Entries) f093Pre
    let σ3 := runSched F (stepC F σ1 .stop) f093Post
    let σ3' := runSched F (stepC F σ1 .stop) f093Post'
    σ1.watching = true ∧ σ3.ret = some .ctxErr ∧ opsOf σ3 1 = 3 ∧ ticksOf σ3 1 = 2 ∧ opsOf σ3' 1 = 0 ∧ ticksOf σ3' 1 = 0 := by
  decide

/-- native code started by the evaluation (a timer, a handler) calls an interpreted function back. The goroutine of
    `Execute` is blocked in a receive; a second goroutine has the call of the wrapper in flight. -/
def f093LateEntries : List Entry :=
  [{ root := false, prog := .spawn .call (.step (.call .wrapperLate (.tick (.step .done)) (.step .done))) (.block .recv true .done) }]
def f093LatePre : List Choice := [.run 0, .run 0, .run 0, .run 0, .run 0, .run 1, .run 1, .run 1, .run 1]
def f093LatePost : List Choice := [.run 0, .run 0, .run 1, .run 1, .run 1, .run 1, .run 1, .run 1, .run 1, .run 1]

/-- F09-3 repaired: the callback that arrives after `Execute` has returned gets the dead id: only the call in flight is
    executed, its body runs nothing -/
theorem late_native_callback_stops :
    let F := Generated.C09.facts
    let σ1 := runSched F (start F 0 0 f093LateEntries) f093LatePre
    let σ3 := runSched F (stepC F σ1 .stop) f093LatePost
    σ1.watching = true ∧ Dom F σ1 = true ∧ armedOf σ1 1 = true ∧ opsOf σ1 1 = 1 ∧
      (σ1.gs[0]?.map (·.blocked)) = some (some (.recv, true)) ∧ opsOf σ3 1 = 2 ∧ ticksOf σ3 1 = 0 ∧ (σ3.gs[1]?.map finished) = some true := by
  decide

theorem late_native_callback_witness_round2 :
    let F := Expected.C09.round2Facts
    let σ1 := runSched F (start F 0 0 f093LateEntries) f093LatePre
    let σ3 := runSched F (stepC F σ1 .stop) f093LatePost
    σ1.watching = true ∧ armedOf σ1 1 = true ∧ opsOf σ1 1 = 1 ∧ ticksOf σ1 1 = 0 ∧ opsOf σ3 1 = 4 ∧ ticksOf σ3 1 = 1 := by
  decide

theorem full_statement_false_round2 : ¬ C09_full_statement Expected.C09.round2Facts := by
  intro h
  have := (h 0 0 f093Entries f093Pre (Nat.le_refl 0) (by decide) f093Post).1 1
  revert this
  decide

/-! ### what `Dom` excludes now (F09-5, knowingly left open by dc95f3e) -/

/-- F09-5. `main` has the call of a closure made by an EARLIER, completed evaluation in flight when the context is
    cancelled; the closure makes a host call, calls a function literal of its own (host call inside) and goes on. -/
def f095Entries : List Entry :=
  [{ root := false, prog := .step (.call .earlier (.tick (.call .closure (.step (.tick .done)) (.step .done))) (.step .done)) }]
def f095Pre : List Choice := [.run 0, .run 0, .run 0, .run 0]

/-- F09-5: the epoch of the closure is not cancelled (`stop()` marks the running epochs): its frame gets the NEW id, its
    whole body runs after the cancellation, the literal it makes included (it inherits the epoch), two host calls;
    only the caller, stale, stops when the closure returns. With the facts of round 2 the same call was stale (it was
    in the goroutine of `Execute`, which had not returned). -/
theorem earlier_funcvalue_in_flight_witness :
    let F := Generated.C09.facts
    let σ1 := runSched F (start F 0 0 f095Entries) f095Pre
    let σ3 := runSched F (stepC F σ1 .stop) (List.replicate 20 (.run 0))
    let R := Expected.C09.round2Facts
    let ρ3 := runSched R (stepC R (runSched R (start R 0 0 f095Entries) f095Pre) .stop) (List.replicate 20 (.run 0))
    σ1.watching = true ∧ Dom F σ1 = false ∧ armedOf σ1 0 = true ∧ opsOf σ1 0 = 1 ∧
      σ3.ret = some .ctxErr ∧ opsOf σ3 0 = 7 ∧ ticksOf σ3 0 = 2 ∧ opsOf ρ3 0 = 2 ∧ ticksOf ρ3 0 = 0 := by
  decide

/-- the full-strength statement is false for the interpreter as it is (F09-5) -/
theorem full_statement_false : ¬ C09_full_statement Generated.C09.facts := by
  intro h
  have := (h 0 0 f095Entries f095Pre (Nat.le_refl 0) (by decide) (List.replicate 20 (.run 0))).1 0
  revert this
  decide

/-! ### the specification -/

theorem ideal_all_cancellable (p : Prog) : p.canc Expected.C09.ideal = true := by
  have hcur : ∀ s, childCur Expected.C09.ideal s true true true = true := by
    intro s; obtain ⟨k, e, l⟩ := s; cases k <;> rfl
  induction p with
  | done => rfl
  | step p ih => simpa [Prog.canc] using ih
  | tick p ih => simpa [Prog.canc] using ih
  | mkclosure p ih => simpa [Prog.canc] using ih
  | call s b p ihb ihp => simp [Prog.canc, ihb, ihp, hcur]
  | spawn s b p ihb ihp => simp [Prog.canc, ihb, ihp, hcur]
  | block k c p ih =>
    simp only [Prog.canc, ih, Bool.and_true]
    cases k <;> cases c <;> rfl

theorem ideal_dom (σ : St) : Dom Expected.C09.ideal σ = true := by
  have hs : ∀ s, fvSite Expected.C09.ideal s = false := by
    intro s; obtain ⟨k, e, l⟩ := s; cases k <;> rfl
  simp only [Dom, List.all_eq_true]
  intro g _
  obtain ⟨stack, armed, blocked, ops, ticks, main, pending⟩ := g
  cases pending with
  | some pd =>
    cases stack with
    | nil => simp [G.fvPending, hs]
    | cons fr rest => obtain ⟨fid, pc, fcur, fearly⟩ := fr; cases pc <;> simp [G.fvPending, hs]
  | none =>
    cases stack with
    | nil => simp [G.fvPending]
    | cons fr rest => obtain ⟨fid, pc, fcur, fearly⟩ := fr; cases pc <;> simp [G.fvPending, hs]

/-- **What the property demands holds at full strength for the specification**: if the frame of a call of a function
    value made by an operation of a frame took that frame's id, whichever evaluation made the function value
    (`Expected.C09.ideal`, the specification column of the correspondence): every program, every schedule, every moment. -/
theorem ideal_full : C09_full_statement Expected.C09.ideal := by
  intro id rootId entries pre hroot hw
  exact stops_everything_of ideal_sound id rootId entries pre hroot hw
    (fun e _ => ideal_all_cancellable e.prog) (ideal_dom _)

end YaegiVerif.Props.C09
