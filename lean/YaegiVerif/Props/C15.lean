import YaegiVerif.Model.VarInit
import YaegiVerif.Spec.GoInitOrder
import YaegiVerif.Expected.C15
import YaegiVerif.Generated.C15
import YaegiVerif.Proofs.C15Order
import YaegiVerif.Proofs.C15Deps
import YaegiVerif.Proofs.C15Single
import YaegiVerif.Proofs.C15Import
import YaegiVerif.Proofs.C15Decls
/-
  C15 — package-level variables initialise in dependency order; then init functions in source
  order; then main. Property theorems.

  Full statement, proved for every package (`init_order`, `src_init_order`; no side condition since
  the repair of F15-9, fb8122a):
      runY facts p = Spec.runGoS p
  — the program logs exactly what the Go specification's rules prescribe when every variable
  specification (after `var a, b = x, y` has been taken apart) is one node of the ordering.
  Its ingredients, each for every input: the ordering loop is the specification's
  (`orderY_eq_spec`, since the repair of F15); the dependencies `getVarDependencies` collects are
  the specification's reference relation, transitively through function and method bodies
  (`collectDepsY_eq_spec`, since the repairs of F14 and F15-1 … F15-7); hence cycle rejection is the
  specification's initialization-cycle rule (`cycle_rejection_eq_spec`).
  The toolchain orders one node per *variable*: on a package where that gives another log
  (`dom p = false`: a specification with several names separates two variables that only wait for
  different ones of them) the interpreter differs from the compiled program — finding F15-8,
  `one_node_witness`; `init_order_toolchain_partial` is the statement on `dom`.
-/
namespace YaegiVerif.Props.C15
open YaegiVerif YaegiVerif.VarInit YaegiVerif.Spec.InitOrder YaegiVerif.Proofs.C15

/-! ### ties to the source -/

/-- tie: the order of the steps of Execute / CompileAST / importSrc read from the source is the one
    the proofs use -/
theorem exec_tie : Generated.C15.execFacts = Expected.C15.execFacts := by decide

/-- tie: the functions transcribed in Model/VarInit.lean (getVars, genGlobalVars, genGlobalVarDecl,
    getVarDependencies, equalNodes) are textually, modulo comments and layout, the ones the model was
    written from; if this breaks the model must be re-validated (the check then relies on the
    correspondence run and the search for a failing input) -/
theorem source_tie : Generated.C15.sourceHashes = Expected.C15.sourceHashes := by decide

/-- tie: the decisions of `getVarDependencies` (identifiers resolved by their symbol; references to
    functions and to methods followed; a reference of a specification to itself kept), of `gta`
    (`var a, b = f()`: global symbols with their node, retried until the callee is declared) and of
    `ast` (`var a, b = x, y` taken apart at package level) read from the source are the ones the
    proofs use -/
theorem dep_tie : Generated.C15.depFacts = Expected.C15.depFacts := by decide

/-- tie: the statements of `gta`, `gtaRetry` and `ast` those facts are read from, `splitVarSpecs`,
    `compDefineX` and `matchSelectorMethod` are textually the ones the model was written from -/
theorem dep_source_tie : Generated.C15.depHashes = Expected.C15.depHashes := by decide

/-! ### the ordering loop of genGlobalVarDecl (for every dependency graph) -/

/-- the fuel is enough: the loop always ends by itself -/
theorem orderY_terminates (g : Deps) : orderY g ≠ .fuel :=
  loopY_no_fuel g _ _ _ (by simp)

/-- **every variable specification is initialised exactly once** (the result is a permutation of
    the specifications) — or the loop reports "variable definition loop" -/
theorem orderY_perm (g : Deps) :
    (∃ l, orderY g = .ok l ∧ l.Perm (List.range g.length)) ∨ orderY g = .loop := by
  cases h : orderY g with
  | ok l => exact .inl ⟨l, rfl, by simpa using loopY_ok_perm g _ _ _ l h⟩
  | loop => exact .inr rfl
  | fuel => exact absurd h (orderY_terminates g)

/-- **every variable is initialised after everything its initialiser directly names** -/
theorem orderY_respects_collected (g : Deps) (l : List Nat) (h : orderY g = .ok l) : Respects g l :=
  loopY_respects g _ _ _ l rfl h

/-- what `Respects` says, spelled out: if `i` occurs in the order with `pre` before it, each
    collected dependency of `i` is in `pre` -/
theorem respects_spelled (g : Deps) (pre post : List Nat) (i d : Nat)
    (h : Respects g (pre ++ i :: post)) (hd : d ∈ depsOf g i) : d ∈ pre := by
  unfold Respects at h
  rw [respectsFrom_append] at h
  simp only [List.nil_append, respectsFrom, Bool.and_eq_true] at h
  have := h.2.1
  unfold ready at this
  simp only [List.all_eq_true] at this
  simpa using this d hd

/-- the error is not spurious *for the collected graph*: when the loop gives up, some
    specifications remain and each of them names a specification that is not initialised -/
theorem orderY_loop_stuck (g : Deps) (h : orderY g = .loop) :
    ∃ placed rest, (placed ++ rest).Perm (List.range g.length) ∧ rest ≠ [] ∧
      ∀ n ∈ rest, ∃ d ∈ depsOf g n, d ∉ placed := by
  obtain ⟨pl, rs, h1, h2, h3⟩ := loopY_loop_stuck g _ _ _ h
  refine ⟨pl, rs, by simpa using h1, h2, ?_⟩
  intro n hn
  have := h3 n hn
  unfold ready at this
  rw [List.all_eq_false] at this
  obtain ⟨d, hd, hnd⟩ := this
  exact ⟨d, hd, by simpa using hnd⟩

/-! ### the specification's loop, same sanity -/

theorem orderGo_terminates (g : Deps) : orderGo g ≠ .fuel :=
  loopGo_no_fuel g _ _ _ (by simp)

theorem orderGo_perm (g : Deps) (l : List Nat) (h : orderGo g = .ok l) : l.Perm (List.range g.length) := by
  simpa using loopGo_ok_perm g _ _ _ l h

theorem orderGo_respects (g : Deps) (l : List Nat) (h : orderGo g = .ok l) : Respects g l :=
  loopGo_respects g _ _ _ l rfl h

/-! ### yaegi's order = the specification's order -/

/-- **On the same dependency graph the loop of `genGlobalVarDecl` gives the specification's order**
    — for every graph, no side condition (before the repair of F15: only when no specification was
    overtaken inside a pass). Includes the error case: both report a loop or both succeed with the
    same order. -/
theorem orderY_eq_spec (g : Deps) : orderY g = orderGo g :=
  loopY_eq_loopGo g _ _ _ _ (by simp) (by simp)

/-- **accept / reject is always right for the collected graph**: the loop reports "variable
    definition loop" exactly when the specification's loop reports a cycle, i.e. (`orderGo_perm`,
    `orderGo_respects`, `orderY_loop_stuck`) exactly when no order of the specifications respects
    the collected dependencies. -/
theorem orderY_loop_iff (g : Deps) : orderY g = .loop ↔ orderGo g = .loop := by
  rw [orderY_eq_spec]

/-- …and the error is real: no order of all the specifications respects the collected dependencies -/
theorem orderY_loop_no_order (g : Deps) (h : orderY g = .loop) (l : List Nat)
    (hp : l.Perm (List.range g.length)) : ¬ Respects g l := by
  intro hr
  obtain ⟨pl, rs, h1, h2, h3⟩ := loopY_loop_stuck g _ _ _ h
  exact stuck_vs_order g _ pl rs l h1 h2 h3 (by simpa using hp) hr

/-- regression for F15 (fixed): a←d, b←c, c, d. The pass loop used to give `c d a b`
    (`[2, 3, 0, 1]`: `b` was not reconsidered when `c` made it ready); it now gives the
    specification's `c b d a`. -/
example :
    let g : Deps := [[3], [2], [], []]
    orderY g = .ok [2, 1, 3, 0] ∧ orderGo g = .ok [2, 1, 3, 0] := by decide

/-- corollary: without forward references both orders are the declaration order -/
theorem backward_only_decl_order (g : Deps) (hb : ∀ i d, d ∈ depsOf g i → d < i) :
    orderY g = .ok (List.range g.length) := by
  have key : ∀ (m k f : Nat), k + m = g.length → m < f →
      loopY g f (List.range' k m) (List.range k) = .ok (List.range g.length) := by
    intro m
    induction m with
    | zero =>
      intro k f h hf
      have hk : k = g.length := by omega
      cases f with
      | zero => omega
      | succ f => simp [loopY, pass, hk]
    | succ m ih =>
      intro k f h hf
      cases f with
      | zero => omega
      | succ f =>
        have hr : ready g (List.range k) k = true := by
          unfold ready
          simp only [List.all_eq_true]
          intro d hd
          have := hb k d hd
          simpa using this
        have hk : List.range k ++ [k] = List.range (k + 1) := by simp [List.range_succ]
        unfold loopY
        simp only [List.range'_succ, pass, hr, if_true, hk]
        split
        · rename_i he
          have hm : m = 0 := by
            cases m with
            | zero => rfl
            | succ m => simp [List.range'_succ] at he
          have : k + 1 = g.length := by omega
          rw [this]
        · split
          · rename_i heq
            have := congrArg List.length (beq_iff_eq.mp heq)
            simp at this
          · exact ih (k + 1) f (by omega) (by omega)
  have := key g.length 0 (g.length + 1) (by simp) (by simp)
  simpa [orderY, List.range_eq_range'] using this

/-! ### which dependencies are collected (for every package) -/

/-- the walk of `getVarDependencies` — a depth-first search that marks every function and method
    it enters and never enters one twice — **meets exactly the identifiers the walked expression
    refers to**, itself or through the functions and methods it reaches, transitively (`Reach`:
    the specification's "refers to y or to a function or method that depends on y"); the fuel of
    the model (the number of functions) is always enough -/
theorem walk_meets_references (funcs : List Func) (ids : List Ident) (x : Ident) :
    x ∈ (walkIds (follows Generated.C15.depFacts funcs) (bodyOf funcs) funcs.length [] ids).1 ↔
      Refers funcs ids x := by
  rw [dep_tie, follows_expected]
  exact mem_walkIds_iff (denotesFunc funcs) (bodyOf funcs) (funcs.map (·.name))
    (denotesFunc_mem_names funcs) funcs.length (by simp) ids x

/-- the specification's executable reading (`refIds`: a fixed point computed in rounds) computes
    the same relation -/
theorem spec_refs_computed (funcs : List Func) (ids : List Ident) (x : Ident) :
    x ∈ refIds funcs ids ↔ Refers funcs ids x :=
  mem_refIds_iff funcs ids x

/-- **`collectDepsY` is Go's reference relation**: for every package, `deps[n]` of
    `genGlobalVarDecl` has, specification by specification, exactly the members the specification
    gives — the steps declaring a variable the initialiser refers to, directly or through the
    bodies of the functions and methods it reaches; a local variable, a parameter, a field key or
    the blank identifier is not a reference; a reference of a variable to itself is one. (Before the
    repairs of round 3: only on the domain `sameDeps`, see the regression examples below.) -/
theorem collectDepsY_eq_spec (p : Pkg) :
    (collectDepsY Generated.C15.depFacts p).length = (goStepDeps p).length ∧
    ∀ i d, d ∈ depsOf (collectDepsY Generated.C15.depFacts p) i ↔ d ∈ depsOf (goStepDeps p) i := by
  rw [dep_tie]
  exact collectDepsY_sets p

/-- membership spelled out: step `i` waits for step `d` iff the initialiser of `i` refers (in the
    sense above) to a package-level variable that `d` declares -/
theorem collected_dep_iff (p : Pkg) (i d : Nat) (v : VarSpec) (hv : (stepsGo p.vars)[i]? = some v) :
    d ∈ depsOf (collectDepsY Generated.C15.depFacts p) i ↔
      ∃ x, Refers p.funcs v.ids x ∧ x.pkgLevel = true ∧ declIdx (stepsGo p.vars) x.name = some d := by
  rw [(collectDepsY_eq_spec p).2]
  unfold depsOf goStepDeps
  rw [List.getD_eq_getElem?_getD, List.getElem?_map, hv]
  simp only [Option.map_some, Option.getD_some]
  exact mem_stepDeps _ _ _ _

/-! ### package layer -/

/-- only the sets of dependencies matter to the specification's loop -/
theorem orderGo_congr (gy gg : Deps)
    (h : gy.length = gg.length ∧ ∀ i d, d ∈ depsOf gy i ↔ d ∈ depsOf gg i) : orderGo gy = orderGo gg := by
  unfold orderGo
  rw [h.1]
  exact loopGo_congr gy gg h.2 _ _ _

/-- **the order `genGlobalVars` decides is the specification's order** for the package — same
    order, same accept / reject — dependency collection included -/
theorem orderY_collected_eq_spec (p : Pkg) :
    orderY (collectDepsY Generated.C15.depFacts p) = orderGo (goStepDeps p) := by
  rw [orderY_eq_spec]
  exact orderGo_congr _ _ (collectDepsY_eq_spec p)

/-- **cycle rejection is Go's initialization-cycle rule**: "variable definition loop" is reported
    exactly when the specification's procedure finds no variable ready while some remain, i.e.
    (`orderY_loop_no_order`) exactly when no order of the steps respects the reference relation -/
theorem cycle_rejection_eq_spec (p : Pkg) :
    orderY (collectDepsY Generated.C15.depFacts p) = .loop ↔ orderGo (goStepDeps p) = .loop := by
  rw [orderY_collected_eq_spec]

/-- with the facts read from the source `gta` rejects no package of the model: it comes back to a
    multi-value declaration until its callee (F15-7) or the operand of its comma-ok source (F15-9) is
    declared -/
theorem gtaRejects_expected (p : Pkg) : gtaRejects Expected.C15.depFacts p = false := by
  simp [gtaRejects, gtaPanics, Expected.C15.depFacts]

/-- what `Eval` of a file does, for the steps read from the source: the variables in the order
    decided by the loop of `genGlobalVarDecl`, then the `init` functions in source order, then
    `main` — or the "variable definition loop" error before anything ran -/
theorem runY_expected (p : Pkg) :
    runY Expected.C15.execFacts Expected.C15.depFacts p =
      match orderY (collectDepsY Expected.C15.depFacts p) with
      | .ok o => ⟨labelsOf (stepsGo p.vars) o ++ p.inits ++ p.main.toList, false⟩
      | _ => ⟨[], true⟩ := by
  unfold runY
  rw [gtaRejects_expected]
  simp only [Bool.false_eq_true, if_false]
  cases orderY (collectDepsY Expected.C15.depFacts p) <;>
    simp [Expected.C15.execFacts, runSteps, List.append_assoc, Pkg.seenBy, specsY_expected]

/-- the same for a directory loaded by `importSrc` -/
theorem runImportY_expected (p : Pkg) :
    runImportY Expected.C15.execFacts Expected.C15.depFacts p =
      runY Expected.C15.execFacts Expected.C15.depFacts p := by
  rw [runY_expected]
  unfold runImportY
  rw [gtaRejects_expected]
  simp only [Bool.false_eq_true, if_false]
  cases orderY (collectDepsY Expected.C15.depFacts p) <;>
    simp [Expected.C15.execFacts, runSteps, List.append_assoc, Pkg.seenBy, specsY_expected]

theorem collectDepsY_length (d : DepFacts) (p : Pkg) : (collectDepsY d p).length = (specsY d p.vars).length := by
  unfold collectDepsY
  exact collectAux_length _ _ _ _ _

/-- **init functions run after all variables, in source order, and main runs last** (whatever the
    dependency graph), for a file (`Eval`) and for a directory (`importSrc`), with the steps of
    Execute / CompileAST / importSrc regenerated from the source; `o` is the order of the steps -/
theorem init_then_main (p : Pkg) (evs : List String)
    (h : runY Generated.C15.execFacts Generated.C15.depFacts p = ⟨evs, false⟩ ∨
         runImportY Generated.C15.execFacts Generated.C15.depFacts p = ⟨evs, false⟩) :
    ∃ o, orderY (collectDepsY Generated.C15.depFacts p) = .ok o ∧ o.Perm (List.range (stepsGo p.vars).length) ∧
      evs = labelsOf (stepsGo p.vars) o ++ p.inits ++ p.main.toList := by
  rw [exec_tie, dep_tie, runImportY_expected, or_self] at h
  rw [dep_tie]
  rw [runY_expected] at h
  cases ho : orderY (collectDepsY Expected.C15.depFacts p) with
  | ok o =>
    simp only [ho, Trace.mk.injEq, and_true] at h
    refine ⟨o, rfl, ?_, h.symm⟩
    have hlen := collectDepsY_length Expected.C15.depFacts p
    rw [specsY_expected] at hlen
    have := loopY_ok_perm _ _ _ _ o ho
    simpa [hlen] using this
  | loop => simp [ho] at h
  | fuel => simp [ho] at h

/-- **C15, for every package**: the program logs exactly what the Go specification's rules
    prescribe with one node per initialisation step — the steps in the specification's order (or
    both reject the package: initialization cycle), then the init functions in source order, then
    main. No side condition: whatever the variables refer to and however, whatever the order of the
    declarations. (Before the repairs of rounds 3 and 4 this was `init_order_partial`, on a domain that
    excluded dependencies through functions, multi-value declarations before their callee or read by
    functions, comma-ok declarations before their operand, paired declarations, shadowing locals,
    several blank variables and self references.) -/
theorem init_order (p : Pkg) :
    runY Expected.C15.execFacts Expected.C15.depFacts p = runGoS p := by
  rw [runY_expected]
  unfold runGoS
  have := orderY_collected_eq_spec p
  rw [dep_tie] at this
  rw [this]
  cases orderGo (goStepDeps p) <;> rfl

/-- the same statement for the facts regenerated from the source on this run, for a file and for a
    directory -/
theorem init_order_generated (p : Pkg) :
    runY Generated.C15.execFacts Generated.C15.depFacts p = runGoS p ∧
    runImportY Generated.C15.execFacts Generated.C15.depFacts p = runGoS p := by
  rw [exec_tie, dep_tie, runImportY_expected]
  exact ⟨init_order p, init_order p⟩

/-- **compared with the toolchain** (one node per variable): the same log whenever the two
    readings of the specification agree on the package (`dom`; what it excludes: `one_node_witness`) -/
theorem init_order_toolchain_partial (p : Pkg) (h : dom p = true) :
    runY Generated.C15.execFacts Generated.C15.depFacts p = runGo p ∧
    runImportY Generated.C15.execFacts Generated.C15.depFacts p = runGo p := by
  unfold dom at h
  rw [decide_eq_true_eq] at h
  rw [← h]
  exact init_order_generated p

/-- the domain is large: it contains every package whose specifications declare one variable each
    (it also contains most of the others: `one_node_witness` shows what it takes to leave it) -/
theorem dom_of_single (p : Pkg) (h : p.vars.all single = true) : dom p = true :=
  dom_of_all_single p h

/-- so for those packages the interpreter logs what the compiled program logs -/
theorem init_order_toolchain_single (p : Pkg) (h : p.vars.all single = true) :
    runY Generated.C15.execFacts Generated.C15.depFacts p = runGo p :=
  (init_order_toolchain_partial p (dom_of_single p h)).1

/-- the class label the harness uses is "in-domain" exactly on the domain of that theorem -/
theorem classify_in_domain_iff (p : Pkg) : classify p = "in-domain" ↔ dom p = true := by
  unfold classify
  cases dom p <;> simp

/-! ### which declarations run as init functions (for every list of declarations)

  A package is given as its files, each a list of declarations: variable specifications, function
  declarations (with or without receiver, any name, any number of type parameters / parameters /
  results, any local variables), type declarations (any field names). `cfg` adds a function
  declaration to `initNodes` under the condition read from the source, `importSrc` joins the lists of
  the files, `Execute` / `importSrc` run the list from first to last. -/

/-- tie: the registration condition of `cfg`, the way the node is added, the way the per-file lists
    are joined and the cases of the `switch` of `gta` are the ones the proofs use -/
theorem init_tie : Generated.C15.initFacts = Expected.C15.initFacts := by decide

/-- tie: the statements those facts are read from, the loops that run the list and `isMethod` are
    textually the ones the model was written from -/
theorem init_source_tie : Generated.C15.initHashes = Expected.C15.initHashes := by decide

/-- **the functions run as init functions are exactly the function declarations named `init`
    without receiver, in source order (file by file), each declaration once** — for every list of
    files and declarations, for the facts regenerated from the source. The right-hand side is the
    list of the function declarations of the package, in source order, filtered. -/
theorem init_registration_correct (files : List (List Decl)) :
    pkgInits Generated.C15.initFacts files = (declFuncs files.flatten).filter isInitFunc := by
  rw [init_tie, pkgInits_expected]; rfl

/-- membership, spelled out: a function declaration runs as an init function iff it is declared in
    the package, is called `init` and has no receiver -/
theorem init_funcs_exactly (files : List (List Decl)) (f : FuncDecl) :
    f ∈ pkgInits Generated.C15.initFacts files ↔ (Decl.func f ∈ files.flatten ∧ f.name = "init" ∧ f.recv = .none) := by
  rw [init_registration_correct, List.mem_filter, mem_declFuncs]
  simp [isInitFunc]

/-- order and multiplicity, spelled out: the init nodes are a sub-sequence of the function
    declarations in source order (nothing is reordered, nothing is invented), and every init
    function is there as many times as it is declared (nothing is dropped, nothing runs twice) -/
theorem init_funcs_once_in_order (files : List (List Decl)) :
    (pkgInits Generated.C15.initFacts files).Sublist (declFuncs files.flatten) ∧
    ∀ f, isInitFunc f = true →
      (pkgInits Generated.C15.initFacts files).count f = (declFuncs files.flatten).count f := by
  rw [init_registration_correct]
  refine ⟨List.filter_sublist, ?_⟩
  intro f hf
  rw [List.count_filter hf]

/-- **what looks like an init function but is not never runs by itself**: a method named `init`
    (value or pointer receiver), a function with another name (`Init`, `init_`, `initX`, …) —
    whatever else the package declares (fields or local variables named `init` are not function
    declarations at all) -/
theorem lookalike_never_registered (files : List (List Decl)) (f : FuncDecl)
    (h : f.recv ≠ .none ∨ f.name ≠ "init") : f ∉ pkgInits Generated.C15.initFacts files := by
  rw [init_funcs_exactly]
  rintro ⟨_, hn, hr⟩
  cases h with
  | inl h => exact h hr
  | inr h => exact h hn

/-- `gta` declares a function symbol for exactly the functions that are not init functions: `init`
    "is not declared" (several init functions, in one file or in several, never clash and cannot be
    referred to), methods go to their type, `Init` / `init_` / `initX` are ordinary functions -/
theorem declared_funcs_correct (ds : List Decl) :
    declaredFuncs Generated.C15.initFacts ds = declaredFuncsGo ds := by
  rw [init_tie, declaredFuncs_expected]

theorem init_not_declared (ds : List Decl) : "init" ∉ declaredFuncs Generated.C15.initFacts ds := by
  rw [declared_funcs_correct]
  unfold declaredFuncsGo
  simp only [List.mem_map, List.mem_filter, Bool.and_eq_true, bne_iff_ne, ne_eq, not_exists, not_and]
  intro f ⟨_, _, hn⟩ he
  exact hn he

/-- the package the ordering and execution code sees is the one the specification describes -/
theorem toPkg_eq_spec (s : SrcPkg) : s.toPkg Generated.C15.initFacts = toPkgGo s := by
  unfold SrcPkg.toPkg toPkgGo
  rw [init_tie, pkgInits_expected]

/-- **the executed sequence, for every package given as source** (file or directory, facts
    regenerated from the source, whatever the dependency graph): when the run succeeds it logged
    exactly — the initialisers of the initialisation steps, each once, every step after the ones it
    depends on (`o`); then the receiver-less functions named `init` in source order, each
    once; then `main` and what `main` itself calls. Nothing else runs before `main`. -/
theorem src_exec_sequence (s : SrcPkg) (evs : List String)
    (h : runSrcY Generated.C15.execFacts Generated.C15.initFacts Generated.C15.depFacts s = ⟨evs, false⟩ ∨
         runSrcImportY Generated.C15.execFacts Generated.C15.initFacts Generated.C15.depFacts s = ⟨evs, false⟩) :
    ∃ o, o.Perm (List.range (stepsGo (declVars s.decls)).length) ∧
      Respects (collectDepsY Generated.C15.depFacts (toPkgGo s)) o ∧
      evs = labelsOf (stepsGo (declVars s.decls)) o
            ++ ((declFuncs s.decls).filter isInitFunc).map (·.label)
            ++ s.main.toList ++ s.after := by
  unfold runSrcY runSrcImportY at h
  rw [toPkg_eq_spec] at h
  have key : ∀ t : Trace, t.andThen s.after = ⟨evs, false⟩ →
      ∃ e, t = ⟨e, false⟩ ∧ evs = e ++ s.after := by
    intro t ht
    unfold Trace.andThen at ht
    obtain ⟨e, er⟩ := t
    cases er with
    | true => simp at ht
    | false =>
      simp only [Bool.false_eq_true, if_false, Trace.mk.injEq, and_true] at ht
      exact ⟨e, rfl, ht.symm⟩
  have h' : ∃ e, (runY Generated.C15.execFacts Generated.C15.depFacts (toPkgGo s) = ⟨e, false⟩ ∨
      runImportY Generated.C15.execFacts Generated.C15.depFacts (toPkgGo s) = ⟨e, false⟩) ∧ evs = e ++ s.after := by
    cases h with
    | inl h => obtain ⟨e, h1, h2⟩ := key _ h; exact ⟨e, .inl h1, h2⟩
    | inr h => obtain ⟨e, h1, h2⟩ := key _ h; exact ⟨e, .inr h1, h2⟩
  obtain ⟨e, he, hevs⟩ := h'
  obtain ⟨o, ho, hp, hev⟩ := init_then_main (toPkgGo s) e he
  refine ⟨o, hp, orderY_respects_collected _ o ho, ?_⟩
  rw [hevs, hev]
  rfl

/-- **C15 for every package given as source** (file or directory, facts regenerated from the
    source): whatever functions, methods, types and local variables called `init`, `Init`, `init_`, …
    the package declares, in however many files, whatever its variables refer to and however, the
    program logs exactly what the Go specification's rules prescribe with one node per
    initialisation step. No side condition. -/
theorem src_init_order (s : SrcPkg) :
    runSrcY Generated.C15.execFacts Generated.C15.initFacts Generated.C15.depFacts s = runSrcGoS s ∧
    runSrcImportY Generated.C15.execFacts Generated.C15.initFacts Generated.C15.depFacts s = runSrcGoS s := by
  unfold runSrcY runSrcImportY runSrcGoS
  rw [toPkg_eq_spec]
  obtain ⟨h1, h2⟩ := init_order_generated (toPkgGo s)
  rw [h1, h2]
  exact ⟨rfl, rfl⟩

/-- compared with the toolchain, on the packages where the two readings agree -/
theorem src_init_order_toolchain_partial (s : SrcPkg) (h : dom (toPkgGo s) = true) :
    runSrcY Generated.C15.execFacts Generated.C15.initFacts Generated.C15.depFacts s = runSrcGo s ∧
    runSrcImportY Generated.C15.execFacts Generated.C15.initFacts Generated.C15.depFacts s = runSrcGo s := by
  unfold runSrcY runSrcImportY runSrcGo
  rw [toPkg_eq_spec]
  obtain ⟨h1, h2⟩ := init_order_toolchain_partial (toPkgGo s) h
  rw [h1, h2]
  exact ⟨rfl, rfl⟩

/-- the label the harness uses for a package given as source is "in-domain" exactly on the domain
    of `src_init_order_toolchain_partial` -/
theorem classifySrc_in_domain_iff (s : SrcPkg) : classifySrc s = "in-domain" ↔ dom (toPkgGo s) = true :=
  classify_in_domain_iff (toPkgGo s)

/-! non-vacuity and sensitivity: two files with look-alikes between two init functions

    a.go: `type rv struct{ n int }`, `type rf struct{ init int }`, `func (r rv) init() { say("rv_init") }`,
          `var a = lg("a", b)`, `func init() { say("init0") }`, `func Init() { say("Init") }`
    b.go: `func (r *rp) init() { say("rp_init") }`, `var b = lg("b")`, `func init_() { init := 7; say("init_", init) }`,
          `func init() { say("init1") }`, `func initX() { say("initX") }`
    `main` logs `main` and then calls `rv{}.init()` and `Init()`. -/
def srcLookalikes : SrcPkg :=
  { files := [[.type "rv" ["n"], .type "rf" ["init"],
               .func { name := "init", recv := .value, recvType := "rv", label := "rv_init" },
               .var ⟨["a"], [⟨"a", [⟨"b", true, false⟩]⟩], false, false⟩,
               .func { name := "init", label := "init0" },
               .func { name := "Init", label := "Init" }],
              [.func { name := "init", recv := .pointer, recvType := "rp", label := "rp_init" },
               .var ⟨["b"], [⟨"b", []⟩], false, false⟩,
               .func { name := "init_", label := "init_", locals := ["init"] },
               .func { name := "init", label := "init1" },
               .func { name := "initX", label := "initX" }]],
    main := some "main",
    after := ["rv_init", "Init"] }

example :
    classifySrc srcLookalikes = "in-domain" ∧
    runSrcY Generated.C15.execFacts Generated.C15.initFacts Generated.C15.depFacts srcLookalikes
      = ⟨["b", "a", "init0", "init1", "main", "rv_init", "Init"], false⟩ ∧
    runSrcGo srcLookalikes = ⟨["b", "a", "init0", "init1", "main", "rv_init", "Init"], false⟩ ∧
    declaredFuncs Generated.C15.initFacts srcLookalikes.decls = ["Init", "init_", "initX"] := by decide

/-- the model is sensitive to the extracted facts: were the receiver test replaced by a test of the
    type parameters (or dropped), the methods named `init` would run, uncalled, among the init
    functions; were the node prepended (one file) or the per-file lists joined in front (two files),
    the init functions would run in reverse order; without the name test every function would run -/
example :
    runSrcY Expected.C15.execFacts { Expected.C15.initFacts with register := [.nameIs "init", .tparamsEmpty] }
        Expected.C15.depFacts srcLookalikes
      = ⟨["b", "a", "rv_init", "init0", "rp_init", "init1", "main", "rv_init", "Init"], false⟩ ∧
    runSrcY Expected.C15.execFacts { Expected.C15.initFacts with add := .prepend } Expected.C15.depFacts
        { srcLookalikes with files := [srcLookalikes.decls] }
      = ⟨["b", "a", "init1", "init0", "main", "rv_init", "Init"], false⟩ ∧
    runSrcY Expected.C15.execFacts { Expected.C15.initFacts with join := .prepend } Expected.C15.depFacts srcLookalikes
      = ⟨["b", "a", "init1", "init0", "main", "rv_init", "Init"], false⟩ ∧
    runSrcY Expected.C15.execFacts { Expected.C15.initFacts with register := [.recvEmpty] } Expected.C15.depFacts srcLookalikes
      = ⟨["b", "a", "init0", "Init", "init_", "init1", "initX", "main", "rv_init", "Init"], false⟩ := by decide

/-! ### several packages: imported first, once (for every import graph, cyclic ones included) -/

/-- every package of the sequence comes after all the packages it imports -/
def ImportsFirst (importsOf : String → List String) (seq : List String) : Prop :=
  ∀ pre p post, seq = pre ++ p :: post → ∀ q ∈ importsOf p, q ∈ pre

theorem importsFirst_of_closed (importsOf : String → List String) (seq : List String)
    (h : closedFrom importsOf [] seq) : ImportsFirst importsOf seq := by
  intro pre p post hs q hq
  subst hs
  rw [closedFrom_append] at h
  simpa using h.2.1 q hq

/-- **import_once**: whatever the import graph, the packages requested (`ps`: the imports of the
    main file, or the main directory itself) and everything they import are initialised **at most
    once** (`Nodup`), each **after all the packages it imports**, and — unless an error stopped
    the run (import cycle, failing package) — every requested package **was** initialised.
    `seq` is the order in which the packages' own initialisation (variables, init functions) ran;
    `own` is what each logs. Stated for the steps of `importSrc` regenerated from the source. -/
theorem import_once (own : String → Trace) (importsOf : String → List String) (fuel : Nat) (ps : List String) :
    let r := ps.foldl (importY Generated.C15.execFacts.importSrc own importsOf fuel) {}
    r.seq.Nodup ∧ ImportsFirst importsOf r.seq ∧ (r.err = false → ∀ p ∈ ps, p ∈ r.seq) := by
  rw [exec_tie, importY_expected]
  obtain ⟨g, m⟩ := fold_good importsOf (importE own importsOf fuel) (fun s p => importE_good own importsOf fuel s p) ps {}
  have hinv : Inv importsOf ({} : ISt) := ⟨by simp, by simp, by simp [closedFrom]⟩
  obtain ⟨hnd, hiff, hcl⟩ := g.inv hinv
  exact ⟨hnd, importsFirst_of_closed _ _ hcl, fun he p hp => (hiff p).mp (m he p hp)⟩

/-- a whole program given as a file: when it ran without error, main's own initialisation comes
    last, after every imported package, each of which was initialised once and after its own
    imports -/
theorem program_main_last (pr : Prog) (hf : pr.dirMode = false)
    (he : (progY Generated.C15.execFacts Generated.C15.depFacts pr).err = false) :
    ∃ pre, (progY Generated.C15.execFacts Generated.C15.depFacts pr).seq = pre ++ ["main"] ∧ pre.Nodup ∧
      ImportsFirst pr.importsOf pre ∧ ∀ q ∈ pr.mainImports, q ∈ pre := by
  have h := import_once (pr.ownY Generated.C15.execFacts Generated.C15.depFacts) pr.importsOf (pr.subs.length + 2) pr.mainImports
  simp only at h
  unfold progY at he ⊢
  simp only [hf, Bool.false_eq_true, if_false] at he ⊢
  generalize pr.mainImports.foldl
    (importY Generated.C15.execFacts.importSrc (pr.ownY Generated.C15.execFacts Generated.C15.depFacts) pr.importsOf
      (pr.subs.length + 2)) {} = st at h he ⊢
  by_cases hs : st.err = true
  · simp [hs] at he
  · simp only [hs, Bool.false_eq_true, if_false] at he ⊢
    exact ⟨st.seq, rfl, h.1, h.2.1, h.2.2 (by simpa using hs)⟩

/-- the order among packages that do not import each other is the interpreter's own (depth first,
    in the order of the import declarations); the toolchain sorts by import path. Not part of the
    property; recorded by the harness. `main` imports c, a, b; a imports b. -/
theorem package_order_witness :
    let pk (n : String) : Pkg := ⟨[⟨["X"], [⟨n, []⟩], false, false⟩], [], [], none⟩
    let pr : Prog := ⟨[⟨"a", ["b"], pk "a.X"⟩, ⟨"b", [], pk "b.X"⟩, ⟨"c", [], pk "c.X"⟩], ["c", "a", "b"],
                      ⟨[], [], [], some "main"⟩, false⟩
    (progY Expected.C15.execFacts Expected.C15.depFacts pr).seq = ["c", "b", "a", "main"] ∧
      (progGo pr).1 = ["b", "a", "c", "main"] := by
  decide

/-! ### the finding that is still open, and regressions for the repaired ones

  Every package below is the replay input of the finding of the same number in KNOWN_FINDINGS.json.
  `facts` / `deps`: the facts of the repaired code; `depsBefore`: the decisions as the code made them
  before round 3 (what the extractor reads from the parent of a9bfd4c). -/

private def v1 (n : String) (ids : List String) : VarSpec := ⟨[n], [⟨n, ⟨"lg", true, false⟩ :: ids.map (⟨·, true, false⟩)⟩], false, false⟩
private def helpers : List Func := [⟨"lg", [], false⟩, ⟨"two", [⟨"lg", true, false⟩], false⟩]
private def facts := Expected.C15.execFacts
private def deps := Expected.C15.depFacts
private def depsBefore := Expected.C15.depFactsBefore

/-- **F15-8 (open)**: `var y = lg("y", b); var x = lg("x", a); var a, b = two("a")` — the
    interpreter initialises `a, b` in one step (as the specification's text says), after which `y`
    is the earliest ready variable; the toolchain keeps a node per variable: after `a`, `y` still
    waits for `b` and `x` goes first. -/
def pkgOneNode : Pkg :=
  ⟨[v1 "y" ["b"], v1 "x" ["a"], ⟨["a", "b"], [⟨"a", [⟨"two", true, false⟩]⟩], false, false⟩], helpers, [], some "main"⟩
theorem one_node_witness :
    classify pkgOneNode = "several-names-one-node" ∧
    runY facts deps pkgOneNode = ⟨["a", "y", "x", "main"], false⟩ ∧
    runGoS pkgOneNode = ⟨["a", "y", "x", "main"], false⟩ ∧
    runGo pkgOneNode = ⟨["a", "x", "y", "main"], false⟩ := by
  decide

/-- F15-8, second shape: `var w = lg("w", y); var u = lg("u", x); var x, y int` — a
    specification without value declaring two variables is one (silent) node too -/
def pkgOneNodeNoValue : Pkg :=
  ⟨[v1 "w" ["y"], v1 "u" ["x"], ⟨["x", "y"], [], false, false⟩], helpers, [], some "main"⟩
theorem one_node_novalue_witness :
    classify pkgOneNodeNoValue = "several-names-one-node" ∧
    runY facts deps pkgOneNodeNoValue = ⟨["w", "u", "main"], false⟩ ∧
    runGo pkgOneNodeNoValue = ⟨["u", "w", "main"], false⟩ := by
  decide

/-- F15-9 (fixed by fb8122a): `var v, ok = mp[lg("v")]; var mp = map[int]int{7: lg("mp")}` — `gta`
    comes back to the comma-ok declaration when the type of `mp` is known; with the decisions of the
    code before the repair (`operandRetry := false`) it panicked and nothing ran -/
def pkgCommaOk (late : Bool) : Pkg :=
  ⟨(if late then id else List.reverse)
     [⟨["v", "ok"], [⟨"v", [⟨"mp", true, false⟩, ⟨"lg", true, false⟩]⟩], false, late⟩, v1 "mp" []], helpers, [], some "main"⟩
example :
    classify (pkgCommaOk true) = "in-domain" ∧
    runY facts deps (pkgCommaOk true) = ⟨["mp", "v", "main"], false⟩ ∧
    runGo (pkgCommaOk true) = ⟨["mp", "v", "main"], false⟩ ∧
    runY facts { deps with operandRetry := false } (pkgCommaOk true) = ⟨[], true⟩ ∧
    gtaPanics { deps with operandRetry := false } (pkgCommaOk true) = true ∧
    runY facts deps (pkgCommaOk false) = ⟨["mp", "v", "main"], false⟩ ∧
    runY facts { deps with operandRetry := false } (pkgCommaOk false) = ⟨["mp", "v", "main"], false⟩ := by
  decide

/-- compared with the toolchain the full statement still fails (F15-8) -/
theorem toolchain_statement_fails : ¬ ∀ p : Pkg, runY facts deps p = runGo p := by
  intro h
  have := h pkgOneNode
  revert this
  decide

/-- F14 (fixed by 17bcf0b): `var a = lg("a", f()); var b = lg("b"); func f() int { return b + 1 }`.
    Now `a` waits for `b`; with the decisions of the code before the repair the model gives the old log. -/
def pkgThroughFunc : Pkg := ⟨[v1 "a" ["f"], v1 "b" []], helpers ++ [⟨"f", [⟨"b", true, false⟩], false⟩], [], some "main"⟩
example :
    classify pkgThroughFunc = "in-domain" ∧
    runY facts deps pkgThroughFunc = ⟨["b", "a", "main"], false⟩ ∧ runGo pkgThroughFunc = ⟨["b", "a", "main"], false⟩ ∧
    runY facts depsBefore pkgThroughFunc = ⟨["a", "b", "main"], false⟩ := by
  decide

/-- F14 through a method and a second function, with a cycle among the functions:
    `var a = lg("a", t.m()); var t = T{…}; var b = lg("b"); func (r T) m() int { return f() }`
    `func f() int { return g() }; func g() int { return b + f() }` -/
example :
    let p : Pkg := ⟨[v1 "a" ["T.m", "t"], v1 "t" [], v1 "b" []],
      helpers ++ [⟨"T.m", [⟨"f", true, false⟩], true⟩, ⟨"f", [⟨"g", true, false⟩], false⟩, ⟨"g", [⟨"b", true, false⟩, ⟨"f", true, false⟩], false⟩],
      [], some "main"⟩
    collectDepsY deps p = [[2, 1], [], []] ∧ goStepDeps p = [[1, 2], [], []] ∧
    runY facts deps p = ⟨["t", "b", "a", "main"], false⟩ ∧ runGo p = ⟨["t", "b", "a", "main"], false⟩ ∧
    runY facts { deps with followMethods := false } p = ⟨["t", "a", "b", "main"], false⟩ := by
  decide

/-- F15 (fixed by 0c1a580) as a package: a←d, b←c, c, d with two init functions -/
def pkgOvertake : Pkg := ⟨[v1 "a" ["d"], v1 "b" ["c"], v1 "c" [], v1 "d" []], helpers, ["init0", "init1"], some "main"⟩
example :
    classify pkgOvertake = "in-domain" ∧
    runY facts deps pkgOvertake = ⟨["c", "b", "d", "a", "init0", "init1", "main"], false⟩ ∧
    runGo pkgOvertake = ⟨["c", "b", "d", "a", "init0", "init1", "main"], false⟩ := by
  decide

/-- F15-1 (fixed by 2be263c): `var c = lg("c", p); var p, q = two("p", d); var d = lg("d")` — the
    variables of a multi-value declaration are dependencies now -/
def pkgMulti : Pkg :=
  ⟨[v1 "c" ["p"], ⟨["p", "q"], [⟨"p", [⟨"two", true, false⟩, ⟨"d", true, false⟩]⟩], false, false⟩, v1 "d" []], helpers, [], some "main"⟩
example :
    classify pkgMulti = "in-domain" ∧
    runY facts deps pkgMulti = ⟨["d", "p", "c", "main"], false⟩ ∧ runGo pkgMulti = ⟨["d", "p", "c", "main"], false⟩ ∧
    runY facts depsBefore pkgMulti = ⟨["c", "d", "p", "main"], false⟩ := by
  decide

/-- F15-2 (fixed by 2be263c): `var p, q = two("p"); var d = lg("d", g(p))`,
    `func f() int { return 1 + q }; func g(x int) int { return x + 1 + p + f() }` — functions read
    the variables of a multi-value declaration (the wrong value they used to read is outside the
    model; what the model states is that `d` now waits for the declaration through `g` and `f` too) -/
def pkgMultiInFunc : Pkg :=
  ⟨[⟨["p", "q"], [⟨"p", [⟨"two", true, false⟩]⟩], false, false⟩, v1 "d" ["g", "p"]],
   helpers ++ [⟨"f", [⟨"q", true, false⟩], false⟩, ⟨"g", [⟨"p", true, false⟩, ⟨"f", true, false⟩], false⟩], [], some "main"⟩
example :
    classify pkgMultiInFunc = "in-domain" ∧ collectDepsY deps pkgMultiInFunc = [[], [0, 0, 0]] ∧
    runY facts deps pkgMultiInFunc = ⟨["p", "d", "main"], false⟩ ∧ runGo pkgMultiInFunc = ⟨["p", "d", "main"], false⟩ ∧
    collectDepsY depsBefore pkgMultiInFunc = [[], []] := by
  decide

/-- F15-3 (fixed by 14ebac5): `var p, q = lg("p", c), lg("q"); var c = lg("c", q)` — two steps now;
    as one node it was a false loop -/
def pkgPaired : Pkg :=
  ⟨[⟨["p", "q"], [⟨"p", [⟨"lg", true, false⟩, ⟨"c", true, false⟩]⟩, ⟨"q", [⟨"lg", true, false⟩]⟩], false, false⟩, v1 "c" ["q"]], helpers, [], some "main"⟩
example :
    classify pkgPaired = "in-domain" ∧
    runY facts deps pkgPaired = ⟨["q", "c", "p", "main"], false⟩ ∧ runGo pkgPaired = ⟨["q", "c", "p", "main"], false⟩ ∧
    runY facts depsBefore pkgPaired = ⟨[], true⟩ := by
  decide

/-- F15-4 (fixed by 004b9fa): `var a = lg("a", func() int { b := 7; return b }()); var b = lg("b", a)`
    — a local variable named like a package-level one is not a dependency; it was a false loop -/
def pkgShadow : Pkg :=
  ⟨[⟨["a"], [⟨"a", [⟨"lg", true, false⟩, ⟨"b", false, false⟩, ⟨"b", false, false⟩]⟩], false, false⟩, v1 "b" ["a"]], helpers, [], some "main"⟩
example :
    classify pkgShadow = "in-domain" ∧
    runY facts deps pkgShadow = ⟨["a", "b", "main"], false⟩ ∧ runGo pkgShadow = ⟨["a", "b", "main"], false⟩ ∧
    runY facts depsBefore pkgShadow = ⟨[], true⟩ := by
  decide

/-- F15-5 (fixed by 004b9fa): `var _ = lg("x0"); var a = lg("a"); var _ = lg("x1", a)` — the blank
    identifier is not a dependency -/
def pkgBlank : Pkg :=
  ⟨[⟨["_"], [⟨"x0", [⟨"lg", true, false⟩]⟩], false, false⟩, v1 "a" [], ⟨["_"], [⟨"x1", [⟨"lg", true, false⟩, ⟨"a", true, false⟩]⟩], false, false⟩], helpers, [], some "main"⟩
example :
    classify pkgBlank = "in-domain" ∧
    runY facts deps pkgBlank = ⟨["x0", "a", "x1", "main"], false⟩ ∧ runGo pkgBlank = ⟨["x0", "a", "x1", "main"], false⟩ ∧
    runY facts depsBefore pkgBlank = ⟨["a", "x1", "x0", "main"], false⟩ := by
  decide

/-- F15-6 (fixed by ab398ff): `var a = lg("a", a)` — rejected like an initialization cycle; also
    through a function: `var a = lg("a", f()); func f() int { return a }` -/
def pkgSelf : Pkg := ⟨[v1 "a" ["a"]], helpers, [], some "main"⟩
example :
    classify pkgSelf = "in-domain" ∧
    runY facts deps pkgSelf = ⟨[], true⟩ ∧ runGo pkgSelf = ⟨[], true⟩ ∧
    runY facts depsBefore pkgSelf = ⟨["a", "main"], false⟩ ∧
    runY facts deps ⟨[v1 "a" ["f"]], helpers ++ [⟨"f", [⟨"a", true, false⟩], false⟩], [], some "main"⟩ = ⟨[], true⟩ ∧
    runY facts { deps with skipSelf := true } ⟨[v1 "a" ["f"]], helpers ++ [⟨"f", [⟨"a", true, false⟩], false⟩], [], some "main"⟩
      = ⟨["a", "main"], false⟩ := by
  decide

/-- F15-7 (fixed by e843e3f): `var p, q = two("p")` with `two` declared later — `gta` comes back to it -/
def pkgLate : Pkg := ⟨[⟨["p", "q"], [⟨"p", [⟨"two", true, false⟩]⟩], true, false⟩], helpers, [], some "main"⟩
example :
    classify pkgLate = "in-domain" ∧
    runY facts deps pkgLate = ⟨["p", "main"], false⟩ ∧ runGo pkgLate = ⟨["p", "main"], false⟩ ∧
    runY facts depsBefore pkgLate = ⟨[], true⟩ := by
  decide

/-- a variable of function type initialised by a function literal (seeded change C15-3):
    `var y = lg("y", get()); var get = func() int { return x }; var x = lg("x")` — `y` waits for `get`,
    `get` (whose initialiser logs nothing) for what the literal's body refers to: `x y`, as the
    specification says. Were `genGlobalVarDecl` to skip the specifications whose value is a function
    literal (`collectSkip := .funcLit`), `y` would run before `x`, and `var f = func() int { return g(f) }`
    would no longer be an initialization cycle. -/
def pkgFuncValue : Pkg :=
  ⟨[v1 "y" ["get"], ⟨["get"], [⟨"", [⟨"x", true, false⟩]⟩], false, false⟩, v1 "x" []], helpers, [], some "main"⟩
example :
    classify pkgFuncValue = "in-domain" ∧ collectDepsY deps pkgFuncValue = [[1], [2], []] ∧
    runY facts deps pkgFuncValue = ⟨["x", "y", "main"], false⟩ ∧ runGo pkgFuncValue = ⟨["x", "y", "main"], false⟩ ∧
    runY facts { deps with collectSkip := .funcLit } pkgFuncValue = ⟨["y", "x", "main"], false⟩ ∧
    runY facts deps ⟨[⟨["f"], [⟨"", [⟨"g", true, false⟩, ⟨"f", true, false⟩]⟩], false, false⟩], helpers ++ [⟨"g", [], false⟩], [], some "main"⟩
      = ⟨[], true⟩ ∧
    runY facts { deps with collectSkip := .funcLit }
        ⟨[⟨["f"], [⟨"", [⟨"g", true, false⟩, ⟨"f", true, false⟩]⟩], false, false⟩], helpers ++ [⟨"g", [], false⟩], [], some "main"⟩
      = ⟨["main"], false⟩ := by
  decide

/-- a method *expression* (seeded change C15-4): `var a = lg("a", T.m(t)); var t = T{…}; var b = lg("b")`,
    `func (r T) m() int { return b }` — `matchSelectorMethod` tags the selector `T.m` with `aGetMethod`
    like `t.m`, so `a` waits for `b`. Were only the method-with-receiver form tagged
    (`methodTag := .recvOnly`), the method expression would contribute no reference and `a` would run
    before `b`, while `t.m()` would still be followed. -/
def pkgMethodExpr (viaExpr : Bool) : Pkg :=
  ⟨[⟨["a"], [⟨"a", [⟨"lg", true, false⟩, ⟨"T.m", true, viaExpr⟩, ⟨"t", true, false⟩]⟩], false, false⟩, v1 "t" [], v1 "b" []],
   helpers ++ [⟨"T.m", [⟨"b", true, false⟩], true⟩], [], some "main"⟩
theorem method_expr_tag_witness :
    runY facts deps (pkgMethodExpr true) = ⟨["t", "b", "a", "main"], false⟩ ∧
    runGo (pkgMethodExpr true) = ⟨["t", "b", "a", "main"], false⟩ ∧
    collectDepsY { deps with methodTag := .recvOnly } (pkgMethodExpr true) = [[1], [], []] ∧
    runY facts { deps with methodTag := .recvOnly } (pkgMethodExpr true) = ⟨["t", "a", "b", "main"], false⟩ ∧
    runY facts { deps with methodTag := .recvOnly } (pkgMethodExpr false) = ⟨["t", "b", "a", "main"], false⟩ := by
  decide

/-! ### the statements are not vacuous -/

/-- a diamond with forward references, a function that reaches a variable and one that does not:
    `var a = lg("a", b, c); var b = lg("b", d); var c = lg("c", f()); var d = lg("d"); func f() int { return d + g() }; func g() int { return 1 }`
    is *not* initialised in declaration order -/
def pkgDiamond : Pkg :=
  ⟨[v1 "a" ["b", "c"], v1 "b" ["d"], v1 "c" ["f"], v1 "d" []],
   helpers ++ [⟨"f", [⟨"d", true, false⟩, ⟨"g", true, false⟩], false⟩, ⟨"g", [], false⟩], ["init0"], some "main"⟩
example : dom pkgDiamond = true ∧ collectDepsY deps pkgDiamond = [[1, 2], [3], [3], []] ∧
    runY facts deps pkgDiamond = ⟨["d", "b", "c", "a", "init0", "main"], false⟩ := by decide

/-- a cycle: both reject -/
example : dom ⟨[v1 "a" ["b"], v1 "b" ["a"]], helpers, [], some "main"⟩ = true ∧
    runY facts deps ⟨[v1 "a" ["b"], v1 "b" ["a"]], helpers, [], some "main"⟩ = ⟨[], true⟩ := by decide

/-- a multi-value declaration inside the domain of the comparison with the toolchain -/
example : dom pkgMulti = true ∧ dom pkgMultiInFunc = true := by decide

end YaegiVerif.Props.C15
