import YaegiVerif.Model.VarInit
import YaegiVerif.Spec.GoInitOrder
import YaegiVerif.Expected.C15
import YaegiVerif.Generated.C15
import YaegiVerif.Proofs.C15Order
import YaegiVerif.Proofs.C15Import
import YaegiVerif.Proofs.C15Decls
/-
  C15 — package-level variables initialise in dependency order; then init functions in source
  order; then main. Property theorems.

  Full statement (not true of the code, see the witnesses):
    for every package p,  runY facts p = Spec.runGo p.
  Proved: `init_order_partial` on the decidable domain `dom`, for the facts read from the source.
  Since the repair of F15 (`genGlobalVarDecl` restarts its scan after every append) the ordering
  loop itself is proved equal to the specification's for every dependency graph (`orderY_eq_spec`),
  and `dom` only speaks about which dependencies are collected.
-/
namespace YaegiVerif.Props.C15
open YaegiVerif YaegiVerif.VarInit YaegiVerif.Spec.InitOrder YaegiVerif.Proofs.C15

/-! ### ties to the source -/

/-- tie: the order of the steps of Execute / CompileAST / importSrc read from the source is the one
    the proofs use -/
theorem exec_tie : Generated.C15.execFacts = Expected.C15.execFacts := by decide

/-- tie: the functions transcribed in Model/VarInit.lean (getVars, genGlobalVars, genGlobalVarDecl,
    getVarDependencies, equalNodes) are textually, modulo comments and layout, the ones the model was
    written from; if this breaks the model must be re-validated (the check then relies on the
    correspondence run and the search for a failing input) -/
theorem source_tie : Generated.C15.sourceHashes = Expected.C15.sourceHashes := by decide

/-! ### the ordering loop of genGlobalVarDecl (for every dependency graph) -/

/-- the fuel is enough: the loop always ends by itself -/
theorem orderY_terminates (g : Deps) : orderY g ≠ .fuel :=
  loopY_no_fuel g _ _ _ (by simp)

/-- **every variable specification is initialised exactly once** (the result is a permutation of
    the specifications) — or the loop reports "variable definition loop" -/
theorem orderY_perm (g : Deps) :
    (∃ l, orderY g = .ok l ∧ l.Perm (List.range g.length)) ∨ orderY g = .loop := by
  cases h : orderY g with
  | ok l => exact .inl ⟨l, rfl, by simpa using loopY_ok_perm g _ _ _ l h⟩
  | loop => exact .inr rfl
  | fuel => exact absurd h (orderY_terminates g)

/-- **every variable is initialised after everything its initialiser directly names** -/
theorem orderY_respects_collected (g : Deps) (l : List Nat) (h : orderY g = .ok l) : Respects g l :=
  loopY_respects g _ _ _ l rfl h

/-- what `Respects` says, spelled out: if `i` occurs in the order with `pre` before it, each
    collected dependency of `i` is in `pre` -/
theorem respects_spelled (g : Deps) (pre post : List Nat) (i d : Nat)
    (h : Respects g (pre ++ i :: post)) (hd : d ∈ depsOf g i) : d ∈ pre := by
  unfold Respects at h
  rw [respectsFrom_append] at h
  simp only [List.nil_append, respectsFrom, Bool.and_eq_true] at h
  have := h.2.1
  unfold ready at this
  simp only [List.all_eq_true] at this
  simpa using this d hd

/-- the error is not spurious *for the collected graph*: when the loop gives up, some
    specifications remain and each of them names a specification that is not initialised -/
theorem orderY_loop_stuck (g : Deps) (h : orderY g = .loop) :
    ∃ placed rest, (placed ++ rest).Perm (List.range g.length) ∧ rest ≠ [] ∧
      ∀ n ∈ rest, ∃ d ∈ depsOf g n, d ∉ placed := by
  obtain ⟨pl, rs, h1, h2, h3⟩ := loopY_loop_stuck g _ _ _ h
  refine ⟨pl, rs, by simpa using h1, h2, ?_⟩
  intro n hn
  have := h3 n hn
  unfold ready at this
  rw [List.all_eq_false] at this
  obtain ⟨d, hd, hnd⟩ := this
  exact ⟨d, hd, by simpa using hnd⟩

/-! ### the specification's loop, same sanity -/

theorem orderGo_terminates (g : Deps) : orderGo g ≠ .fuel :=
  loopGo_no_fuel g _ _ _ (by simp)

theorem orderGo_perm (g : Deps) (l : List Nat) (h : orderGo g = .ok l) : l.Perm (List.range g.length) := by
  simpa using loopGo_ok_perm g _ _ _ l h

theorem orderGo_respects (g : Deps) (l : List Nat) (h : orderGo g = .ok l) : Respects g l :=
  loopGo_respects g _ _ _ l rfl h

/-! ### yaegi's order = the specification's order -/

/-- **On the same dependency graph the loop of `genGlobalVarDecl` gives the specification's order**
    — for every graph, no side condition (before the repair of F15: only when no specification was
    overtaken inside a pass). Includes the error case: both report a loop or both succeed with the
    same order. -/
theorem orderY_eq_spec (g : Deps) : orderY g = orderGo g :=
  loopY_eq_loopGo g _ _ _ _ (by simp) (by simp)

/-- **accept / reject is always right for the collected graph**: the loop reports "variable
    definition loop" exactly when the specification's loop reports a cycle, i.e. (`orderGo_perm`,
    `orderGo_respects`, `orderY_loop_stuck`) exactly when no order of the specifications respects
    the collected dependencies. -/
theorem orderY_loop_iff (g : Deps) : orderY g = .loop ↔ orderGo g = .loop := by
  rw [orderY_eq_spec]

/-- …and the error is real: no order of all the specifications respects the collected dependencies -/
theorem orderY_loop_no_order (g : Deps) (h : orderY g = .loop) (l : List Nat)
    (hp : l.Perm (List.range g.length)) : ¬ Respects g l := by
  intro hr
  obtain ⟨pl, rs, h1, h2, h3⟩ := loopY_loop_stuck g _ _ _ h
  exact stuck_vs_order g _ pl rs l h1 h2 h3 (by simpa using hp) hr

/-- regression for F15 (fixed): a←d, b←c, c, d. The pass loop used to give `c d a b`
    (`[2, 3, 0, 1]`: `b` was not reconsidered when `c` made it ready); it now gives the
    specification's `c b d a`. -/
example :
    let g : Deps := [[3], [2], [], []]
    orderY g = .ok [2, 1, 3, 0] ∧ orderGo g = .ok [2, 1, 3, 0] := by decide

/-- corollary: without forward references both orders are the declaration order -/
theorem backward_only_decl_order (g : Deps) (hb : ∀ i d, d ∈ depsOf g i → d < i) :
    orderY g = .ok (List.range g.length) := by
  have key : ∀ (m k f : Nat), k + m = g.length → m < f →
      loopY g f (List.range' k m) (List.range k) = .ok (List.range g.length) := by
    intro m
    induction m with
    | zero =>
      intro k f h hf
      have hk : k = g.length := by omega
      cases f with
      | zero => omega
      | succ f => simp [loopY, pass, hk]
    | succ m ih =>
      intro k f h hf
      cases f with
      | zero => omega
      | succ f =>
        have hr : ready g (List.range k) k = true := by
          unfold ready
          simp only [List.all_eq_true]
          intro d hd
          have := hb k d hd
          simpa using this
        have hk : List.range k ++ [k] = List.range (k + 1) := by simp [List.range_succ]
        unfold loopY
        simp only [List.range'_succ, pass, hr, if_true, hk]
        split
        · rename_i he
          have hm : m = 0 := by
            cases m with
            | zero => rfl
            | succ m => simp [List.range'_succ] at he
          have : k + 1 = g.length := by omega
          rw [this]
        · split
          · rename_i heq
            have := congrArg List.length (beq_iff_eq.mp heq)
            simp at this
          · exact ih (k + 1) f (by omega) (by omega)
  have := key g.length 0 (g.length + 1) (by simp) (by simp)
  simpa [orderY, List.range_eq_range'] using this

/-! ### package layer -/

/-- in the domain the two dependency graphs have the same sets -/
theorem orderGo_congr (gy gg : Deps) (h : sameDeps gy gg = true) : orderGo gy = orderGo gg := by
  obtain ⟨hlen, hmem⟩ := sameDeps_mem gy gg h
  unfold orderGo
  rw [hlen]
  exact loopGo_congr gy gg hmem _ _ _

theorem single_unit (k : Nat) (v : VarSpec) (h : single v = true) :
    (unitsOfSpec k v).map GoUnit.labels = [v.labels] := by
  unfold single at h
  simp only [Bool.and_eq_true, beq_iff_eq, decide_eq_true_eq] at h
  obtain ⟨hn, hi⟩ := h
  obtain ⟨names, inits, late⟩ := v
  simp only at hn hi
  match names, hn with
  | [n], _ =>
    match inits, hi with
    | [], _ => simp [unitsOfSpec, GoUnit.labels, VarSpec.labels]
    | [i], _ => simp [unitsOfSpec, GoUnit.labels, VarSpec.labels]

theorem units_labels (k : Nat) (vs : List VarSpec) (h : vs.all single = true) :
    (unitsFrom k vs).map GoUnit.labels = vs.map VarSpec.labels := by
  induction vs generalizing k with
  | nil => rfl
  | cons v vs ih =>
    simp only [List.all_cons, Bool.and_eq_true] at h
    simp only [unitsFrom, List.map_append, List.map_cons, single_unit k v h.1, ih (k + 1) h.2]
    rfl

theorem labels_eq (vars : List VarSpec) (h : vars.all single = true) (order : List Nat) :
    unitLabels (unitsOf vars) order = labelsOf vars order := by
  have hm := units_labels 0 vars h
  unfold unitLabels labelsOf
  congr 1
  funext i
  have : ((unitsOf vars).map GoUnit.labels)[i]? = (vars.map VarSpec.labels)[i]? := by
    unfold unitsOf; rw [hm]
  simp only [List.getElem?_map] at this
  cases hu : (unitsOf vars)[i]? <;> cases hv : vars[i]? <;> simp_all

/-- what `Eval` of a file does, for the steps read from the source: nothing if `gta` rejects the
    package; else the variables in the order decided by the loop of `genGlobalVarDecl`, then the `init` functions in
    source order, then `main` — or the "variable definition loop" error before anything ran -/
theorem runY_expected (p : Pkg) :
    runY Expected.C15.execFacts p =
      if gtaRejects p then ⟨[], true⟩ else
      match orderY (collectDepsY p) with
      | .ok o => ⟨labelsOf p.vars o ++ p.inits ++ p.main.toList, false⟩
      | _ => ⟨[], true⟩ := by
  unfold runY
  split
  · rfl
  · cases orderY (collectDepsY p) <;>
      simp [Expected.C15.execFacts, runSteps, List.append_assoc]

/-- the same for a directory loaded by `importSrc` -/
theorem runImportY_expected (p : Pkg) :
    runImportY Expected.C15.execFacts p = runY Expected.C15.execFacts p := by
  rw [runY_expected]
  unfold runImportY
  split
  · rfl
  · cases orderY (collectDepsY p) <;>
      simp [Expected.C15.execFacts, runSteps, List.append_assoc]

/-- **init functions run after all variables, in source order, and main runs last** (whatever the
    dependency graph), for a file (`Eval`) and for a directory (`importSrc`), with the steps of
    Execute / CompileAST / importSrc regenerated from the source; `o` is the order of the variables -/
theorem init_then_main (p : Pkg) (evs : List String)
    (h : runY Generated.C15.execFacts p = ⟨evs, false⟩ ∨ runImportY Generated.C15.execFacts p = ⟨evs, false⟩) :
    ∃ o, orderY (collectDepsY p) = .ok o ∧ o.Perm (List.range p.vars.length) ∧
      evs = labelsOf p.vars o ++ p.inits ++ p.main.toList := by
  rw [exec_tie, runImportY_expected, or_self] at h
  rw [runY_expected] at h
  split at h
  · simp at h
  · cases ho : orderY (collectDepsY p) with
    | ok o =>
      simp only [ho, Trace.mk.injEq, and_true] at h
      refine ⟨o, rfl, ?_, h.symm⟩
      have hlen : (collectDepsY p).length = p.vars.length := by
        unfold collectDepsY
        generalize 0 = k
        generalize hvs : p.vars = vs
        have : ∀ (k : Nat) (ws : List VarSpec), (collectAux vs k ws).length = ws.length := by
          intro k ws
          induction ws generalizing k with
          | nil => rfl
          | cons w ws ih => simp [collectAux, ih]
        exact this k vs
      have := loopY_ok_perm _ _ _ _ o ho
      simpa [hlen] using this
    | loop => simp [ho] at h
    | fuel => simp [ho] at h

/-- **C15 on the proved domain**: the program logs exactly what the Go specification prescribes —
    variables in the specification's order (or both reject the package), then the init functions in
    source order, then main. -/
theorem init_order_partial (p : Pkg) (h : dom p = true) :
    runY Expected.C15.execFacts p = runGo p := by
  unfold dom at h
  simp only [Bool.and_eq_true, Bool.not_eq_true'] at h
  obtain ⟨⟨hg, hs⟩, hd⟩ := h
  rw [runY_expected, hg]
  simp only [Bool.false_eq_true, if_false]
  unfold runGo
  rw [← orderGo_congr _ _ hd, ← orderY_eq_spec]
  cases orderY (collectDepsY p) with
  | ok o => simp [labels_eq p.vars hs o]
  | loop => rfl
  | fuel => rfl

/-- the same statements for the facts regenerated from the source on this run -/
theorem init_order_generated (p : Pkg) (h : dom p = true) :
    runY Generated.C15.execFacts p = runGo p ∧ runImportY Generated.C15.execFacts p = runGo p := by
  rw [exec_tie, runImportY_expected]
  exact ⟨init_order_partial p h, init_order_partial p h⟩

/-- the class label the harness uses is "in-domain" exactly on the domain of the theorem -/
theorem classify_in_domain_iff (p : Pkg) : classify p = "in-domain" ↔ dom p = true := by
  unfold classify
  by_cases h : dom p = true
  · simp [h]
  · simp only [h, Bool.false_eq_true, if_false, iff_false]
    unfold reason
    simp only
    repeat' split
    all_goals decide

/-! ### which declarations run as init functions (for every list of declarations)

  A package is given as its files, each a list of declarations: variable specifications, function
  declarations (with or without receiver, any name, any number of type parameters / parameters /
  results, any local variables), type declarations (any field names). `cfg` adds a function
  declaration to `initNodes` under the condition read from the source, `importSrc` joins the lists of
  the files, `Execute` / `importSrc` run the list from first to last. -/

/-- tie: the registration condition of `cfg`, the way the node is added, the way the per-file lists
    are joined and the cases of the `switch` of `gta` are the ones the proofs use -/
theorem init_tie : Generated.C15.initFacts = Expected.C15.initFacts := by decide

/-- tie: the statements those facts are read from, the loops that run the list and `isMethod` are
    textually the ones the model was written from -/
theorem init_source_tie : Generated.C15.initHashes = Expected.C15.initHashes := by decide

/-- **the functions run as init functions are exactly the function declarations named `init`
    without receiver, in source order (file by file), each declaration once** — for every list of
    files and declarations, for the facts regenerated from the source. The right-hand side is the
    list of the function declarations of the package, in source order, filtered. -/
theorem init_registration_correct (files : List (List Decl)) :
    pkgInits Generated.C15.initFacts files = (declFuncs files.flatten).filter isInitFunc := by
  rw [init_tie, pkgInits_expected]; rfl

/-- membership, spelled out: a function declaration runs as an init function iff it is declared in
    the package, is called `init` and has no receiver -/
theorem init_funcs_exactly (files : List (List Decl)) (f : FuncDecl) :
    f ∈ pkgInits Generated.C15.initFacts files ↔ (Decl.func f ∈ files.flatten ∧ f.name = "init" ∧ f.recv = .none) := by
  rw [init_registration_correct, List.mem_filter, mem_declFuncs]
  simp [isInitFunc]

/-- order and multiplicity, spelled out: the init nodes are a sub-sequence of the function
    declarations in source order (nothing is reordered, nothing is invented), and every init
    function is there as many times as it is declared (nothing is dropped, nothing runs twice) -/
theorem init_funcs_once_in_order (files : List (List Decl)) :
    (pkgInits Generated.C15.initFacts files).Sublist (declFuncs files.flatten) ∧
    ∀ f, isInitFunc f = true →
      (pkgInits Generated.C15.initFacts files).count f = (declFuncs files.flatten).count f := by
  rw [init_registration_correct]
  refine ⟨List.filter_sublist, ?_⟩
  intro f hf
  rw [List.count_filter hf]

/-- **what looks like an init function but is not never runs by itself**: a method named `init`
    (value or pointer receiver), a function with another name (`Init`, `init_`, `initX`, …) —
    whatever else the package declares (fields or local variables named `init` are not function
    declarations at all) -/
theorem lookalike_never_registered (files : List (List Decl)) (f : FuncDecl)
    (h : f.recv ≠ .none ∨ f.name ≠ "init") : f ∉ pkgInits Generated.C15.initFacts files := by
  rw [init_funcs_exactly]
  rintro ⟨_, hn, hr⟩
  cases h with
  | inl h => exact h hr
  | inr h => exact h hn

/-- `gta` declares a function symbol for exactly the functions that are not init functions: `init`
    "is not declared" (several init functions, in one file or in several, never clash and cannot be
    referred to), methods go to their type, `Init` / `init_` / `initX` are ordinary functions -/
theorem declared_funcs_correct (ds : List Decl) :
    declaredFuncs Generated.C15.initFacts ds = declaredFuncsGo ds := by
  rw [init_tie, declaredFuncs_expected]

theorem init_not_declared (ds : List Decl) : "init" ∉ declaredFuncs Generated.C15.initFacts ds := by
  rw [declared_funcs_correct]
  unfold declaredFuncsGo
  simp only [List.mem_map, List.mem_filter, Bool.and_eq_true, bne_iff_ne, ne_eq, not_exists, not_and]
  intro f ⟨_, _, hn⟩ he
  exact hn he

/-- the package the ordering and execution code sees is the one the specification describes -/
theorem toPkg_eq_spec (s : SrcPkg) : s.toPkg Generated.C15.initFacts = toPkgGo s := by
  unfold SrcPkg.toPkg toPkgGo
  rw [init_tie, pkgInits_expected]

/-- **the executed sequence, for every package given as source** (file or directory, facts
    regenerated from the source, whatever the dependency graph): when the run succeeds it logged
    exactly — the initialisers of the variable specifications, each once, every specification after
    the ones it names (`o`); then the receiver-less functions named `init` in source order, each
    once; then `main` and what `main` itself calls. Nothing else runs before `main`. -/
theorem src_exec_sequence (s : SrcPkg) (evs : List String)
    (h : runSrcY Generated.C15.execFacts Generated.C15.initFacts s = ⟨evs, false⟩ ∨
         runSrcImportY Generated.C15.execFacts Generated.C15.initFacts s = ⟨evs, false⟩) :
    ∃ o, o.Perm (List.range (declVars s.decls).length) ∧
      Respects (collectDepsY (toPkgGo s)) o ∧
      evs = labelsOf (declVars s.decls) o
            ++ ((declFuncs s.decls).filter isInitFunc).map (·.label)
            ++ s.main.toList ++ s.after := by
  unfold runSrcY runSrcImportY at h
  rw [toPkg_eq_spec] at h
  have key : ∀ t : Trace, t.andThen s.after = ⟨evs, false⟩ →
      ∃ e, t = ⟨e, false⟩ ∧ evs = e ++ s.after := by
    intro t ht
    unfold Trace.andThen at ht
    obtain ⟨e, er⟩ := t
    cases er with
    | true => simp at ht
    | false =>
      simp only [Bool.false_eq_true, if_false, Trace.mk.injEq, and_true] at ht
      exact ⟨e, rfl, ht.symm⟩
  have h' : ∃ e, (runY Generated.C15.execFacts (toPkgGo s) = ⟨e, false⟩ ∨
      runImportY Generated.C15.execFacts (toPkgGo s) = ⟨e, false⟩) ∧ evs = e ++ s.after := by
    cases h with
    | inl h => obtain ⟨e, h1, h2⟩ := key _ h; exact ⟨e, .inl h1, h2⟩
    | inr h => obtain ⟨e, h1, h2⟩ := key _ h; exact ⟨e, .inr h1, h2⟩
  obtain ⟨e, he, hevs⟩ := h'
  obtain ⟨o, ho, hp, hev⟩ := init_then_main (toPkgGo s) e he
  refine ⟨o, hp, orderY_respects_collected _ o ho, ?_⟩
  rw [hevs, hev]
  rfl

/-- **C15 for a package given as source, on the proved domain** (the domain speaks about the
    variables' dependencies only): whatever functions, methods, types and local variables called
    `init`, `Init`, `init_`, … the package declares, in however many files, the program logs exactly
    what the Go specification prescribes. -/
theorem src_init_order_partial (s : SrcPkg) (h : dom (toPkgGo s) = true) :
    runSrcY Generated.C15.execFacts Generated.C15.initFacts s = runSrcGo s ∧
    runSrcImportY Generated.C15.execFacts Generated.C15.initFacts s = runSrcGo s := by
  unfold runSrcY runSrcImportY runSrcGo
  rw [toPkg_eq_spec]
  obtain ⟨h1, h2⟩ := init_order_generated (toPkgGo s) h
  rw [h1, h2]
  exact ⟨rfl, rfl⟩

/-- the label the harness uses for a package given as source is "in-domain" exactly on the domain
    of `src_init_order_partial` -/
theorem classifySrc_in_domain_iff (s : SrcPkg) : classifySrc s = "in-domain" ↔ dom (toPkgGo s) = true :=
  classify_in_domain_iff (toPkgGo s)

/-! non-vacuity and sensitivity: two files with look-alikes between two init functions

    a.go: `type rv struct{ n int }`, `type rf struct{ init int }`, `func (r rv) init() { say("rv_init") }`,
          `var a = lg("a", b)`, `func init() { say("init0") }`, `func Init() { say("Init") }`
    b.go: `func (r *rp) init() { say("rp_init") }`, `var b = lg("b")`, `func init_() { init := 7; say("init_", init) }`,
          `func init() { say("init1") }`, `func initX() { say("initX") }`
    `main` logs `main` and then calls `rv{}.init()` and `Init()`. -/
def srcLookalikes : SrcPkg :=
  { files := [[.type "rv" ["n"], .type "rf" ["init"],
               .func { name := "init", recv := .value, recvType := "rv", label := "rv_init" },
               .var ⟨["a"], [⟨"a", [⟨"b", true⟩]⟩], false⟩,
               .func { name := "init", label := "init0" },
               .func { name := "Init", label := "Init" }],
              [.func { name := "init", recv := .pointer, recvType := "rp", label := "rp_init" },
               .var ⟨["b"], [⟨"b", []⟩], false⟩,
               .func { name := "init_", label := "init_", locals := ["init"] },
               .func { name := "init", label := "init1" },
               .func { name := "initX", label := "initX" }]],
    main := some "main",
    after := ["rv_init", "Init"] }

example :
    classifySrc srcLookalikes = "in-domain" ∧
    runSrcY Generated.C15.execFacts Generated.C15.initFacts srcLookalikes
      = ⟨["b", "a", "init0", "init1", "main", "rv_init", "Init"], false⟩ ∧
    runSrcGo srcLookalikes = ⟨["b", "a", "init0", "init1", "main", "rv_init", "Init"], false⟩ ∧
    declaredFuncs Generated.C15.initFacts srcLookalikes.decls = ["Init", "init_", "initX"] := by decide

/-- the model is sensitive to the extracted facts: were the receiver test replaced by a test of the
    type parameters (or dropped), the methods named `init` would run, uncalled, among the init
    functions; were the node prepended (one file) or the per-file lists joined in front (two files),
    the init functions would run in reverse order; without the name test every function would run -/
example :
    runSrcY Expected.C15.execFacts { Expected.C15.initFacts with register := [.nameIs "init", .tparamsEmpty] } srcLookalikes
      = ⟨["b", "a", "rv_init", "init0", "rp_init", "init1", "main", "rv_init", "Init"], false⟩ ∧
    runSrcY Expected.C15.execFacts { Expected.C15.initFacts with add := .prepend }
        { srcLookalikes with files := [srcLookalikes.decls] }
      = ⟨["b", "a", "init1", "init0", "main", "rv_init", "Init"], false⟩ ∧
    runSrcY Expected.C15.execFacts { Expected.C15.initFacts with join := .prepend } srcLookalikes
      = ⟨["b", "a", "init1", "init0", "main", "rv_init", "Init"], false⟩ ∧
    runSrcY Expected.C15.execFacts { Expected.C15.initFacts with register := [.recvEmpty] } srcLookalikes
      = ⟨["b", "a", "init0", "Init", "init_", "init1", "initX", "main", "rv_init", "Init"], false⟩ := by decide

/-! ### several packages: imported first, once (for every import graph, cyclic ones included) -/

/-- every package of the sequence comes after all the packages it imports -/
def ImportsFirst (importsOf : String → List String) (seq : List String) : Prop :=
  ∀ pre p post, seq = pre ++ p :: post → ∀ q ∈ importsOf p, q ∈ pre

theorem importsFirst_of_closed (importsOf : String → List String) (seq : List String)
    (h : closedFrom importsOf [] seq) : ImportsFirst importsOf seq := by
  intro pre p post hs q hq
  subst hs
  rw [closedFrom_append] at h
  simpa using h.2.1 q hq

/-- **import_once**: whatever the import graph, the packages requested (`ps`: the imports of the
    main file, or the main directory itself) and everything they import are initialised **at most
    once** (`Nodup`), each **after all the packages it imports**, and — unless an error stopped
    the run (import cycle, failing package) — every requested package **was** initialised.
    `seq` is the order in which the packages' own initialisation (variables, init functions) ran;
    `own` is what each logs. Stated for the steps of `importSrc` regenerated from the source. -/
theorem import_once (own : String → Trace) (importsOf : String → List String) (fuel : Nat) (ps : List String) :
    let r := ps.foldl (importY Generated.C15.execFacts.importSrc own importsOf fuel) {}
    r.seq.Nodup ∧ ImportsFirst importsOf r.seq ∧ (r.err = false → ∀ p ∈ ps, p ∈ r.seq) := by
  rw [exec_tie, importY_expected]
  obtain ⟨g, m⟩ := fold_good importsOf (importE own importsOf fuel) (fun s p => importE_good own importsOf fuel s p) ps {}
  have hinv : Inv importsOf ({} : ISt) := ⟨by simp, by simp, by simp [closedFrom]⟩
  obtain ⟨hnd, hiff, hcl⟩ := g.inv hinv
  exact ⟨hnd, importsFirst_of_closed _ _ hcl, fun he p hp => (hiff p).mp (m he p hp)⟩

/-- a whole program given as a file: when it ran without error, main's own initialisation comes
    last, after every imported package, each of which was initialised once and after its own
    imports -/
theorem program_main_last (pr : Prog) (hf : pr.dirMode = false)
    (he : (progY Generated.C15.execFacts pr).err = false) :
    ∃ pre, (progY Generated.C15.execFacts pr).seq = pre ++ ["main"] ∧ pre.Nodup ∧
      ImportsFirst pr.importsOf pre ∧ ∀ q ∈ pr.mainImports, q ∈ pre := by
  have h := import_once (pr.ownY Generated.C15.execFacts) pr.importsOf (pr.subs.length + 2) pr.mainImports
  simp only at h
  unfold progY at he ⊢
  simp only [hf, Bool.false_eq_true, if_false] at he ⊢
  generalize pr.mainImports.foldl
    (importY Generated.C15.execFacts.importSrc (pr.ownY Generated.C15.execFacts) pr.importsOf (pr.subs.length + 2)) {} = st at h he ⊢
  by_cases hs : st.err = true
  · simp [hs] at he
  · simp only [hs, Bool.false_eq_true, if_false] at he ⊢
    exact ⟨st.seq, rfl, h.1, h.2.1, h.2.2 (by simpa using hs)⟩

/-- the order among packages that do not import each other is the interpreter's own (depth first,
    in the order of the import declarations); the toolchain sorts by import path. Not part of the
    property; recorded by the harness. `main` imports c, a, b; a imports b. -/
theorem package_order_witness :
    let pk (n : String) : Pkg := ⟨[⟨["X"], [⟨n, []⟩], false⟩], [], [], none⟩
    let pr : Prog := ⟨[⟨"a", ["b"], pk "a.X"⟩, ⟨"b", [], pk "b.X"⟩, ⟨"c", [], pk "c.X"⟩], ["c", "a", "b"],
                      ⟨[], [], [], some "main"⟩, false⟩
    (progY Expected.C15.execFacts pr).seq = ["c", "b", "a", "main"] ∧ (progGo pr).1 = ["b", "a", "c", "main"] := by
  decide

/-! ### witnesses: what the domain excludes are real differences (each is a listed finding, with
    the same input as replay) -/

private def v1 (n : String) (ids : List String) : VarSpec := ⟨[n], [⟨n, ⟨"lg", true⟩ :: ids.map (⟨·, true⟩)⟩], false⟩
private def helpers : List Func := [⟨"lg", []⟩, ⟨"two", [⟨"lg", true⟩]⟩]
private def facts := Expected.C15.execFacts

/-- F14: `var a = lg("a", f()); var b = lg("b"); func f() int { return b + 1 }` -/
def pkgThroughFunc : Pkg := ⟨[v1 "a" ["f"], v1 "b" []], helpers ++ [⟨"f", [⟨"b", true⟩]⟩], [], some "main"⟩
theorem through_function_witness :
    classify pkgThroughFunc = "dep-through-function" ∧
    runY facts pkgThroughFunc = ⟨["a", "b", "main"], false⟩ ∧ runGo pkgThroughFunc = ⟨["b", "a", "main"], false⟩ := by
  decide

/-- F15 (fixed) as a package: a←d, b←c, c, d with two init functions. Regression: the input is now
    in the domain of `init_order_partial` and the program logs what the specification prescribes
    (before the repair: class `overtake`, log `c d a b init0 init1 main`). -/
def pkgOvertake : Pkg := ⟨[v1 "a" ["d"], v1 "b" ["c"], v1 "c" [], v1 "d" []], helpers, ["init0", "init1"], some "main"⟩
example :
    classify pkgOvertake = "in-domain" ∧
    runY facts pkgOvertake = ⟨["c", "b", "d", "a", "init0", "init1", "main"], false⟩ ∧
    runGo pkgOvertake = ⟨["c", "b", "d", "a", "init0", "init1", "main"], false⟩ := by
  decide

/-- F15-1: `var c = lg("c", p); var p, q = two("p", d); var d = lg("d")` — the variables of a
    multi-value declaration are never a dependency -/
def pkgMulti : Pkg :=
  ⟨[v1 "c" ["p"], ⟨["p", "q"], [⟨"p", [⟨"two", true⟩, ⟨"d", true⟩]⟩], false⟩, v1 "d" []], helpers, [], some "main"⟩
theorem multi_value_witness :
    classify pkgMulti = "dep-on-multi-value-decl" ∧
    runY facts pkgMulti = ⟨["c", "d", "p", "main"], false⟩ ∧ runGo pkgMulti = ⟨["d", "p", "c", "main"], false⟩ := by
  decide

/-- F15-3: `var p, q = lg("p", c), lg("q"); var c = lg("c", q)` — one node for two variables: false loop -/
def pkgPaired : Pkg :=
  ⟨[⟨["p", "q"], [⟨"p", [⟨"lg", true⟩, ⟨"c", true⟩]⟩, ⟨"q", [⟨"lg", true⟩]⟩], false⟩, v1 "c" ["q"]], helpers, [], some "main"⟩
theorem paired_decl_witness :
    classify pkgPaired = "paired-decl" ∧
    runY facts pkgPaired = ⟨[], true⟩ ∧ runGo pkgPaired = ⟨["q", "c", "p", "main"], false⟩ := by
  decide

/-- F15-4: `var a = lg("a", func() int { b := 7; return b }()); var b = lg("b", a)` — a local
    variable named like a package-level one: false loop -/
def pkgShadow : Pkg :=
  ⟨[⟨["a"], [⟨"a", [⟨"lg", true⟩, ⟨"b", false⟩, ⟨"b", false⟩]⟩], false⟩, v1 "b" ["a"]], helpers, [], some "main"⟩
theorem false_dep_witness :
    classify pkgShadow = "false-dep" ∧
    runY facts pkgShadow = ⟨[], true⟩ ∧ runGo pkgShadow = ⟨["a", "b", "main"], false⟩ := by
  decide

/-- F15-5: `var _ = lg("x0"); var a = lg("a"); var _ = lg("x1", a)` -/
def pkgBlank : Pkg :=
  ⟨[⟨["_"], [⟨"x0", [⟨"lg", true⟩]⟩], false⟩, v1 "a" [], ⟨["_"], [⟨"x1", [⟨"lg", true⟩, ⟨"a", true⟩]⟩], false⟩], helpers, [], some "main"⟩
theorem dup_blank_witness :
    classify pkgBlank = "dup-blank" ∧
    runY facts pkgBlank = ⟨["a", "x1", "x0", "main"], false⟩ ∧ runGo pkgBlank = ⟨["x0", "a", "x1", "main"], false⟩ := by
  decide

/-- F15-6: `var a = lg("a", a)` — accepted; the specification makes it an initialization cycle -/
def pkgSelf : Pkg := ⟨[v1 "a" ["a"]], helpers, [], some "main"⟩
theorem self_ref_witness :
    classify pkgSelf = "self-ref" ∧
    runY facts pkgSelf = ⟨["a", "main"], false⟩ ∧ runGo pkgSelf = ⟨[], true⟩ := by
  decide

/-- F15-7: `var p, q = two("p")` with `two` declared later: rejected by gta -/
def pkgLate : Pkg := ⟨[⟨["p", "q"], [⟨"p", [⟨"two", true⟩]⟩], true⟩], helpers, [], some "main"⟩
theorem callee_later_witness :
    classify pkgLate = "multi-value-before-callee" ∧
    runY facts pkgLate = ⟨[], true⟩ ∧ runGo pkgLate = ⟨["p", "main"], false⟩ := by
  decide

/-- the full statement still fails (F14 and F15-1…7 remain) -/
theorem full_statement_fails : ¬ ∀ p : Pkg, runY facts p = runGo p := by
  intro h
  have := h pkgThroughFunc
  revert this
  decide

/-! ### the domain is not trivial -/

/-- a diamond with forward references and a pure function:
    `var a = lg("a", b, c); var b = lg("b", d); var c = lg("c", d, f()); var d = lg("d"); func f() int { return 1 }`
    is in the domain, and is *not* initialised in declaration order -/
def pkgDiamond : Pkg :=
  ⟨[v1 "a" ["b", "c"], v1 "b" ["d"], v1 "c" ["d", "f"], v1 "d" []], helpers ++ [⟨"f", []⟩], ["init0"], some "main"⟩
example : dom pkgDiamond = true ∧ runY facts pkgDiamond = ⟨["d", "b", "c", "a", "init0", "main"], false⟩ := by decide

/-- a cycle inside the domain: both reject -/
example : dom ⟨[v1 "a" ["b"], v1 "b" ["a"]], helpers, [], some "main"⟩ = true ∧
    runY facts ⟨[v1 "a" ["b"], v1 "b" ["a"]], helpers, [], some "main"⟩ = ⟨[], true⟩ := by decide

end YaegiVerif.Props.C15
