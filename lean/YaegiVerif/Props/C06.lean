import YaegiVerif.Model.Unwind
import YaegiVerif.Spec.GoDefer
import YaegiVerif.Expected.C06
import YaegiVerif.Generated.C06
import YaegiVerif.Proofs.C06Dom
import YaegiVerif.Proofs.C06Sim
import YaegiVerif.Proofs.C06Hang
import YaegiVerif.Proofs.C06Recover
import YaegiVerif.Proofs.C06Lifo
/-
  C06 — property theorems: panics, defers and recover follow Go semantics and never escape Eval.

  `runY F fuel p`   the model of yaegi's mechanism run with the facts F read from the source
  `Spec.run fuel p` the Go specification
  `fuel`            bound on the call depth (both sides answer `fuel` when it is exceeded; every theorem
                    holds for every fuel, `fuel_enough` shows the answer is not `fuel` for depth-bounded fuel)
-/
namespace YaegiVerif.Props.C06
open YaegiVerif YaegiVerif.Unwind
open YaegiVerif.Expected.C06 (facts)

/-- tie: the choices extracted from interp/run.go and interp/program.go are the ones the proofs use -/
theorem unwindfacts_tie : Generated.C06.facts = Expected.C06.facts := by decide

/-- tie: the extractor recognised every construct it looked for -/
theorem extraction_complete : Generated.C06.unrecognised = [] := by decide

/-- tie: the functions and blocks transcribed in Model/Unwind.lean are textually (modulo comments and
    layout) the ones the model was written from (runCfg's deferred function, the defer branches of
    call/callBin, genBuiltinDeferWrapper, genFunctionWrapper, runDeferred, getFunc, _recover, _panic, Execute,
    newFrame, clone);
    if this breaks the model must be re-validated (the check then relies on the correspondence run) -/
theorem source_tie : Generated.C06.sourceHashes = Expected.C06.sourceHashes := by decide

/-- The property at full strength over the whole mini-language (not provable for the unchanged code: F06-7,
    see `held_recover_witness`). -/
def C06_full_statement : Prop := ∀ (fuel : Nat) (p : Code), runY facts fuel p = Spec.run fuel p

/-- **Deferred calls run exactly once, last-in-first-out, with the arguments of the defer statement, on
    return and on panic — also when deferred calls panic themselves; recover stops a panic exactly where Go
    says and returns the very value that was raised; named results survive; an unrecovered panic comes back
    from Eval as an error carrying that value** — for every program of the mini-language in `Dom`, every call
    depth. `Dom` excludes one class only, the listed finding F06-7: a deferred function literal held as a value
    (variable, field, slice element) that calls `recover()` itself. -/
theorem defer_lifo_exactly_once_partial (fuel : Nat) (p : Code) (h : Dom p = true) :
    runY facts fuel p = Spec.run fuel p := by
  rw [runY_eq, specRun_eq, execFn_sim fuel p 0 Frame.fresh World.init h]
  simp only [Frame.fresh]
  rcases Spec.execFn fuel p 0 none 0 World.init with ⟨sig, c', o', rr, w'⟩
  rfl

/-- **The same at full strength — no domain** — for every program whose deferred callees are written at their
    defer statement (function literal, named function, value or pointer method, fmt.Println, delete, the
    panic builtin): any number of deferred calls may panic, with other deferred calls pending or not, in
    loops, nested at any depth; recovered values may be re-panicked, compared, type-asserted; `defer panic(v)`
    is deferred. (Until the repairs of F07, F06-3, F06-4 this needed `Dom` clauses / was outside the language.) -/
theorem defer_lifo_exactly_once (fuel : Nat) (p : Code) (h : noHeld p = true) :
    runY facts fuel p = Spec.run fuel p :=
  defer_lifo_exactly_once_partial fuel p (dom_of_noHeld p h)

/-- the fuel is only a technical bound: with more fuel than the depth of the call tree neither side
    ever stops early, so the equations above are about complete executions -/
theorem fuel_enough (fuel : Nat) (p : Code) (h : depth p < fuel) :
    (Spec.run fuel p).status ≠ .fuel ∧ (Spec.run fuel p).status ≠ .hang ∧
    (Dom p = true → (runY facts fuel p).status ≠ .fuel) := by
  have hs : (Spec.run fuel p).status ≠ .fuel ∧ (Spec.run fuel p).status ≠ .hang := by
    rw [specRun_eq]
    have := Spec.execFn_enough fuel p 0 none 0 World.init h
    generalize Spec.execFn fuel p 0 none 0 World.init = r at this ⊢
    obtain ⟨sig, c', o', rr, w'⟩ := r
    cases sig with
    | fuel => exact absurd rfl this
    | normal => simp [outcomeOf]
    | panic v => simp [outcomeOf]
  exact ⟨hs.1, hs.2, fun hd => by rw [defer_lifo_exactly_once_partial fuel p hd]; exact hs.1⟩

/-- the same statement about the facts regenerated from the repository on this run -/
theorem defer_lifo_exactly_once_generated (fuel : Nat) (p : Code) (h : Dom p = true) :
    runY Generated.C06.facts fuel p = Spec.run fuel p := by
  rw [unwindfacts_tie]; exact defer_lifo_exactly_once_partial fuel p h

/-! ### the domain is not empty, and what it excludes is real -/

/-- a function whose deferred closure recovers and alters the named result; callee defers a native
    print and a literal with the parameter as argument; nested deferred; a fault as panic source; a deferred
    literal that panics while three other deferred calls are pending; `defer panic`; a literal held in a variable -/
def exDom : Code :=
  .defer (.recover true (.setOuter 7 .done)) (.lit 0)            -- runs last: recovers, sets r
  (.deferBin "b" .param
  (.deferVar (.printArg .done) (.lit 4)
  (.defer (.panic (.int 2) .done) (.lit 0)
  (.deferPanic (.str "dp")
  (.call (.defer (.printArg .done) (.lit 3) (.print "in" .done)) (.lit 1) true
  (.setRes 5
  (.panic (.fault .nilMap) (.print "dead" .done))))))))

example : Dom exDom = true ∧ noHeld exDom = false ∧
    runY facts 5 exDom =
      ⟨[.print "in", .arg 3, .ret 0, .arg 4, .bin "b" 0, .recd (some (.int 2))], .ok, true⟩ := by decide

def progA : Code := .print "A" .done

/-- F07 (fixed) `defer A(); defer func(){ panic("B") }(); print("body")` -/
def progF07 : Code :=
  .defer progA (.lit 0) (.defer (.panic (.str "B") .done) (.lit 0) (.print "body" .done))

/-- F07 (fixed), second face: `defer func(){ print(recover()) }(); defer func(){ panic("second") }(); panic("first")` -/
def progF07rec : Code :=
  .defer (.recover true .done) (.lit 0) (.defer (.panic (.str "second") .done) (.lit 0) (.panic (.str "first") .done))

/-- regression for F07 (fixed): A runs after the deferred literal panicked; a recover registered earlier sees the
    panic of the later deferred call — as the specification says -/
example :
    noHeld progF07 = true ∧
    runY facts 4 progF07 = ⟨[.print "body", .print "A"], .panicErr (some (.str "B")), true⟩ ∧
    Spec.run 4 progF07 = ⟨[.print "body", .print "A"], .panicErr (some (.str "B")), true⟩ ∧
    runY facts 4 progF07rec = ⟨[.recd (some (.str "second"))], .ok, true⟩ ∧
    Spec.run 4 progF07rec = ⟨[.recd (some (.str "second"))], .ok, true⟩ := by decide

/-- the fact is load-bearing: with the loop body of before the repair (`val[0].Call(val[1:])` in place) the
    model skips the pending deferred calls — what the interpreter used to do -/
example :
    runY { facts with deferredProtected := false } 4 progF07 = ⟨[.print "body"], .panicErr (some (.str "B")), true⟩ ∧
    runY { facts with deferredProtected := false } 4 progF07rec = ⟨[], .panicErr (some (.str "second")), true⟩ ∧
    runY Expected.C06.factsRound1 4 progF07 = ⟨[.print "body"], .panicErr (some (.re (.str "B"))), true⟩ := by decide

/-- F06-1 (fixed) `r = 1; defer fmt.Println("b", r); r = 2` -/
def progArgRef : Code := .setRes 1 (.deferBin "b" .res (.setRes 2 .done))

/-- the same through a deferred interpreted function, which also alters the result afterwards:
    `r = 1; defer func(a int) (_ int) { fmt.Println("a", a) }(r); r = 2` -/
def progArgRefSrc : Code := .setRes 1 (.defer (.printArg .done) .res (.setRes 2 .done))

/-- regression for F06-1 (fixed): the deferred calls see the value the variable had at the defer statement -/
example :
    (runY facts 3 progArgRef).out = [.bin "b" 1] ∧ (Spec.run 3 progArgRef).out = [.bin "b" 1] ∧
    (runY facts 3 progArgRefSrc).out = [.arg 1] ∧ (Spec.run 3 progArgRefSrc).out = [.arg 1] := by decide

/-- the fact is load-bearing: the model run with the facts of the source before the repair (the site stores
    the frame slot) reads the variable when the deferred call runs — what the interpreter used to do -/
example :
    (runY { facts with argsByRefBin := true } 3 progArgRef).out = [.bin "b" 2] ∧
    (runY { facts with argsByRefCall := true } 3 progArgRefSrc).out = [.arg 2] := by decide

/-- **Arguments are those of the defer statement**: for every pair of values and both kinds of callee,
    `r = n; defer …(r); r = m` runs the deferred call with `n` -/
theorem defer_arg_fixed_at_statement (n m : Int) (k : Nat) :
    (runY facts (k + 2) (.setRes n (.deferBin "b" .res (.setRes m .done)))).out = [.bin "b" n] ∧
    (runY facts (k + 2) (.setRes n (.defer (.printArg .done) .res (.setRes m .done)))).out = [.arg n] := by
  constructor <;> rfl

/-- `defer fmt.Println([]interface{}{"t", 1, 2}...)` (eef6ac5): the slice is the list of variadic arguments -/
def progSpread : Code := .deferBinSpread "t" [1, 2] (.print "body" .done)

/-- regression: the deferred call prints `t 1 2`; without deferCallSlice at the site the slice was one argument (`[t 1 2]`) -/
example :
    runY facts 2 progSpread = ⟨[.print "body", .bins "t" [1, 2] true], .ok, true⟩ ∧
    Spec.run 2 progSpread = ⟨[.print "body", .bins "t" [1, 2] true], .ok, true⟩ ∧
    (runY { facts with spreadBin := false } 2 progSpread).out = [.print "body", .bins "t" [1, 2] false] := by decide

/-- F06-3 (fixed) through a re-panic: `defer func(){ if x := recover(); x != nil { panic(x) } }(); panic(143)` -/
def progRepanic : Code := .defer (.repanic .done) (.lit 0) (.panic (.int 143) .done)

/-- F06-3 (fixed), the replay of the finding: `defer func(){ r := recover(); s, ok := r.(string); … r == "x" }(); panic("x")` -/
def progRecIs : Code := .defer (.recoverIs (.str "x") .done) (.lit 0) (.panic (.str "x") .done)

/-- regression for F06-3 (fixed): Eval reports 143 itself after the re-panic; the recovered value is the string -/
example :
    (runY facts 3 progRepanic).status = .panicErr (some (.int 143)) ∧
    (Spec.run 3 progRepanic).status = .panicErr (some (.int 143)) ∧
    runY facts 3 progRecIs = ⟨[.recIs true], .ok, true⟩ ∧ Spec.run 3 progRecIs = ⟨[.recIs true], .ok, true⟩ := by decide

/-- the fact is load-bearing: with `panic(value(f))` the value is a reflect.Value — boxed once when recovered
    (the comparison fails), twice when re-panicked -/
example :
    (runY { facts with panicBoxed := true } 3 progRepanic).status = .panicErr (some (.re (.re (.int 143)))) ∧
    runY { facts with panicBoxed := true } 3 progRecIs = ⟨[.recIs false], .ok, true⟩ := by decide

/-- `var p *int; panic(p)`: a typed nil is a value like any other — recover() returns it (not nil), the comparison
    `x.(*int)` + `== nil` holds for that kind only, a re-panic hands it on, Eval reports it (seed C06-4) -/
example :
    runY facts 3 (.defer (.recoverIs (.tnil .ptr) (.recover true .done)) (.lit 0) (.panic (.tnil .ptr) .done)) =
      ⟨[.recIs true, .recd none], .ok, true⟩ ∧
    runY facts 3 (.defer (.recoverIs (.tnil .map) .done) (.lit 0) (.panic (.tnil .ptr) .done)) = ⟨[.recIs false], .ok, true⟩ ∧
    runY facts 3 (.defer (.repanic (.print "not reached" .done)) (.lit 0) (.panic (.tnil .slice) .done)) =
      ⟨[], .panicErr (some (.tnil .slice)), true⟩ ∧
    Spec.run 3 (.defer (.repanic (.print "not reached" .done)) (.lit 0) (.panic (.tnil .slice) .done)) =
      ⟨[], .panicErr (some (.tnil .slice)), true⟩ := by decide

/-- F06-4 (fixed) `defer func(){ fmt.Println("rec", recover()) }(); defer panic("dp"); fmt.Println("body")` -/
def progDeferPanic : Code :=
  .defer (.recover true .done) (.lit 0) (.deferPanic (.str "dp") (.print "body" .done))

/-- regression for F06-4 (fixed): the body goes on after `defer panic`, the panic is raised when the deferred
    calls run and the function deferred earlier recovers it; before the repair the builtin ran at the statement -/
example :
    runY facts 3 progDeferPanic = ⟨[.print "body", .recd (some (.str "dp"))], .ok, true⟩ ∧
    Spec.run 3 progDeferPanic = ⟨[.print "body", .recd (some (.str "dp"))], .ok, true⟩ ∧
    runY { facts with panicDeferrable := false } 3 progDeferPanic = ⟨[.recd (some (.str "dp"))], .ok, true⟩ := by decide

/-- F06-2 (fixed) `h := func(){ fmt.Println("h") }; defer h(); fmt.Println("body")` -/
def progHeld : Code := .deferVar (.print "h" .done) (.lit 0) (.print "body" .done)

/-- … and with a panic in flight, recovered by a function deferred earlier, the held literal altering the result -/
def progHeldPanic : Code :=
  .call (.defer (.recover true .done) (.lit 0) (.deferVar (.setOuter 9 .done) (.lit 0) (.panic (.str "x") .done)))
    (.lit 0) true .done

/-- regression for F06-2 (fixed twice: 2e388d6 releases the frame lock around the deferred calls, d26dd9e removes the
    lock from the wrapper of the held literal): Eval returns; before (lock held around the deferred calls AND taken by
    the wrapper after the call) the wrapper blocked: the output stops after `h`, Eval never returns -/
example :
    runY facts 3 progHeld = ⟨[.print "body", .print "h"], .ok, true⟩ ∧
    Spec.run 3 progHeld = ⟨[.print "body", .print "h"], .ok, true⟩ ∧
    runY facts 4 progHeldPanic = ⟨[.recd (some (.str "x")), .ret 9], .ok, true⟩ ∧
    Spec.run 4 progHeldPanic = ⟨[.recd (some (.str "x")), .ret 9], .ok, true⟩ ∧
    runY { facts with closureLocksDefiner := true,
                      exitSteps := [.lock, .assignRecovered, .runDeferred, .ifRecovered, .unlock] } 3 progHeld =
      ⟨[.print "body", .print "h"], .hang, false⟩ ∧
    -- each of the two repairs is enough on its own: the lock released around the deferred calls (2e388d6) …
    runY { facts with closureLocksDefiner := true } 3 progHeld = ⟨[.print "body", .print "h"], .ok, true⟩ ∧
    -- … or a wrapper that does not lock the defining frame (d26dd9e)
    runY { facts with exitSteps := [.lock, .assignRecovered, .runDeferred, .ifRecovered, .unlock] } 3 progHeld =
      ⟨[.print "body", .print "h"], .ok, true⟩ := by decide

/-- F06-7 (open) `h := func(){ fmt.Println("rec", recover()) }; defer h(); panic("x")` -/
def progHeldRec : Code := .deferVar (.recover true .done) (.lit 0) (.panic (.str "x") .done)

/-- F06-7: the held literal's frame hangs off the copy of the defining frame made when the literal was evaluated —
    its recover() finds no panic there; the specification makes no difference between a literal written at the
    defer statement and one held in a variable -/
theorem held_recover_witness :
    Dom progHeldRec = false ∧
    runY facts 3 progHeldRec = ⟨[.recd none], .panicErr (some (.str "x")), true⟩ ∧
    Spec.run 3 progHeldRec = ⟨[.recd (some (.str "x"))], .ok, true⟩ := by decide

theorem C06_full_statement_fails : ¬ C06_full_statement := by
  intro h
  have := h 3 progHeldRec
  revert this
  decide

/-! ### Eval always returns, never lets a panic escape, and the interpreter stays usable — for ALL programs -/

/-- **Eval returns, a panic never escapes it and the interpreter remains usable**, whatever the script does: for
    every program (inside or outside `Dom`) and every call depth, the modelled `Eval` does not block on a frame
    lock (F06-2), returns without a host crash, and leaves the root frame unlocked. -/
theorem eval_never_crashes (fuel : Nat) (p : Code) :
    (runY facts fuel p).status ≠ .crash ∧ (runY facts fuel p).status ≠ .hang ∧
    (runY facts fuel p).reusable = true := by
  rw [runY_eq]
  have hh := execFnY_nohang fuel p 0 Frame.fresh World.init rfl
  generalize execFnY facts fuel p 0 Frame.fresh World.init = r at hh ⊢
  obtain ⟨sig, root, rr, w'⟩ := r
  simp only at hh
  cases sig <;> simp [outcomeOf, hh]

/-- **An unrecovered panic is returned by Eval as an error carrying the original value** (and the output
    up to that point is the specified one, and the interpreter is reusable) — on `Dom`. -/
theorem eval_returns_panic (fuel : Nat) (p : Code) (v : Val) (h : Dom p = true)
    (hp : (Spec.run fuel p).status = .panicErr (some v)) :
    (runY facts fuel p).status = .panicErr (some v) ∧ (runY facts fuel p).reusable = true ∧
    (runY facts fuel p).out = (Spec.run fuel p).out := by
  rw [defer_lifo_exactly_once_partial fuel p h]
  exact ⟨hp, (defer_lifo_exactly_once_partial fuel p h ▸ (eval_never_crashes fuel p).2.2), rfl⟩

/-! ### recover, named results: schematic programs, all values -/

/-- **recover() returns the value the panic was raised with — the value itself, not something that prints like
    it**: for every raised value `v` and every value `v'` it is compared with (type assertion and `==`), the
    comparison in the recovering deferred function holds exactly when `v = v'`; and the value printed is `v`. -/
theorem recover_returns_panic_value (v v' : Val) (n : Nat) :
    runY facts (n + 3) (.defer (.recoverIs v' .done) (.lit 0) (.panic v .done)) = ⟨[.recIs (decide (v = v'))], .ok, true⟩ ∧
    runY facts (n + 3) (.defer (.recover true .done) (.lit 0) (.panic v .done)) = ⟨[.recd (some v)], .ok, true⟩ := by
  refine ⟨?_, rfl⟩
  show (⟨[.recIs (decide (some v = some v'))], .ok, true⟩ : Outcome) = _
  simp

/-- **a re-panic keeps the value**: `defer func(){ if x := recover(); x != nil { panic(x) } }()` — once, or twice
    nested — hands the value of the original panic to Eval, for every value -/
theorem repanic_keeps_value (v : Val) (n : Nat) :
    runY facts (n + 3) (.defer (.repanic .done) (.lit 0) (.panic v .done)) = ⟨[], .panicErr (some v), true⟩ ∧
    runY facts (n + 4) (.defer (.repanic .done) (.lit 0)
        (.call (.defer (.repanic .done) (.lit 0) (.panic v .done)) (.lit 0) false .done)) =
      ⟨[], .panicErr (some v), true⟩ := by
  constructor <;> rfl

/-- **a panic raised by a deferred call replaces the current one, and the deferred calls still pending run**:
    `defer func(){ fmt.Println("rec", recover()) }(); defer fmt.Println("b", 0); defer func(){ panic(q) }(); panic(v)`
    prints `b 0`, recovers `q` — for all values -/
theorem deferred_panic_replaces (v q : Val) (n : Nat) :
    runY facts (n + 3) (.defer (.recover true .done) (.lit 0) (.deferBin "b" (.lit 0)
        (.defer (.panic q .done) (.lit 0) (.panic v .done)))) =
      ⟨[.bin "b" 0, .recd (some q)], .ok, true⟩ := by rfl

/-- **`defer panic(q)` is deferred**: the body goes on, the panic is raised when the deferred calls run (replacing
    a panic of the body), the deferred calls registered earlier run and may recover it — for all values -/
theorem defer_panic_is_deferred (v q : Val) (n : Nat) :
    runY facts (n + 3) (.defer (.recover true .done) (.lit 0) (.deferPanic q (.print "body" .done))) =
      ⟨[.print "body", .recd (some q)], .ok, true⟩ ∧
    runY facts (n + 3) (.deferBin "b" (.lit 0) (.deferPanic q (.print "body" (.panic v .done)))) =
      ⟨[.print "body", .bin "b" 0], .panicErr (some q), true⟩ := by
  constructor <;> rfl

/-- a function that sets r := r0, panics with v, and whose deferred literal recovers and sets r := m,
    called by a function that prints the result -/
def progNamed (v : Val) (r0 m : Int) : Code :=
  .call (.defer (.recover false (.setOuter m .done)) (.lit 0) (.setRes r0 (.panic v .done))) (.lit 0) true
  (.print "after" .done)

/-- **recover lets named results be altered**: the caller of the recovered function sees the value the
    deferred closure assigned — for every panic value and every pair of results -/
theorem named_result_alterable (v : Val) (r0 m : Int) (n : Nat) :
    runY facts (n + 3) (progNamed v r0 m) = ⟨[.ret m, .print "after"], .ok, true⟩ ∧
    Spec.run (n + 3) (progNamed v r0 m) = ⟨[.ret m, .print "after"], .ok, true⟩ := by
  constructor <;> rfl

/-- without assignment in the deferred closure the recovered function returns the named result as the body left it -/
theorem named_result_kept (v : Val) (r0 : Int) (n : Nat) :
    runY facts (n + 3) (.call (.defer (.recover false .done) (.lit 0) (.setRes r0 (.panic v .done))) (.lit 0) true .done)
      = ⟨[.ret r0], .ok, true⟩ := by rfl

/-- a helper called by a deferred function gets nil, and the panic goes on -/
theorem recover_in_helper_nil (v : Val) (n : Nat) :
    runY facts (n + 4) (.defer (.call (.recover true .done) (.lit 0) false .done) (.lit 0) (.panic v .done))
      = ⟨[.recd none], .panicErr (some v), true⟩ := by rfl

/-- a deferred function of a (normally returning) deferred function gets nil, and the panic goes on -/
theorem recover_in_nested_defer_nil (v : Val) (n : Nat) :
    runY facts (n + 4) (.defer (.defer (.recover true .done) (.lit 0) .done) (.lit 0) (.panic v .done))
      = ⟨[.recd none], .panicErr (some v), true⟩ := by rfl

/-- called directly by the deferred function: gets the value, the panic stops, a second recover gets nil -/
theorem recover_direct_gets_value (v : Val) (n : Nat) :
    runY facts (n + 3) (.defer (.recover true (.recover true .done)) (.lit 0) (.panic v .done))
      = ⟨[.recd (some v), .recd none], .ok, true⟩ := by rfl

/-! ### recover placement, all programs -/

/-- **recover stops a panic only when called directly by a deferred function** — the converse half, for
    ALL programs (inside or outside `Dom`) and all call depths: if every `recover()` of the program is
    written in a function reached by an ordinary call (a helper, also one called by a deferred function,
    at any depth), then no `recover()` ever returns a non-nil value (so no panic is ever stopped). -/
theorem recover_direct_only (fuel : Nat) (p : Code) (h : helperOnly p true = true) :
    ∀ e ∈ (runY facts fuel p).out, (∀ v, e ≠ .recd (some v)) ∧ e ≠ .recIs true := by
  rw [out_of_runY]
  have hi := (execFnY_helper fuel p 0 Frame.fresh World.init true h (fun _ => rfl) rfl).1
  intro e he
  simp only [noSome, List.all_eq_true] at hi
  have := hi e he
  constructor
  · intro v hv
    subst hv
    simp [Event.notRecovered] at this
  · intro hv
    subst hv
    simp [Event.notRecovered] at this

/-- non-vacuity: helpers with recover under a deferred function of a panicking function -/
example : helperOnly (.defer (.call (.recover true .done) (.lit 0) false (.print "d" .done)) (.lit 0)
    (.panic (.str "x") .done)) true = true := by decide

/-! ### LIFO, exactly once, on return and on panic: every list of deferred calls -/

/-- **Exactly once, last-in-first-out, on normal return**: for every list of defer statements the output is
    the list reversed — in the specification and (by the refinement theorem) in the interpreter. -/
theorem lifo_on_return (ts : List String) (n : Nat) :
    runY facts (n + 1) (deferAll ts .done) = ⟨(ts.reverse.map fun t => Event.bin t 0), .ok, true⟩ := by
  rw [defer_lifo_exactly_once _ _ (noHeld_deferAll .done rfl ts)]
  simp only [Spec.run, Spec.execFn, spec_body_deferAll, Spec.execBody, pendingOf, List.append_nil]
  rw [← List.map_reverse, spec_runDefers_bins]
  simp [Spec.finish, World.init]

/-- **… and on panic**: the same deferred calls run, in the same order, exactly once, and the panic value
    reaches Eval unchanged — for every list and every value. -/
theorem lifo_on_panic (ts : List String) (v : Val) (n : Nat) :
    runY facts (n + 1) (deferAll ts (.panic v .done)) =
      ⟨(ts.reverse.map fun t => Event.bin t 0), .panicErr (some v), true⟩ := by
  rw [defer_lifo_exactly_once _ _ (noHeld_deferAll (.panic v .done) rfl ts)]
  simp only [Spec.run, Spec.execFn, spec_body_deferAll, Spec.execBody, pendingOf, List.append_nil]
  rw [← List.map_reverse, spec_runDefers_bins]
  simp [Spec.finish, World.init]

/-- **… and when one of the deferred calls panics itself**, with any number of deferred calls registered before
    and after it: every one of them still runs exactly once, in order, and the value of the last panic raised
    is the one Eval reports — for all lists and values. -/
theorem lifo_when_deferred_call_panics (ts us : List String) (v q : Val) (n : Nat) :
    runY facts (n + 2) (deferAll ts (.defer (.panic q .done) (.lit 0) (deferAll us (.panic v .done)))) =
      ⟨((us.reverse ++ ts.reverse).map fun t => Event.bin t 0), .panicErr (some q), true⟩ := by
  rw [defer_lifo_exactly_once _ _ (noHeld_deferAll _ (by
    simpa [noHeld] using noHeld_deferAll (.panic v .done) rfl us) ts)]
  simp only [Spec.run, Spec.execFn, spec_body_deferAll, Spec.execBody, Spec.push, Spec.evalArg, pendingOf,
    List.append_nil]
  rw [← List.map_reverse, spec_runDefers_bins_app]
  simp only [Spec.runDefers, Spec.execBody, Spec.finish]
  rw [← List.map_reverse, spec_runDefers_bins]
  simp [World.init]

end YaegiVerif.Props.C06
