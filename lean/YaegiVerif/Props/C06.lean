import YaegiVerif.Model.Unwind
import YaegiVerif.Spec.GoDefer
import YaegiVerif.Expected.C06
import YaegiVerif.Generated.C06
import YaegiVerif.Proofs.C06Dom
import YaegiVerif.Proofs.C06Sim
import YaegiVerif.Proofs.C06Recover
import YaegiVerif.Proofs.C06Lifo
/-
  C06 — property theorems: panics, defers and recover follow Go semantics and never escape Eval.

  `runY F fuel p`   the model of yaegi's mechanism run with the facts F read from the source
  `Spec.run fuel p` the Go specification
  `fuel`            bound on the call depth (both sides answer `fuel` when it is exceeded; every theorem
                    holds for every fuel, `fuel_enough` shows the answer is not `fuel` for depth-bounded fuel)
-/
namespace YaegiVerif.Props.C06
open YaegiVerif YaegiVerif.Unwind
open YaegiVerif.Expected.C06 (facts)

/-- tie: the choices extracted from interp/run.go and interp/program.go are the ones the proofs use -/
theorem unwindfacts_tie : Generated.C06.facts = Expected.C06.facts := by decide

/-- tie: the extractor recognised every construct it looked for -/
theorem extraction_complete : Generated.C06.unrecognised = [] := by decide

/-- tie: the functions and blocks transcribed in Model/Unwind.lean are textually (modulo comments and
    layout) the ones the model was written from (runCfg's deferred function, the defer branches of
    call/callBin, genBuiltinDeferWrapper, genFunctionWrapper, _recover, _panic, Execute, newFrame, clone);
    if this breaks the model must be re-validated (the check then relies on the correspondence run) -/
theorem source_tie : Generated.C06.sourceHashes = Expected.C06.sourceHashes := by decide

/-- The property at full strength (not provable for the unchanged code: see the witnesses below). -/
def C06_full_statement : Prop := ∀ (fuel : Nat) (p : Code), runY facts fuel p = Spec.run fuel p

/-- **Deferred calls run exactly once, last-in-first-out, with the arguments of the defer statement, on
    return and on panic; recover stops a panic exactly where Go says; named results survive; an
    unrecovered panic comes back from Eval as an error carrying the value** — for every program of the
    mini-language in `Dom` (no deferred callee that may panic while another deferred call of the same
    frame is pending; no re-panic of the recovered value), every call depth. Since the repair of F06-1
    the argument of a defer statement may be any expression of the mini-language, the named result
    variable included: the three sites copy it when the defer statement executes. -/
theorem defer_lifo_exactly_once_partial (fuel : Nat) (p : Code) (h : Dom p = true) :
    runY facts fuel p = Spec.run fuel p := by
  unfold runY Spec.run
  simp only [execBodyY, evalArg]
  rw [execFn_sim fuel p 0 Frame.fresh ⟨[], []⟩ h]
  have hn := Spec.execFn_none fuel p 0 0 ⟨[], []⟩
  simp only [Frame.fresh] at hn ⊢
  generalize Spec.execFn fuel p 0 none 0 ⟨[], []⟩ = r at hn ⊢
  obtain ⟨sig, c', o', rr, w'⟩ := r
  simp only at hn
  subst hn
  cases sig <;> simp [liftAnc, exitY_expected, runEntriesY, finishY, pendingOf]

/-- the fuel is only a technical bound: with more fuel than the depth of the call tree neither side
    ever answers `fuel`, so the equation above is about complete executions -/
theorem fuel_enough (fuel : Nat) (p : Code) (h : depth p < fuel) :
    (Spec.run fuel p).status ≠ .fuel ∧ (Dom p = true → (runY facts fuel p).status ≠ .fuel) := by
  have hs : (Spec.run fuel p).status ≠ .fuel := by
    unfold Spec.run
    have := Spec.execFn_enough fuel p 0 none 0 ⟨[], []⟩ h
    generalize Spec.execFn fuel p 0 none 0 ⟨[], []⟩ = r at this ⊢
    obtain ⟨sig, c', o', rr, w'⟩ := r
    cases sig with
    | fuel => exact absurd rfl this
    | normal => simp
    | panic v => simp
  exact ⟨hs, fun hd => by rw [defer_lifo_exactly_once_partial fuel p hd]; exact hs⟩

/-- the same statement about the facts regenerated from the repository on this run -/
theorem defer_lifo_exactly_once_generated (fuel : Nat) (p : Code) (h : Dom p = true) :
    runY Generated.C06.facts fuel p = Spec.run fuel p := by
  rw [unwindfacts_tie]; exact defer_lifo_exactly_once_partial fuel p h

/-! ### the domain is not empty, and what it excludes is real -/

/-- a function whose deferred closure recovers and alters the named result; callee defers a native
    print and a literal with the parameter as argument; nested deferred; a fault as panic source -/
def exDom : Code :=
  .defer (.recover true (.setOuter 7 .done)) (.lit 0)            -- runs last: recovers, sets r
  (.deferBin "b" .param
  (.call (.defer (.printArg .done) (.lit 3) (.print "in" .done)) (.lit 1) true
  (.setRes 5
  (.panic (.fault .nilMap) (.print "dead" .done)))))

example : Dom exDom = true ∧ mayPanic exDom = true ∧
    runY facts 5 exDom =
      ⟨[.print "in", .arg 3, .ret 0, .bin "b" 0, .recd (some (.fault .nilMap))], .ok, true⟩ := by decide

def progA : Code := .print "A" .done

/-- F07 `defer A(); defer func(){ panic("B") }(); print("body")` -/
def progF07 : Code :=
  .defer progA (.lit 0) (.defer (.panic (.str "B") .done) (.lit 0) (.print "body" .done))

/-- F07: the specification runs A after the deferred literal panicked, the interpreter never does -/
theorem deferred_panic_witness :
    Dom progF07 = false ∧
    runY facts 4 progF07 = ⟨[.print "body"], .panicErr (some (.str "B")), true⟩ ∧
    Spec.run 4 progF07 = ⟨[.print "body", .print "A"], .panicErr (some (.str "B")), true⟩ := by decide

/-- F07, second face: a recover registered earlier never gets to see the panic of a later deferred call -/
def progF07rec : Code :=
  .defer (.recover true .done) (.lit 0) (.defer (.panic (.str "second") .done) (.lit 0) (.panic (.str "first") .done))

theorem deferred_panic_recover_witness :
    runY facts 4 progF07rec = ⟨[], .panicErr (some (.str "second")), true⟩ ∧
    Spec.run 4 progF07rec = ⟨[.recd (some (.str "second"))], .ok, true⟩ := by decide

/-- F06-1 (fixed) `r = 1; defer fmt.Println("b", r); r = 2` -/
def progArgRef : Code := .setRes 1 (.deferBin "b" .res (.setRes 2 .done))

/-- the same through a deferred interpreted function, which also alters the result afterwards:
    `r = 1; defer func(a int) (_ int) { fmt.Println("a", a) }(r); r = 2` -/
def progArgRefSrc : Code := .setRes 1 (.defer (.printArg .done) .res (.setRes 2 .done))

/-- regression for F06-1 (fixed): the inputs are inside `Dom` now and the deferred calls see the value
    the variable had at the defer statement (before the repair: `Dom = false`, output `b 2` / `a 2`) -/
example :
    Dom progArgRef = true ∧
    (runY facts 3 progArgRef).out = [.bin "b" 1] ∧ (Spec.run 3 progArgRef).out = [.bin "b" 1] ∧
    Dom progArgRefSrc = true ∧
    (runY facts 3 progArgRefSrc).out = [.arg 1] ∧ (Spec.run 3 progArgRefSrc).out = [.arg 1] := by decide

/-- the fact is load-bearing: the model run with the facts of the source before the repair (the site stores
    the frame slot) reads the variable when the deferred call runs — what the interpreter used to do -/
example :
    (runY { facts with argsByRefBin := true } 3 progArgRef).out = [.bin "b" 2] ∧
    (runY { facts with argsByRefCall := true } 3 progArgRefSrc).out = [.arg 2] := by decide

/-- **Arguments are those of the defer statement**: for every pair of values and both kinds of callee,
    `r = n; defer …(r); r = m` runs the deferred call with `n` -/
theorem defer_arg_fixed_at_statement (n m : Int) (k : Nat) :
    (runY facts (k + 2) (.setRes n (.deferBin "b" .res (.setRes m .done)))).out = [.bin "b" n] ∧
    (runY facts (k + 2) (.setRes n (.defer (.printArg .done) .res (.setRes m .done)))).out = [.arg n] := by
  constructor <;> rfl

/-- F06-3 through a re-panic: `defer func(){ if x := recover(); x != nil { panic(x) } }(); panic(143)` —
    the value Eval reports has been boxed once more (it prints `<int Value>`) -/
def progRepanic : Code := .defer (.repanic .done) (.lit 0) (.panic (.int 143) .done)

theorem repanic_value_witness :
    Dom progRepanic = false ∧
    (runY facts 3 progRepanic).status = .panicErr (some (.re (.int 143))) ∧
    (Spec.run 3 progRepanic).status = .panicErr (some (.int 143)) := by decide

theorem C06_full_statement_fails : ¬ C06_full_statement := by
  intro h
  have := h 4 progF07
  revert this
  decide

/-! ### Eval never lets a panic escape, and the interpreter stays usable — for ALL programs -/

/-- **A panic never escapes Eval and the interpreter remains usable**, whatever the script does: for every
    program (inside or outside `Dom`, F07 included) and every call depth, the modelled `Eval` returns
    (no host crash) and leaves the root frame unlocked. -/
theorem eval_never_crashes (fuel : Nat) (p : Code) :
    (runY facts fuel p).status ≠ .crash ∧ (runY facts fuel p).reusable = true := by
  unfold runY
  simp only [execBodyY, evalArg]
  have ha := execFnY_anc facts fuel p 0 Frame.fresh ⟨[], []⟩
  generalize execFnY facts fuel p 0 Frame.fresh ⟨[], []⟩ = r at ha ⊢
  obtain ⟨sig, root, rr, w'⟩ := r
  obtain ⟨rd, rrec, rres, rl⟩ := root
  simp only [Frame.fresh] at ha
  obtain ⟨h1, h2⟩ := ha
  subst h1; subst h2
  cases sig with
  | fuel => simp [exitY_expected]
  | normal => cases rrec <;> simp [exitY_expected, runEntriesY, finishY, pendingOf]
  | panic v => cases rrec <;> simp [exitY_expected, runEntriesY, finishY, pendingOf]

/-- **An unrecovered panic is returned by Eval as an error carrying the original value** (and the output
    up to that point is the specified one, and the interpreter is reusable) — on `Dom`. -/
theorem eval_returns_panic (fuel : Nat) (p : Code) (v : Val) (h : Dom p = true)
    (hp : (Spec.run fuel p).status = .panicErr (some v)) :
    (runY facts fuel p).status = .panicErr (some v) ∧ (runY facts fuel p).reusable = true ∧
    (runY facts fuel p).out = (Spec.run fuel p).out := by
  rw [defer_lifo_exactly_once_partial fuel p h]
  exact ⟨hp, (defer_lifo_exactly_once_partial fuel p h ▸ (eval_never_crashes fuel p).2), rfl⟩

/-! ### recover, named results: schematic programs, all values -/

/-- a function that sets r := r0, panics with v, and whose deferred literal recovers and sets r := m,
    called by a function that prints the result -/
def progNamed (v : Val) (r0 m : Int) : Code :=
  .call (.defer (.recover false (.setOuter m .done)) (.lit 0) (.setRes r0 (.panic v .done))) (.lit 0) true
  (.print "after" .done)

/-- **recover lets named results be altered**: the caller of the recovered function sees the value the
    deferred closure assigned — for every panic value and every pair of results -/
theorem named_result_alterable (v : Val) (r0 m : Int) (n : Nat) :
    runY facts (n + 3) (progNamed v r0 m) = ⟨[.ret m, .print "after"], .ok, true⟩ ∧
    Spec.run (n + 3) (progNamed v r0 m) = ⟨[.ret m, .print "after"], .ok, true⟩ := by
  constructor <;> rfl

/-- without assignment in the deferred closure the recovered function returns the named result as the body left it -/
theorem named_result_kept (v : Val) (r0 : Int) (n : Nat) :
    runY facts (n + 3) (.call (.defer (.recover false .done) (.lit 0) (.setRes r0 (.panic v .done))) (.lit 0) true .done)
      = ⟨[.ret r0], .ok, true⟩ := by rfl

/-- a helper called by a deferred function gets nil, and the panic goes on -/
theorem recover_in_helper_nil (v : Val) (n : Nat) :
    runY facts (n + 4) (.defer (.call (.recover true .done) (.lit 0) false .done) (.lit 0) (.panic v .done))
      = ⟨[.recd none], .panicErr (some v), true⟩ := by rfl

/-- a deferred function of a (normally returning) deferred function gets nil, and the panic goes on -/
theorem recover_in_nested_defer_nil (v : Val) (n : Nat) :
    runY facts (n + 4) (.defer (.defer (.recover true .done) (.lit 0) .done) (.lit 0) (.panic v .done))
      = ⟨[.recd none], .panicErr (some v), true⟩ := by rfl

/-- called directly by the deferred function: gets the value, the panic stops, a second recover gets nil -/
theorem recover_direct_gets_value (v : Val) (n : Nat) :
    runY facts (n + 3) (.defer (.recover true (.recover true .done)) (.lit 0) (.panic v .done))
      = ⟨[.recd (some v), .recd none], .ok, true⟩ := by rfl

/-! ### recover placement, all programs -/

/-- **recover stops a panic only when called directly by a deferred function** — the converse half, for
    ALL programs (inside or outside `Dom`) and all call depths: if every `recover()` of the program is
    written in a function reached by an ordinary call (a helper, also one called by a deferred function,
    at any depth), then no `recover()` ever returns a non-nil value (so no panic is ever stopped). -/
theorem recover_direct_only (fuel : Nat) (p : Code) (h : helperOnly p true = true) :
    ∀ e ∈ (runY facts fuel p).out, ∀ v, e ≠ .recd (some v) := by
  rw [out_of_runY]
  have hi := (execFnY_helper fuel p 0 Frame.fresh ⟨[], []⟩ true h (fun _ => rfl) rfl).1
  intro e he v hv
  simp only [noSome, List.all_eq_true] at hi
  have := hi e he
  subst hv
  simp [Event.notRecovered] at this

/-- non-vacuity: helpers with recover under a deferred function of a panicking function -/
example : helperOnly (.defer (.call (.recover true .done) (.lit 0) false (.print "d" .done)) (.lit 0)
    (.panic (.str "x") .done)) true = true := by decide

/-! ### LIFO, exactly once, on return and on panic: every list of deferred calls -/

/-- **Exactly once, last-in-first-out, on normal return**: for every list of defer statements the output is
    the list reversed — in the specification and (by the refinement theorem) in the interpreter. -/
theorem lifo_on_return (ts : List String) (n : Nat) :
    runY facts (n + 1) (deferAll ts .done) = ⟨(ts.reverse.map fun t => Event.bin t 0), .ok, true⟩ := by
  rw [defer_lifo_exactly_once_partial _ _ (dom_deferAll .done (fun _ => rfl) ts false)]
  simp only [Spec.run, Spec.execFn, spec_body_deferAll, Spec.execBody, pendingOf, List.append_nil]
  rw [← List.map_reverse, spec_runDefers_bins]
  simp [Spec.finish]

/-- **… and on panic**: the same deferred calls run, in the same order, exactly once, and the panic value
    reaches Eval unchanged — for every list and every value. -/
theorem lifo_on_panic (ts : List String) (v : Val) (n : Nat) :
    runY facts (n + 1) (deferAll ts (.panic v .done)) =
      ⟨(ts.reverse.map fun t => Event.bin t 0), .panicErr (some v), true⟩ := by
  rw [defer_lifo_exactly_once_partial _ _ (dom_deferAll (.panic v .done) (fun _ => rfl) ts false)]
  simp only [Spec.run, Spec.execFn, spec_body_deferAll, Spec.execBody, pendingOf, List.append_nil]
  rw [← List.map_reverse, spec_runDefers_bins]
  simp [Spec.finish]

end YaegiVerif.Props.C06
