import YaegiVerif.Model.Boundary
import YaegiVerif.Expected.C07
import YaegiVerif.Generated.C07
import YaegiVerif.Proofs.C07Marshal
import YaegiVerif.Proofs.C07Call
/-
  C07 — values and calls cross the host/script boundary unchanged: property theorems.

  Contract (Spec): a value that crosses the boundary in either direction denotes the same abstract datum
  (`fromHost (toHost v) = v`); a call through the boundary is the inner call on copied arguments.
  The theorems are about the executable model `Boundary`, run with the facts regenerated from interp/run.go.
-/
namespace YaegiVerif.Props.C07
open YaegiVerif YaegiVerif.Boundary

abbrev E : Facts := Expected.C07.facts

/-! ### ties -/

/-- the arms of callBin's per-argument switch (in order), the receiver-offset rule, the variadic index, Call versus
    CallSlice, the index expressions of the result stores and the shape of genFunctionWrapper / getFunc read from the
    current source are the ones the proofs use -/
theorem facts_tie : Generated.C07.facts = Expected.C07.facts := by decide

/-- the extractor recognised every construct it looked at -/
theorem extraction_complete : Generated.C07.notes = [] := by decide

/-- the functions transcribed in Model/Boundary.lean are textually (modulo comments and layout) the ones the model was
    written from -/
theorem source_tie : Expected.C07.hashesReviewed Generated.C07.sourceHashes = true := by decide

/-! ### marshalling: the identity contract -/

/-- **Round trip**: for every shape of the type grammar and every datum of that shape, reading back what the host is
    given yields the datum (structural induction over the grammar: basic kinds, structs, pointers, arrays, slices, maps,
    functions — interpreted declarations, closures, host functions —, interfaces, named types). -/
theorem marshal_roundtrip (t : Ty) (v : Val t) : fromHost t (toHost t v) = some v := fromHost_toHost t v

/-- the script's own representation (with `*node`, `valueInterface` boxes and `_Iface` wrappers) denotes the same datum:
    boxes are transparent, a `*node` and its reflect.MakeFunc wrapper are the same function -/
theorem script_rep_denotes (t : Ty) (v : Val t) : fromHost t (srep t v) = some v := fromHost_srep t v

/-- both directions compose: host → script → host and script → host → script -/
theorem marshal_roundtrip_both (t : Ty) (v : Val t) :
    (fromHost t (toHost t v)).bind (fun w => fromHost t (srep t w)) = some v := by
  rw [marshal_roundtrip]; exact script_rep_denotes t v

/-- on types without functions and interfaces inside, the frame value IS the host value: nothing to prepare -/
theorem plain_needs_no_marshalling (t : Ty) (h : Plain t = true) (v : Val t) : srep t v = toHost t v :=
  srep_eq_toHost t h v

/-- non-vacuity: a struct with a map of slices of pointers and a nested named host struct is plain; a function-typed
    field is not -/
example : Plain (.struct (.cons (.map (.basic .string) (.slice (.ptr (.basic .int))))
    (.cons (.named .host true (.struct (.cons (.basic .float) .nil))) .nil))) = true ∧
    Plain (.struct (.cons (.func .nil .nil false) .nil)) = false := by decide

/-! ### callBin: the argument-preparation table -/

/-- the table, spelled out (what the ordered arms compute) -/
theorem argPrep_table (a : ArgTy) :
    argPrepY E.arms a =
      if a.emptyIface then .raw
      else if a.ifaceSrc then .unwrap
      else if a.funcSrc then .funcWrap
      else if a.arrayOrVariadic then (if a.elemEmptyIface then .derefArray else .ifaceWrap)
      else if a.ptrSrc then (if a.elemValueT then .raw else .ifaceWrap)
      else if a.valueT then .raw
      else .ifaceWrap := by
  simp only [argPrepY, firstArm, E, Expected.C07.facts, Guard.holds]
  cases a.emptyIface <;> cases a.ifaceSrc <;> cases a.funcSrc <;> cases a.arrayOrVariadic <;> cases a.ptrSrc <;>
    cases a.valueT <;> simp [Effect.resolve]

/-- the kind of parameter genInterfaceWrapper is told about: for an element of a variadic parameter callBin passes
    `funcType.In(variadic)` — the slice type — unless `defTypeElem` -/
def defKindY (f : Facts) (variadicElem : Bool) (p : ParamKind) : ParamKind :=
  if variadicElem && !f.defTypeElem then .concrete else p

/-- what the host parameter receives -/
def prepareArgY (f : Facts) (a : ArgTy) (variadicElem : Bool) (p : ParamKind) (r : Rep) : Rep :=
  applyPrep (argPrepY f.arms a) (defKindY f variadicElem p) r

/-- The situations of an argument: its static class (as callBin's predicates see it) together with the shape of its
    frame representation (as `srep` produces it at top level). -/
inductive ArgSit where
  | emptyNil | emptyDyn (d : Dyn) | emptyBoxed (d : Dyn)   -- interface{}: nil / a concrete value / a methodful interpreted value (valueInterface)
  | sifaceNil | sifaceVal (d : Dyn)                        -- script-declared interface: valueInterface{node, v}
  | fnNil | fnDecl (id : Nat) | fnClosure (id : Nat) | fnHost (id : Nat)
  | arrEmptyIface (xs : RepL) | arrOther (xs : RepL)       -- [n]interface{} / other array
  | ptrHost (x : Rep) | ptrScript (x : Rep)                -- *hostT / *scriptT
  | hostVal (x : Rep) | hostDyn (d : Dyn)                  -- value of a host-declared type (plain data / seen as a dynamic value)
  | plainData (x : Rep)                                    -- value of a script type: data
  | concreteDyn (d : Dyn)                                  -- value of a script or basic type seen as a dynamic value (interface parameter)

def ArgSit.ty : ArgSit → ArgTy
  | .emptyNil | .emptyDyn _ | .emptyBoxed _ => { emptyIface := true, ifaceSrc := true }
  | .sifaceNil | .sifaceVal _ => { ifaceSrc := true }
  | .fnNil | .fnDecl _ | .fnClosure _ | .fnHost _ => { funcSrc := true }
  | .arrEmptyIface _ => { arrayOrVariadic := true, elemEmptyIface := true }
  | .arrOther _ => { arrayOrVariadic := true }
  | .ptrHost _ => { ptrSrc := true, elemValueT := true }
  | .ptrScript _ => { ptrSrc := true }
  | .hostVal _ | .hostDyn _ => { valueT := true }
  | .plainData _ | .concreteDyn _ => {}

def ArgSit.rep : ArgSit → Rep
  | .emptyNil => .nil | .emptyDyn d => .dyn d | .emptyBoxed d => .vi (.dyn d)
  | .sifaceNil => .nil | .sifaceVal d => .vi (.dyn d)
  | .fnNil => .nil | .fnDecl id => .node id | .fnClosure id => .mkfunc id true | .fnHost id => .native id
  | .arrEmptyIface xs => .tuple xs | .arrOther xs => .tuple xs
  | .ptrHost x => .ptr x | .ptrScript x => .ptr x
  | .hostVal x => x | .hostDyn d => .dyn d
  | .plainData x => x | .concreteDyn d => .dyn d

/-- Go's typing of the call: the parameter kinds an argument in this situation can meet -/
def ArgSit.compat : ArgSit → ParamKind → Bool
  | .sifaceNil, _ | .sifaceVal _, _ | .hostDyn _, _ | .concreteDyn _, _ => true
  | _, .hostIface => false
  | _, _ => true

/-- **Domain** of the partial theorem (decidable). It excludes exactly three shapes —
    (1) a methodful interpreted value held in an `interface{}` (`emptyBoxed`: boxed in a valueInterface, passed raw),
    (2) a script-declared interface value holding an interpreted value, given to a host interface (unboxed, never wrapped),
    (3) an interpreted value written as an element of a variadic host-interface parameter (the wrapper target is the slice type)
    — and asks composite data to be free of boxes below the top level (the preparation is shallow). -/
def ArgSit.dom (ve : Bool) (p : ParamKind) : ArgSit → Bool
  | .emptyBoxed _ => false
  | .sifaceVal d => !(p == .hostIface && d.interp)
  | .concreteDyn d => !(p == .hostIface && ve && d.interp)
  | .hostDyn d => !d.interp
  | .arrEmptyIface xs | .arrOther xs => hostCleanL xs
  | .ptrHost x | .ptrScript x | .hostVal x | .plainData x =>
      hostClean x && (match x with | .node _ => false | .vi _ => false | _ => true)
  | _ => true

theorem hostClean_top (x : Rep) (h : (hostClean x && (match x with | .node _ => false | .vi _ => false | _ => true)) = true) :
    hostClean x = true ∧ hostAssignable .concrete x = true ∧ hostAssignable .emptyIface x = true := by
  cases x <;> simp_all [hostClean, hostAssignable]

/-- **Argument preparation is correct** on the domain: for every situation of an argument (static class × frame
    representation), every kind of host parameter Go allows for it, as a fixed argument or as a variadic element, the
    value callBin prepares is assignable to the host parameter (reflect's rule), contains nothing the host cannot use
    (no `*node`, no `valueInterface`) and stands for the same datum. -/
theorem argprep_correct_partial (s : ArgSit) (ve : Bool) (p : ParamKind)
    (hc : s.compat p = true) (hd : s.dom ve p = true) :
    let h := prepareArgY E s.ty ve p s.rep
    hostAssignable p h = true ∧ hostClean h = true ∧ datum h = datum s.rep := by
  simp only [prepareArgY, argPrep_table]
  have hE : E.defTypeElem = false := rfl
  cases s with
  | emptyNil | fnNil | sifaceNil =>
    cases p <;> cases ve <;> simp_all [ArgSit.ty, ArgSit.rep, ArgSit.compat, applyPrep, stripVi, hostAssignable, hostClean, datum]
  | emptyDyn d =>
    cases p <;> cases ve <;> simp_all [ArgSit.ty, ArgSit.rep, ArgSit.compat, applyPrep, hostAssignable, hostClean, datum]
  | emptyBoxed d => simp [ArgSit.dom] at hd
  | sifaceVal d =>
    cases p <;> cases ve <;> cases hi : d.interp <;>
      simp_all [ArgSit.ty, ArgSit.rep, ArgSit.dom, applyPrep, stripVi, hostAssignable, hostClean, datum]
  | fnDecl id | fnClosure id | fnHost id =>
    cases p <;> cases ve <;> simp_all [ArgSit.ty, ArgSit.rep, ArgSit.compat, applyPrep, hostAssignable, hostClean, datum]
  | arrEmptyIface xs | arrOther xs =>
    cases p <;> cases ve <;>
      simp_all [ArgSit.ty, ArgSit.rep, ArgSit.compat, ArgSit.dom, applyPrep, genInterfaceWrapperY, defKindY, hostAssignable, hostClean, datum]
  | ptrHost x | ptrScript x =>
    have hx := hostClean_top x (by simpa [ArgSit.dom] using hd)
    cases p <;> cases ve <;>
      simp_all [ArgSit.ty, ArgSit.rep, ArgSit.compat, applyPrep, genInterfaceWrapperY, defKindY, hostAssignable, hostClean, datum]
  | hostVal x | plainData x =>
    have hx := hostClean_top x (by simpa [ArgSit.dom] using hd)
    cases p <;> cases ve <;>
      simp_all [ArgSit.ty, ArgSit.rep, ArgSit.compat, applyPrep, genInterfaceWrapperY, defKindY, hostAssignable]
  | hostDyn d =>
    cases p <;> cases ve <;>
      simp_all [ArgSit.ty, ArgSit.rep, ArgSit.dom, applyPrep, hostAssignable, hostClean, datum]
  | concreteDyn d =>
    cases p <;> cases ve <;> cases hi : d.interp <;>
      simp_all [ArgSit.ty, ArgSit.rep, ArgSit.dom, applyPrep, genInterfaceWrapperY, defKindY, stripVi, hostAssignable, hostClean, datum]

/-- … and therefore for the table regenerated from the current source -/
theorem argprep_generated (s : ArgSit) (ve : Bool) (p : ParamKind) (hc : s.compat p = true) (hd : s.dom ve p = true) :
    let h := prepareArgY Generated.C07.facts s.ty ve p s.rep
    hostAssignable p h = true ∧ hostClean h = true ∧ datum h = datum s.rep := by
  rw [facts_tie]; exact argprep_correct_partial s ve p hc hd

/-- the full-strength statement: every situation Go's typing allows is handled -/
def ArgPrepFull : Prop :=
  ∀ (s : ArgSit) (ve : Bool) (p : ParamKind), s.compat p = true →
    (∀ xs, s = .arrEmptyIface xs ∨ s = .arrOther xs → hostCleanL xs = true) →
    (∀ x, s = .ptrHost x ∨ s = .ptrScript x ∨ s = .hostVal x ∨ s = .plainData x → hostClean x = true) →
    (∀ d, s = .hostDyn d → d.interp = false) →
    let h := prepareArgY E s.ty ve p s.rep
    hostAssignable p h = true ∧ hostClean h = true

def interpStringer : Dyn := { tid := 1, interp := true, methods := true, payload := 7 }

/-- (1) `var e interface{} = T{…}` (T interpreted, with methods) passed to a host `interface{}` parameter: the host
    receives the valueInterface box (finding F07-9) -/
theorem methodful_in_empty_witness :
    hostClean (prepareArgY E (ArgSit.emptyBoxed interpStringer).ty false .emptyIface (ArgSit.emptyBoxed interpStringer).rep) = false := by
  decide

/-- (2) `var s MyStringer = T{…}; host.Take(s)` with `Take(fmt.Stringer)`: unboxed, not wrapped — reflect refuses the
    call (finding F07-8) -/
theorem script_iface_witness :
    hostAssignable .hostIface (prepareArgY E (ArgSit.sifaceVal interpStringer).ty false .hostIface (ArgSit.sifaceVal interpStringer).rep) = false := by
  decide

/-- (3) `host.Takes(T{…})` with `Takes(...fmt.Stringer)`: the wrapper target is `[]fmt.Stringer`, so no wrapper is built
    (finding F07-13); as a fixed argument the same value is wrapped -/
theorem variadic_elem_witness :
    hostAssignable .hostIface (prepareArgY E (ArgSit.concreteDyn interpStringer).ty true .hostIface (ArgSit.concreteDyn interpStringer).rep) = false ∧
    prepareArgY E (ArgSit.concreteDyn interpStringer).ty false .hostIface (ArgSit.concreteDyn interpStringer).rep = .iwrap (.dyn interpStringer) :=
  ⟨by decide, rfl⟩

theorem argprep_full_fails : ¬ ArgPrepFull := by
  intro h
  have := (h (.emptyBoxed interpStringer) false .emptyIface rfl (by intro xs hx; rcases hx with hx | hx <;> cases hx)
    (by intro x hx; rcases hx with hx | hx | hx | hx <;> cases hx) (by intro d hd; cases hd)).2
  rw [methodful_in_empty_witness] at this
  cases this

/-- non-vacuity: an interpreted Stringer written directly as a fixed argument of a `fmt.Stringer` parameter is in the
    domain, and gets its `_Iface` wrapper -/
example : (ArgSit.concreteDyn interpStringer).compat .hostIface = true ∧
    (ArgSit.concreteDyn interpStringer).dom false .hostIface = true ∧
    prepareArgY E (ArgSit.concreteDyn interpStringer).ty false .hostIface (ArgSit.concreteDyn interpStringer).rep
      = .iwrap (.dyn interpStringer) := ⟨by decide, by decide, rfl⟩

/-- the preparation table agrees with the type grammar: for a plain type handed to a parameter of the same type, what the
    host receives is `toHost` of the datum -/
theorem marshal_plain_correct (t : Ty) (hp : Plain t = true) (v : Val t)
    (hraw : argPrepY E.arms (classify t) = .raw ∨ argPrepY E.arms (classify t) = .ifaceWrap) :
    prepareArgY E (classify t) false .concrete (srep t v) = toHost t v := by
  unfold prepareArgY
  rcases hraw with h | h <;> rw [h] <;> simp [applyPrep, genInterfaceWrapperY, defKindY] <;> exact srep_eq_toHost t hp v

/-! ### callBin: receiver offset -/

/-- the rule, spelled out -/
theorem rcvrOffset_rule (hasRecv recvIsIface methodValue isVariadic : Bool) (numIn nArgs : Nat) :
    rcvrOffsetY E hasRecv recvIsIface methodValue isVariadic numIn nArgs =
      if hasRecv && !methodValue && !recvIsIface then
        (if (decide ((if isVariadic then (numIn : Int) - 1 else -1) > 0) || decide (numIn > nArgs)) then 1 else 0)
      else 0 := by
  simp [rcvrOffsetY, variadicIdxY, CExpr.eval, E, Expected.C07.facts]

/-- **Receiver offset**, method of a host value selected at the call, whose reflected signature starts with the receiver
    (`reflect.Type.Method(i).Type`, every non-interface type): for every number of parameters, every variadic position
    and every number of arguments Go accepts (a nested multi-value call may stand for several parameters), the offset is 1. -/
theorem rcvr_offset_correct (isVariadic : Bool) (nParams nArgs : Nat)
    (hv : isVariadic = true → nParams ≥ 1) (hn : isVariadic = false → nArgs ≤ nParams) :
    rcvrOffsetY E true false false isVariadic (nParams + 1) nArgs = 1 := by
  rw [rcvrOffset_rule]
  cases isVariadic with
  | true => have := hv rfl; simp; omega
  | false => have := hn rfl; simp; omega

/-- a function value, a package function, a method called through an interface value, a variable holding a METHOD VALUE
    (`mv := c.M; mv(…)`: the signature of `v.Method(i)` has no receiver; repair b1e4f7b of F07-3): the offset is 0, whatever the
    arity, the variadic position and the number of arguments -/
theorem rcvr_offset_none (hasRecv recvIsIface methodValue isVariadic : Bool) (numIn nArgs : Nat)
    (h : hasRecv = false ∨ recvIsIface = true ∨ methodValue = true) :
    rcvrOffsetY E hasRecv recvIsIface methodValue isVariadic numIn nArgs = 0 := by
  rw [rcvrOffset_rule]; rcases h with h | h | h <;> simp [h]

/-- **Receiver offset, FULL**: the offset is 1 exactly when the reflected signature starts with the receiver — a method of a
    non-interface host value selected at the call —, for every arity, variadic position and argument count -/
def RcvrOffsetFull (f : Facts) : Prop :=
  ∀ (isVariadic recvInSig : Bool) (nParams nArgs : Nat), (isVariadic = true → nParams ≥ 1) → (isVariadic = false → nArgs ≤ nParams) →
    rcvrOffsetY f true false (!recvInSig) isVariadic (nParams + (if recvInSig then 1 else 0)) nArgs = (if recvInSig then 1 else 0)

theorem rcvr_offset_full : RcvrOffsetFull E := by
  intro isVariadic recvInSig nParams nArgs hv hn
  cases recvInSig with
  | true => simpa using rcvr_offset_correct isVariadic nParams nArgs hv hn
  | false => simpa using rcvr_offset_none true false true isVariadic nParams nArgs (Or.inr (Or.inr rfl))

theorem rcvr_offset_generated : RcvrOffsetFull Generated.C07.facts := by
  rw [facts_tie]; exact rcvr_offset_full

/-- the guard before b1e4f7b (no `c0.action == aGetMethod`) -/
def preMethodValueGuard : Facts := { E with recvGuardGetMethod := false }

/-- regression F07-3 — `mv := c.Mix; mv(a, b, s, rest...)` with `Mix(a int8, b float64, s string, rest ...uint16)`: the offset was 1
    although the signature has no receiver, every constant argument was converted to the type of the NEXT parameter -/
theorem rcvr_offset_method_value_regression :
    rcvrOffsetY preMethodValueGuard true false true true 4 4 = 1 ∧
    argTypeIndexY preMethodValueGuard true 4 (rcvrOffsetY preMethodValueGuard true false true true 4 4) 1 = (2, false) ∧
    rcvrOffsetY E true false true true 4 4 = 0 ∧
    argTypeIndexY E true 4 (rcvrOffsetY E true false true true 4 4) 1 = (1, false) ∧ typeIndexSpec true 4 0 1 = (1, false) ∧
    ¬ RcvrOffsetFull preMethodValueGuard := by
  refine ⟨by decide, by decide, by decide, by decide, by decide, ?_⟩
  intro h
  have := h true false 4 4 (by decide) (by decide)
  revert this; decide

/-! ### callBin: which parameter type an argument is prepared for -/

theorem variadicIdx_E (isVariadic : Bool) (numIn : Nat) :
    variadicIdxY E isVariadic numIn = if isVariadic then (numIn : Int) - 1 else -1 := by
  simp [variadicIdxY, E, Expected.C07.facts]

theorem typeIndexY_ge (elem isVariadic : Bool) (numIn off i : Nat) (hv : isVariadic = true → numIn ≥ 1) :
    typeIndexY .ge elem (if isVariadic then (numIn : Int) - 1 else -1) off i =
      if isVariadic && decide (i + off + 1 ≥ numIn) then (numIn - 1, elem) else (i + off, false) := by
  unfold typeIndexY Cmp.holds
  cases isVariadic with
  | false => simp
  | true =>
    have hn := hv rfl
    by_cases h : i + off + 1 ≥ numIn
    · have h1 : (numIn : Int) - 1 ≥ 0 := by omega
      have h2 : (i : Int) + (off : Int) ≥ (numIn : Int) - 1 := by omega
      have h3 : ((numIn : Int) - 1).toNat = numIn - 1 := by omega
      simp only [if_true, h1, h2, decide_true, Bool.and_self, h, h3]
    · have h2 : ¬ ((i : Int) + (off : Int) ≥ (numIn : Int) - 1) := by omega
      simp only [if_true, h2, decide_false, Bool.and_false, Bool.false_eq_true, if_false, h]

/-- **Variadic index** (conversion of constant arguments): for every arity, every receiver offset and every argument
    position, the parameter type chosen (`In(k)`, or `In(k).Elem()` for the elements of the variadic parameter) is Go's -/
theorem arg_type_index_correct (isVariadic : Bool) (numIn off i : Nat) (hv : isVariadic = true → numIn ≥ 1) :
    argTypeIndexY E isVariadic numIn off i = typeIndexSpec isVariadic numIn off i := by
  unfold argTypeIndexY typeIndexSpec
  rw [variadicIdx_E]
  exact typeIndexY_ge true isVariadic numIn off i hv

/-- the target of the interface wrapper: the parameter index is right for every position, but for a variadic element the
    slice type is taken instead of its element type -/
theorem def_type_index_partial (isVariadic : Bool) (numIn off i : Nat) (hv : isVariadic = true → numIn ≥ 1) :
    (defTypeIndexY E isVariadic numIn off i).1 = (typeIndexSpec isVariadic numIn off i).1 ∧
    ((typeIndexSpec isVariadic numIn off i).2 = false → defTypeIndexY E isVariadic numIn off i = typeIndexSpec isVariadic numIn off i) := by
  have h : defTypeIndexY E isVariadic numIn off i =
      if isVariadic && decide (i + off + 1 ≥ numIn) then (numIn - 1, false) else (i + off, false) := by
    unfold defTypeIndexY
    rw [variadicIdx_E]
    exact typeIndexY_ge false isVariadic numIn off i hv
  rw [h]
  unfold typeIndexSpec
  by_cases hc : (isVariadic && decide (i + off + 1 ≥ numIn)) = true <;> simp [hc]

theorem def_type_index_witness :
    defTypeIndexY E true 2 0 1 = (1, false) ∧ typeIndexSpec true 2 0 1 = (1, true) := by decide

/-- **The type a constant argument is converted to, with `...`** (`hp.F(6, nil...)`: the argument followed by an ellipsis is the
    variadic parameter itself; repair 57dd9e4 of F07-16): for every arity, receiver offset and position Go's typing allows
    (with `...` the call has exactly one argument per parameter), the type callBin picks is Go's — the parameter's own type,
    the slice type for the last one; without `...` the statement is `arg_type_index_correct`. -/
theorem arg_type_index_correct_ellipsis (isVariadic ellipsis : Bool) (numIn off i : Nat) (hv : isVariadic = true → numIn ≥ 1)
    (he : ellipsis = true → isVariadic = true ∧ i + off + 1 ≤ numIn) :
    argTypeIndexEY E isVariadic ellipsis numIn off i = typeIndexSpecE isVariadic ellipsis numIn off i := by
  have hs : E.argTypeSpreadArm = true := rfl
  cases ellipsis with
  | false => simp [argTypeIndexEY, typeIndexSpecE, arg_type_index_correct isVariadic numIn off i hv]
  | true =>
    obtain ⟨hvar, hle⟩ := he rfl
    subst hvar
    have hn := hv rfl
    simp only [argTypeIndexEY, typeIndexSpecE, hs, variadicIdx_E, if_true, Bool.true_and]
    by_cases hlast : i + off + 1 = numIn
    · have h1 : decide ((numIn : Int) - 1 ≥ 0) = true := by simp; omega
      have h2 : decide ((i : Int) + (off : Int) = (numIn : Int) - 1) = true := by simp; omega
      have h3 : ((numIn : Int) - 1).toNat = i + off := by omega
      have h4 : ¬ ((numIn : Int) < 1) := by omega
      simp [h2, h3, h4]
    · have h2 : decide ((i : Int) + (off : Int) = (numIn : Int) - 1) = false := by simp; omega
      simp only [h2, Bool.and_false, Bool.false_eq_true, if_false]
      rw [arg_type_index_correct true numIn off i hv]
      have : ¬ (i + off + 1 ≥ numIn) := by omega
      simp [typeIndexSpec, this]

/-- regression F07-16 — `hp.F(6, nil...)` with `F(a int, rest ...int)`: without the spread arm the literal was converted to the
    ELEMENT type (reflect then refused it, or the type checker crashed before); with it, to `[]int` -/
theorem spread_literal_regression :
    argTypeIndexEY { E with argTypeSpreadArm := false } true true 2 0 1 = (1, true) ∧
    argTypeIndexEY E true true 2 0 1 = (1, false) ∧ typeIndexSpecE true true 2 0 1 = (1, false) := by decide

/-! ### variadic packing -/

theorem drop_isEmpty_false (args : List Rep) (n : Nat) (h : args.length > n) : (args.drop n).isEmpty = false := by
  cases hd : args.drop n with
  | nil => have := List.drop_eq_nil_iff.mp hd; omega
  | cons _ _ => rfl

/-- the helper callVariadic, spelled out: CallSlice with the arguments and a nil slice when a variadic function gets exactly
    its fixed arguments, reflect.Value.Call otherwise -/
theorem callVariadic_rule (isVariadic : Bool) (nFixed : Nat) (args : List Rep) :
    callVariadicY E isVariadic nFixed args =
      if isVariadic && decide (args.length = nFixed) then args ++ [Rep.nil] else reflectCall isVariadic nFixed args := by
  cases isVariadic with
  | false => simp [callVariadicY, E, Expected.C07.facts, CallKind.runR]
  | true =>
    have h : ((args.length : Int) = (nFixed : Int)) ↔ args.length = nFixed := by omega
    by_cases hl : args.length = nFixed <;>
      simp [callVariadicY, E, Expected.C07.facts, CallKind.runR, Cmp.holds, reflectCallSlice, h, hl]

/-- … which is Go's packing of a call without `...`, for every number of fixed parameters and every argument list -/
theorem callVariadic_eq_goPack (isVariadic : Bool) (nFixed : Nat) (args : List Rep)
    (hd : isVariadic = true → args.length ≥ nFixed) :
    callVariadicY E isVariadic nFixed args = goPack isVariadic false nFixed args := by
  rw [callVariadic_rule]
  cases isVariadic with
  | false => simp [goPack, reflectCall]
  | true =>
    have hge := hd rfl
    by_cases hl : args.length = nFixed
    · have ht : args.take nFixed = args := List.take_of_length_le (by omega)
      have hdrop : args.drop nFixed = [] := List.drop_eq_nil_iff.mpr (by omega)
      simp [goPack, hl, ht, hdrop]
    · have hgt : args.length > nFixed := by omega
      simp only [goPack, reflectCall, hl, decide_false, Bool.and_false, Bool.false_eq_true, if_false, if_true, Bool.not_true,
        Bool.or_false]
      rw [drop_isEmpty_false args nFixed hgt]
      simp

theorem selectCall_E (isVariadic ellipsis : Bool) :
    selectCall isVariadic ellipsis E.callArms =
      (if ellipsis then CallKind.callSlice else if isVariadic then .callVariadic else .call) ∧
    selectCall isVariadic ellipsis E.fvArms =
      (if ellipsis then CallKind.callSlice else if isVariadic then .callVariadic else .call) := by
  cases isVariadic <;> cases ellipsis <;> exact ⟨rfl, rfl⟩

/-- the statement every call path has to satisfy: what the callee's parameters receive is what Go prescribes — with `...`
    the slice itself, without a NEW slice of the extra arguments, NIL when there are none — for every number of fixed
    parameters and every argument list Go's typing allows -/
def VariadicPackFull (pack : Bool → Bool → Nat → List Rep → List Rep) : Prop :=
  ∀ (isVariadic ellipsis : Bool) (nFixed : Nat) (args : List Rep), args.length ≥ nFixed →
    pack isVariadic ellipsis nFixed args = goPack isVariadic ellipsis nFixed args

/-- **Packing by callBin** (a host function or a method of a host value called by the script, in every context: the
    same `callFn` serves the direct call, the `go` statement, the condition and the three result contexts), FULL: with `...`
    CallSlice hands over the slice itself; without, the helper callVariadic passes a nil slice when there is no variadic
    argument (repair 8600fa9 of F07-2) and lets reflect.Value.Call build the slice of the extra arguments otherwise. -/
theorem variadic_pack_correct_bin : VariadicPackFull (packBinY E) := by
  intro isVariadic ellipsis nFixed args hge
  unfold packBinY
  rw [(selectCall_E isVariadic ellipsis).1]
  cases ellipsis with
  | true => cases isVariadic <;> simp [CallKind.run, CallKind.runR, reflectCallSlice, goPack]
  | false =>
    cases isVariadic with
    | true => simpa [CallKind.run] using callVariadic_eq_goPack true nFixed args (fun _ => hge)
    | false => simp [CallKind.run, CallKind.runR, reflectCall, goPack]

/-- **Packing by `call` when the function value is a host function** (`fv := hp.F; fv(…)`, a method value `mv := c.M`, a
    function returned by the host), FULL: the same three arms -/
theorem variadic_pack_correct_fn_value : VariadicPackFull (packFnValueY E) := by
  intro isVariadic ellipsis nFixed args hge
  unfold packFnValueY
  rw [(selectCall_E isVariadic ellipsis).2]
  cases ellipsis with
  | true => cases isVariadic <;> simp [CallKind.run, CallKind.runR, reflectCallSlice, goPack]
  | false =>
    cases isVariadic with
    | true => simpa [CallKind.run] using callVariadic_eq_goPack true nFixed args (fun _ => hge)
    | false => simp [CallKind.run, CallKind.runR, reflectCall, goPack]

/-- … and therefore for the arms regenerated from the current source -/
theorem variadic_pack_generated :
    VariadicPackFull (packBinY Generated.C07.facts) ∧ VariadicPackFull (packFnValueY Generated.C07.facts) := by
  rw [facts_tie]; exact ⟨variadic_pack_correct_bin, variadic_pack_correct_fn_value⟩

/-- **A deferred call** (`defer hp.F(…)` through callBin, `defer f(…)` through `call`; `viaBin` says which), FULL: the record
    stored by the defer statement holds the function — wrapped by deferCallSlice when the call has an ellipsis (repair eef6ac5
    of F07-4) — and the copied arguments; runCfg → runDeferred calls it with callVariadic. What the callee's parameters
    receive is what Go prescribes for the call as written: the ellipsis is preserved, and a variadic parameter without
    arguments is nil. -/
theorem defer_pack_correct (viaBin : Bool) : VariadicPackFull (packDeferY E viaBin) := by
  intro isVariadic ellipsis nFixed args hge
  cases ellipsis with
  | true =>
    have hw : (true && (if viaBin then E.deferWrapBin else E.deferWrapCall)) = true := by cases viaBin <;> rfl
    have hv : E.deferWrapVariadic = false := rfl
    simp only [packDeferY, hw, if_true, hv, Bool.and_false]
    have hc : E.deferCall = .callVariadic := rfl
    have hk : E.deferWrapKind = .callSlice := rfl
    rw [hc, hk]
    simp only [CallKind.run]
    rw [callVariadic_rule]
    simp [CallKind.runR, reflectCallSlice, reflectCall, goPack]
  | false =>
    have hc : E.deferCall = .callVariadic := rfl
    simp only [packDeferY, Bool.false_and, Bool.false_eq_true, if_false, hc, CallKind.run]
    exact callVariadic_eq_goPack isVariadic nFixed args (fun _ => hge)

theorem defer_pack_generated (viaBin : Bool) : VariadicPackFull (packDeferY Generated.C07.facts viaBin) := by
  rw [facts_tie]; exact defer_pack_correct viaBin

/-- non-vacuity: `defer hp.F(7, xs...)` and `defer hp.F(7)` with `F(a int, rest ...int)` -/
example (xs : RepL) : packDeferY E true true true 1 [.int 7, .tuple xs] = [.int 7, .tuple xs] ∧
    packDeferY E true true false 1 [.int 7] = [.int 7, .nil] ∧
    packDeferY E false true false 1 [.int 7, .int 8] = [.int 7, .tuple (.cons (.int 8) .nil)] := ⟨rfl, rfl, rfl⟩

/-- What the extractor reads from a tree WITHOUT the two repairs (8600fa9, eef6ac5 reverted): no `variadic >= 0` arm, the
    deferred record called with reflect.Value.Call and never wrapped. -/
def preRepair : Facts :=
  { E with callArms := [⟨.ellipsis, .callSlice⟩, ⟨.always, .call⟩], fvArms := [⟨.ellipsis, .callSlice⟩, ⟨.always, .call⟩],
           deferCall := .call, deferWrapBin := false, deferWrapCall := false }

/-- regression F07-2 — `F(5)` with `F(x int, rest ...int)`: through reflect.Value.Call the callee received an EMPTY slice;
    with the `callVariadic` arm it receives nil, as from a compiled caller -/
theorem variadic_empty_regression :
    packBinY preRepair true false 1 [.int 5] = [.int 5, .tuple .nil] ∧
    packBinY E true false 1 [.int 5] = [.int 5, .nil] ∧ goPack true false 1 [.int 5] = [.int 5, .nil] ∧
    packFnValueY preRepair true false 1 [.int 5] = [.int 5, .tuple .nil] ∧
    packFnValueY E true false 1 [.int 5] = [.int 5, .nil] ∧
    packDeferY preRepair true true false 1 [.int 5] = [.int 5, .tuple .nil] ∧
    packDeferY E true true false 1 [.int 5] = [.int 5, .nil] := ⟨rfl, rfl, rfl, rfl, rfl, rfl, rfl⟩

/-- regression F07-4 — `defer F(xs...)`: called with reflect.Value.Call the slice was packed into a new slice; wrapped by
    deferCallSlice it reaches the variadic parameter as it is -/
theorem defer_spread_regression (xs : RepL) :
    packDeferY preRepair true true true 0 [.tuple xs] = [.tuple (.cons (.tuple xs) .nil)] ∧
    packDeferY preRepair false true true 0 [.tuple xs] = [.tuple (.cons (.tuple xs) .nil)] ∧
    packDeferY E true true true 0 [.tuple xs] = [.tuple xs] ∧ packDeferY E false true true 0 [.tuple xs] = [.tuple xs] ∧
    goPack true true 0 [.tuple xs] = [.tuple xs] := ⟨rfl, rfl, rfl, rfl, rfl⟩

/-- the unrepaired choices do not satisfy the full statement (so the theorems above depend on the extracted arms) -/
theorem pre_repair_fails : ¬ VariadicPackFull (packBinY preRepair) ∧ ¬ VariadicPackFull (packDeferY preRepair true) := by
  constructor
  · intro h
    have := h true false 1 [.int 5] (by decide)
    rw [variadic_empty_regression.1, variadic_empty_regression.2.2.1] at this
    simp at this
  · intro h
    have := h true true 0 [.tuple .nil] (by decide)
    rw [(defer_spread_regression .nil).1, (defer_spread_regression .nil).2.2.2.2] at this
    simp at this

/-- **The explicit packing loop of `call`** (script → script, the twin of every case), by induction over the argument
    list: for every number of fixed parameters and every list of extra arguments none of which has the variadic
    parameter's own slice type, the fixed parameters get the fixed arguments and the variadic one nil (no extra argument) or a
    slice of the extra arguments in order. -/
theorem variadic_pack_correct (fixed : List (Rep × Bool)) (rest : List (Rep × Bool))
    (hrest : ∀ x ∈ rest, x.2 = false) :
    packCallY fixed.length (fixed ++ rest) =
      fixed.map Prod.fst ++ [if rest.isEmpty then Rep.nil else .tuple (listToRepL (rest.map Prod.fst))] := by
  unfold packCallY
  rw [packCallLoop_fixed fixed.length fixed rest [] 0 .nil (by simp)]
  rw [packCallLoop_variadic fixed.length rest _ fixed.length .nil (Nat.le_refl _) hrest]
  simp [foldl_appendRep_nil]

/-- … and with `...` the slice is the variadic parameter -/
theorem variadic_pack_ellipsis (fixed : List (Rep × Bool)) (s : Rep) :
    packCallY fixed.length (fixed ++ [(s, true)]) = fixed.map Prod.fst ++ [s] := by
  unfold packCallY
  rw [packCallLoop_fixed fixed.length fixed [(s, true)] [] 0 .nil (by simp)]
  simp [packCallLoop]

/-- `f(xs)` with `f(a ...interface{})` and `xs []interface{}` (no `...`): the loop takes the single argument for the
    slice itself; Go passes a one-element slice -/
theorem variadic_pack_same_type_witness (xs : RepL) :
    packCallY 0 [(.tuple xs, true)] = [.tuple xs] := rfl

/-! ### `call` with a host function as function value: the arguments -/

/-- **A call with `...` prepares its other arguments** (`callArgArms`, regenerated; repair 5b28270 of F07-17): for every
    parameter class and every frame value, an argument that is not the spread slice is prepared exactly as in a call without
    ellipsis, and the slice followed by `...` is passed as it is. -/
theorem call_fixed_args_ignore_ellipsis (ellipsis : Bool) (p : CallParam) (r : Rep) :
    callPrepareY E.callArgArms ellipsis false p r = callPrepareY E.callArgArms false false p r ∧
    callPrepareY E.callArgArms true true p r = r := by
  cases ellipsis <;> cases p <;> (try rename_i m; cases m) <;> exact ⟨rfl, rfl⟩

/-- a function argument (nil, a function declared by the script — a `*node` in the frame —, a closure, a host function) for a
    function parameter of a host function reached through `call` (`var fv func(func() int, ...int) int = hp.F; fv(cb, xs...)`):
    the host receives something it can call, standing for the same function, with and without `...` -/
theorem call_argprep_func (ellipsis : Bool) (s : ArgSit)
    (hs : s = .fnNil ∨ (∃ id, s = .fnDecl id) ∨ (∃ id, s = .fnClosure id) ∨ (∃ id, s = .fnHost id)) :
    let h := callPrepareY E.callArgArms ellipsis false .func s.rep
    hostAssignable .concrete h = true ∧ hostClean h = true ∧ datum h = datum s.rep := by
  rw [(call_fixed_args_ignore_ellipsis ellipsis .func s.rep).1]
  rcases hs with h | ⟨id, h⟩ | ⟨id, h⟩ | ⟨id, h⟩ <;> subst h <;> exact ⟨rfl, rfl, rfl⟩

/-- a value written for a host-interface parameter: an interpreted value gets its `_Iface` wrapper, a host value goes as it is -/
theorem call_argprep_host_iface (ellipsis : Bool) (d : Dyn) :
    let h := callPrepareY E.callArgArms ellipsis false .hostIface (.dyn d)
    hostAssignable .hostIface h = true ∧ hostClean h = true ∧ datum h = .dyn d := by
  rw [(call_fixed_args_ignore_ellipsis ellipsis .hostIface (.dyn d)).1]
  cases hi : d.interp <;>
    simp [callPrepareY, firstCallArm, E, Expected.C07.facts, CAGuard.holds, genInterfaceWrapperY, stripVi, hostAssignable, hostClean, datum, hi]

theorem call_argprep_generated (ellipsis : Bool) (p : CallParam) (r : Rep) :
    callPrepareY Generated.C07.facts.callArgArms ellipsis false p r = callPrepareY Generated.C07.facts.callArgArms false false p r := by
  rw [facts_tie]; exact (call_fixed_args_ignore_ellipsis ellipsis p r).1

/-- the arms before 5b28270: `case hasVariadicArgs: genValue(c)` for every argument -/
def preSpreadArms : List CallArgArm :=
  [⟨.ellipsisCall, .raw⟩, ⟨.ifaceSrc, .boxIface⟩, ⟨.ifaceBin, .ifaceWrap⟩, ⟨.funcSrc, .funcValue⟩, ⟨.default, .raw⟩]

/-- regression F07-17 — `fv(cb, xs...)`: the declared function reached the host as a `*node`, an interpreted value for a host
    interface unwrapped; without `...` both were prepared -/
theorem spread_via_func_value_regression :
    hostClean (callPrepareY preSpreadArms true false .func (.node 1)) = false ∧
    hostAssignable .hostIface (callPrepareY preSpreadArms true false .hostIface (.dyn interpStringer)) = false ∧
    callPrepareY preSpreadArms false false .func (.node 1) = .mkfunc 1 false ∧
    callPrepareY E.callArgArms true false .func (.node 1) = .mkfunc 1 false ∧
    callPrepareY E.callArgArms true false .hostIface (.dyn interpStringer) = .iwrap (.dyn interpStringer) :=
  ⟨rfl, rfl, rfl, rfl, rfl⟩

/-! ### result routing -/

/-- **Result routing**: for every context (multi-assignment with any pattern of blanks, return statement with the call at
    any operand position, results left in the call's own frame cells for an expression / nested call / statement, the bool
    result of a call used as a condition) and
    every number of results, result `i` of the host function lands in the cell the context reads. -/
theorem result_routing_correct (c : Ctx) (hc : c.wf = true) (nOut : Nat) : routeY E c nOut = routeSpec c nOut := by
  unfold routeY routeSpec
  apply List.map_congr_left
  intro i _
  cases c with
  | ret pos nOps =>
    have hb : E.returnBase = .zeroOrOwn := rfl
    have hd : ∀ j b, E.returnDstIdx.eval j b = b + j := fun _ _ => rfl
    simp only [Ctx.wf, decide_eq_true_eq] at hc
    simp only [routeOneY, routeSpecOne, hb, hd]
    by_cases h : nOps > 1
    · simp [h]
    · have : pos = 0 := by omega
      simp [h, this]
  | _ => simp [routeOneY, routeSpecOne, IExpr.eval, E, Expected.C07.facts]

theorem result_routing_generated (c : Ctx) (hc : c.wf = true) (nOut : Nat) : routeY Generated.C07.facts c nOut = routeSpec c nOut := by
  rw [facts_tie]; exact result_routing_correct c hc nOut

theorem retAfterCalls_noWrite : ∀ (ops : List RetOperand) (p : Nat) (slots : List Rep), retAfterCalls false p ops slots = slots
  | [], _, _ => rfl
  | .call _ :: rest, p, slots => by simp [retAfterCalls, retAfterCalls_noWrite rest]
  | .named _ :: rest, p, slots => by simp [retAfterCalls, retAfterCalls_noWrite rest]
  | .other _ :: rest, p, slots => by simp [retAfterCalls, retAfterCalls_noWrite rest]

/-- **A return statement whose operands include host calls** (`returnBase`, regenerated from callBin's aReturn arm; repair 28d3d87
    of F04-23): for every list of operands — host calls, reads of the (named) result variables, anything else — and every content
    of the result variables, each result gets the value of its operand evaluated against the result variables AS THEY WERE: a call
    among several operands writes its own cell, so no other operand sees its result in a result variable. -/
theorem return_operands_correct (ops : List RetOperand) (init : List Rep) :
    retStmtY E.returnBase ops init = retStmtSpec ops init := by
  have hb : E.returnBase = .zeroOrOwn := rfl
  simp only [retStmtY, retStmtSpec, hb]
  by_cases h : ops.length ≤ 1
  · simp only [h, decide_true]
    match ops, h with
    | [], _ => rfl
    | [.call v], _ => simp [retAfterCalls, RetOperand.value]
    | [.named k], _ => simp [retAfterCalls]
    | [.other v], _ => simp [retAfterCalls]
  · simp only [h, decide_false]
    rw [retAfterCalls_noWrite]

theorem return_operands_generated (ops : List RetOperand) (init : List Rep) :
    retStmtY Generated.C07.facts.returnBase ops init = retStmtSpec ops init := by
  rw [facts_tie]; exact return_operands_correct ops init

/-- regression F04-23 — `func f() (a, b string) { a, b = "x", "y"; return fmt.Sprint(b), a }`: with `b := childPos(n)` the call wrote
    result variable `a` while the operands were evaluated, the second operand then read "y": y y instead of y x -/
theorem return_clobber_regression :
    retStmtY .childPos [.call (.int 2), .named 0] [.int 1, .int 2] = [.int 2, .int 2] ∧
    retStmtY E.returnBase [.call (.int 2), .named 0] [.int 1, .int 2] = [.int 2, .int 1] ∧
    retStmtSpec [.call (.int 2), .named 0] [.int 1, .int 2] = [.int 2, .int 1] := ⟨rfl, rfl, rfl⟩

/-- the consumer of a nested call reads the cells the default context writes -/
theorem nested_read_matches (fi j : Nat) :
    E.nestedReadIdx.eval j fi = (match (routeOneY E (.deflt fi) j).2 with | .tmp k => k | _ => 0) := by
  simp [routeOneY, IExpr.eval, E, Expected.C07.facts]

/-- non-vacuity: `a, _, c := F()` -/
example : routeY E (.assignX [false, true, false]) 3 = [(0, .lhs 0), (1, .dropped), (2, .lhs 2)] ∧
    routeY E (.ret 1 2) 1 = [(0, .result 1)] ∧ routeY E (.ret 0 1) 2 = [(0, .result 0), (1, .result 1)] ∧ routeY E (.deflt 7) 2 = [(0, .tmp 7), (1, .tmp 8)] := by decide

/-! ### `q, r := hp.F(…)` executed repeatedly, earlier variables still referenced -/

theorem defineReads_always : ∀ rs : List Rep, defineReadsY .always rs = rs
  | [] => rfl
  | [_] => rfl
  | r :: r' :: rest => by
    have ih := defineReads_always (r' :: rest)
    simp [defineReadsY, DefineCell.recreates, ih]

/-- **Every execution of `q, r := hp.F(…)` declares new variables** (`defineXCell`, regenerated from the aAssignX arm of callBin:
    the cell is re-created unconditionally): for EVERY sequence of results stored by the successive executions — zero values
    included —, the pointer or closure taken after the k-th execution still reads the k-th result when all executions are done. -/
theorem define_cells_fresh (rs : List Rep) : defineReadsY E.defineXCell rs = rs := defineReads_always rs

theorem define_cells_fresh_kth (rs : List Rep) (k : Nat) : (defineReadsY E.defineXCell rs)[k]? = rs[k]? := by
  rw [define_cells_fresh]

theorem define_cells_generated (rs : List Rep) : defineReadsY Generated.C07.facts.defineXCell rs = rs := by
  rw [facts_tie]; exact define_cells_fresh rs

/-- the cell re-created only when it does not hold the zero value (seeded change C07-4): results 0, 1, 2, 0 — the reference to the
    first variable reads 1, the second execution overwrote it; without any re-creation every reference reads the last result -/
theorem define_cell_zero_witness :
    defineReadsY .whenNonZero [.int 0, .int 1, .int 2, .int 0] = [.int 1, .int 1, .int 2, .int 0] ∧
    defineReadsY .whenNonZero [.nil, .nil, .tuple (.cons (.int 0) .nil), .int 7] = [.int 7, .int 7, .int 7, .int 7] ∧
    defineReadsY .never [.int 1, .int 2, .int 3] = [.int 3, .int 3, .int 3] ∧
    defineReadsY .whenNonZero [.int 1, .int 2, .int 3] = [.int 1, .int 2, .int 3] := ⟨rfl, rfl, rfl, rfl⟩

/-! ### a host call as a condition -/

theorem branchReads_both : ∀ (init : Bool) (rs : List Bool), branchReadsY .both init rs = rs := by
  intro init rs
  induction rs generalizing init with
  | nil => rfl
  | cons r rs ih => simp [branchReadsY, branchStep, ih]

/-- **A host call used as a condition, executed repeatedly** (`branchStore`, regenerated from the branch arm of callBin: the
    cell is written on BOTH outcomes) — the operand of `&&` / `||` / `!`, an `if` or `for` condition, in a loop: for every
    previous content of the call's cell and EVERY sequence of results of the successive calls, the value the enclosing
    operation reads after the k-th call is the k-th result, never an earlier one. -/
theorem branch_store_correct (init : Bool) (rs : List Bool) : branchReadsY E.branchStore init rs = rs :=
  branchReads_both init rs

theorem branch_read_kth (init : Bool) (rs : List Bool) (k : Nat) :
    (branchReadsY E.branchStore init rs)[k]? = rs[k]? := by
  rw [branch_store_correct]

/-- whatever the consumer — a branch (`if`, `for`, `!`, right operand) or an `&&` / `||` that reads the cell again —, after the
    k-th execution it sees the k-th result -/
theorem cond_seen_correct (u : CondUse) (rs : List Bool) (k : Nat) :
    (condSeenY E.branchStore u rs)[k]? = rs[k]? := by
  cases u
  · rfl
  · exact branch_read_kth false rs k

theorem branch_store_generated (init : Bool) (rs : List Bool) : branchReadsY Generated.C07.facts.branchStore init rs = rs := by
  rw [facts_tie]; exact branch_store_correct init rs

/-- the cell written only when the host returned true (seeded change C07-3): `for … { if hp.IsEven(x) && x < limit {…} }` with
    results true, false — after the second call the cell still holds the first result -/
theorem stale_branch_witness :
    branchReadsY .trueOnly false [true, false] = [true, true] ∧ branchReadsY .trueOnly false [false, true, false, false] = [false, true, true, true] ∧
    branchReadsY .falseOnly true [false, true] = [false, false] ∧ branchReadsY .never false [true] = [false] ∧
    condSeenY .trueOnly .rereadsCell [true, false] = [true, true] ∧ condSeenY .trueOnly .branchOnly [true, false] = [true, false] := by decide

/-! ### the reflect.MakeFunc wrapper -/

theorem frameLen_ge (d : FnDef) : d.numRet + d.params.length ≤ (List.replicate d.frameLen Rep.nil).length := by
  simp [FnDef.frameLen]

/-- **Calling the wrapper = the inner call on copied arguments**, for every signature shape (any number of results,
    any list of parameter kinds, any number of locals), every body and every argument list: genFunctionWrapper
    allocates the frame, copies the arguments behind the result cells (re-boxing those of script-interface type), runs the
    body and returns the first `numRet` cells. -/
theorem wrapper_call_eq_inner_call (d : FnDef) (call : Rep → List Rep → List Rep) (ins : List Rep) :
    wrapperCall E d call ins = innerCall d call ins := by
  simp only [wrapperCall, wrapperCallWith, innerCall, E, Expected.C07.facts, IExpr.eval, if_true, List.drop_zero, Nat.sub_zero]
  rw [fillArgs_skip d.params ins _ d.numRet (frameLen_ge d)]

/-- the same for a function literal (getFunc) -/
theorem closure_call_eq_inner_call (d : FnDef) (call : Rep → List Rep → List Rep) (ins : List Rep) :
    closureCall E d call ins = innerCall d call ins := by
  simp only [closureCall, wrapperCallWith, innerCall, E, Expected.C07.facts, IExpr.eval, if_true, List.drop_zero, Nat.sub_zero]
  rw [fillArgs_skip d.params ins _ d.numRet (frameLen_ge d)]

theorem wrapper_call_generated (d : FnDef) (call : Rep → List Rep → List Rep) (ins : List Rep) :
    wrapperCall Generated.C07.facts d call ins = innerCall d call ins := by
  rw [facts_tie]; exact wrapper_call_eq_inner_call d call ins

/-- applying a function does not depend on which side's representation of it one holds, at every nesting depth -/
theorem apply_wrapper_transparent (env : Nat → FnDef) (host : Nat → List Rep → List Rep) (n id : Nat) (c : Bool) (args : List Rep) :
    applyFn E env host (n + 1) (.mkfunc id c) args = applyFn E env host (n + 1) (.node id) args := by
  cases c with
  | false => simp only [applyFn]; exact wrapper_call_eq_inner_call _ _ _
  | true => simp only [applyFn]; exact closure_call_eq_inner_call _ _ _

/-- a function that hands its second parameter to its first (a callback) and returns the callback's first result -/
def relay : FnDef :=
  { numRet := 1, params := [.plain, .plain], nLocals := 0,
    body := fun call fr => setAt fr 0 ((call (fr.getD 1 .nil) [fr.getD 2 .nil]).headD .nil) }

theorem innerCall_relay (call : Rep → List Rep → List Rep) (g x : Rep) :
    innerCall relay call [g, x] = [(call g [x]).headD .nil] := rfl

/-- **Callbacks crossing twice**: the host calls the wrapper of the interpreted `relay`, handing it the wrapper of another
    interpreted function `g` it received earlier; `relay` calls it. The result is that of the call made entirely inside
    the script (`relay(g, x)`), for every `g`, every argument and every nesting depth. -/
theorem callback_crosses_twice (env : Nat → FnDef) (host : Nat → List Rep → List Rep) (n idF idG : Nat) (cg : Bool) (x : Rep)
    (hF : env idF = relay) :
    applyFn E env host (n + 2) (.mkfunc idF false) [.mkfunc idG cg, x] =
    applyFn E env host (n + 2) (.node idF) [.node idG, x] := by
  rw [apply_wrapper_transparent]
  simp only [applyFn, hF, innerCall_relay]
  rw [apply_wrapper_transparent]
  simp only [applyFn]

/-- non-vacuity of the wrapper theorem: the identity function on one argument, called through its wrapper -/
example : wrapperCall E { numRet := 1, params := [.plain], nLocals := 0, body := fun _ fr => setAt fr 0 (fr.getD 1 .nil) }
    (fun _ _ => []) [.int 42] = [.int 42] := rfl

/-- mutation witness: with `fr.data[1:numRet+1]` the wrapper returns the argument cell instead of the result -/
example : wrapperCallWith 1 (.add .base (.lit 1)) E { numRet := 1, params := [.plain], nLocals := 0, body := fun _ fr => setAt fr 0 (.int 1) }
    (fun _ _ => []) [.int 42] = [.int 42] := rfl

/-! ### the wrapper of a method: the receiver -/

/-- the receiver the wrapper stores, spelled out for the current source: a receiver read from the script is the one reached
    when the wrapper was made, the value held by an interface is reached when the wrapper is called -/
theorem wrapperRecv_rule (wantsPtr : Bool) (hMade hNow : Nat → Rep) (src : RecvSrc) :
    wrapperRecvY E wantsPtr hMade hNow src = recvSpec wantsPtr hMade hNow src := by
  cases src <;> rfl

/-- **The receiver of a method wrapper** (`wrapRecvAtCreation`, `wrapRecvHeldAtCall`, regenerated; repairs 3081633 and
    32d4f06): for every method shape (any results, any further parameters, any locals), every body, every argument list,
    value or pointer receiver, every state of the heap at the two moments and either kind of receiver record, calling the
    wrapper is the in-script call with the receiver Go prescribes (`recvSpec`). -/
theorem method_wrapper_receiver (d : FnDef) (ps : List PKind) (hp : d.params = .plain :: ps)
    (call : Rep → List Rep → List Rep) (wantsPtr : Bool) (hMade hNow : Nat → Rep) (src : RecvSrc) (ins : List Rep) :
    methodWrapperCall E d call wantsPtr hMade hNow src ins = innerCall d call (recvSpec wantsPtr hMade hNow src :: ins) := by
  have hlen : ∀ r : Rep, d.numRet + 1 + ps.length ≤ (setAt (List.replicate d.frameLen Rep.nil) d.numRet r).length := by
    intro r; simp [setAt, FnDef.frameLen, hp]; omega
  rw [← wrapperRecv_rule]
  simp only [methodWrapperCall, innerCall, hp, List.tail_cons, fillArgs, copyArg, Bool.false_and, Bool.false_eq_true, if_false]
  have h1 : E.wrapFrameIsDefTypes = true := rfl
  have h2 : E.wrapSkipShort = true := rfl
  have h3 : E.wrapRcvrShift = 1 := rfl
  have h4 : E.wrapResLo = 0 := rfl
  have h5 : E.wrapResHi.eval 0 d.numRet = d.numRet := rfl
  rw [h1, h2, h3, h4, h5]
  simp only [if_true, List.drop_zero, Nat.sub_zero]
  rw [fillArgs_skip ps ins _ (d.numRet + 1) (hlen _)]

/-- **Bound when the wrapper is made** — a method value `mv := x.M` called later or handed to the host, `defer x.M(…)`,
    `go x.M(…)`: the call runs with the receiver reached WHEN THE WRAPPER WAS MADE (a value receiver selected on a pointer: the
    copy of `*x` taken then), whatever the variable or the heap hold at the time of the call. -/
theorem method_wrapper_binds_receiver (d : FnDef) (ps : List PKind) (hp : d.params = .plain :: ps)
    (call : Rep → List Rep → List Rep) (wantsPtr : Bool) (hMade hNow : Nat → Rep) (recvMade recvNow : Rep) (ins : List Rep) :
    methodWrapperCall E d call wantsPtr hMade hNow (.var recvMade recvNow) ins =
      innerCall d call (bindRecvY hMade wantsPtr recvMade :: ins) :=
  method_wrapper_receiver d ps hp call wantsPtr hMade hNow (.var recvMade recvNow) ins

/-- **Reached at each call** — the method wrappers genInterfaceWrapper builds for a conversion to a host interface
    (`var s fmt.Stringer = p`, `sort.Sort(p)`): the receiver record is the value the interface holds (`ifaceWrapRecvHeld`), so a
    later assignment of the converted variable (`xNow`) is not followed, and a pointer held by the interface is dereferenced
    when the method is CALLED: a value-receiver method sees the pointee as it is then. -/
theorem iface_wrapper_reaches_receiver (d : FnDef) (ps : List PKind) (hp : d.params = .plain :: ps)
    (call : Rep → List Rep → List Rep) (wantsPtr : Bool) (hMade hNow : Nat → Rep) (xConv xNow : Rep) (ins : List Rep) :
    methodWrapperCall E d call wantsPtr hMade hNow (ifaceRecvSrcY E xConv xNow) ins =
      innerCall d call (bindRecvY hNow wantsPtr xConv :: ins) :=
  method_wrapper_receiver d ps hp call wantsPtr hMade hNow (.held xConv) ins

theorem method_wrapper_generated (d : FnDef) (ps : List PKind) (hp : d.params = .plain :: ps)
    (call : Rep → List Rep → List Rep) (wantsPtr : Bool) (hMade hNow : Nat → Rep) (src : RecvSrc) (ins : List Rep) :
    methodWrapperCall Generated.C07.facts d call wantsPtr hMade hNow src ins =
      innerCall d call (recvSpec wantsPtr hMade hNow src :: ins) ∧
    ∀ xConv xNow, ifaceRecvSrcY Generated.C07.facts xConv xNow = .held xConv := by
  rw [facts_tie]; exact ⟨method_wrapper_receiver d ps hp call wantsPtr hMade hNow src ins, fun _ _ => rfl⟩

/-- a method `func (r T) Get() T { return r }` -/
def getRecv : FnDef :=
  { numRet := 1, params := [.plain], nLocals := 0, body := fun _ fr => setAt fr 0 (fr.getD 1 .nil) }

def noHeap : Nat → Rep := fun _ => .nil

/-- late binding (the receiver read inside the reflect.MakeFunc literal, as before 3081633): `mv := x.Get; x = 2; mv()`
    yields 2, the contract 1 -/
theorem late_receiver_witness :
    methodWrapperCall { E with wrapRecvAtCreation := false } getRecv (fun _ _ => []) false noHeap noHeap (.var (.int 1) (.int 2)) [] = [.int 2] ∧
    methodWrapperCall E getRecv (fun _ _ => []) false noHeap noHeap (.var (.int 1) (.int 2)) [] = [.int 1] ∧
    innerCall getRecv (fun _ _ => []) [.int 1] = [.int 1] := ⟨rfl, rfl, rfl⟩

/-- the heap in which cell 0 holds `n` -/
def heapWith (n : Int) : Nat → Rep := fun a => if a = 0 then .int n else .nil

/-- binding at the conversion (the state between 3081633 and 32d4f06: the wrappers of an interface conversion got the converted
    expression's node, bound when they were made): `p := &T{1}; var s I = p; *p = T{2}; s.Get()` with a value-receiver `Get`
    yields the copy taken at the conversion (1), Go dereferences p at the call (2). Either of the two facts alone breaks it. -/
theorem held_receiver_bound_witness :
    methodWrapperCall { E with ifaceWrapRecvHeld := false } getRecv (fun _ _ => []) false (heapWith 1) (heapWith 2)
      (ifaceRecvSrcY { E with ifaceWrapRecvHeld := false } (.ptr (.int 0)) (.ptr (.int 0))) [] = [.int 1] ∧
    methodWrapperCall { E with wrapRecvHeldAtCall := false } getRecv (fun _ _ => []) false (heapWith 1) (heapWith 2)
      (ifaceRecvSrcY E (.ptr (.int 0)) (.ptr (.int 0))) [] = [.int 1] ∧
    methodWrapperCall E getRecv (fun _ _ => []) false (heapWith 1) (heapWith 2) (ifaceRecvSrcY E (.ptr (.int 0)) (.ptr (.int 0))) [] = [.int 2] ∧
    innerCall getRecv (fun _ _ => []) [bindRecvY (heapWith 2) false (.ptr (.int 0))] = [.int 2] := ⟨rfl, rfl, rfl, rfl⟩

/-- non-vacuity: the two kinds of record differ exactly when the heap or the variable changed in between — a method value of
    the same pointer keeps the copy taken when it was made -/
example : methodWrapperCall E getRecv (fun _ _ => []) false (heapWith 1) (heapWith 2) (.var (.ptr (.int 0)) (.ptr (.int 0))) [] = [.int 1] ∧
    methodWrapperCall E getRecv (fun _ _ => []) true (heapWith 1) (heapWith 2) (.held (.ptr (.int 0))) [] = [.ptr (.int 0)] := ⟨rfl, rfl⟩

/-! ### method values of host values -/

/-- **A method value of a HOST value binds its receiver when it is evaluated** (`hostMethodBindsRecv`, `bindRecvCopies`,
    regenerated; repair ab0ab0c of F07-15) — `mv := c.M`, `defer c.M(…)`, `go c.M(…)` on a value of a host type: for a value or
    pointer receiver, every state of the heap and of the variable at the two moments, the call runs with the receiver Go
    prescribes for a method value, the one reached when it was EVALUATED — the same statement as for the methods of script
    types (`method_wrapper_binds_receiver`). -/
theorem host_method_value_binds_receiver (wantsPtr : Bool) (hMade hNow : Nat → Rep) (made now : Rep) :
    hostMethodRecvY E wantsPtr hMade hNow made now = recvSpec wantsPtr hMade hNow (.var made now) := rfl

theorem host_method_value_generated (wantsPtr : Bool) (hMade hNow : Nat → Rep) (made now : Rep) :
    hostMethodRecvY Generated.C07.facts wantsPtr hMade hNow made now = bindRecvY hMade wantsPtr made := by
  rw [facts_tie]; rfl

/-- regression F07-15 — `c := b1; defer c.WriteString("d"); c = b2` wrote to b2, `d := time.Duration(5); s := d.String; d = 7; s()`
    gave 7ns: reflect read the receiver from the variable when the method value was called -/
theorem host_recv_rebound_regression :
    hostMethodRecvY { E with hostMethodBindsRecv := false } false noHeap noHeap (.int 5) (.int 7) = .int 7 ∧
    hostMethodRecvY E false noHeap noHeap (.int 5) (.int 7) = .int 5 ∧
    hostMethodRecvY { E with hostMethodBindsRecv := false } false (heapWith 1) (heapWith 2) (.ptr (.int 0)) (.ptr (.int 0)) = .int 2 ∧
    hostMethodRecvY E false (heapWith 1) (heapWith 2) (.ptr (.int 0)) (.ptr (.int 0)) = .int 1 := ⟨rfl, rfl, rfl, rfl⟩

/-! ### one wrapper value, nested invocations -/

theorem runLevels_perCall (d : ReFn) : ∀ (levels : List (List Rep)) (sh : List Rep),
    runLevels true d levels sh = (specLevels d levels, sh) := by
  intro levels
  induction levels with
  | nil => intro sh; rfl
  | cons args rest ih =>
    intro sh
    cases rest with
    | nil => rfl
    | cons a2 r2 =>
      simp only [runLevels, specLevels, if_true]
      rw [ih sh]

/-- **Nested invocations of one wrapper value do not interfere**: the source allocates the frame inside the
    reflect.MakeFunc closure (`wrapFramePerCall`, regenerated), so for every function shape, every recursion depth and every
    argument list per level — a stored callback re-entering itself through the host — the outermost result is the one of
    independent activations, whatever earlier invocations left behind. -/
theorem wrapper_call_reentrant (d : ReFn) (levels : List (List Rep)) (sh : List Rep) :
    (runLevels E.wrapFramePerCall d levels sh).1 = specLevels d levels := by
  have h : E.wrapFramePerCall = true := rfl
  rw [h, runLevels_perCall]

theorem wrapper_call_reentrant_generated (d : ReFn) (levels : List (List Rep)) (sh : List Rep) :
    (runLevels Generated.C07.facts.wrapFramePerCall d levels sh).1 = specLevels d levels := by
  rw [facts_tie]; exact wrapper_call_reentrant d levels sh

/-- the same for function literals (getFunc) -/
theorem closure_call_reentrant (d : ReFn) (levels : List (List Rep)) (sh : List Rep) :
    (runLevels E.getFuncFramePerCall d levels sh).1 = specLevels d levels := by
  have h : E.getFuncFramePerCall = true := rfl
  rw [h, runLevels_perCall]

/-- shared-frame variant (the frame hoisted out of the closure): `Sum(2)` re-entering itself through the host yields 0,
    the contract 3 — every level reads the parameter cell the innermost invocation overwrote -/
theorem shared_frame_witness :
    (runLevels false sumFn [[.int 2], [.int 1], [.int 0]] []).1 = [.int 0] ∧
    specLevels sumFn [[.int 2], [.int 1], [.int 0]] = [.int 3] := ⟨rfl, rfl⟩

end YaegiVerif.Props.C07
