import YaegiVerif.Model.Src
import YaegiVerif.Spec.GoImport
import YaegiVerif.Expected.C16
import YaegiVerif.Generated.C16
import YaegiVerif.Proofs.C16Path
import YaegiVerif.Proofs.C16Eff
import YaegiVerif.Proofs.C16PkgDir
import YaegiVerif.Proofs.C16Root
import YaegiVerif.Proofs.C16Import
/-
  C16 — property theorems: source imports resolve to the right directory, once, without cycles.
  State after the repairs of F16, F16-1, F16-2, F16-3, F16-4, F16-5, F16-6, F16-7, F16-9, F16-10
  (round 3): the resolution theorems carry no excluded class any more; F16-8 and F16-11 are open.
-/
namespace YaegiVerif.Props.C16
open YaegiVerif YaegiVerif.Src

/-- tie: the literal words of interp/src.go and the decisions the model follows — the shape of pkgDir's
    attempts (vendor first, then GOPATH/src/<path> at the empty root only, candidates must be directories,
    the `noRoot` branch), previousRoot's error test, importSrc's resolution through goPkgDir from
    mainRoot(rPath) after the rejection of vendor elements, mainRoot's relative case, the relative keys of gta -/
theorem words_tie : Generated.C16.words = Expected.C16.words := by decide

/-- tie: order of importSrc's bookkeeping statements (already-imported test, rejection of vendor elements,
    resolution, cycle test, mark, recursion, registration) -/
theorem import_order_tie : Generated.C16.importOrder = Expected.C16.importOrder := by decide

/-- tie (`same_on_any_fs`): the resolution functions reach the file system only through fs.Stat / fs.ReadDir /
    fs.ReadFile of the configured file system, never through package os; the process is consulted in one
    place, filepath.Abs in rootFromDir (both the package directory and GOPATH/src against the same working
    directory) -/
theorem same_on_any_fs :
    Generated.C16.fsCalls = Expected.C16.fsCalls ∧ Generated.C16.osCalls = Expected.C16.osCalls ∧
    Generated.C16.wdCalls = Expected.C16.wdCalls := by decide

/-- tie: gta.go does not rewrite the import path "x/x" of a source package to "x" any more (F16-7 repaired;
    the driver applies `gtaImportPath` only when the extracted flag says so) -/
theorem gta_tie : Generated.C16.gtaCollapse = Expected.C16.gtaCollapse := by decide

/-- old fact (before 444e842): what that rewriting did to a doubled import path, and to no other clean path -/
example :
    gtaImportPath ["x", "x"] = ["x"] ∧ gtaImportPath ["x", "y"] = ["x", "y"] ∧ gtaImportPath ["a", "x", "x"] = ["a", "x", "x"] := by
  decide

/-- tie: the functions transcribed in Model/Src.lean are the ones the model was written from -/
theorem source_tie : Generated.C16.sourceHashes = Expected.C16.sourceHashes := by decide


/-! ## effectivePkg -/

/-- the loop's test, in words: the root has at least two elements and its last one is `e` -/
def rootEndsWith (r : List String) (e : String) : Bool := decide (2 ≤ r.length) && r.getLast? == some e

theorem effMatch_pathOf (r : List String) (e : String) : effMatch (pathOf r) e = rootEndsWith r e := by
  cases r with
  | nil => simp [effMatch, pathOf, emptyS, rootEndsWith]
  | cons a b =>
    have : pathOf (a :: b) = a :: b := by simp [pathOf]
    rw [this]
    unfold effMatch rootEndsWith
    have h1 : (a :: b)[(a :: b).length - 1]? = (a :: b).getLast? := by
      rw [List.getLast?_eq_getElem?]
    rw [h1]
    congr 1
    simp only [List.length_cons, decide_eq_decide]
    omega

/-- **What effectivePkg computes** (all clean roots, all clean non-empty import paths): the root followed by
    the part `mid ++ [x]` of the import path that comes after the last element — the final position
    excepted — equal to the root's final element (roots of at least two elements); nothing else of the
    import path survives. -/
theorem effectivePkg_closed_form (r P : List String) (hr : NormRel r = true) (hP : NormRel P = true) (hne : P ≠ []) :
    ∃ pre mid x, P = pre ++ mid ++ [x] ∧ effectivePkg (pathOf r) P = pathOf (r ++ mid ++ [x]) ∧
      (∀ e ∈ mid, rootEndsWith r e = false) ∧ (pre = [] ∨ ∃ pre' e, pre = pre' ++ [e] ∧ rootEndsWith r e = true) := by
  obtain ⟨ini, x, rfl⟩ : ∃ ini x, P = ini ++ [x] := ⟨P.dropLast, P.getLast hne, (List.dropLast_concat_getLast hne).symm⟩
  obtain ⟨pre, mid, h1, h2, h3, h4⟩ := collectRev_char (effMatch (pathOf r)) ini.reverse [x]
  simp only [List.reverse_reverse] at h1
  refine ⟨pre, mid, x, by rw [h1], ?_, ?_, ?_⟩
  · unfold effectivePkg
    have hrev : (ini ++ [x]).reverse = x :: ini.reverse := by simp
    rw [hrev, effLoop_start, h2]
    have hmid : NormRel (mid ++ [x]) = true := by
      rw [h1] at hP
      simp only [normRel_append, Bool.and_eq_true] at hP ⊢
      exact ⟨hP.1.2, hP.2⟩
    rw [fragOf_norm _ hmid, join_pathOf2 r _ hr hmid, List.append_assoc]
  · intro e he; rw [← effMatch_pathOf]; exact h3 e he
  · rcases h4 with h | ⟨p', e, hp, he⟩
    · exact Or.inl h
    · exact Or.inr ⟨p', e, hp, by rw [← effMatch_pathOf]; exact he⟩

/-- Domain on which effectivePkg is plain concatenation: no element of the import path before its last
    equals the final element of a root of two or more elements. -/
def domEff (r P : List String) : Bool :=
  NormRel r && NormRel P && !P.isEmpty && P.dropLast.all (fun e => !rootEndsWith r e)

/-- **effectivePkg is "root/path"** on `domEff` (the Go meaning of a package below a root). -/
theorem effectivePkg_spec_partial (r P : List String) (h : domEff r P = true) :
    effectivePkg (pathOf r) P = pathOf (r ++ P) := by
  simp only [domEff, Bool.and_eq_true, Bool.not_eq_true', List.isEmpty_eq_false_iff, List.all_eq_true] at h
  obtain ⟨⟨⟨hr, hP⟩, hne⟩, hall⟩ := h
  obtain ⟨ini, x, rfl⟩ : ∃ ini x, P = ini ++ [x] := ⟨P.dropLast, P.getLast hne, (List.dropLast_concat_getLast hne).symm⟩
  simp only [List.dropLast_concat] at hall
  unfold effectivePkg
  have hrev : (ini ++ [x]).reverse = x :: ini.reverse := by simp
  rw [hrev, effLoop_start, collectRev_all]
  · simp only [List.reverse_reverse]
    rw [fragOf_norm _ hP, join_pathOf2 r _ hr hP]
  · intro e he
    rw [effMatch_pathOf]
    have := hall e (by simpa using he)
    simpa using this

/-- non-vacuity: the vendored-package case of Test_effectivePkg is in the domain… -/
example : domEff ["github.com", "foo", "plugin", "vendor", "guthib.com", "traefik", "fromage"] ["vendor", "guthib.com", "traefik", "vin"] = true ∧
    effectivePkg ["github.com", "foo", "plugin", "vendor", "guthib.com", "traefik", "fromage"] ["vendor", "guthib.com", "traefik", "vin"] =
      ["github.com", "foo", "plugin", "vendor", "guthib.com", "traefik", "fromage", "vendor", "guthib.com", "traefik", "vin"] := by
  decide

/-- **Every use importSrc makes of effectivePkg is plain concatenation**: the root is "" or `<dir>/vendor`
    (what goPkgDir returns) and no element of the import path before its last is `vendor` (importSrc rejects
    such paths since the repair of F16-3). -/
theorem effectivePkg_below_vendor (r0 P : List String) (hr0 : NormRel r0 = true) (hP : NormRel P = true) (hne : P ≠ [])
    (hv : "vendor" ∉ P.dropLast) :
    effectivePkg (pathOf (r0 ++ ["vendor"])) P = pathOf (r0 ++ ["vendor"] ++ P) := by
  apply effectivePkg_spec_partial
  have hn : NormRel (r0 ++ ["vendor"]) = true := by rw [normRel_append, hr0]; rfl
  simp only [domEff, hn, hP, Bool.and_eq_true, Bool.not_eq_true', List.isEmpty_eq_false_iff, List.all_eq_true, true_and]
  refine ⟨hne, ?_⟩
  intro e he
  have hne' : e ≠ "vendor" := fun h0 => hv (h0 ▸ he)
  simp [rootEndsWith, List.getLast?_append, Ne.symm hne']

/-- …and what the domain excludes is a real difference of the function (no caller reaches it any more): the import path `y/app/sub` seen from the root
    `x/app` becomes `x/app/sub` (another directory than GOPATH/src/x/app/y/app/sub, and than GOPATH/src/y/app/sub). -/
theorem effectivePkg_overlap_witness :
    domEff ["x", "app"] ["y", "app", "sub"] = false ∧
    effectivePkg ["x", "app"] ["y", "app", "sub"] = ["x", "app", "sub"] := by decide


/-! ## pkgDir and goPkgDir

  `goPath` is GOPATH, `r` the elements of the importing directory below GOPATH/src (what importSrc
  passes on as the root), `P` the elements of the import path. -/

/-- Well-formedness of the arguments (decidable; conditions on the form of the inputs, **no divergence class**):
    * GOPATH is a clean path (relative for an `io/fs` file system, which accepts no other name), `r` and `P`
      are clean, `P` is not empty;
    * the tree holds the parent `<level>/vendor` of every directory `<level>/vendor/<P>` it holds (true of
      any file system; the `FS` of the model is two lists). -/
def wfTree (f : FS) (goPath : Path) (r P : List String) : Bool :=
  let gs := goPath ++ ["src"]
  goodPath goPath && (!f.mapfs || NormRel goPath) && NormRel r && NormRel P && !P.isEmpty &&
  (List.range (r.length + 1)).all (fun k => !Spec.isDir f (vd gs r k ++ P) || Spec.isDir f (vd gs r k))

theorem wfTree_sound (f : FS) (goPath : Path) (r P : List String) (h : wfTree f goPath r P = true) :
    WF f goPath r P := by
  simp only [wfTree, Bool.and_eq_true, Bool.or_eq_true, Bool.not_eq_true', List.all_eq_true, List.mem_range,
    List.isEmpty_eq_false_iff] at h
  obtain ⟨⟨⟨⟨⟨h1, h2⟩, h3⟩, h4⟩, h5⟩, h6⟩ := h
  refine ⟨h1, ?_, h3, h4, h5, ?_⟩
  · intro hm; rcases h2 with h | h
    · rw [hm] at h; cases h
    · exact h
  · intro k hk hd
    rcases h6 k (by omega) with h | h
    · rw [hd] at h; cases h
    · exact h

/-- **Resolution = the Go rule** (nearest enclosing `vendor/<P>` holding Go files walking up from the
    importing directory, else `GOPATH/src/<P>`, else not found), for every tree, GOPATH, importing directory
    and import path: what importSrc's resolution (`lookup` = goPkgDir over pkgDir and previousRoot) finds is
    what go/build's GOPATH-mode vendor search finds.  No class of inputs is excluded. -/
theorem pkgDir_eq_spec (f : FS) (goPath : Path) (r P : List String) (h : wfTree f goPath r P = true) :
    (lookup Expected.C16.words f goPath (pathOf r) P).toOpt = some (Spec.resolve f (goPath ++ ["src"]) r P) := by
  rw [show Expected.C16.words = W from rfl, lookup_levels f goPath r P (wfTree_sound f goPath r P h), resultFrom_toOpt]
  rfl

/-- the same for goPkgDir with any sufficient bound on its loop -/
theorem goPkgDir_eq_spec (f : FS) (goPath : Path) (r P : List String) (h : wfTree f goPath r P = true)
    (n : Nat) (hn : r.length + 3 ≤ n) :
    (goPkgDir Expected.C16.words f goPath n (pathOf r) P).toOpt = some (Spec.resolve f (goPath ++ ["src"]) r P) := by
  have := goPkgDir_levels f goPath r P (wfTree_sound f goPath r P h) r.length (Nat.le_refl _) n hn
  rw [List.take_length] at this
  rw [show Expected.C16.words = W from rfl, this, resultFrom_toOpt]
  rfl

/-- the same about the words and decisions regenerated from interp/src.go -/
theorem pkgDir_eq_spec_generated (f : FS) (goPath : Path) (r P : List String) (h : wfTree f goPath r P = true) :
    (lookup Generated.C16.words f goPath (pathOf r) P).toOpt = some (Spec.resolve f (goPath ++ ["src"]) r P) := by
  rw [words_tie]
  exact pkgDir_eq_spec f goPath r P h

/-- pkgDir alone looks at directories only: it returns the nearest enclosing `vendor/<P>` *directory*, with or
    without Go files, else `GOPATH/src/<P>`; goPkgDir restarts it above a directory without Go files. -/
theorem pkgDir_nearest_vendored_directory (f : FS) (goPath : Path) (r P : List String) (h : wfTree f goPath r P = true)
    (fuel : Nat) (hfuel : r.length + 1 ≤ fuel) :
    pkgDir Expected.C16.words f goPath fuel (pathOf r) P = dirResult f (goPath ++ ["src"]) r P r.length := by
  have := pkgDir_levels f goPath r P (wfTree_sound f goPath r P h) r.length (Nat.le_refl _) fuel hfuel
  rw [List.take_length] at this
  exact this

/-- **Termination** (`pkgDir_terminates`): the recursion of pkgDir through previousRoot strictly shortens the
    root, so `root.length + 1` nested calls always suffice and no error is produced, for any import path and
    any tree (a regular file named `vendor` does not stop the walk any more: F16-9 repaired). -/
theorem pkgDir_terminates (f : FS) (goPath : Path) (r : List String) (P : Path)
    (hgo : goodPath goPath = true) (hrel : f.mapfs = true → NormRel goPath = true) (hr : NormRel r = true)
    (fuel : Nat) (hfuel : r.length + 1 ≤ fuel) :
    pkgDir Expected.C16.words f goPath fuel (pathOf r) P ≠ .fuel ∧ pkgDir Expected.C16.words f goPath fuel (pathOf r) P ≠ .err := by
  have := pkgDir_no_fuel f goPath r P hgo hrel hr r.length (Nat.le_refl _) fuel hfuel
  rw [List.take_length] at this
  exact this

/-- the loop of goPkgDir ends too: `root.length + 3` rounds suffice -/
theorem goPkgDir_terminates (f : FS) (goPath : Path) (r P : List String) (h : wfTree f goPath r P = true)
    (n : Nat) (hn : r.length + 3 ≤ n) :
    goPkgDir Expected.C16.words f goPath n (pathOf r) P ≠ .fuel ∧ goPkgDir Expected.C16.words f goPath n (pathOf r) P ≠ .err :=
  goPkgDir_ok f goPath r P (wfTree_sound f goPath r P h) n hn

/-- each step of pkgDir's recursion: previousRoot returns a proper prefix of the root and skips no level that
    has a vendor directory, whatever else the tree holds -/
theorem previousRoot_shrinks (f : FS) (gs : Path) (r : List String) (hg : goodPath gs = true)
    (hm : f.mapfs = true → NormRel gs = true) (hr : NormRel r = true) (hne : r ≠ []) :
    ∃ k, k < r.length ∧ previousRoot Expected.C16.words f (gs ++ r) r = .ok (pathOf (r.take k)) ∧
      ∀ i, k < i → i < r.length → f.stat (vd gs r i) ≠ .dir :=
  previousRoot_levels f gs r hg hm hr hne

/-- **An importer that is not below GOPATH/src sees no vendor directory**: from `noRoot` the resolution is
    `GOPATH/src/<P>` or nothing (the Go rule for a main file outside GOPATH; F16-6 repaired). -/
theorem outside_gopath_no_vendor (f : FS) (goPath : Path) (P : List String) (hgo : goodPath goPath = true)
    (hrel : f.mapfs = true → NormRel goPath = true) (hP : NormRel P = true) (hne : P ≠ []) :
    lookup Expected.C16.words f goPath [Expected.C16.words.noRoot] P =
      if Spec.isDir f (goPath ++ ["src"] ++ P) then .found (goPath ++ ["src"] ++ P) emptyS else .notFound :=
  lookup_noRoot f goPath P hgo hrel hP hne


/-! ### non-vacuity, and the replays of the repaired findings -/

/-- GOPATH=gp; app/cmd imports lib; lib is vendored below app (one level up) and also in GOPATH/src -/
def exFS : FS :=
  { dirs := [["gp"], ["gp", "src"], ["gp", "src", "app"], ["gp", "src", "app", "cmd"], ["gp", "src", "app", "vendor"],
             ["gp", "src", "app", "vendor", "lib"], ["gp", "src", "lib"]],
    files := [["gp", "src", "app", "cmd", "main.go"], ["gp", "src", "app", "vendor", "lib", "lib.go"],
              ["gp", "src", "lib", "lib.go"]],
    mapfs := true }

/-- a case that needs the walk upwards (previousRoot) -/
example : wfTree exFS ["gp"] ["app", "cmd"] ["lib"] = true ∧
    lookup Expected.C16.words exFS ["gp"] ["app", "cmd"] ["lib"] =
      .found ["gp", "src", "app", "vendor", "lib"] ["app", "vendor"] ∧
    Spec.resolve exFS ["gp", "src"] ["app", "cmd"] ["lib"] = some ["gp", "src", "app", "vendor", "lib"] := by
  decide

/-- F16-1 (repaired by 0a59e0e): GOPATH/src/app/lib does not shadow GOPATH/src/lib for `import "lib"` inside
    app any more; with the facts extracted before the repair (`oldWords`) the model reproduces the finding. -/
def nestedFS : FS :=
  { dirs := [["gp"], ["gp", "src"], ["gp", "src", "app"], ["gp", "src", "app", "lib"], ["gp", "src", "lib"]],
    files := [["gp", "src", "app", "app.go"], ["gp", "src", "app", "lib", "lib.go"], ["gp", "src", "lib", "lib.go"]],
    mapfs := true }

example :
    wfTree nestedFS ["gp"] ["app"] ["lib"] = true ∧
    lookup Expected.C16.words nestedFS ["gp"] ["app"] ["lib"] = .found ["gp", "src", "lib"] emptyS ∧
    Spec.resolve nestedFS ["gp", "src"] ["app"] ["lib"] = some ["gp", "src", "lib"] ∧
    lookup Expected.C16.oldWords nestedFS ["gp"] ["app"] ["lib"] = .found ["gp", "src", "app", "lib"] ["app"] := by
  decide

/-- F16-2 (repaired by 7bcf875): a directory `vendor/x` that exists only because `vendor/x/y` is a package is
    skipped, as go/build does; before: pkgDir stopped at it. -/
def noGoFS : FS :=
  { dirs := [["gp"], ["gp", "src"], ["gp", "src", "app"], ["gp", "src", "app", "vendor"], ["gp", "src", "app", "vendor", "x"],
             ["gp", "src", "app", "vendor", "x", "y"], ["gp", "src", "x"]],
    files := [["gp", "src", "app", "app.go"], ["gp", "src", "app", "vendor", "x", "y", "y.go"], ["gp", "src", "x", "x.go"]],
    mapfs := true }

example :
    wfTree noGoFS ["gp"] ["app"] ["x"] = true ∧
    lookup Expected.C16.words noGoFS ["gp"] ["app"] ["x"] = .found ["gp", "src", "x"] emptyS ∧
    Spec.resolve noGoFS ["gp", "src"] ["app"] ["x"] = some ["gp", "src", "x"] ∧
    pkgDir Expected.C16.words noGoFS ["gp"] 2 ["app"] ["x"] = .found ["gp", "src", "app", "vendor", "x"] ["app", "vendor"] ∧
    lookup Expected.C16.oldWords noGoFS ["gp"] ["app"] ["x"] = .found ["gp", "src", "app", "vendor", "x"] ["app", "vendor"] := by
  decide

/-- F16-9 (repaired by d708752): a regular file named `vendor` in an ancestor does not stop previousRoot's walk
    (before: it returned "" with a nil error and the vendor directory further up was never looked at)… -/
def vendorFileFS : FS :=
  { dirs := [["gp"], ["gp", "src"], ["gp", "src", "app"], ["gp", "src", "app", "sub"], ["gp", "src", "app", "sub", "deep"],
             ["gp", "src", "app", "vendor"], ["gp", "src", "app", "vendor", "lib"]],
    files := [["gp", "src", "app", "sub", "vendor"], ["gp", "src", "app", "sub", "deep", "d.go"],
              ["gp", "src", "app", "vendor", "lib", "lib.go"]],
    mapfs := true }

example :
    wfTree vendorFileFS ["gp"] ["app", "sub", "deep"] ["lib"] = true ∧
    lookup Expected.C16.words vendorFileFS ["gp"] ["app", "sub", "deep"] ["lib"] =
      .found ["gp", "src", "app", "vendor", "lib"] ["app", "vendor"] ∧
    Spec.resolve vendorFileFS ["gp", "src"] ["app", "sub", "deep"] ["lib"] = some ["gp", "src", "app", "vendor", "lib"] ∧
    lookup Expected.C16.oldWords vendorFileFS ["gp"] ["app", "sub", "deep"] ["lib"] = .notFound := by
  decide

/-- …and a regular file at a candidate path is not a package directory (before: it counted as found). -/
def candFileFS : FS :=
  { dirs := [["gp"], ["gp", "src"], ["gp", "src", "app"], ["gp", "src", "app", "vendor"], ["gp", "src", "lib"]],
    files := [["gp", "src", "app", "app.go"], ["gp", "src", "app", "vendor", "lib"], ["gp", "src", "lib", "lib.go"]],
    mapfs := true }

example :
    wfTree candFileFS ["gp"] ["app"] ["lib"] = true ∧
    lookup Expected.C16.words candFileFS ["gp"] ["app"] ["lib"] = .found ["gp", "src", "lib"] emptyS ∧
    Spec.resolve candFileFS ["gp", "src"] ["app"] ["lib"] = some ["gp", "src", "lib"] ∧
    lookup Expected.C16.oldWords candFileFS ["gp"] ["app"] ["lib"] =
      .found ["gp", "src", "app", "vendor", "lib"] ["app", "vendor"] := by
  decide


/-- the sub-root handed to the imports of the package just found (`effectivePkg(rPath, importPath)` in
    importSrc) **is the directory that was found**, so the next resolution starts from the right place:
    resolution composes along import chains.  `vendor` is no element of the import path before its last one:
    importSrc rejects the others before resolving (`vendor_element_rejected`). -/
theorem subroot_is_found_dir (f : FS) (goPath : Path) (r P : List String) (h : wfTree f goPath r P = true)
    (hv : "vendor" ∉ P.dropLast) (d rp : Path)
    (hres : lookup Expected.C16.words f goPath (pathOf r) P = .found d rp) :
    goPath ++ ["src"] ++ effectivePkg rp P = d := by
  have D := wfTree_sound f goPath r P h
  rw [show Expected.C16.words = W from rfl, lookup_levels f goPath r P D] at hres
  have shape : ∀ k x, searchR f (goPath ++ ["src"]) r P k = some x →
      ∃ j, x = .found (vd (goPath ++ ["src"]) r j ++ P) (r.take j ++ ["vendor"]) := by
    intro k
    induction k with
    | zero =>
      intro x hx
      unfold searchR at hx
      split at hx
      · exact ⟨0, by simpa using hx.symm⟩
      · cases hx
    | succ n ih =>
      intro x hx
      unfold searchR at hx
      split at hx
      · exact ⟨n + 1, by simpa using hx.symm⟩
      · exact ih x hx
  unfold resultFrom at hres
  cases hs : searchR f (goPath ++ ["src"]) r P r.length with
  | some x =>
    rw [hs] at hres
    obtain ⟨j, hj⟩ := shape _ x hs
    simp only at hres
    rw [hj] at hres
    simp only [DirR.found.injEq] at hres
    obtain ⟨rfl, rfl⟩ := hres
    have heff := effectivePkg_below_vendor (r.take j) P (normRel_take r j D.normR) D.normP D.neP hv
    have hp1 : pathOf (r.take j ++ ["vendor"]) = r.take j ++ ["vendor"] := by simp [pathOf]
    have hp2 : pathOf (r.take j ++ ["vendor"] ++ P) = r.take j ++ ["vendor"] ++ P := by simp [pathOf]
    rw [hp1, hp2] at heff
    rw [heff]; simp [vd, List.append_assoc]
  | none =>
    rw [hs] at hres
    simp only at hres
    split at hres
    · simp only [DirR.found.injEq] at hres
      obtain ⟨rfl, rfl⟩ := hres
      rw [effectivePkg_empty_root P D.normP D.neP]
    · cases hres

theorem resolve_ignores_fs_kind (f : FS) (b1 b2 : Bool) (gs : Path) (r P : List String) :
    Spec.resolve { f with mapfs := b1 } gs r P = Spec.resolve { f with mapfs := b2 } gs r P := by
  have hs : ∀ k, Spec.vendorSearch { f with mapfs := b1 } gs r P k = Spec.vendorSearch { f with mapfs := b2 } gs r P k := by
    intro k
    induction k with
    | zero => rfl
    | succ n ih =>
      show (if Spec.vendorHit { f with mapfs := b1 } gs r P (n + 1) = true then _ else Spec.vendorSearch _ gs r P n) =
           (if Spec.vendorHit { f with mapfs := b2 } gs r P (n + 1) = true then _ else Spec.vendorSearch _ gs r P n)
      rw [ih]; rfl
  unfold Spec.resolve
  rw [hs]; rfl

/-- **The same tree gives the same resolution through `io/fs` and on disk**: with well-formed arguments for
    both views of one tree (`mapfs := true` / `false`; for `io/fs` this means a clean relative GOPATH, the
    only kind of name such a file system accepts), the resolution finds the same directory — the Go rule reads
    only the sets of directories and files. -/
theorem same_on_both_file_systems (f : FS) (goPath : Path) (r P : List String)
    (h1 : wfTree { f with mapfs := true } goPath r P = true)
    (h2 : wfTree { f with mapfs := false } goPath r P = true) :
    (lookup Expected.C16.words { f with mapfs := true } goPath (pathOf r) P).toOpt =
    (lookup Expected.C16.words { f with mapfs := false } goPath (pathOf r) P).toOpt := by
  rw [pkgDir_eq_spec _ goPath r P h1, pkgDir_eq_spec _ goPath r P h2, resolve_ignores_fs_kind f true false]

example : wfTree { exFS with mapfs := true } ["gp"] ["app", "cmd"] ["lib"] = true ∧
    wfTree { exFS with mapfs := false } ["gp"] ["app", "cmd"] ["lib"] = true := by decide


/-! ## the resolution step of importSrc: from which directory -/

/-- what a caller of the resolution step looks at: the directory, or none (an error message) -/
def resolvedDir : ResolveR → Option (Option Path)
  | .found d _ => some (some d)
  | .notFound => some none
  | .notInGopath => some none
  | .notAllowed => none
  | .err => none
  | .fuel => none

/-- **A relative import in the main package resolves against the directory of the input file**
    (`filepath.Dir(interp.name)`), whatever the file system, GOPATH and working directory. -/
theorem relative_import_main (f : FS) (goPath wd name P : Path) (hrel : isPathRelative P = true) :
    resolveImport Expected.C16.words f goPath wd name [Expected.C16.words.mainID] P =
      .found (Spec.resolveRel (dir name) P) ["."] := by
  unfold resolveImport Spec.resolveRel
  have hlen : 2 ≤ P.length := by
    unfold isPathRelative at hrel
    split at hrel
    · simp
    · cases hrel
  have hd : dir name ≠ [] := clean_ne_nil _
  have hde : isEmptyS (dir name) = false := clean_not_emptyS _
  simp only [hrel, if_true, BEq.rfl]
  rw [join_dot_middle (dir name) P hd hde hlen]

/-- non-vacuity: `./sub` imported from the main file `cmd/tool/main.go` is `cmd/tool/sub` -/
example : resolveImport Expected.C16.words exFS ["gp"] ["", "w"] ["cmd", "tool", "main.go"] ["main"] [".", "sub"] =
    .found ["cmd", "tool", "sub"] ["."] := by decide

/-- **An import path with a `vendor` element before its last one is rejected** before any resolution, as by
    the go tool ("must be imported as …"), whatever the tree (F16-3 repaired by 798cc39). -/
theorem vendor_element_rejected (f : FS) (goPath wd name rPath P : Path) (hrel : isPathRelative P = false)
    (hv : "vendor" ∈ P.dropLast) :
    resolveImport Expected.C16.words f goPath wd name rPath P = .notAllowed := by
  unfold resolveImport hasVendorElem
  have h1 : Expected.C16.words.rejectVendor = true := rfl
  have h2 : Expected.C16.words.vendor = "vendor" := rfl
  have h3 : P.dropLast.contains "vendor" = true := by simpa using hv
  simp only [hrel, Bool.false_eq_true, if_false, h1, h2, h3, Bool.and_self, if_true]

example : resolveImport Expected.C16.words exFS ["gp"] ["", "w"] ["_.go"] ["main"] ["vendor", "x"] = .notAllowed ∧
    resolveImport Expected.C16.words exFS ["gp"] ["", "w"] ["_.go"] ["app"] ["app", "vendor", "lib"] = .notAllowed := by decide

/-- **The imports of a main file below GOPATH/src are resolved from its directory, by the Go rule** — full
    strength: for every tree, absolute GOPATH, directory `r` of the input file below GOPATH/src, working
    directory and import path without vendor element (F16-4 repaired by 8825ce6: mainRoot). -/
theorem main_imports_from_source_dir (f : FS) (goPath wd : Path) (r P : List String) (file : String)
    (h : wfTree f goPath r P = true) (habs : isRooted goPath = true) (hne : r ≠ []) (hv : "vendor" ∉ P.dropLast) :
    resolvedDir (resolveImport Expected.C16.words f goPath wd (goPath ++ ["src"] ++ r ++ [file]) [Expected.C16.words.mainID] P) =
      some (Spec.resolve f (goPath ++ ["src"]) r P) := by
  have D := wfTree_sound f goPath r P h
  rw [show Expected.C16.words = W from rfl]
  have hloc := rootFromSourceLocation_below wd goPath r file D.goodGo habs D.normR hne
  have hspec := pkgDir_eq_spec f goPath r P h
  rw [show Expected.C16.words = W from rfl] at hspec
  have hpo : pathOf r = r := by simp [pathOf, hne]
  unfold resolveImport mainRoot hasVendorElem
  have h1 : W.rejectVendor = true := rfl
  have h2 : W.vendor = "vendor" := rfl
  have h3 : P.dropLast.contains "vendor" = false := by simpa using hv
  have h4 : W.mainRoot = true := rfl
  simp only [isPathRelative_norm P D.normP, Bool.false_eq_true, if_false, h1, h2, h3, Bool.and_false, h4, Bool.not_true,
    BEq.rfl, if_true, hloc, Option.getD_some]
  have hl' : lookup W f goPath r P = lookup W f goPath (pathOf r) P := by rw [hpo]
  rw [hl']
  cases hl : lookup W f goPath (pathOf r) P with
  | found d rp => rw [hl] at hspec; simpa [DirR.toOpt, resolvedDir] using hspec
  | notFound => rw [hl] at hspec; simpa [DirR.toOpt, resolvedDir] using hspec
  | err => rw [hl] at hspec; simp [DirR.toOpt] at hspec
  | fuel => rw [hl] at hspec; simp [DirR.toOpt] at hspec

/-- **The imports of a source string (no input file) are resolved from GOPATH/src only**: no vendor directory
    applies to an importer that is not below GOPATH/src (F16-6 repaired by 8825ce6). -/
theorem main_without_file_sees_no_vendor (f : FS) (goPath wd : Path) (P : List String) (hgo : goodPath goPath = true)
    (hrel : f.mapfs = true → NormRel goPath = true) (hP : NormRel P = true) (hne : P ≠ []) (hv : "vendor" ∉ P.dropLast) :
    resolvedDir (resolveImport Expected.C16.words f goPath wd [Expected.C16.words.defaultName] [Expected.C16.words.mainID] P) =
      some (if Spec.isDir f (goPath ++ ["src"] ++ P) then some (goPath ++ ["src"] ++ P) else none) := by
  rw [show Expected.C16.words = W from rfl]
  unfold resolveImport mainRoot hasVendorElem rootFromSourceLocation
  have h1 : W.rejectVendor = true := rfl
  have h2 : W.vendor = "vendor" := rfl
  have h3 : P.dropLast.contains "vendor" = false := by simpa using hv
  have h4 : W.mainRoot = true := rfl
  simp only [isPathRelative_norm P hP, Bool.false_eq_true, if_false, h1, h2, h3, Bool.and_false, h4, Bool.not_true,
    BEq.rfl, if_true, Bool.true_or, Option.getD_some]
  rw [lookup_noRoot f goPath P hgo hrel hP hne]
  cases Spec.isDir f (goPath ++ ["src"] ++ P) <;> simp [resolvedDir]

/-- **The imports of a package are resolved from its own directory, by the Go rule** (`r`: the directory of the
    importing package below GOPATH/src, as handed on by importSrc — see `subroot_is_found_dir`) — full strength
    since the repair of F16-11 (657b966): for every tree, GOPATH, working directory, input file, importing
    directory and import path without vendor element; a failed resolution is not tried again from anywhere else. -/
theorem imports_from_package_dir (f : FS) (goPath wd name : Path) (r P : List String)
    (h : wfTree f goPath r P = true) (hne : r ≠ []) (hmain : r ≠ ["main"]) (hv : "vendor" ∉ P.dropLast) :
    resolvedDir (resolveImport Expected.C16.words f goPath wd name (pathOf r) P) =
      some (Spec.resolve f (goPath ++ ["src"]) r P) := by
  have D := wfTree_sound f goPath r P h
  have hspec := pkgDir_eq_spec f goPath r P h
  rw [show Expected.C16.words = W from rfl] at hspec ⊢
  have hpo : pathOf r = r := by simp [pathOf, hne]
  unfold resolveImport mainRoot hasVendorElem
  have h1 : W.rejectVendor = true := rfl
  have h2 : W.vendor = "vendor" := rfl
  have h3 : P.dropLast.contains "vendor" = false := by simpa using hv
  have h4 : W.mainRoot = true := rfl
  have h7 : W.retry = false := rfl
  have h5 : (pathOf r == [W.mainID]) = false := by
    rw [hpo, beq_eq_false_iff_ne]; exact hmain
  have h6 : isPathRelative (pathOf r) = false := by rw [hpo]; exact isPathRelative_norm r D.normR
  simp only [isPathRelative_norm P D.normP, Bool.false_eq_true, if_false, h1, h2, h3, Bool.and_false, h4, Bool.not_true,
    h5, h6, h7, Bool.not_false, if_true]
  cases hl : lookup W f goPath (pathOf r) P with
  | found d rp => rw [hl] at hspec; simpa [DirR.toOpt, resolvedDir] using hspec
  | notFound => rw [hl] at hspec; simpa [DirR.toOpt, resolvedDir] using hspec
  | err => rw [hl] at hspec; simp [DirR.toOpt] at hspec
  | fuel => rw [hl] at hspec; simp [DirR.toOpt] at hspec

/-- non-vacuity: an input file below GOPATH/src, the import resolves from app/cmd -/
example : wfTree exFS ["gp"] ["app", "cmd"] ["lib"] = true ∧
    resolveImport Expected.C16.words exFS ["gp"] ["", "w"] ["gp", "src", "app", "cmd", "main.go"] ["app", "cmd"] ["lib"] =
      .found ["gp", "src", "app", "vendor", "lib"] ["app", "vendor"] := by decide

/-- F16-11 (repaired by 657b966): with the main file GOPATH/src/app/main.go, package `other` (not below app)
    importing `lib` finds nothing, as by the Go rule; with the facts before the repair (`retryWords`: a second
    attempt from the location of the main file) the model reproduces the finding: app/vendor/lib. -/
def retryFS : FS :=
  { dirs := [["gp"], ["gp", "src"], ["gp", "src", "app"], ["gp", "src", "app", "vendor"], ["gp", "src", "app", "vendor", "lib"],
             ["gp", "src", "other"]],
    files := [["gp", "src", "app", "main.go"], ["gp", "src", "app", "vendor", "lib", "lib.go"], ["gp", "src", "other", "other.go"]],
    mapfs := true }

example :
    resolveImport Expected.C16.words retryFS ["gp"] ["", "w"] ["gp", "src", "app", "main.go"] ["other"] ["lib"] = .notFound ∧
    Spec.resolve retryFS ["gp", "src"] ["other"] ["lib"] = none ∧
    resolveImport Expected.C16.words retryFS ["gp"] ["", "w"] ["gp", "src", "app", "main.go"] ["main"] ["lib"] =
      .found ["gp", "src", "app", "vendor", "lib"] ["app", "vendor"] ∧
    resolveImport Expected.C16.retryWords retryFS ["gp"] ["", "w"] ["gp", "src", "app", "main.go"] ["other"] ["lib"] =
      .found ["gp", "src", "app", "vendor", "lib"] ["app", "vendor"] := by
  decide

/-- F16 / F16-4 / F16-5 / F16-6 (repaired by 097e643 and 8825ce6): the main package of GOPATH/src/app, which has
    its own vendor/lib, given as `./` from that directory (root "./."), as a file on disk, as a file of an
    `io/fs` file system with a relative GOPATH — `lib` is app/vendor/lib each time; and a source string sees
    GOPATH/src/lib, not GOPATH/src/vendor/lib.  With the old facts the model reproduces the findings. -/
def dotFS : FS :=
  { dirs := [["", ""], ["", "w"], ["", "w", "gp"], ["", "w", "gp", "src"], ["", "w", "gp", "src", "app"],
             ["", "w", "gp", "src", "app", "vendor"], ["", "w", "gp", "src", "app", "vendor", "lib"],
             ["", "w", "gp", "src", "lib"]],
    files := [["", "w", "gp", "src", "app", "main.go"], ["", "w", "gp", "src", "app", "vendor", "lib", "lib.go"],
              ["", "w", "gp", "src", "lib", "lib.go"]],
    mapfs := false }

def relFS : FS :=
  { dirs := [["gp"], ["gp", "src"], ["gp", "src", "app"], ["gp", "src", "app", "vendor"], ["gp", "src", "app", "vendor", "lib"],
             ["gp", "src", "vendor"], ["gp", "src", "vendor", "lib"], ["gp", "src", "lib"]],
    files := [["gp", "src", "app", "main.go"], ["gp", "src", "app", "vendor", "lib", "lib.go"],
              ["gp", "src", "vendor", "lib", "lib.go"], ["gp", "src", "lib", "lib.go"]],
    mapfs := true }

example :
    -- EvalPath("./") in GOPATH/src/app: gta hands the root "./." on
    resolveImport Expected.C16.words dotFS ["", "w", "gp"] ["", "w", "gp", "src", "app"] ["_.go"] [".", "."] ["lib"] =
      .found ["", "w", "gp", "src", "app", "vendor", "lib"] ["app", "vendor"] ∧
    pkgDir Expected.C16.oldWords dotFS ["", "w", "gp"] (defaultFuel ["."]) ["."] ["lib"] =
      .found ["", "w", "gp", "src", "lib"] ["."] ∧
    -- EvalPath(file) on disk
    resolveImport Expected.C16.words dotFS ["", "w", "gp"] ["", "w"] ["", "w", "gp", "src", "app", "main.go"] ["main"] ["lib"] =
      .found ["", "w", "gp", "src", "app", "vendor", "lib"] ["app", "vendor"] ∧
    -- EvalPath(file) through io/fs with the relative GOPATH gp, the process being anywhere
    resolveImport Expected.C16.words relFS ["gp"] ["", "anywhere"] ["gp", "src", "app", "main.go"] ["main"] ["lib"] =
      .found ["gp", "src", "app", "vendor", "lib"] ["app", "vendor"] ∧
    -- Eval(source string)
    resolveImport Expected.C16.words relFS ["gp"] ["", "anywhere"] ["_.go"] ["main"] ["lib"] = .found ["gp", "src", "lib"] emptyS ∧
    resolveImport Expected.C16.oldWords relFS ["gp"] ["", "anywhere"] ["_.go"] ["main"] ["lib"] =
      .found ["gp", "src", "vendor", "lib"] ["vendor"] := by
  decide

/-- F16-10 (repaired by 7a55e13): the directory `rel1`, imported as `./rel1` by main and as `../rel1` by
    `./rel2`, has one key: gta rewrites the second import to `./rel1` seen from `main`; the root handed on to a
    relatively imported package is its path from the main package.  Before: two keys, evaluated twice. -/
example :
    gtaRel Expected.C16.words [".", "rel2"] ["..", "rel1"] = (["main"], [".", "rel1"]) ∧
    gtaRel Expected.C16.words ["main"] [".", "rel1"] = (["main"], [".", "rel1"]) ∧
    subRPath Expected.C16.words ["."] [".", "rel2"] = [".", "rel2"] ∧
    subRPath Expected.C16.words ["."] [".", ""] = [".", "."] ∧
    gtaRel Expected.C16.oldWords ["rel2"] ["..", "rel1"] = (["rel2"], ["..", "rel1"]) ∧
    subRPath Expected.C16.oldWords ["."] [".", "rel2"] = ["rel2"] := by
  decide

/-! ## importSrc: once only, in dependency order, never recursing without end -/

/-- tie: the bookkeeping statements found in importSrc, in the order found, are the full set the theorems
    assume (already-imported test first; cycle test and mark before the recursion into the package) -/
theorem book_tie : bookOf Generated.C16.importOrder = fullBook := by decide

/-- **Each import path is evaluated at most once** however many importers it has, and after a successful
    import it is registered: the evaluation trace of any successful `importSrc` has no duplicate, contains no
    path already imported before, and every requested path is in `srcPkg` afterwards.  For every resolver,
    every import graph, every starting state and every depth. -/
theorem import_once (res : Resolver) (hasGo : String → Bool) (importsOf : String → List String) (subRoot : String → String → String)
    (fuel : Nat) (st st' : ImpState) (rPath p : String) (tr : List (String × String))
    (h : importSrc fullBook res hasGo importsOf subRoot fuel st rPath p = .ok (st', tr)) :
    (paths tr).Nodup ∧ (∀ q ∈ paths tr, q ∉ st.srcPkg) ∧ (∀ q ∈ paths tr, q ∉ st.rdir) ∧
    p ∈ st'.srcPkg ∧ st'.srcPkg = (paths tr).reverse ++ st.srcPkg := by
  have I := good_importSrc res hasGo importsOf subRoot fuel st rPath p st' tr h
  exact ⟨I.nodup, I.notDone, fun q hq => (I.fresh q hq).2,
    importSrc_imported res hasGo importsOf subRoot fuel st rPath p st' tr h, I.srcPkgEq⟩

/-- **A successful import evaluates packages in dependency order**: every package of the trace has all the
    import paths of its files already registered when it is evaluated.  Hence no package on an import cycle
    is ever evaluated: a cycle cannot end in success. -/
theorem import_dependency_order (res : Resolver) (hasGo : String → Bool) (importsOf : String → List String) (subRoot : String → String → String)
    (fuel : Nat) (st st' : ImpState) (rPath p : String) (tr : List (String × String))
    (h : importSrc fullBook res hasGo importsOf subRoot fuel st rPath p = .ok (st', tr)) :
    depOrdered importsOf st.srcPkg tr :=
  (good_importSrc res hasGo importsOf subRoot fuel st rPath p st' tr h).ordered

/-- **An import cycle is an error**: an import path met again while it is still being loaded is reported as
    `import cycle not allowed`… -/
theorem cycle_is_error (res : Resolver) (hasGo : String → Bool) (importsOf : String → List String) (subRoot : String → String → String)
    (fuel : Nat) (st : ImpState) (rPath p d rp : String)
    (hres : res rPath p = .ok (d, rp)) (hin : p ∈ st.rdir) (hnot : p ∉ st.srcPkg) :
    importSrc fullBook res hasGo importsOf subRoot (fuel + 1) st rPath p = .error (.cycle p) :=
  importSrc_in_progress_is_cycle res hasGo importsOf subRoot fuel st rPath p d rp hres hin hnot

/-- …**instead of recursing for ever**: with the import paths of the program drawn from a finite list `U`
    (and a resolver that itself terminates: `pkgDir_terminates`, `goPkgDir_terminates`), the nesting depth
    never exceeds the number of paths of `U` not yet marked, plus one. -/
theorem import_depth_bounded (res : Resolver) (hasGo : String → Bool) (importsOf : String → List String) (subRoot : String → String → String)
    (U : List String) (hU : ∀ d i, i ∈ importsOf d → i ∈ U) (hres : ∀ rp q, res rp q ≠ .error .fuel)
    (fuel : Nat) (st : ImpState) (rPath p : String) (hp : p ∈ U) (hfuel : unmarked U st.rdir < fuel) :
    importSrc fullBook res hasGo importsOf subRoot fuel st rPath p ≠ .error .fuel :=
  importSrc_no_fuel res hasGo importsOf subRoot U hU hres fuel st rPath p hp hfuel

/-- non-vacuity: a diamond (a → c, b → c) evaluates c once, before a and b; a two-cycle is an error -/
def diamondRes : Resolver := fun _ p => .ok ("gp/src/" ++ p, "")
def diamondImports : String → List String
  | "gp/src/a" => ["c"]
  | "gp/src/b" => ["c"]
  | "gp/src/x" => ["y"]
  | "gp/src/y" => ["x"]
  | _ => []

example :
    importAllWith (fun s i => importSrc fullBook diamondRes (fun _ => true) diamondImports (fun _ p => p) 5 s "main" i)
      { srcPkg := [], rdir := [] } ["a", "b"] =
      .ok ({ srcPkg := ["b", "a", "c"], rdir := ["b", "c", "a"] }, [("c", "gp/src/c"), ("a", "gp/src/a"), ("b", "gp/src/b")]) ∧
    importSrc fullBook diamondRes (fun _ => true) diamondImports (fun _ p => p) 5 { srcPkg := [], rdir := [] } "main" "x" =
      .error (.cycle "x") := by
  decide

/-- what the bookkeeping cannot give: `srcPkg` and `rdir` are keyed by *import path*, so when the same import
    path resolves to two different directories for two importers (each with its own vendor copy), the second
    importer silently gets the first one's package (class `same-path-two-dirs`, F16-8, open); with the Go rule
    these are two distinct packages. -/
def twoCopiesRes : Resolver := fun rp p =>
  if p == "lib" then .ok ("gp/src/" ++ rp ++ "/vendor/lib", rp ++ "/vendor") else .ok ("gp/src/" ++ p, "")
def twoCopiesImports : String → List String
  | "gp/src/a" => ["lib"]
  | "gp/src/b" => ["lib"]
  | _ => []

theorem same_path_two_dirs_witness :
    importAllWith (fun s i => importSrc fullBook twoCopiesRes (fun _ => true) twoCopiesImports (fun _ p => p) 5 s "main" i)
      { srcPkg := [], rdir := [] } ["a", "b"] =
      .ok ({ srcPkg := ["b", "a", "lib"], rdir := ["b", "lib", "a"] },
           [("lib", "gp/src/a/vendor/lib"), ("a", "gp/src/a"), ("b", "gp/src/b")]) := by
  decide


end YaegiVerif.Props.C16
