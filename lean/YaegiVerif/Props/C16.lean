import YaegiVerif.Model.Src
import YaegiVerif.Spec.GoImport
import YaegiVerif.Expected.C16
import YaegiVerif.Generated.C16
import YaegiVerif.Proofs.C16Path
import YaegiVerif.Proofs.C16Eff
import YaegiVerif.Proofs.C16PkgDir
import YaegiVerif.Proofs.C16Import
/-
  C16 — property theorems: source imports resolve to the right directory, once, without cycles.
-/
namespace YaegiVerif.Props.C16
open YaegiVerif YaegiVerif.Src

/-- tie: the literal words and the order of pkgDir's two attempts read from interp/src.go -/
theorem words_tie : Generated.C16.words = Expected.C16.words := by decide

/-- tie: order of importSrc's bookkeeping statements (already-imported test, resolution, cycle test,
    mark, recursion, registration) -/
theorem import_order_tie : Generated.C16.importOrder = Expected.C16.importOrder := by decide

/-- tie (`same_on_any_fs`): importSrc, pkgDir, previousRoot and effectivePkg reach the file system only
    through fs.Stat / fs.ReadDir / fs.ReadFile of the configured file system, never through package os -/
theorem same_on_any_fs :
    Generated.C16.fsCalls = Expected.C16.fsCalls ∧ Generated.C16.osCalls = Expected.C16.osCalls := by decide

/-- tie: gta.go still rewrites an import path "x/x" to "x" before resolving it (finding F16-7) -/
theorem gta_tie : Generated.C16.gtaCollapse = Expected.C16.gtaCollapse := by decide

/-- what that rewriting does to a doubled import path, and to no other clean path of the example -/
theorem doubled_import_path_witness :
    gtaImportPath ["x", "x"] = ["x"] ∧ gtaImportPath ["x", "y"] = ["x", "y"] ∧ gtaImportPath ["a", "x", "x"] = ["a", "x", "x"] := by
  decide

/-- tie: the functions transcribed in Model/Src.lean are the ones the model was written from -/
theorem source_tie : Generated.C16.sourceHashes = Expected.C16.sourceHashes := by decide


/-! ## effectivePkg -/

/-- the loop's test, in words: the root has at least two elements and its last one is `e` -/
def rootEndsWith (r : List String) (e : String) : Bool := decide (2 ≤ r.length) && r.getLast? == some e

theorem effMatch_pathOf (r : List String) (e : String) : effMatch (pathOf r) e = rootEndsWith r e := by
  cases r with
  | nil => simp [effMatch, pathOf, emptyS, rootEndsWith]
  | cons a b =>
    have : pathOf (a :: b) = a :: b := by simp [pathOf]
    rw [this]
    unfold effMatch rootEndsWith
    have h1 : (a :: b)[(a :: b).length - 1]? = (a :: b).getLast? := by
      rw [List.getLast?_eq_getElem?]
    rw [h1]
    congr 1
    simp only [List.length_cons, decide_eq_decide]
    omega

/-- **What effectivePkg computes** (all clean roots, all clean non-empty import paths): the root followed by
    the part `mid ++ [x]` of the import path that comes after the last element — the final position
    excepted — equal to the root's final element (roots of at least two elements); nothing else of the
    import path survives. -/
theorem effectivePkg_closed_form (r P : List String) (hr : NormRel r = true) (hP : NormRel P = true) (hne : P ≠ []) :
    ∃ pre mid x, P = pre ++ mid ++ [x] ∧ effectivePkg (pathOf r) P = pathOf (r ++ mid ++ [x]) ∧
      (∀ e ∈ mid, rootEndsWith r e = false) ∧ (pre = [] ∨ ∃ pre' e, pre = pre' ++ [e] ∧ rootEndsWith r e = true) := by
  obtain ⟨ini, x, rfl⟩ : ∃ ini x, P = ini ++ [x] := ⟨P.dropLast, P.getLast hne, (List.dropLast_concat_getLast hne).symm⟩
  obtain ⟨pre, mid, h1, h2, h3, h4⟩ := collectRev_char (effMatch (pathOf r)) ini.reverse [x]
  simp only [List.reverse_reverse] at h1
  refine ⟨pre, mid, x, by rw [h1], ?_, ?_, ?_⟩
  · unfold effectivePkg
    have hrev : (ini ++ [x]).reverse = x :: ini.reverse := by simp
    rw [hrev, effLoop_start, h2]
    have hmid : NormRel (mid ++ [x]) = true := by
      rw [h1] at hP
      simp only [normRel_append, Bool.and_eq_true] at hP ⊢
      exact ⟨hP.1.2, hP.2⟩
    rw [fragOf_norm _ hmid, join_pathOf2 r _ hr hmid, List.append_assoc]
  · intro e he; rw [← effMatch_pathOf]; exact h3 e he
  · rcases h4 with h | ⟨p', e, hp, he⟩
    · exact Or.inl h
    · exact Or.inr ⟨p', e, hp, by rw [← effMatch_pathOf]; exact he⟩

/-- Domain on which effectivePkg is plain concatenation: no element of the import path before its last
    equals the final element of a root of two or more elements. -/
def domEff (r P : List String) : Bool :=
  NormRel r && NormRel P && !P.isEmpty && P.dropLast.all (fun e => !rootEndsWith r e)

/-- **effectivePkg is "root/path"** on `domEff` (the Go meaning of a package below a root). -/
theorem effectivePkg_spec_partial (r P : List String) (h : domEff r P = true) :
    effectivePkg (pathOf r) P = pathOf (r ++ P) := by
  simp only [domEff, Bool.and_eq_true, Bool.not_eq_true', List.isEmpty_eq_false_iff, List.all_eq_true] at h
  obtain ⟨⟨⟨hr, hP⟩, hne⟩, hall⟩ := h
  obtain ⟨ini, x, rfl⟩ : ∃ ini x, P = ini ++ [x] := ⟨P.dropLast, P.getLast hne, (List.dropLast_concat_getLast hne).symm⟩
  simp only [List.dropLast_concat] at hall
  unfold effectivePkg
  have hrev : (ini ++ [x]).reverse = x :: ini.reverse := by simp
  rw [hrev, effLoop_start, collectRev_all]
  · simp only [List.reverse_reverse]
    rw [fragOf_norm _ hP, join_pathOf2 r _ hr hP]
  · intro e he
    rw [effMatch_pathOf]
    have := hall e (by simpa using he)
    simpa using this

/-- non-vacuity: the vendored-package case of Test_effectivePkg is in the domain… -/
example : domEff ["github.com", "foo", "plugin", "vendor", "guthib.com", "traefik", "fromage"] ["vendor", "guthib.com", "traefik", "vin"] = true ∧
    effectivePkg ["github.com", "foo", "plugin", "vendor", "guthib.com", "traefik", "fromage"] ["vendor", "guthib.com", "traefik", "vin"] =
      ["github.com", "foo", "plugin", "vendor", "guthib.com", "traefik", "fromage", "vendor", "guthib.com", "traefik", "vin"] := by
  decide

/-- …and what the domain excludes is a real difference: the import path `y/app/sub` seen from the root
    `x/app` becomes `x/app/sub` (another directory than GOPATH/src/x/app/y/app/sub, and than GOPATH/src/y/app/sub). -/
theorem effectivePkg_overlap_witness :
    domEff ["x", "app"] ["y", "app", "sub"] = false ∧
    effectivePkg ["x", "app"] ["y", "app", "sub"] = ["x", "app", "sub"] := by decide


/-! ## pkgDir

  `goPath` is GOPATH, `r` the elements of the importing directory below GOPATH/src (what importSrc
  passes as `rPath`), `P` the elements of the import path. -/

/-- Domain of the resolution theorem (decidable).
    * GOPATH is a clean path (relative for an `io/fs` file system), `r` and `P` are clean, `P` non-empty;
    * no candidate directory is a regular file, no proper ancestor of `r` holds a regular file named `vendor`;
    * a directory `<level>/vendor/<P>` has its parent `<level>/vendor` in the tree and holds Go files
      (outside: class `vendor-dir-without-go-files`);
    * for no level `k ≥ 1` does `GOPATH/src/effectivePkg(r[:k], P)` exist (outside: class
      `found-under-root`, see `nested_under_root_witness`). -/
def domPkgDir (f : FS) (goPath : Path) (r P : List String) : Bool :=
  let gs := goPath ++ ["src"]
  goodPath goPath && (!f.mapfs || NormRel goPath) && NormRel r && NormRel P && !P.isEmpty &&
  (f.stat (gs ++ P) != .file) &&
  (List.range (r.length + 1)).all (fun k =>
    (f.stat (vd gs r k ++ P) != .file) &&
    (!Spec.isDir f (vd gs r k ++ P) || (Spec.isDir f (vd gs r k) && Spec.hasGo f (vd gs r k ++ P))) &&
    (k == 0 || !f.exists (join [goPath, [W.src], effectivePkg (pathOf (r.take k)) P])) &&
    (k == 0 || decide (r.length ≤ k) || f.stat (vd gs r k) != .file))

theorem domPkgDir_sound (f : FS) (goPath : Path) (r P : List String) (h : domPkgDir f goPath r P = true) :
    DomP f goPath r P := by
  simp only [domPkgDir, Bool.and_eq_true, Bool.or_eq_true, Bool.not_eq_true', List.all_eq_true, List.mem_range,
    bne_iff_ne, ne_eq, beq_iff_eq, decide_eq_true_eq, List.isEmpty_eq_false_iff] at h
  obtain ⟨⟨⟨⟨⟨⟨h1, h2⟩, h3⟩, h4⟩, h5⟩, h6⟩, h7⟩ := h
  refine ⟨h1, ?_, h3, h4, h5, ?_, h6, ?_, ?_, ?_⟩
  · intro hm; rcases h2 with h | h
    · rw [hm] at h; cases h
    · exact h
  · intro k hk; exact (h7 k (by omega)).1.1.1
  · intro k hk hd
    rcases (h7 k (by omega)).1.1.2 with h | h
    · rw [hd] at h; cases h
    · exact h
  · intro k hk1 hk2
    rcases (h7 k (by omega)).1.2 with h | h
    · omega
    · exact h
  · intro k hk1 hk2
    rcases (h7 k (by omega)).2 with (h | h) | h
    · omega
    · omega
    · exact h

/-- **Resolution = the Go rule** (nearest enclosing `vendor/<P>` walking up from the importing directory,
    else `GOPATH/src/<P>`, else not found), for every tree, GOPATH, importing directory and import path in
    `domPkgDir`; `root.length + 1` nested calls suffice. -/
theorem pkgDir_eq_spec_partial (f : FS) (goPath : Path) (r P : List String) (h : domPkgDir f goPath r P = true)
    (fuel : Nat) (hfuel : r.length + 1 ≤ fuel) :
    (pkgDir Expected.C16.words f goPath fuel (pathOf r) P).toOpt = some (Spec.resolve f (goPath ++ ["src"]) r P) := by
  have := pkgDir_levels f goPath r P (domPkgDir_sound f goPath r P h) r.length (Nat.le_refl _) fuel hfuel
  rw [List.take_length] at this
  rw [show Expected.C16.words = W from rfl, this, resultFrom_toOpt]
  rfl

/-- the same about the words and the order of attempts regenerated from interp/src.go -/
theorem pkgDir_eq_spec_generated (f : FS) (goPath : Path) (r P : List String) (h : domPkgDir f goPath r P = true) :
    (pkgDir Generated.C16.words f goPath (defaultFuel (pathOf r)) (pathOf r) P).toOpt =
      some (Spec.resolve f (goPath ++ ["src"]) r P) := by
  rw [words_tie]
  apply pkgDir_eq_spec_partial f goPath r P h
  unfold defaultFuel pathOf
  cases r with
  | nil => simp [emptyS]
  | cons a b => simp; omega

/-- **Termination** (`pkgDir_terminates`): the recursion of pkgDir through previousRoot strictly shortens the
    root, so `root.length + 1` nested calls always suffice and no error is produced, for any import path and
    any tree in which no proper ancestor of the root holds a regular file named `vendor`. -/
theorem pkgDir_terminates (f : FS) (goPath : Path) (r : List String) (P : Path)
    (hgo : goodPath goPath = true) (hrel : f.mapfs = true → NormRel goPath = true) (hr : NormRel r = true)
    (hfile : ∀ k, 1 ≤ k → k < r.length → f.stat (vd (goPath ++ ["src"]) r k) ≠ .file)
    (fuel : Nat) (hfuel : r.length + 1 ≤ fuel) :
    pkgDir Expected.C16.words f goPath fuel (pathOf r) P ≠ .fuel ∧ pkgDir Expected.C16.words f goPath fuel (pathOf r) P ≠ .err := by
  have := pkgDir_no_fuel f goPath r P hgo hrel hr hfile r.length (Nat.le_refl _) fuel hfuel
  rw [List.take_length] at this
  exact this

/-- each step of that recursion: previousRoot returns a proper prefix of the root and skips no level that
    has a vendor directory -/
theorem previousRoot_shrinks (f : FS) (gs : Path) (r : List String) (hg : goodPath gs = true)
    (hm : f.mapfs = true → NormRel gs = true) (hr : NormRel r = true) (hne : r ≠ [])
    (hfile : ∀ i, 1 ≤ i → i < r.length → f.stat (vd gs r i) ≠ .file) :
    ∃ k, k < r.length ∧ previousRoot Expected.C16.words f (gs ++ r) r = .ok (pathOf (r.take k)) ∧
      ∀ i, k < i → i < r.length → f.stat (vd gs r i) ≠ .dir :=
  previousRoot_levels f gs r hg hm hr hne hfile


/-! ### non-vacuity and witnesses -/

/-- GOPATH=gp; app/cmd imports lib; lib is vendored below app (one level up) and also in GOPATH/src -/
def exFS : FS :=
  { dirs := [["gp"], ["gp", "src"], ["gp", "src", "app"], ["gp", "src", "app", "cmd"], ["gp", "src", "app", "vendor"],
             ["gp", "src", "app", "vendor", "lib"], ["gp", "src", "lib"]],
    files := [["gp", "src", "app", "cmd", "main.go"], ["gp", "src", "app", "vendor", "lib", "lib.go"],
              ["gp", "src", "lib", "lib.go"]],
    mapfs := true }

/-- the domain is inhabited by a case that needs the walk upwards (previousRoot) -/
example : domPkgDir exFS ["gp"] ["app", "cmd"] ["lib"] = true ∧
    pkgDir Expected.C16.words exFS ["gp"] 3 ["app", "cmd"] ["lib"] =
      .found ["gp", "src", "app", "vendor", "lib"] ["app", "vendor"] ∧
    Spec.resolve exFS ["gp", "src"] ["app", "cmd"] ["lib"] = some ["gp", "src", "app", "vendor", "lib"] := by
  decide

/-- `nested_under_root_witness`: effectivePkg(root, path) also answers to `root/path`, so
    GOPATH/src/app/lib shadows GOPATH/src/lib for `import "lib"` inside app (class `found-under-root`). -/
def nestedFS : FS :=
  { dirs := [["gp"], ["gp", "src"], ["gp", "src", "app"], ["gp", "src", "app", "lib"], ["gp", "src", "lib"]],
    files := [["gp", "src", "app", "app.go"], ["gp", "src", "app", "lib", "lib.go"], ["gp", "src", "lib", "lib.go"]],
    mapfs := true }

theorem nested_under_root_witness :
    domPkgDir nestedFS ["gp"] ["app"] ["lib"] = false ∧
    pkgDir Expected.C16.words nestedFS ["gp"] 2 ["app"] ["lib"] = .found ["gp", "src", "app", "lib"] ["app"] ∧
    Spec.resolve nestedFS ["gp", "src"] ["app"] ["lib"] = some ["gp", "src", "lib"] := by
  decide

/-- F16: a main package given as `./` (importSrc then passes the root "."), in the directory
    GOPATH/src/app which has its own vendor/lib: yaegi resolves `lib` to GOPATH/src/lib, the Go rule from
    the importing directory `app` gives app/vendor/lib (class `main-given-as-dot`). -/
def dotFS : FS :=
  { dirs := [["", ""], ["", "w"], ["", "w", "gp"], ["", "w", "gp", "src"], ["", "w", "gp", "src", "app"],
             ["", "w", "gp", "src", "app", "vendor"], ["", "w", "gp", "src", "app", "vendor", "lib"],
             ["", "w", "gp", "src", "lib"]],
    files := [["", "w", "gp", "src", "app", "main.go"], ["", "w", "gp", "src", "app", "vendor", "lib", "lib.go"],
              ["", "w", "gp", "src", "lib", "lib.go"]],
    mapfs := false }

theorem dot_main_ignores_vendor_witness :
    pkgDir Expected.C16.words dotFS ["", "w", "gp"] (defaultFuel ["."]) ["."] ["lib"] =
      .found ["", "w", "gp", "src", "lib"] ["."] ∧
    Spec.resolve dotFS ["", "w", "gp", "src"] ["app"] ["lib"] = some ["", "w", "gp", "src", "app", "vendor", "lib"] := by
  decide

/-- a directory `vendor/x` that exists only because `vendor/x/y` is a package: go/build skips it (no Go
    files) and finds GOPATH/src/x, pkgDir stops at it (class `vendor-dir-without-go-files`). -/
def noGoFS : FS :=
  { dirs := [["gp"], ["gp", "src"], ["gp", "src", "app"], ["gp", "src", "app", "vendor"], ["gp", "src", "app", "vendor", "x"],
             ["gp", "src", "app", "vendor", "x", "y"], ["gp", "src", "x"]],
    files := [["gp", "src", "app", "app.go"], ["gp", "src", "app", "vendor", "x", "y", "y.go"], ["gp", "src", "x", "x.go"]],
    mapfs := true }

theorem vendor_dir_without_go_files_witness :
    domPkgDir noGoFS ["gp"] ["app"] ["x"] = false ∧
    pkgDir Expected.C16.words noGoFS ["gp"] 2 ["app"] ["x"] = .found ["gp", "src", "app", "vendor", "x"] ["app", "vendor"] ∧
    Spec.resolve noGoFS ["gp", "src"] ["app"] ["x"] = some ["gp", "src", "x"] := by
  decide

/-- a regular file named `vendor` in an ancestor makes previousRoot give up the walk (it returns "" with
    a nil error), so the vendor directory further up is never looked at (class `vendor-is-a-file`). -/
def vendorFileFS : FS :=
  { dirs := [["gp"], ["gp", "src"], ["gp", "src", "app"], ["gp", "src", "app", "sub"], ["gp", "src", "app", "sub", "deep"],
             ["gp", "src", "app", "vendor"], ["gp", "src", "app", "vendor", "lib"]],
    files := [["gp", "src", "app", "sub", "vendor"], ["gp", "src", "app", "sub", "deep", "d.go"],
              ["gp", "src", "app", "vendor", "lib", "lib.go"]],
    mapfs := true }

theorem vendor_is_a_file_witness :
    domPkgDir vendorFileFS ["gp"] ["app", "sub", "deep"] ["lib"] = false ∧
    pkgDir Expected.C16.words vendorFileFS ["gp"] 4 ["app", "sub", "deep"] ["lib"] = .notFound ∧
    Spec.resolve vendorFileFS ["gp", "src"] ["app", "sub", "deep"] ["lib"] = some ["gp", "src", "app", "vendor", "lib"] := by
  decide


/-- the sub-root handed to the imports of the package just found (`effectivePkg(rPath, importPath)` in
    importSrc) **is the directory that was found**, so the next resolution starts from the right place:
    resolution composes along import chains.  Needs `vendor` not to be an element of the import path. -/
theorem subroot_is_found_dir (f : FS) (goPath : Path) (r P : List String) (h : domPkgDir f goPath r P = true)
    (hv : "vendor" ∉ P) (fuel : Nat) (hfuel : r.length + 1 ≤ fuel) (d rp : Path)
    (hres : pkgDir Expected.C16.words f goPath fuel (pathOf r) P = .found d rp) :
    goPath ++ ["src"] ++ effectivePkg rp P = d := by
  have D := domPkgDir_sound f goPath r P h
  have hl := pkgDir_levels f goPath r P D r.length (Nat.le_refl _) fuel hfuel
  rw [List.take_length] at hl
  rw [show Expected.C16.words = W from rfl, hl] at hres
  have shape : ∀ k x, searchR f (goPath ++ ["src"]) r P k = some x →
      ∃ j, x = .found (vd (goPath ++ ["src"]) r j ++ P) (r.take j ++ ["vendor"]) := by
    intro k
    induction k with
    | zero =>
      intro x hx
      unfold searchR at hx
      split at hx
      · exact ⟨0, by simpa using hx.symm⟩
      · cases hx
    | succ n ih =>
      intro x hx
      unfold searchR at hx
      split at hx
      · exact ⟨n + 1, by simpa using hx.symm⟩
      · exact ih x hx
  unfold resultFrom at hres
  cases hs : searchR f (goPath ++ ["src"]) r P r.length with
  | some x =>
    rw [hs] at hres
    obtain ⟨j, hj⟩ := shape _ x hs
    simp only at hres
    rw [hj] at hres
    simp only [DirR.found.injEq] at hres
    obtain ⟨rfl, rfl⟩ := hres
    have hn : NormRel (r.take j ++ ["vendor"]) = true := by
      rw [normRel_append, normRel_take r j D.normR]; rfl
    have hdom : domEff (r.take j ++ ["vendor"]) P = true := by
      simp only [domEff, hn, D.normP, Bool.and_eq_true, Bool.not_eq_true', List.isEmpty_eq_false_iff, List.all_eq_true,
        true_and]
      refine ⟨D.neP, ?_⟩
      intro e he
      have hne : e ≠ "vendor" := fun h0 => hv (h0 ▸ (List.dropLast_sublist P).subset he)
      simp [rootEndsWith, List.getLast?_append, Ne.symm hne]
    have heff := effectivePkg_spec_partial _ P hdom
    have hp1 : pathOf (r.take j ++ ["vendor"]) = r.take j ++ ["vendor"] := by simp [pathOf]
    have hp2 : pathOf (r.take j ++ ["vendor"] ++ P) = r.take j ++ ["vendor"] ++ P := by simp [pathOf]
    rw [hp1, hp2] at heff
    rw [heff]; simp [vd, List.append_assoc]
  | none =>
    rw [hs] at hres
    simp only at hres
    split at hres
    · simp only [DirR.found.injEq] at hres
      obtain ⟨rfl, rfl⟩ := hres
      rw [effectivePkg_empty_root P D.normP D.neP]
    · cases hres

theorem resolve_ignores_fs_kind (f : FS) (b1 b2 : Bool) (gs : Path) (r P : List String) :
    Spec.resolve { f with mapfs := b1 } gs r P = Spec.resolve { f with mapfs := b2 } gs r P := by
  have hs : ∀ k, Spec.vendorSearch { f with mapfs := b1 } gs r P k = Spec.vendorSearch { f with mapfs := b2 } gs r P k := by
    intro k
    induction k with
    | zero => rfl
    | succ n ih =>
      show (if Spec.vendorHit { f with mapfs := b1 } gs r P (n + 1) = true then _ else Spec.vendorSearch _ gs r P n) =
           (if Spec.vendorHit { f with mapfs := b2 } gs r P (n + 1) = true then _ else Spec.vendorSearch _ gs r P n)
      rw [ih]; rfl
  unfold Spec.resolve
  rw [hs]; rfl

/-- **The same tree gives the same resolution through `io/fs` and on disk**: with both views of one tree
    (`mapfs := true` / `false`) in the domain, pkgDir finds the same directory — the Go rule reads only the
    sets of directories and files.  (What the domain excludes here is an absolute or unclean GOPATH, which an
    `io/fs` file system rejects: finding F16-5.) -/
theorem same_on_both_file_systems (f : FS) (goPath : Path) (r P : List String)
    (h1 : domPkgDir { f with mapfs := true } goPath r P = true)
    (h2 : domPkgDir { f with mapfs := false } goPath r P = true) (fuel : Nat) (hfuel : r.length + 1 ≤ fuel) :
    (pkgDir Expected.C16.words { f with mapfs := true } goPath fuel (pathOf r) P).toOpt =
    (pkgDir Expected.C16.words { f with mapfs := false } goPath fuel (pathOf r) P).toOpt := by
  rw [pkgDir_eq_spec_partial _ goPath r P h1 fuel hfuel, pkgDir_eq_spec_partial _ goPath r P h2 fuel hfuel,
    resolve_ignores_fs_kind f true false]

example : domPkgDir { exFS with mapfs := true } ["gp"] ["app", "cmd"] ["lib"] = true ∧
    domPkgDir { exFS with mapfs := false } ["gp"] ["app", "cmd"] ["lib"] = true := by decide

/-! ## relative imports -/

/-- **A relative import in the main package resolves against the directory of the input file**
    (`filepath.Dir(interp.name)`), whatever the file system, GOPATH and working directory. -/
theorem relative_import_main (f : FS) (goPath wd name P : Path) (hrel : isPathRelative P = true) :
    resolveImport Expected.C16.words f goPath wd name [Expected.C16.words.mainID] P =
      some (Spec.resolveRel (dir name) P, ["."]) := by
  unfold resolveImport Spec.resolveRel
  have hlen : 2 ≤ P.length := by
    unfold isPathRelative at hrel
    split at hrel
    · simp
    · cases hrel
  have hd : dir name ≠ [] := clean_ne_nil _
  have hde : isEmptyS (dir name) = false := clean_not_emptyS _
  simp only [hrel, if_true, BEq.rfl]
  rw [join_dot_middle (dir name) P hd hde hlen]

/-- non-vacuity: `./sub` imported from the main file `cmd/tool/main.go` is `cmd/tool/sub` -/
example : resolveImport Expected.C16.words exFS ["gp"] ["", "w"] ["cmd", "tool", "main.go"] ["main"] [".", "sub"] =
    some (["cmd", "tool", "sub"], ["."]) := by decide

/-! ## importSrc: once only, in dependency order, never recursing without end -/

/-- tie: the bookkeeping statements found in importSrc, in the order found, are the full set the theorems
    assume (already-imported test first; cycle test and mark before the recursion into the package) -/
theorem book_tie : bookOf Generated.C16.importOrder = fullBook := by decide

/-- **Each import path is evaluated at most once** however many importers it has, and after a successful
    import it is registered: the evaluation trace of any successful `importSrc` has no duplicate, contains no
    path already imported before, and every requested path is in `srcPkg` afterwards.  For every resolver,
    every import graph, every starting state and every depth. -/
theorem import_once (res : Resolver) (hasGo : String → Bool) (importsOf : String → List String) (subRoot : String → String → String)
    (fuel : Nat) (st st' : ImpState) (rPath p : String) (tr : List (String × String))
    (h : importSrc fullBook res hasGo importsOf subRoot fuel st rPath p = .ok (st', tr)) :
    (paths tr).Nodup ∧ (∀ q ∈ paths tr, q ∉ st.srcPkg) ∧ (∀ q ∈ paths tr, q ∉ st.rdir) ∧
    p ∈ st'.srcPkg ∧ st'.srcPkg = (paths tr).reverse ++ st.srcPkg := by
  have I := good_importSrc res hasGo importsOf subRoot fuel st rPath p st' tr h
  exact ⟨I.nodup, I.notDone, fun q hq => (I.fresh q hq).2,
    importSrc_imported res hasGo importsOf subRoot fuel st rPath p st' tr h, I.srcPkgEq⟩

/-- **A successful import evaluates packages in dependency order**: every package of the trace has all the
    import paths of its files already registered when it is evaluated.  Hence no package on an import cycle
    is ever evaluated: a cycle cannot end in success. -/
theorem import_dependency_order (res : Resolver) (hasGo : String → Bool) (importsOf : String → List String) (subRoot : String → String → String)
    (fuel : Nat) (st st' : ImpState) (rPath p : String) (tr : List (String × String))
    (h : importSrc fullBook res hasGo importsOf subRoot fuel st rPath p = .ok (st', tr)) :
    depOrdered importsOf st.srcPkg tr :=
  (good_importSrc res hasGo importsOf subRoot fuel st rPath p st' tr h).ordered

/-- **An import cycle is an error**: an import path met again while it is still being loaded is reported as
    `import cycle not allowed`… -/
theorem cycle_is_error (res : Resolver) (hasGo : String → Bool) (importsOf : String → List String) (subRoot : String → String → String)
    (fuel : Nat) (st : ImpState) (rPath p d rp : String)
    (hres : res rPath p = some (d, rp)) (hin : p ∈ st.rdir) (hnot : p ∉ st.srcPkg) :
    importSrc fullBook res hasGo importsOf subRoot (fuel + 1) st rPath p = .error (.cycle p) :=
  importSrc_in_progress_is_cycle res hasGo importsOf subRoot fuel st rPath p d rp hres hin hnot

/-- …**instead of recursing for ever**: with the import paths of the program drawn from a finite list `U`,
    the nesting depth never exceeds the number of paths of `U` not yet marked, plus one. -/
theorem import_depth_bounded (res : Resolver) (hasGo : String → Bool) (importsOf : String → List String) (subRoot : String → String → String)
    (U : List String) (hU : ∀ d i, i ∈ importsOf d → i ∈ U)
    (fuel : Nat) (st : ImpState) (rPath p : String) (hp : p ∈ U) (hfuel : unmarked U st.rdir < fuel) :
    importSrc fullBook res hasGo importsOf subRoot fuel st rPath p ≠ .error .fuel :=
  importSrc_no_fuel res hasGo importsOf subRoot U hU fuel st rPath p hp hfuel

/-- non-vacuity: a diamond (a → c, b → c) evaluates c once, before a and b; a two-cycle is an error -/
def diamondRes : Resolver := fun _ p => some ("gp/src/" ++ p, "")
def diamondImports : String → List String
  | "gp/src/a" => ["c"]
  | "gp/src/b" => ["c"]
  | "gp/src/x" => ["y"]
  | "gp/src/y" => ["x"]
  | _ => []

example :
    importAllWith (fun s i => importSrc fullBook diamondRes (fun _ => true) diamondImports (fun _ p => p) 5 s "main" i)
      { srcPkg := [], rdir := [] } ["a", "b"] =
      .ok ({ srcPkg := ["b", "a", "c"], rdir := ["b", "c", "a"] }, [("c", "gp/src/c"), ("a", "gp/src/a"), ("b", "gp/src/b")]) ∧
    importSrc fullBook diamondRes (fun _ => true) diamondImports (fun _ p => p) 5 { srcPkg := [], rdir := [] } "main" "x" =
      .error (.cycle "x") := by
  decide

/-- what the bookkeeping cannot give: `srcPkg` and `rdir` are keyed by *import path*, so when the same import
    path resolves to two different directories for two importers (each with its own vendor copy), the second
    importer silently gets the first one's package (class `same-path-two-dirs`); with the Go rule these are two
    distinct packages. -/
def twoCopiesRes : Resolver := fun rp p =>
  if p == "lib" then some ("gp/src/" ++ rp ++ "/vendor/lib", rp ++ "/vendor") else some ("gp/src/" ++ p, "")
def twoCopiesImports : String → List String
  | "gp/src/a" => ["lib"]
  | "gp/src/b" => ["lib"]
  | _ => []

theorem same_path_two_dirs_witness :
    importAllWith (fun s i => importSrc fullBook twoCopiesRes (fun _ => true) twoCopiesImports (fun _ p => p) 5 s "main" i)
      { srcPkg := [], rdir := [] } ["a", "b"] =
      .ok ({ srcPkg := ["b", "a", "lib"], rdir := ["b", "lib", "a"] },
           [("lib", "gp/src/a/vendor/lib"), ("a", "gp/src/a"), ("b", "gp/src/b")]) := by
  decide


/-- and keyed by the import path *string*: the directory `rel1`, imported as `./rel1` by main and as
    `../rel1` by `./rel2`, is evaluated twice (class `same-dir-two-relative-paths`) -/
def relTwiceRes : Resolver := fun rp p =>
  if p == "./rel1" then some ("rel1", ".") else if p == "../rel1" then some ("rel1", rp)
  else if p == "./rel2" then some ("rel2", ".") else none
def relTwiceImports : String → List String
  | "rel2" => ["../rel1"]
  | _ => []

theorem same_dir_two_relative_paths_witness :
    importAllWith (fun s i => importSrc fullBook relTwiceRes (fun _ => true) relTwiceImports (fun _ p => p) 5 s "main" i)
      { srcPkg := [], rdir := [] } ["./rel1", "./rel2"] =
      .ok ({ srcPkg := ["./rel2", "../rel1", "./rel1"], rdir := ["../rel1", "./rel2", "./rel1"] },
           [("./rel1", "rel1"), ("../rel1", "rel1"), ("./rel2", "rel2")]) ∧
    resolveImport Expected.C16.words exFS ["gp"] ["", "w"] ["main.go"] ["main"] [".", "rel1"] = some (["rel1"], ["."]) ∧
    resolveImport Expected.C16.words exFS ["gp"] ["", "w"] ["main.go"] ["rel2"] ["..", "rel1"] = some (["rel1"], ["rel2"]) := by
  decide

end YaegiVerif.Props.C16
