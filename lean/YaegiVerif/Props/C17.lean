import YaegiVerif.Model.Build
import YaegiVerif.Spec.GoBuild
import YaegiVerif.Expected.C17
import YaegiVerif.Generated.C17
/-
  C17 — property theorems. Only statements a reader of the property cares about live here.
-/
namespace YaegiVerif.Props.C17
open YaegiVerif YaegiVerif.Build

/-- tie: the OS/arch tables extracted from /repo/interp/build.go are the ones the proofs use -/
theorem known_tie : Generated.C17.known = Expected.C17.known := by decide

/-- tie: the functions transcribed in Model/Build.lean are textually (modulo comments and layout) the
    ones the model was written from; if this breaks the model must be re-validated (the check then
    relies on the correspondence run and the search for a failing input) -/
theorem source_tie : Generated.C17.sourceHashes = Expected.C17.sourceHashes := by decide

/-- the regenerated `unixOs` table of build.go is the model's, which is the toolchain's -/
theorem unix_tie : Generated.C17.unixOs = unixOsY := by decide
theorem unix_is_go : unixOsY = Spec.unixOS := by decide

/-- build.go matchTag is go/build matchTag (since fix c550b24), for every context and every word -/
theorem matchTag_correct (c : Ctx) (w : String) : matchTagY c w = Spec.matchWord c w := by
  unfold matchTagY Spec.matchWord; rw [unix_is_go]

/-- **buildTagOk agrees with the toolchain on every word, for every context**: ordinary words, OS and
    architecture names, the implicit words (cgo, compiler, unix, implied OS, boringcrypto — fix c550b24)
    and release words (go1.1 … go1.N in canonical form — fix 56f4c0c). No side condition. -/
theorem tag_correct (c : Ctx) (t : TagName) : tagOkY c t = Spec.matchTag c t := by
  unfold tagOkY Spec.matchTag
  rw [matchTag_correct]
  cases t <;> cases Spec.matchWord c _ <;> simp

theorem lit_correct (c : Ctx) (l : Lit) : litOkY c l = Spec.litOk c l := by
  unfold litOkY Spec.litOk; rw [tag_correct c l.name]

theorem opt_correct (c : Ctx) (o : Opt) : optOkY c o = Spec.optOk c o := by
  unfold optOkY Spec.optOk
  induction o with
  | nil => rfl
  | cons l ls ih => simp only [List.all_cons]; rw [lit_correct c l, ih]

theorem line_correct (c : Ctx) (ln : PlusLine) : lineOkY c ln = Spec.lineOk c ln := by
  cases ln with
  | nil => simp only [lineOkY, Spec.lineOk]; exact tag_correct c _
  | cons o os =>
    simp only [lineOkY, Spec.lineOk]
    induction (o :: os) with
    | nil => rfl
    | cons x xs ih => simp only [List.any_cons]; rw [opt_correct c x, ih]

/-- **`// +build` evaluation agrees with the toolchain** for every context and every number of lines,
    options and words (a line without option standing for `ignore` — fix 5db3bf8). No side condition:
    the domain of the earlier `plusbuild_lines_correct` (no special word, release words ≥ go1.1) is gone
    with the repairs of F29 and F30. -/
theorem plusbuild_lines_correct (c : Ctx) (lns : List PlusLine) :
    linesOkY c lns = Spec.linesOk c lns := by
  unfold linesOkY Spec.linesOk
  induction lns with
  | nil => rfl
  | cons ln rest ih => simp only [List.all_cons]; rw [line_correct c ln, ih]

/-- non-vacuity: a two-line constraint with negation, a release tag and a custom tag
    evaluates to `true` for linux/amd64/go1.22 with tag `foo` -/
def ctxLinux : Ctx := { goos := "linux", goarch := "amd64", minor := 22, tags := ["foo"], cgo := true, compiler := "gc" }
def exLines : List PlusLine :=
  [ [[⟨false, .word "linux"⟩, ⟨true, .word "arm"⟩], [⟨false, .word "windows"⟩]],
    [[⟨false, .rel 18⟩, ⟨false, .word "foo"⟩]] ]
example : linesOkY ctxLinux exLines = true ∧ Spec.linesOk ctxLinux exLines = true := by decide

/-- regression witnesses of the repaired findings: `unix`, `gc`, `cgo` on linux (F29), `go1.0` (F30),
    a `+build` line without option (F31) now get the toolchain's answer -/
theorem unix_tag_fixed : tagOkY ctxLinux (.word "unix") = true ∧ tagOkY ctxLinux (.word "gc") = true ∧
    tagOkY ctxLinux (.word "cgo") = true ∧
    tagOkY { ctxLinux with goos := "android" } (.word "linux") = true ∧
    tagOkY { ctxLinux with goos := "windows" } (.word "unix") = false := by decide
theorem release_zero_fixed : tagOkY ctxLinux (.rel 0) = false ∧ tagOkY ctxLinux (.rel 1) = true ∧
    tagOkY ctxLinux (.rel 22) = true ∧ tagOkY ctxLinux (.rel 23) = false := by decide
theorem bare_line_fixed : lineOkY ctxLinux [] = false ∧ lineOkY { ctxLinux with tags := ["ignore"] } [] = true := by decide

/-! ### file names -/

/-- the tables of interp/build.go are the toolchain's (go/build syslist.go) -/
theorem tables_are_go : Expected.C17.known = ⟨Spec.knownOS, Spec.knownArch⟩ := by decide

/-- **The file-name rule is the toolchain's**, for every context, every name and both settings of
    `skipTest`: no side condition on the name, and (since skipFile uses the complete matchTag, fix c550b24)
    none on the context. -/
theorem name_rule_correct (c : Ctx) (isTest : Bool) (elems : List String) (skipTest : Bool) :
    skipElemsY Expected.C17.known c isTest elems skipTest = !Spec.selectedElems c isTest elems skipTest := by
  rw [tables_are_go]
  unfold skipElemsY Spec.selectedElems Spec.goodOSArch
  by_cases hst : (skipTest && isTest) = true
  · simp [hst]
  · simp only [hst, Bool.false_eq_true, if_false, Bool.not_false, Bool.true_and]
    cases htl : elems.tail with
    | nil => rfl
    | cons t ts =>
      simp only []
      generalize (if ("" :: t :: ts).getLast? == some "test" then ("" :: t :: ts).dropLast else "" :: t :: ts).reverse = r
      match r with
      | [] => rfl
      | [y] =>
        simp only []
        cases hy : (Spec.knownOS.contains y || Spec.knownArch.contains y) with
        | true => simp only [if_true]; rw [matchTag_correct]
        | false => simp
      | y :: x :: _ =>
        simp only []
        cases hxy : (Spec.knownOS.contains x && Spec.knownArch.contains y) with
        | true =>
          simp only [if_true]
          rw [Bool.and_eq_true] at hxy
          rw [matchTag_correct, matchTag_correct]
        | false =>
          simp only [Bool.false_eq_true, if_false]
          cases hy : (Spec.knownOS.contains y || Spec.knownArch.contains y) with
          | true => simp only [if_true]; rw [matchTag_correct]
          | false => simp

/-- … and therefore for the tables regenerated from the current source (`known_tie`) -/
theorem name_rule_generated (c : Ctx) (isTest : Bool) (elems : List String) (skipTest : Bool) :
    skipElemsY Generated.C17.known c isTest elems skipTest = !Spec.selectedElems c isTest elems skipTest := by
  rw [known_tie]; exact name_rule_correct c isTest elems skipTest

/-- non-vacuity and regression witnesses: the inputs of the repaired findings F18, F19, F32, F34 now
    get the toolchain's answer -/
example :
    skipElemsY Expected.C17.known ctxLinux false ["foo", "bar", "windows"] true = true ∧
    skipElemsY Expected.C17.known ctxLinux false ["e", "zos"] true = true ∧
    skipElemsY Expected.C17.known ctxLinux false ["e", "riscv64"] true = true ∧
    skipElemsY Expected.C17.known ctxLinux true ["x", "windows", "test"] false = true ∧
    skipElemsY Expected.C17.known ctxLinux false ["zfile", "linux", "amd64"] true = false ∧
    skipElemsY Expected.C17.known { ctxLinux with tags := ["windows"] } false ["f", "windows"] true = false := by decide

/-- **`//go:build` expressions are evaluated as the toolchain evaluates them** (since fix e527178: buildOk
    parses the line with go/build/constraint and evaluates every word with buildTagOk), for every
    context and every expression — no side condition on the words since the repairs of F29 and F30. -/
theorem gobuild_expr_correct (c : Ctx) (e : GExpr) : e.evalY c = Spec.evalG c e := by
  induction e with
  | tag t => simp only [GExpr.evalY, Spec.evalG]; exact tag_correct c t
  | not e ih => simp only [GExpr.evalY, Spec.evalG, ih]
  | and a b iha ihb => simp only [GExpr.evalY, Spec.evalG, iha, ihb]
  | or a b iha ihb => simp only [GExpr.evalY, Spec.evalG, iha, ihb]

/-- non-vacuity: `linux && !arm || go1.18 && foo`, and `unix && gc && !go1.0`, are true for linux/amd64/go1.22 + foo -/
example :
    (GExpr.or (.and (.tag (.word "linux")) (.not (.tag (.word "arm")))) (.and (.tag (.rel 18)) (.tag (.word "foo")))).evalY ctxLinux = true ∧
    (GExpr.and (.tag (.word "unix")) (.and (.tag (.word "gc")) (.not (.tag (.rel 0))))).evalY ctxLinux = true := by decide

end YaegiVerif.Props.C17
