import YaegiVerif.Model.Build
import YaegiVerif.Spec.GoBuild
import YaegiVerif.Expected.C17
import YaegiVerif.Generated.C17
/-
  C17 — property theorems. Only statements a reader of the property cares about live here.
-/
namespace YaegiVerif.Props.C17
open YaegiVerif YaegiVerif.Build

/-- tie: the OS/arch tables extracted from /repo/interp/build.go are the ones the proofs use -/
theorem known_tie : Generated.C17.known = Expected.C17.known := by decide

/-- tie: the functions transcribed in Model/Build.lean are textually (modulo comments and layout) the
    ones the model was written from; if this breaks the model must be re-validated (the check then
    relies on the correspondence run and the search for a failing input) -/
theorem source_tie : Generated.C17.sourceHashes = Expected.C17.sourceHashes := by decide

/-- the regenerated `unixOs` table of build.go is the model's, which is the toolchain's -/
theorem unix_tie : Generated.C17.unixOs = unixOsY := by decide
theorem unix_is_go : unixOsY = Spec.unixOS := by decide

/-- build.go matchTag is go/build matchTag (since fix c550b24), for every context and every word -/
theorem matchTag_correct (c : Ctx) (w : String) : matchTagY c w = Spec.matchWord c w := by
  unfold matchTagY Spec.matchWord; rw [unix_is_go]

/-- **buildTagOk agrees with the toolchain on every word, for every context**: ordinary words, OS and
    architecture names, the implicit words (cgo, compiler, unix, implied OS, boringcrypto — fix c550b24)
    and release words (go1.1 … go1.N in canonical form — fix 56f4c0c). No side condition. -/
theorem tag_correct (c : Ctx) (t : TagName) : tagOkY c t = Spec.matchTag c t := by
  unfold tagOkY Spec.matchTag
  rw [matchTag_correct]
  cases t <;> cases Spec.matchWord c _ <;> simp

theorem lit_correct (c : Ctx) (l : Lit) : litOkY c l = Spec.litOk c l := by
  unfold litOkY Spec.litOk; rw [tag_correct c l.name]

theorem opt_correct (c : Ctx) (o : Opt) : optOkY c o = Spec.optOk c o := by
  unfold optOkY Spec.optOk
  induction o with
  | nil => rfl
  | cons l ls ih => simp only [List.all_cons]; rw [lit_correct c l, ih]

theorem line_correct (c : Ctx) (ln : PlusLine) : lineOkY c ln = Spec.lineOk c ln := by
  cases ln with
  | nil => simp only [lineOkY, Spec.lineOk]; exact tag_correct c _
  | cons o os =>
    simp only [lineOkY, Spec.lineOk]
    induction (o :: os) with
    | nil => rfl
    | cons x xs ih => simp only [List.any_cons]; rw [opt_correct c x, ih]

/-- **`// +build` evaluation agrees with the toolchain** for every context and every number of lines,
    options and words (a line without option standing for `ignore` — fix 5db3bf8). No side condition:
    the domain of the earlier `plusbuild_lines_correct` (no special word, release words ≥ go1.1) is gone
    with the repairs of F29 and F30. -/
theorem plusbuild_lines_correct (c : Ctx) (lns : List PlusLine) :
    linesOkY c lns = Spec.linesOk c lns := by
  unfold linesOkY Spec.linesOk
  induction lns with
  | nil => rfl
  | cons ln rest ih => simp only [List.all_cons]; rw [line_correct c ln, ih]

/-- non-vacuity: a two-line constraint with negation, a release tag and a custom tag
    evaluates to `true` for linux/amd64/go1.22 with tag `foo` -/
def ctxLinux : Ctx := { goos := "linux", goarch := "amd64", minor := 22, tags := ["foo"], cgo := true, compiler := "gc" }
def exLines : List PlusLine :=
  [ [[⟨false, .word "linux"⟩, ⟨true, .word "arm"⟩], [⟨false, .word "windows"⟩]],
    [[⟨false, .rel 18⟩, ⟨false, .word "foo"⟩]] ]
example : linesOkY ctxLinux exLines = true ∧ Spec.linesOk ctxLinux exLines = true := by decide

/-- regression witnesses of the repaired findings: `unix`, `gc`, `cgo` on linux (F29), `go1.0` (F30),
    a `+build` line without option (F31) now get the toolchain's answer -/
theorem unix_tag_fixed : tagOkY ctxLinux (.word "unix") = true ∧ tagOkY ctxLinux (.word "gc") = true ∧
    tagOkY ctxLinux (.word "cgo") = true ∧
    tagOkY { ctxLinux with goos := "android" } (.word "linux") = true ∧
    tagOkY { ctxLinux with goos := "windows" } (.word "unix") = false := by decide
theorem release_zero_fixed : tagOkY ctxLinux (.rel 0) = false ∧ tagOkY ctxLinux (.rel 1) = true ∧
    tagOkY ctxLinux (.rel 22) = true ∧ tagOkY ctxLinux (.rel 23) = false := by decide
theorem bare_line_fixed : lineOkY ctxLinux [] = false ∧ lineOkY { ctxLinux with tags := ["ignore"] } [] = true := by decide

/-! ### file names -/

/-- the tables of interp/build.go are the toolchain's (go/build syslist.go) -/
theorem tables_are_go : Expected.C17.known = ⟨Spec.knownOS, Spec.knownArch⟩ := by decide

/-- **The file-name rule is the toolchain's**, for every context, every name and both settings of
    `skipTest`: no side condition on the name, and (since skipFile uses the complete matchTag, fix c550b24)
    none on the context. -/
theorem name_rule_correct (c : Ctx) (isTest : Bool) (elems : List String) (skipTest : Bool) :
    skipElemsY Expected.C17.known c isTest elems skipTest = !Spec.selectedElems c isTest elems skipTest := by
  rw [tables_are_go]
  unfold skipElemsY Spec.selectedElems Spec.goodOSArch
  by_cases hst : (skipTest && isTest) = true
  · simp [hst]
  · simp only [hst, Bool.false_eq_true, if_false, Bool.not_false, Bool.true_and]
    cases htl : elems.tail with
    | nil => rfl
    | cons t ts =>
      simp only []
      generalize (if ("" :: t :: ts).getLast? == some "test" then ("" :: t :: ts).dropLast else "" :: t :: ts).reverse = r
      match r with
      | [] => rfl
      | [y] =>
        simp only []
        cases hy : (Spec.knownOS.contains y || Spec.knownArch.contains y) with
        | true => simp only [if_true]; rw [matchTag_correct]
        | false => simp
      | y :: x :: _ =>
        simp only []
        cases hxy : (Spec.knownOS.contains x && Spec.knownArch.contains y) with
        | true =>
          simp only [if_true]
          rw [Bool.and_eq_true] at hxy
          rw [matchTag_correct, matchTag_correct]
        | false =>
          simp only [Bool.false_eq_true, if_false]
          cases hy : (Spec.knownOS.contains y || Spec.knownArch.contains y) with
          | true => simp only [if_true]; rw [matchTag_correct]
          | false => simp

/-- … and therefore for the tables regenerated from the current source (`known_tie`) -/
theorem name_rule_generated (c : Ctx) (isTest : Bool) (elems : List String) (skipTest : Bool) :
    skipElemsY Generated.C17.known c isTest elems skipTest = !Spec.selectedElems c isTest elems skipTest := by
  rw [known_tie]; exact name_rule_correct c isTest elems skipTest

/-- non-vacuity and regression witnesses: the inputs of the repaired findings F18, F19, F32, F34 now
    get the toolchain's answer -/
example :
    skipElemsY Expected.C17.known ctxLinux false ["foo", "bar", "windows"] true = true ∧
    skipElemsY Expected.C17.known ctxLinux false ["e", "zos"] true = true ∧
    skipElemsY Expected.C17.known ctxLinux false ["e", "riscv64"] true = true ∧
    skipElemsY Expected.C17.known ctxLinux true ["x", "windows", "test"] false = true ∧
    skipElemsY Expected.C17.known ctxLinux false ["zfile", "linux", "amd64"] true = false ∧
    skipElemsY Expected.C17.known { ctxLinux with tags := ["windows"] } false ["f", "windows"] true = false := by decide

/-- **`//go:build` expressions are evaluated as the toolchain evaluates them** (since fix e527178: buildOk
    parses the line with go/build/constraint and evaluates every word with buildTagOk), for every
    context and every expression — no side condition on the words since the repairs of F29 and F30. -/
theorem gobuild_expr_correct (c : Ctx) (e : GExpr) : e.evalY c = Spec.evalG c e := by
  induction e with
  | tag t => simp only [GExpr.evalY, Spec.evalG]; exact tag_correct c t
  | not e ih => simp only [GExpr.evalY, Spec.evalG, ih]
  | and a b iha ihb => simp only [GExpr.evalY, Spec.evalG, iha, ihb]
  | or a b iha ihb => simp only [GExpr.evalY, Spec.evalG, iha, ihb]

/-- non-vacuity: `linux && !arm || go1.18 && foo`, and `unix && gc && !go1.0`, are true for linux/amd64/go1.22 + foo -/
example :
    (GExpr.or (.and (.tag (.word "linux")) (.not (.tag (.word "arm")))) (.and (.tag (.rel 18)) (.tag (.word "foo")))).evalY ctxLinux = true ∧
    (GExpr.and (.tag (.word "unix")) (.and (.tag (.word "gc")) (.not (.tag (.rel 0))))).evalY ctxLinux = true := by decide

/-! ### the two constraint syntaxes agree -/

/-- the toolchain's reading of `// +build` lines as one `//go:build` expression (go/build/constraint
    parsePlusBuildExpr): AND of the lines, OR of the options of a line, AND of the words of an option,
    `!` for a negated word; a line without option is the word `ignore` (as in `lineOkY`) -/
def litG (l : Lit) : GExpr := if l.neg then .not (.tag l.name) else .tag l.name
def andG (e0 : GExpr) (es : List GExpr) : GExpr := es.foldl .and e0
def orG (e0 : GExpr) (es : List GExpr) : GExpr := es.foldl .or e0
def optG : Opt → GExpr
  | [] => .tag (.word "ignore")          -- excluded by `WfLines`
  | l :: ls => andG (litG l) (ls.map litG)
def lineG : PlusLine → GExpr
  | [] => .tag (.word "ignore")
  | o :: os => orG (optG o) (os.map optG)
def linesG : List PlusLine → GExpr
  | [] => .tag (.word "ignore")          -- excluded by `WfLines`
  | ln :: lns => andG (lineG ln) (lns.map lineG)
/-- what the parser delivers: at least one line, and no option without a word (an option is a non-empty
    field of the line; buildOptionOk rejects an empty word) -/
def WfLines (lns : List PlusLine) : Bool := !lns.isEmpty && lns.all (fun ln => ln.all (fun o => !o.isEmpty))

theorem andG_eval (c : Ctx) (e0 : GExpr) (es : List GExpr) :
    (andG e0 es).evalY c = (e0.evalY c && es.all (fun e => e.evalY c)) := by
  induction es generalizing e0 with
  | nil => simp [andG]
  | cons x xs ih =>
    have h := ih (.and e0 x)
    unfold andG at h ⊢
    simp only [List.foldl_cons, List.all_cons]
    rw [h]; simp [GExpr.evalY, Bool.and_assoc]

theorem orG_eval (c : Ctx) (e0 : GExpr) (es : List GExpr) :
    (orG e0 es).evalY c = (e0.evalY c || es.any (fun e => e.evalY c)) := by
  induction es generalizing e0 with
  | nil => simp [orG]
  | cons x xs ih =>
    have h := ih (.or e0 x)
    unfold orG at h ⊢
    simp only [List.foldl_cons, List.any_cons]
    rw [h]; simp [GExpr.evalY, Bool.or_assoc]

theorem all_map_eval {α : Type} (c : Ctx) (f : α → GExpr) (g : α → Bool) (ls : List α)
    (h : ∀ x ∈ ls, (f x).evalY c = g x) : (ls.map f).all (fun e => e.evalY c) = ls.all g := by
  induction ls with
  | nil => rfl
  | cons x xs ih =>
    simp only [List.map_cons, List.all_cons]
    rw [h x (by simp), ih (fun y hy => h y (by simp [hy]))]

theorem any_map_eval {α : Type} (c : Ctx) (f : α → GExpr) (g : α → Bool) (ls : List α)
    (h : ∀ x ∈ ls, (f x).evalY c = g x) : (ls.map f).any (fun e => e.evalY c) = ls.any g := by
  induction ls with
  | nil => rfl
  | cons x xs ih =>
    simp only [List.map_cons, List.any_cons]
    rw [h x (by simp), ih (fun y hy => h y (by simp [hy]))]

theorem litG_eval (c : Ctx) (l : Lit) : (litG l).evalY c = litOkY c l := by
  unfold litG litOkY; cases l.neg <;> simp [GExpr.evalY]

theorem optG_eval (c : Ctx) (o : Opt) (ho : o.isEmpty = false) : (optG o).evalY c = optOkY c o := by
  cases o with
  | nil => simp at ho
  | cons l ls =>
    simp only [optG, optOkY, andG_eval, List.all_cons, litG_eval]
    rw [all_map_eval c litG (litOkY c) ls (fun x _ => litG_eval c x)]

theorem lineG_eval (c : Ctx) (ln : PlusLine) (h : ln.all (fun o => !o.isEmpty) = true) :
    (lineG ln).evalY c = lineOkY c ln := by
  cases ln with
  | nil => simp [lineG, lineOkY, GExpr.evalY]
  | cons o os =>
    simp only [List.all_cons, Bool.and_eq_true, Bool.not_eq_true'] at h
    simp only [lineG, lineOkY, orG_eval, List.any_cons]
    rw [optG_eval c o h.1,
      any_map_eval c optG (optOkY c) os (fun x hx => optG_eval c x (by
        have := List.all_eq_true.mp h.2 x hx; simpa using this))]

/-- **A `// +build` constraint and its `//go:build` form are evaluated alike**: for every context and every
    constraint the parser can deliver (any number of lines, options and words), yaegi's evaluation of
    the old syntax equals its evaluation of the toolchain's conversion into the new syntax — so a file
    carrying both forms (as gofmt writes them) cannot be selected by one and skipped by the other. -/
theorem plusbuild_agrees_with_gobuild (c : Ctx) (lns : List PlusLine) (h : WfLines lns = true) :
    linesOkY c lns = (linesG lns).evalY c := by
  cases lns with
  | nil => simp [WfLines] at h
  | cons ln rest =>
    simp only [WfLines, List.isEmpty_cons, Bool.not_false, Bool.true_and, List.all_cons,
      Bool.and_eq_true] at h
    simp only [linesG, linesOkY, andG_eval, List.all_cons]
    rw [lineG_eval c ln h.1,
      all_map_eval c lineG (lineOkY c) rest (fun x hx => lineG_eval c x (List.all_eq_true.mp h.2 x hx))]

/-- … and both are the toolchain's answer -/
theorem plusbuild_conversion_is_go (c : Ctx) (lns : List PlusLine) (h : WfLines lns = true) :
    Spec.evalG c (linesG lns) = Spec.linesOk c lns := by
  rw [← gobuild_expr_correct, ← plusbuild_agrees_with_gobuild c lns h, plusbuild_lines_correct]

/-- non-vacuity: the two-line example is well-formed and both syntaxes give `true` -/
example : WfLines exLines = true ∧ (linesG exLines).evalY ctxLinux = true ∧ linesOkY ctxLinux exLines = true := by decide

/-! ### release words, and what an evaluation depends on -/

/-- **every release word up to the toolchain's own is satisfied**, whatever the context's tags, OS,
    architecture and compiler: `go1.1 … go1.minor` hold (the guarantee `go1.N` implies all earlier ones) -/
theorem release_words_downward (c : Ctx) (n : Nat) (h1 : 1 ≤ n) (hn : n ≤ c.minor) : tagOkY c (.rel n) = true := by
  unfold tagOkY; split
  · rfl
  · simp [h1, hn]

/-- … and a later release word holds only if the context carries it as an explicit tag -/
theorem release_word_above (c : Ctx) (n : Nat) (hn : c.minor < n) (h : tagOkY c (.rel n) = true) :
    matchTagY c (TagName.rel n).render = true := by
  unfold tagOkY at h; split at h
  · assumption
  · simp at h; omega

/-- the tags an expression mentions -/
def gtags : GExpr → List TagName
  | .tag t => [t]
  | .not e => gtags e
  | .and a b => gtags a ++ gtags b
  | .or a b => gtags a ++ gtags b

/-- **an evaluation depends on nothing but the answers to the words it mentions**: two contexts that
    answer every word of the expression alike give the same result (no hidden dependence on the rest of
    the context — other tags, or OS/arch when the expression does not name them) -/
theorem eval_depends_on_mentioned_tags (c c' : Ctx) (e : GExpr)
    (h : ∀ t ∈ gtags e, tagOkY c t = tagOkY c' t) : e.evalY c = e.evalY c' := by
  induction e with
  | tag t => simp only [GExpr.evalY]; exact h t (by simp [gtags])
  | not e ih => simp only [GExpr.evalY]; rw [ih h]
  | and a b iha ihb =>
    simp only [GExpr.evalY]
    rw [iha (fun t ht => h t (by simp [gtags, ht])), ihb (fun t ht => h t (by simp [gtags, ht]))]
  | or a b iha ihb =>
    simp only [GExpr.evalY]
    rw [iha (fun t ht => h t (by simp [gtags, ht])), ihb (fun t ht => h t (by simp [gtags, ht]))]

/-- non-vacuity: linux/amd64 and linux/arm64 answer `linux && go1.18` alike, and differently on `amd64` -/
example : (∀ t ∈ gtags (GExpr.and (.tag (.word "linux")) (.tag (.rel 18))),
      tagOkY ctxLinux t = tagOkY { ctxLinux with goarch := "arm64" } t) ∧
    tagOkY ctxLinux (.word "amd64") ≠ tagOkY { ctxLinux with goarch := "arm64" } (.word "amd64") := by decide

/-! ### the property as one statement: name and header together -/

/-- the constraint header of a file as buildOk reads it: an optional `//go:build` expression, which takes
    precedence (as for the toolchain), and the recognised `// +build` lines -/
structure Header where
  go : Option GExpr
  plus : List PlusLine

/-- buildOk on a parsed header -/
def headerOkY (c : Ctx) (h : Header) : Bool :=
  match h.go with
  | some e => e.evalY c
  | none => linesOkY c h.plus
/-- the toolchain's shouldBuild on the same header -/
def headerOkGo (c : Ctx) (h : Header) : Bool :=
  match h.go with
  | some e => Spec.evalG c e
  | none => Spec.linesOk c h.plus

/-- importSrc: a file takes part when skipFile lets its name through and buildOk accepts its header -/
def takesPartY (k : Known) (c : Ctx) (isTest : Bool) (elems : List String) (skipTest : Bool) (h : Header) : Bool :=
  !skipElemsY k c isTest elems skipTest && headerOkY c h
/-- the toolchain: the name is selected and the header is satisfied -/
def takesPartGo (c : Ctx) (isTest : Bool) (elems : List String) (skipTest : Bool) (h : Header) : Bool :=
  Spec.selectedElems c isTest elems skipTest && headerOkGo c h

theorem header_correct (c : Ctx) (h : Header) : headerOkY c h = headerOkGo c h := by
  unfold headerOkY headerOkGo
  cases h.go with
  | some e => exact gobuild_expr_correct c e
  | none => exact plusbuild_lines_correct c h.plus

/-- **C17 in one statement**: with the tables regenerated from the current source, a file takes part
    exactly when the toolchain would select it — for every context (GOOS, GOARCH, release, tags, cgo,
    compiler), every file name, both settings of `skipTest`, and every header (any `//go:build`
    expression, any number of `// +build` lines, the former taking precedence). -/
theorem file_takes_part_correct (c : Ctx) (isTest : Bool) (elems : List String) (skipTest : Bool) (h : Header) :
    takesPartY Generated.C17.known c isTest elems skipTest h = takesPartGo c isTest elems skipTest h := by
  unfold takesPartY takesPartGo
  rw [name_rule_generated, header_correct, Bool.not_not]

/-- non-vacuity: `zfile_linux_amd64.go` with `//go:build linux && go1.18` takes part on linux/amd64/go1.22,
    the same name does not on windows, and a `//go:build` line overrides contradicting `+build` lines -/
example :
    takesPartY Generated.C17.known ctxLinux false ["zfile", "linux", "amd64"] true
      ⟨some (.and (.tag (.word "linux")) (.tag (.rel 18))), []⟩ = true ∧
    takesPartY Generated.C17.known { ctxLinux with goos := "windows" } false ["zfile", "linux", "amd64"] true
      ⟨none, []⟩ = false ∧
    takesPartY Generated.C17.known ctxLinux false ["f"] true
      ⟨some (.tag (.word "linux")), [[[⟨false, .word "windows"⟩]]]⟩ = true := by decide

/-- the precedence assumed by `Header` is the raw model's (the one run against buildOk in the
    correspondence): when the comments before the package clause carry exactly one `//go:build` line and it
    parses, the result is its value — whatever `// +build` lines, valid or malformed, stand beside it -/
theorem gobuild_takes_precedence_raw (c : Ctx) (groups : List (List Comment)) (e : List Char) (x : BExpr)
    (h1 : (groups.flatten.filterMap fun cm => if cm.line then splitGoBuild cm.text else none) = [e])
    (h2 : parseGoBuild e = some x) : buildOkRaw c groups = .ok (x.evalRaw c) := by
  unfold buildOkRaw; simp only [h1, h2]

/-- … and two `//go:build` lines are an error, whatever else the header holds -/
theorem two_gobuild_lines_raw (c : Ctx) (groups : List (List Comment)) (e1 e2 : List Char) (es : List (List Char))
    (h1 : (groups.flatten.filterMap fun cm => if cm.line then splitGoBuild cm.text else none) = e1 :: e2 :: es) :
    buildOkRaw c groups = .err := by
  unfold buildOkRaw; simp only [h1]

/-- raw layer, the class of names the abstract rule never sees: a name that does not end in `.go` is skipped,
    as the toolchain does not select it — for every path, context and `skipTest` -/
theorem non_go_names_agree (k : Known) (c : Ctx) (p : List Char) (skipTest : Bool)
    (h : Str.hasSuffix ".go".toList p = false) :
    skipFileRaw k c p skipTest = true ∧ Spec.nameOkRaw c p skipTest = false := by
  have h' : Str.hasSuffix ['.', 'g', 'o'] p = false := h
  unfold skipFileRaw Spec.nameOkRaw
  simp [h']

end YaegiVerif.Props.C17
