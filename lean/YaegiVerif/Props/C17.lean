import YaegiVerif.Model.Build
import YaegiVerif.Spec.GoBuild
import YaegiVerif.Expected.C17
import YaegiVerif.Generated.C17
/-
  C17 — property theorems. Only statements a reader of the property cares about live here.
-/
namespace YaegiVerif.Props.C17
open YaegiVerif YaegiVerif.Build

/-- tie: the OS/arch tables extracted from /repo/interp/build.go are the ones the proofs use -/
theorem known_tie : Generated.C17.known = Expected.C17.known := by decide

/-- tie: the functions transcribed in Model/Build.lean are textually (modulo comments and layout) the
    ones the model was written from; if this breaks the model must be re-validated (the check then
    relies on the correspondence run and the search for a failing input) -/
theorem source_tie : Generated.C17.sourceHashes = Expected.C17.sourceHashes := by decide

/-- words on which go/build's matchTag does something yaegi has no counterpart for -/
def special (c : Ctx) (name : String) : Bool :=
  (c.cgo && name == "cgo") || name == c.compiler ||
  (c.goos == "android" && name == "linux") || (c.goos == "illumos" && name == "solaris") ||
  (c.goos == "ios" && name == "darwin") || (name == "unix" && Spec.unixOS.contains c.goos) ||
  name == "boringcrypto"

/-- domain of the tag theorem -/
def DomTag (c : Ctx) (t : TagName) : Prop :=
  special c t.render = false ∧ (match t with | .rel n => 1 ≤ n | .word _ => True)

theorem tag_correct (c : Ctx) (t : TagName) (h : DomTag c t) :
    tagOkY c t = Spec.matchTag c t := by
  obtain ⟨hs, hn⟩ := h
  simp only [special, Bool.or_eq_false_iff, Bool.and_eq_false_iff] at hs
  obtain ⟨⟨⟨⟨⟨⟨h1, h2⟩, h3⟩, h4⟩, h5⟩, h6⟩, h7⟩ := hs
  unfold tagOkY Spec.matchTag Spec.matchWord
  cases t with
  | word s =>
    simp only [TagName.render] at *
    by_cases ht : c.tags.contains s <;> by_cases hg : s == c.goos <;> by_cases ha : s == c.goarch <;>
      simp_all <;> grind
  | rel n =>
    simp only [TagName.render] at *
    by_cases ht : c.tags.contains ("go1." ++ toString n) <;>
    by_cases hg : ("go1." ++ toString n) == c.goos <;>
    by_cases ha : ("go1." ++ toString n) == c.goarch <;>
      simp_all <;> grind

theorem lit_correct (c : Ctx) (l : Lit) (h : DomTag c l.name) : litOkY c l = Spec.litOk c l := by
  unfold litOkY Spec.litOk; rw [tag_correct c l.name h]

/-- every word of every option of every line is in the domain -/
def DomLines (c : Ctx) (lns : List PlusLine) : Prop :=
  ∀ ln ∈ lns, ∀ o ∈ ln, ∀ l ∈ o, DomTag c l.name

theorem opt_correct (c : Ctx) (o : Opt) (h : ∀ l ∈ o, DomTag c l.name) : optOkY c o = Spec.optOk c o := by
  unfold optOkY Spec.optOk
  induction o with
  | nil => rfl
  | cons l ls ih =>
    simp only [List.all_cons]
    rw [lit_correct c l (h l (by simp)), ih (fun x hx => h x (by simp [hx]))]

theorem line_correct (c : Ctx) (ln : PlusLine) (h : ∀ o ∈ ln, ∀ l ∈ o, DomTag c l.name) :
    lineOkY c ln = Spec.lineOk c ln := by
  unfold lineOkY Spec.lineOk
  induction ln with
  | nil => rfl
  | cons o os ih =>
    simp only [List.any_cons]
    rw [opt_correct c o (h o (by simp)), ih (fun x hx => h x (by simp [hx]))]

/-- **`// +build` evaluation agrees with the toolchain** for every context, every number of lines,
    options and words, as long as no word is one of the toolchain's special words
    (cgo / compiler / unix / implied OS / boringcrypto) and release words are `go1.N` with `N ≥ 1`. -/
theorem plusbuild_lines_correct (c : Ctx) (lns : List PlusLine) (h : DomLines c lns) :
    linesOkY c lns = Spec.linesOk c lns := by
  unfold linesOkY Spec.linesOk
  induction lns with
  | nil => rfl
  | cons ln rest ih =>
    simp only [List.all_cons]
    rw [line_correct c ln (h ln (by simp)), ih (fun x hx => h x (by simp [hx]))]

/-- non-vacuity: a two-line constraint with negation, a release tag and a custom tag is in the domain,
    and evaluates to `true` for linux/amd64/go1.22 with tag `foo` -/
def ctxLinux : Ctx := { goos := "linux", goarch := "amd64", minor := 22, tags := ["foo"], cgo := true, compiler := "gc" }
def exLines : List PlusLine :=
  [ [[⟨false, .word "linux"⟩, ⟨true, .word "arm"⟩], [⟨false, .word "windows"⟩]],
    [[⟨false, .rel 18⟩, ⟨false, .word "foo"⟩]] ]
example : DomLines ctxLinux exLines ∧ linesOkY ctxLinux exLines = true := by
  refine ⟨?_, by decide⟩
  intro ln hln o ho l hl
  simp only [exLines, List.mem_cons, List.not_mem_nil, or_false] at hln
  rcases hln with rfl | rfl <;> simp only [List.mem_cons, List.not_mem_nil, or_false] at ho
  · rcases ho with rfl | rfl <;> simp only [List.mem_cons, List.not_mem_nil, or_false] at hl
    · rcases hl with rfl | rfl <;> exact ⟨by decide, trivial⟩
    · subst hl; exact ⟨by decide, trivial⟩
  · subst ho; simp only [List.mem_cons, List.not_mem_nil, or_false] at hl
    rcases hl with rfl | rfl
    · exact ⟨by decide, by decide⟩
    · exact ⟨by decide, trivial⟩

/-- what the domain excludes is a real difference: `unix` on linux (part of the C17 finding list) -/
theorem unix_tag_witness : tagOkY ctxLinux (.word "unix") = false ∧ Spec.matchTag ctxLinux (.word "unix") = true := by
  decide

/-- go1.0 is not a release tag for the toolchain, but `minor ≥ 0` for yaegi -/
theorem release_zero_witness : tagOkY ctxLinux (.rel 0) = true ∧ Spec.matchTag ctxLinux (.rel 0) = false := by
  decide

/-! ### file names -/

/-- a word the toolchain's matchTag treats plainly: true iff it is GOOS or GOARCH -/
def plain (c : Ctx) (w : String) : Bool := !special c w && !c.tags.contains w

theorem matchWord_plain (c : Ctx) (w : String) (h : plain c w = true) :
    Spec.matchWord c w = (w == c.goos || w == c.goarch) := by
  simp only [plain, special, Bool.and_eq_true, Bool.not_eq_true', Bool.or_eq_false_iff,
    Bool.and_eq_false_iff] at h
  obtain ⟨⟨⟨⟨⟨⟨⟨h1, h2⟩, h3⟩, h4⟩, h5⟩, h6⟩, h7⟩, h8⟩ := h
  unfold Spec.matchWord
  by_cases hg : w == c.goos <;> by_cases ha : w == c.goarch <;> simp_all <;> grind

/-- the two tables agree with the toolchain's on this word -/
def tablesAgree (k : Known) (w : String) : Bool :=
  (k.os.contains w == Spec.knownOS.contains w) && (k.arch.contains w == Spec.knownArch.contains w)

/-- Domain of the file-name theorem (decidable):
    the context is an ordinary one (GOOS/GOARCH known to the toolchain, GOOS not one that implies another);
    the name is not a `_test` name unless test files are excluded anyway;
    the last two elements are words on which yaegi's tables agree with the toolchain's, treated plainly;
    and the *last* element is not a foreign OS name when it is preceded by something that is not a
    known-OS/known-arch pair (this is the class of F18). -/
def domName (k : Known) (c : Ctx) (elems : List String) (skipTest : Bool) : Bool :=
  Spec.knownOS.contains c.goos && Spec.knownArch.contains c.goarch &&
  !Spec.knownArch.contains c.goos && !Spec.knownOS.contains c.goarch &&
  (skipTest || !isTestName elems) &&
  match elems.tail.reverse with
  | [] => true
  | [x] => tablesAgree k x && plain c x
  | y :: x :: _ =>
    tablesAgree k x && tablesAgree k y && plain c x && plain c y &&
    -- F18 class: the last element is an OS name, so the toolchain looks at it alone
    !(Spec.knownOS.contains y && y != c.goos)

/-- goodOSArchFile's decision as a function of the reversed tail `y :: rest` of the name elements -/
def goodTail (c : Ctx) (y : String) : List String → Bool
  | [] => if Spec.knownOS.contains y || Spec.knownArch.contains y then Spec.matchWord c y else true
  | x :: _ =>
    if Spec.knownOS.contains x && Spec.knownArch.contains y then Spec.matchWord c y && Spec.matchWord c x
    else if Spec.knownOS.contains y || Spec.knownArch.contains y then Spec.matchWord c y else true

theorem goodOSArch_eq (c : Ctx) (elems : List String) (y : String) (rest : List String)
    (hr : elems.tail.reverse = y :: rest) (hy : y ≠ "test") :
    Spec.goodOSArch c elems = goodTail c y rest := by
  have ht : elems.tail = rest.reverse ++ [y] := by
    rw [← List.reverse_reverse elems.tail, hr]; simp
  clear hr
  unfold Spec.goodOSArch
  rw [ht]
  cases rest with
  | nil =>
    have h0 : "" ∉ Spec.knownOS := by decide
    simp [hy, goodTail, h0]
  | cons x r =>
    have h1 : ("" :: (r.reverse ++ [x, y])).getLast? = some y := by simp [List.getLast?_cons]
    have h2 : ("" :: (r.reverse ++ [x, y])).reverse = y :: x :: (r ++ [""]) := by simp
    simp only [List.reverse_cons, List.append_assoc, List.cons_append, List.nil_append]
    simp [h1, hy, h2, goodTail]

theorem last_ne_test (elems : List String) (y : String) (rest : List String)
    (hr : elems.tail.reverse = y :: rest) (ht : isTestName elems = false) : y ≠ "test" := by
  have htl : elems.tail = rest.reverse ++ [y] := by
    rw [← List.reverse_reverse elems.tail, hr]; simp
  cases elems with
  | nil => simp at hr
  | cons hd tl =>
    simp only [List.tail_cons] at htl
    subst htl
    intro h
    subst h
    simp [isTestName, List.getLast?_cons] at ht

private theorem bool_single (p q a b : Bool)
    (f1 : p = true → a = true ∧ b = false) (f2 : q = true → b = true ∧ a = false) :
    ((a && !p) || (b && !q)) = !(if (a || b) = true then (p || q) else true) := by
  revert p q a b; decide

private theorem bool_pair (px qx py qy ax ay bb : Bool)
    (fx1 : px = true → ax = true) (fx2 : qx = true → ax = false)
    (fy1 : py = true → ay = true ∧ bb = false) (fy2 : qy = true → bb = true ∧ ay = false)
    (f18 : ay = false ∨ py = true) :
    (if px = true then (if bb = true then !qy else false)
     else if (ax && bb) = true then true
     else if (bb && !qy) = true then true else false) =
    !(if (ax && bb) = true then (py || qy) && (px || qx)
      else if (ay || bb) = true then (py || qy) else true) := by
  revert px qx py qy ax ay bb; decide

theorem name_rule_partial (k : Known) (c : Ctx) (elems : List String) (skipTest : Bool)
    (h : domName k c elems skipTest = true) :
    skipElemsY k c elems skipTest = !Spec.selectedElems c elems skipTest := by
  unfold domName at h
  simp only [Bool.and_eq_true, Bool.not_eq_true', Bool.or_eq_true] at h
  obtain ⟨⟨⟨⟨⟨hos, harch⟩, hosa⟩, haos⟩, htest⟩, hm⟩ := h
  unfold skipElemsY Spec.selectedElems
  by_cases hst : (skipTest && isTestName elems) = true
  · simp [hst]
  · have hnt : isTestName elems = false := by
      rcases htest with h1 | h1
      · simp [h1] at hst; exact hst
      · exact h1
    simp only [hst, Bool.false_eq_true, if_false, Bool.not_false, Bool.true_and]
    generalize hr : elems.tail.reverse = r at hm
    match r, hr, hm with
    | [], hr, _ =>
      have : elems.tail = [] := by simpa using hr
      simp [Spec.goodOSArch, this]
    | [x], hr, hm =>
      rw [goodOSArch_eq c elems x [] hr (last_ne_test elems x [] hr hnt)]
      simp only [Bool.and_eq_true, tablesAgree, beq_iff_eq] at hm
      obtain ⟨⟨ho, ha⟩, hp⟩ := hm
      simp only [goodTail]
      rw [matchWord_plain c x hp, ho, ha]
      have f1 : (x == c.goos) = true → Spec.knownOS.contains x = true ∧ Spec.knownArch.contains x = false := by
        intro h; rw [beq_iff_eq] at h; subst h; exact ⟨hos, hosa⟩
      have f2 : (x == c.goarch) = true → Spec.knownArch.contains x = true ∧ Spec.knownOS.contains x = false := by
        intro h; rw [beq_iff_eq] at h; subst h; exact ⟨harch, haos⟩
      exact bool_single _ _ _ _ f1 f2
    | y :: x :: rest, hr, hm =>
      rw [goodOSArch_eq c elems y (x :: rest) hr (last_ne_test elems y (x :: rest) hr hnt)]
      simp only [Bool.and_eq_true, tablesAgree, beq_iff_eq, Bool.not_eq_true', Bool.and_eq_false_iff,
        bne_eq_false_iff_eq] at hm
      obtain ⟨⟨⟨⟨⟨hox, hax⟩, ⟨hoy, hay⟩⟩, hpx⟩, hpy⟩, hf18⟩ := hm
      simp only [goodTail]
      rw [matchWord_plain c x hpx, matchWord_plain c y hpy, hox, hay]
      have fx1 : (x == c.goos) = true → Spec.knownOS.contains x = true := by
        intro h; rw [beq_iff_eq] at h; subst h; exact hos
      have fx2 : (x == c.goarch) = true → Spec.knownOS.contains x = false := by
        intro h; rw [beq_iff_eq] at h; subst h; exact haos
      have fy1 : (y == c.goos) = true → Spec.knownOS.contains y = true ∧ Spec.knownArch.contains y = false := by
        intro h; rw [beq_iff_eq] at h; subst h; exact ⟨hos, hosa⟩
      have fy2 : (y == c.goarch) = true → Spec.knownArch.contains y = true ∧ Spec.knownOS.contains y = false := by
        intro h; rw [beq_iff_eq] at h; subst h; exact ⟨harch, haos⟩
      have f18 : Spec.knownOS.contains y = false ∨ (y == c.goos) = true := by
        rcases hf18 with h | h
        · exact Or.inl h
        · exact Or.inr (by simp [h])
      exact bool_pair _ _ _ _ _ _ _ fx1 fx2 fy1 fy2 f18

/-- **File-name rule of the current source agrees with the toolchain** on the decidable domain `domName`
    (the tables are the ones regenerated from /repo; `known_tie` links them to the proof). -/
theorem name_rule_generated (c : Ctx) (elems : List String) (skipTest : Bool)
    (h : domName Generated.C17.known c elems skipTest = true) :
    skipElemsY Generated.C17.known c elems skipTest = !Spec.selectedElems c elems skipTest :=
  name_rule_partial _ c elems skipTest h

/-- non-vacuity: ordinary names are in the domain, in both arities -/
example : domName Expected.C17.known ctxLinux ["zfile", "windows", "amd64"] true = true ∧
          domName Expected.C17.known ctxLinux ["zfile", "linux", "arm64", "test"] true = true ∧
          domName Expected.C17.known ctxLinux ["a", "b", "darwin"] false = false ∧
          skipElemsY Expected.C17.known ctxLinux ["zfile", "windows", "amd64"] true = true := by decide

/-- F18: `foo_bar_windows.go` on linux — the toolchain ignores it, yaegi selects it -/
theorem unknown_prefix_os_witness :
    skipElemsY Expected.C17.known ctxLinux ["foo", "bar", "windows"] true = false ∧
    Spec.selectedElems ctxLinux ["foo", "bar", "windows"] true = false := by decide

/-- F19: OS / architectures missing from yaegi's tables -/
theorem missing_os_arch_witness :
    skipElemsY Expected.C17.known ctxLinux ["e", "zos"] true = false ∧
    Spec.selectedElems ctxLinux ["e", "zos"] true = false ∧
    skipElemsY Expected.C17.known ctxLinux ["e", "riscv64"] true = false ∧
    Spec.selectedElems ctxLinux ["e", "riscv64"] true = false := by decide

/-- F17: a `//go:build` line is dropped by CommentGroup.Text, so buildOk never sees it;
    the toolchain evaluates it (here `windows` on linux ⇒ not selected). -/
theorem gobuild_ignored_witness :
    buildOkRaw ctxLinux [[⟨true, ['g','o',':','b','u','i','l','d',' ','w','i','n','d','o','w','s']⟩]] = .ok true ∧
    (Spec.BExpr.tag "windows").eval ctxLinux = false := by
  constructor
  · decide
  · decide
