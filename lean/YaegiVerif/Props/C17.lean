import YaegiVerif.Model.Build
import YaegiVerif.Spec.GoBuild
import YaegiVerif.Expected.C17
import YaegiVerif.Generated.C17
/-
  C17 — property theorems. Only statements a reader of the property cares about live here.
-/
namespace YaegiVerif.Props.C17
open YaegiVerif YaegiVerif.Build

/-- tie: the OS/arch tables extracted from /repo/interp/build.go are the ones the proofs use -/
theorem known_tie : Generated.C17.known = Expected.C17.known := by decide

/-- tie: the functions transcribed in Model/Build.lean are textually (modulo comments and layout) the
    ones the model was written from; if this breaks the model must be re-validated (the check then
    relies on the correspondence run and the search for a failing input) -/
theorem source_tie : Generated.C17.sourceHashes = Expected.C17.sourceHashes := by decide

/-- words on which go/build's matchTag does something yaegi has no counterpart for -/
def special (c : Ctx) (name : String) : Bool :=
  (c.cgo && name == "cgo") || name == c.compiler ||
  (c.goos == "android" && name == "linux") || (c.goos == "illumos" && name == "solaris") ||
  (c.goos == "ios" && name == "darwin") || (name == "unix" && Spec.unixOS.contains c.goos) ||
  name == "boringcrypto"

/-- domain of the tag theorem -/
def DomTag (c : Ctx) (t : TagName) : Prop :=
  special c t.render = false ∧ (match t with | .rel n => 1 ≤ n | .word _ => True)

theorem tag_correct (c : Ctx) (t : TagName) (h : DomTag c t) :
    tagOkY c t = Spec.matchTag c t := by
  obtain ⟨hs, hn⟩ := h
  simp only [special, Bool.or_eq_false_iff, Bool.and_eq_false_iff] at hs
  obtain ⟨⟨⟨⟨⟨⟨h1, h2⟩, h3⟩, h4⟩, h5⟩, h6⟩, h7⟩ := hs
  unfold tagOkY Spec.matchTag Spec.matchWord
  cases t with
  | word s =>
    simp only [TagName.render] at *
    by_cases ht : c.tags.contains s <;> by_cases hg : s == c.goos <;> by_cases ha : s == c.goarch <;>
      simp_all <;> grind
  | rel n =>
    simp only [TagName.render] at *
    by_cases ht : c.tags.contains ("go1." ++ toString n) <;>
    by_cases hg : ("go1." ++ toString n) == c.goos <;>
    by_cases ha : ("go1." ++ toString n) == c.goarch <;>
      simp_all <;> grind

theorem lit_correct (c : Ctx) (l : Lit) (h : DomTag c l.name) : litOkY c l = Spec.litOk c l := by
  unfold litOkY Spec.litOk; rw [tag_correct c l.name h]

/-- every word of every option of every line is in the domain -/
def DomLines (c : Ctx) (lns : List PlusLine) : Prop :=
  ∀ ln ∈ lns, ∀ o ∈ ln, ∀ l ∈ o, DomTag c l.name

theorem opt_correct (c : Ctx) (o : Opt) (h : ∀ l ∈ o, DomTag c l.name) : optOkY c o = Spec.optOk c o := by
  unfold optOkY Spec.optOk
  induction o with
  | nil => rfl
  | cons l ls ih =>
    simp only [List.all_cons]
    rw [lit_correct c l (h l (by simp)), ih (fun x hx => h x (by simp [hx]))]

theorem line_correct (c : Ctx) (ln : PlusLine) (h : ∀ o ∈ ln, ∀ l ∈ o, DomTag c l.name) :
    lineOkY c ln = Spec.lineOk c ln := by
  unfold lineOkY Spec.lineOk
  induction ln with
  | nil => rfl
  | cons o os ih =>
    simp only [List.any_cons]
    rw [opt_correct c o (h o (by simp)), ih (fun x hx => h x (by simp [hx]))]

/-- **`// +build` evaluation agrees with the toolchain** for every context, every number of lines,
    options and words, as long as no word is one of the toolchain's special words
    (cgo / compiler / unix / implied OS / boringcrypto) and release words are `go1.N` with `N ≥ 1`. -/
theorem plusbuild_lines_correct (c : Ctx) (lns : List PlusLine) (h : DomLines c lns) :
    linesOkY c lns = Spec.linesOk c lns := by
  unfold linesOkY Spec.linesOk
  induction lns with
  | nil => rfl
  | cons ln rest ih =>
    simp only [List.all_cons]
    rw [line_correct c ln (h ln (by simp)), ih (fun x hx => h x (by simp [hx]))]

/-- non-vacuity: a two-line constraint with negation, a release tag and a custom tag is in the domain,
    and evaluates to `true` for linux/amd64/go1.22 with tag `foo` -/
def ctxLinux : Ctx := { goos := "linux", goarch := "amd64", minor := 22, tags := ["foo"], cgo := true, compiler := "gc" }
def exLines : List PlusLine :=
  [ [[⟨false, .word "linux"⟩, ⟨true, .word "arm"⟩], [⟨false, .word "windows"⟩]],
    [[⟨false, .rel 18⟩, ⟨false, .word "foo"⟩]] ]
example : DomLines ctxLinux exLines ∧ linesOkY ctxLinux exLines = true := by
  refine ⟨?_, by decide⟩
  intro ln hln o ho l hl
  simp only [exLines, List.mem_cons, List.not_mem_nil, or_false] at hln
  rcases hln with rfl | rfl <;> simp only [List.mem_cons, List.not_mem_nil, or_false] at ho
  · rcases ho with rfl | rfl <;> simp only [List.mem_cons, List.not_mem_nil, or_false] at hl
    · rcases hl with rfl | rfl <;> exact ⟨by decide, trivial⟩
    · subst hl; exact ⟨by decide, trivial⟩
  · subst ho; simp only [List.mem_cons, List.not_mem_nil, or_false] at hl
    rcases hl with rfl | rfl
    · exact ⟨by decide, by decide⟩
    · exact ⟨by decide, trivial⟩

/-- what the domain excludes is a real difference: `unix` on linux (part of the C17 finding list) -/
theorem unix_tag_witness : tagOkY ctxLinux (.word "unix") = false ∧ Spec.matchTag ctxLinux (.word "unix") = true := by
  decide

/-- go1.0 is not a release tag for the toolchain, but `minor ≥ 0` for yaegi -/
theorem release_zero_witness : tagOkY ctxLinux (.rel 0) = true ∧ Spec.matchTag ctxLinux (.rel 0) = false := by
  decide

/-! ### file names -/

/-- the tables of interp/build.go are the toolchain's (go/build syslist.go) -/
theorem tables_are_go : Expected.C17.known = ⟨Spec.knownOS, Spec.knownArch⟩ := by decide

/-- contexts in which the compiler name is not itself an OS or architecture word (it is "gc") -/
def ctxOk (c : Ctx) : Bool := !Spec.knownOS.contains c.compiler && !Spec.knownArch.contains c.compiler

/-- on an OS / architecture word the toolchain's matchTag is yaegi's matchOsArch -/
theorem matchWord_osarch (c : Ctx) (w : String) (hc : ctxOk c = true)
    (hw : (Spec.knownOS.contains w || Spec.knownArch.contains w) = true) :
    Spec.matchWord c w = matchOsArchY c w := by
  have h1 : w ≠ "cgo" := by intro h; subst h; revert hw; decide
  have h2 : w ≠ "unix" := by intro h; subst h; revert hw; decide
  have h3 : w ≠ "boringcrypto" := by intro h; subst h; revert hw; decide
  have h4 : w ≠ c.compiler := by
    intro h; subst h
    simp only [ctxOk, Bool.and_eq_true, Bool.not_eq_true'] at hc
    rw [hc.1, hc.2] at hw
    exact absurd hw (by decide)
  unfold Spec.matchWord matchOsArchY
  simp [h1, h2, h3, h4]
  by_cases a1 : w = c.goos <;> by_cases a2 : w = c.goarch <;> simp [a1, a2] <;> grind

/-- **The file-name rule is the toolchain's**, for every context (with an ordinary compiler name),
    every name and both settings of `skipTest`: no side condition on the name. -/
theorem name_rule_correct (c : Ctx) (isTest : Bool) (elems : List String) (skipTest : Bool)
    (hc : ctxOk c = true) :
    skipElemsY Expected.C17.known c isTest elems skipTest = !Spec.selectedElems c isTest elems skipTest := by
  rw [tables_are_go]
  unfold skipElemsY Spec.selectedElems Spec.goodOSArch
  by_cases hst : (skipTest && isTest) = true
  · simp [hst]
  · simp only [hst, Bool.false_eq_true, if_false, Bool.not_false, Bool.true_and]
    cases htl : elems.tail with
    | nil => rfl
    | cons t ts =>
      simp only []
      generalize (if ("" :: t :: ts).getLast? == some "test" then ("" :: t :: ts).dropLast else "" :: t :: ts).reverse = r
      match r with
      | [] => rfl
      | [y] =>
        simp only []
        cases hy : (Spec.knownOS.contains y || Spec.knownArch.contains y) with
        | true => simp only [if_true]; rw [matchWord_osarch c y hc hy]
        | false => simp
      | y :: x :: _ =>
        simp only []
        cases hxy : (Spec.knownOS.contains x && Spec.knownArch.contains y) with
        | true =>
          simp only [if_true]
          rw [Bool.and_eq_true] at hxy
          rw [matchWord_osarch c y hc (by rw [hxy.2, Bool.or_true]), matchWord_osarch c x hc (by rw [hxy.1, Bool.true_or])]
        | false =>
          simp only [Bool.false_eq_true, if_false]
          cases hy : (Spec.knownOS.contains y || Spec.knownArch.contains y) with
          | true => simp only [if_true]; rw [matchWord_osarch c y hc hy]
          | false => simp

/-- … and therefore for the tables regenerated from the current source (`known_tie`) -/
theorem name_rule_generated (c : Ctx) (isTest : Bool) (elems : List String) (skipTest : Bool)
    (hc : ctxOk c = true) :
    skipElemsY Generated.C17.known c isTest elems skipTest = !Spec.selectedElems c isTest elems skipTest := by
  rw [known_tie]; exact name_rule_correct c isTest elems skipTest hc

/-- non-vacuity and regression witnesses: the inputs of the repaired findings F18, F19, F32, F34 now
    get the toolchain's answer -/
example : ctxOk ctxLinux = true ∧
    skipElemsY Expected.C17.known ctxLinux false ["foo", "bar", "windows"] true = true ∧
    skipElemsY Expected.C17.known ctxLinux false ["e", "zos"] true = true ∧
    skipElemsY Expected.C17.known ctxLinux false ["e", "riscv64"] true = true ∧
    skipElemsY Expected.C17.known ctxLinux true ["x", "windows", "test"] false = true ∧
    skipElemsY Expected.C17.known ctxLinux false ["zfile", "linux", "amd64"] true = false ∧
    skipElemsY Expected.C17.known { ctxLinux with tags := ["windows"] } false ["f", "windows"] true = false := by decide

/-- **`//go:build` expressions are evaluated as the toolchain evaluates them** (since fix e527178: buildOk
    parses the line with go/build/constraint and evaluates every word with buildTagOk), for every
    context and every expression whose words are in the tag domain. -/
def DomExpr (c : Ctx) : GExpr → Prop
  | .tag t => DomTag c t
  | .not e => DomExpr c e
  | .and a b => DomExpr c a ∧ DomExpr c b
  | .or a b => DomExpr c a ∧ DomExpr c b

theorem gobuild_expr_correct (c : Ctx) (e : GExpr) (h : DomExpr c e) : e.evalY c = Spec.evalG c e := by
  induction e with
  | tag t => simp only [GExpr.evalY, Spec.evalG]; exact tag_correct c t h
  | not e ih => simp only [GExpr.evalY, Spec.evalG, ih h]
  | and a b iha ihb => simp only [GExpr.evalY, Spec.evalG, iha h.1, ihb h.2]
  | or a b iha ihb => simp only [GExpr.evalY, Spec.evalG, iha h.1, ihb h.2]

/-- non-vacuity: `linux && !arm || go1.18 && foo` is in the domain and true for linux/amd64/go1.22 + foo -/
example : DomExpr ctxLinux (.or (.and (.tag (.word "linux")) (.not (.tag (.word "arm")))) (.and (.tag (.rel 18)) (.tag (.word "foo")))) ∧
    (GExpr.or (.and (.tag (.word "linux")) (.not (.tag (.word "arm")))) (.and (.tag (.rel 18)) (.tag (.word "foo")))).evalY ctxLinux = true := by
  refine ⟨⟨⟨⟨by decide, trivial⟩, ⟨by decide, trivial⟩⟩, ⟨⟨by decide, by decide⟩, ⟨by decide, trivial⟩⟩⟩, by decide⟩

end YaegiVerif.Props.C17
