import YaegiVerif.Model.Method
import YaegiVerif.Model.MethodRun
import YaegiVerif.Model.MethodClass
import YaegiVerif.Model.MethodHost
import YaegiVerif.Spec.GoSelector
import YaegiVerif.Expected.C05
import YaegiVerif.Generated.C05
import YaegiVerif.Proofs.C05Lookup
import YaegiVerif.Proofs.C05Sets
import YaegiVerif.Proofs.C05Fuel
import YaegiVerif.Proofs.C05Switch
import YaegiVerif.Proofs.C05Recv
/-
  C05 — property theorems: method calls and interface operations dispatch as in compiled Go.
  Statements a reader of the property cares about; helper lemmas are in Proofs/C05*.lean.
-/
namespace YaegiVerif.Props.C05
open YaegiVerif YaegiVerif.Method YaegiVerif.MethodRun YaegiVerif.MethodClass YaegiVerif.MethodHost YaegiVerif.Spec.Selector
open YaegiVerif.Proofs.C05

/-! ### ties to the source -/

/-- the choices read from cfg.go / type.go / run.go are the ones the model was written for -/
theorem facts_tie : Generated.C05.facts = Expected.C05.facts := by decide

/-- the extractor recognised every construct it looks for -/
theorem unrecognised_tie : Generated.C05.unrecognised = Expected.C05.unrecognised := by decide

/-- the transcribed functions (and the selector case and the two switch cases of cfg.go, the
    receiver binding of genFunctionWrapper) are textually the ones the model was written from -/
theorem source_tie : Generated.C05.sourceHashes = Expected.C05.sourceHashes := by decide

/-- the composed wrappers of stdlib/wrapper-composed.go are the ones the model was written for -/
theorem composed_tie : Generated.C05.composedWrappers = Expected.C05.composedWrappers := by decide

abbrev EF : Facts := Expected.C05.facts

abbrev OF : Facts := Expected.C05.oldFacts

/-- the values of the selector facts since 4f1c6ee, 837b81e, efcbde2, a60b058, f4dfaf4 -/
def selFacts (F : Facts) : Prop :=
  F.methodPick = .shallowest ∧ F.methodAmbiguityCheck = true ∧ F.fieldLoopEmbedOnly = true ∧
  F.fieldPick = .shallowest ∧ F.fieldDepthMinus = 1 ∧ F.fieldAmbiguityCheck = true

instance (F : Facts) : Decidable (selFacts F) := by unfold selFacts; infer_instance

theorem selFacts_generated : selFacts Generated.C05.facts := by rw [facts_tie]; decide

/-! ### method lookup -/

/-- the selector `x.m` as `matchSelectorMethod` resolves it when no field is in the way:
    `lookupMethod`, then the `methodCount` test -/
def selMethodY (F : Facts) (D : Decls) (t : Nat) (m : String) : Sel :=
  match lookupMethodY F D t m with
  | some h => methodSelY F D t m h
  | none => .undefined

/-- the Go rule applied to the methods named `m` only -/
def selectMethod (D : Decls) (t : Nat) (m : String) : Sel :=
  pickShallowest ((mocc D t m).map (fun h => (h.depth, Sel.method h)))

/-- **`lookupMethod` returns the first of the shallowest methods of that name** in depth-first
    declaration order, for every declaration set (cyclic ones included: both sides use the same fuel) -/
theorem lookup_is_first_shallowest (F : Facts) (hP : F.methodPick = .shallowest) (D : Decls) (t : Nat) (m : String) :
    lookupMethodY F D t m = firstMinBy (fun h => h.path.length) (mocc D t m) := by
  unfold lookupMethodY mocc
  rw [hP]
  exact lookupMethodF_eq_firstMin D _ t m

/-- **`methodCount(name, d)` counts the methods of that name at depth `d`** -/
theorem methodCount_is_count (D : Decls) (t : Nat) (m : String) (d : Nat) (hd : d < D.length) :
    methodCountY D d t m = countAt d ((mocc D t m).map MHit.depth) := methodCountY_eq D m D.length d t hd

/-- **Method selectors resolve as in Go (F04, F05-1 repaired)**: the method found is the one at the
    shallowest depth, and the selector is rejected as ambiguous exactly when several methods stand at
    that depth. All declaration sets, all types, all names — no side condition. -/
theorem lookup_eq_spec (F : Facts) (hP : F.methodPick = .shallowest) (hA : F.methodAmbiguityCheck = true)
    (D : Decls) (t : Nat) (m : String) : selMethodY F D t m = selectMethod D t m := by
  unfold selMethodY selectMethod
  rw [lookup_is_first_shallowest F hP]
  cases hm : firstMinBy (fun (h : MHit) => h.path.length) (mocc D t m) with
  | none => rw [firstMinBy_none' _ _ hm]; rfl
  | some h =>
    obtain ⟨hmem, hmin⟩ := firstMinBy_spec _ _ h hm
    have hlt : h.depth < D.length := moccF_depth_lt D m _ t h hmem
    rw [pick_of_min _ (h.depth, Sel.method h) (List.mem_map.mpr ⟨h, hmem, rfl⟩)
      (by intro x hx; obtain ⟨r, hr, rfl⟩ := List.mem_map.mp hx; exact hmin r hr),
      filter_length_countAt (fun h => (h.depth, Sel.method h)) MHit.depth (fun _ => rfl)]
    simp only [methodSelY, hA, Bool.true_and, methodCount_is_count D t m h.depth hlt]
    have hpos : 0 < countAt h.depth ((mocc D t m).map MHit.depth) := by
      unfold countAt
      apply List.length_pos_of_mem (a := h.depth)
      exact List.mem_filter.mpr ⟨List.mem_map.mpr ⟨h, hmem, rfl⟩, by simp⟩
    by_cases h1 : countAt h.depth ((mocc D t m).map MHit.depth) = 1
    · simp [h1]
    · have : countAt h.depth ((mocc D t m).map MHit.depth) > 1 := by omega
      simp [h1, this]

/-- the same for the facts regenerated from the source -/
theorem lookup_eq_spec_generated (D : Decls) (t : Nat) (m : String) :
    selMethodY Generated.C05.facts D t m = selectMethod D t m :=
  lookup_eq_spec _ selFacts_generated.1 selFacts_generated.2.1 D t m

/-- **the fuel is sufficient**: on a well-formed declaration set (`WF`, decidable: struct-typed
    fields refer to earlier declarations, so embedding is acyclic) giving the searches more fuel
    than the number of declarations changes nothing — the enumerations of the specification, and
    hence `lookupMethod`, are the complete ones -/
theorem fuel_adequate (F : Facts) (hP : F.methodPick = .shallowest) (D : Decls) (hwf : WF D) (t : Nat) (ht : t < D.length)
    (m : String) (extra : Nat) :
    moccF D (D.length + extra) t m = mocc D t m ∧ foccF D (D.length + extra) t m = focc D t m ∧
    lookupMethodF F.methodPick D (D.length + extra) t m = lookupMethodY F D t m := by
  refine ⟨moccF_fuel D hwf m t _ _ (by omega) ht, foccF_fuel D hwf m t _ _ (by omega) ht, ?_⟩
  unfold lookupMethodY
  rw [hP, lookupMethodF_eq_firstMin, lookupMethodF_eq_firstMin, moccF_fuel D hwf m t _ _ (by omega) ht]

/-- `S{A{C}; B}` with `C.M` and `B.M` (the replay input of F04) -/
def f04Decls : Decls :=
  [ .strct "C" [⟨"nc", .int, 0⟩] [⟨"M", false, 0⟩],
    .strct "A" [⟨"na", .int, 0⟩, ⟨"C", .emb, 0⟩] [],
    .strct "B" [⟨"nb", .int, 0⟩] [⟨"M", false, 0⟩],
    .strct "S" [⟨"ns", .int, 0⟩, ⟨"A", .emb, 1⟩, ⟨"B", .emb, 2⟩] [] ]

/-- **regression of F04**: `lookupMethod` finds `B.M` (depth 1), not `C.M` (depth 2, met first), as
    the specification does; `s.M()` prints `B.M` under both rule sets. With the facts as they were
    before 4f1c6ee the model still gives `C.M`. -/
example :
    WF f04Decls ∧
    lookupMethodY EF f04Decls 3 "M" = some ⟨2, [2], ⟨"M", false, 0⟩⟩ ∧
    select f04Decls 3 "M" = .method ⟨2, [2], ⟨"M", false, 0⟩⟩ ∧
    selectY EF f04Decls 3 "M" = select f04Decls 3 "M" ∧
    run .yaegi EF f04Decls [.var "v" 3 1, .call (.var "v") "M"] = .ran [["B.M", "5"]] false ∧
    run .go EF f04Decls [.var "v" 3 1, .call (.var "v") "M"] = .ran [["B.M", "5"]] false ∧
    lookupMethodY OF f04Decls 3 "M" = some ⟨0, [1, 1], ⟨"M", false, 0⟩⟩ ∧
    run .yaegi OF f04Decls [.var "v" 3 1, .call (.var "v") "M"] = .ran [["C.M", "4"]] false := by decide

/-! ### the selector case: field or method -/

/-- **`fieldCount(name, d)` counts the fields of that name at depth `d`** -/
theorem fieldCount_is_count (D : Decls) (t : Nat) (x : String) (d : Nat) (hd : d < D.length) :
    fieldCountY D d t x = countAt d ((focc D t x).map FHit.depth) := fieldCountY_eq D x D.length d t hd

/-- **Selector resolution is the Go specification's** (`x.f` denotes the field or method at the
    shallowest depth, which must be unique; otherwise the selector is illegal): methods against
    methods, fields against fields, fields against methods, promotion through embedded fields only,
    ambiguity rejection — for every declaration set, every type and every name, without side
    condition, for every fact value satisfying `selFacts` (F04, F05-1, F05-2, F05-3, F05-17 repaired). -/
theorem select_eq_spec (F : Facts) (hF : selFacts F) (D : Decls) (t : Nat) (x : String) :
    selectY F D t x = select D t x := by
  obtain ⟨hP, hA, hE, hFP, hK, hFA⟩ := hF
  have hM := lookup_eq_spec F hP hA D t x
  unfold selMethodY selectMethod at hM
  unfold selectY select occs lookupFieldY focc
  rw [lookupFieldF_eq_firstMin F hE hFP D, hK]
  cases hf : firstMinBy (fun (h : FHit) => h.path.length) (foccF D D.length t x) with
  | none =>
    rw [firstMinBy_none' _ _ hf]
    simp only [List.map_nil, List.nil_append]
    exact hM
  | some fh =>
    obtain ⟨hfmem, hfmin⟩ := firstMinBy_spec _ _ fh hf
    have hfmin' : ∀ b ∈ foccF D D.length t x, fh.depth ≤ b.depth := by
      intro b hb; have := hfmin b hb; simp only [FHit.depth]; omega
    have hfe : (fh.depth, Sel.field fh) ∈ (foccF D D.length t x).map (fun h => (h.depth, Sel.field h)) :=
      List.mem_map.mpr ⟨fh, hfmem, rfl⟩
    have hfpos : 0 < countAt fh.depth ((foccF D D.length t x).map FHit.depth) := by
      unfold countAt
      apply List.length_pos_of_mem (a := fh.depth)
      exact List.mem_filter.mpr ⟨List.mem_map.mpr ⟨fh, hfmem, rfl⟩, by simp⟩
    have hfd : fh.path.length - 1 = fh.depth := rfl
    -- the second half of the ambiguity condition: more than one field at the depth of the field found
    have htie : fieldTieY F D t x fh = decide (countAt fh.depth ((foccF D D.length t x).map FHit.depth) > 1) := by
      unfold fieldTieY
      rw [hFA, hfd, fieldCount_is_count D t x fh.depth (foccF_depth_lt D x _ t fh hfmem)]
      rfl
    rw [lookup_is_first_shallowest F hP] at hM ⊢
    cases hm : firstMinBy (fun (h : MHit) => h.path.length) (mocc D t x) with
    | none =>
      -- no method of that name: the field, unless another field stands at its depth
      rw [firstMinBy_none' _ _ hm]
      simp only [List.map_nil, List.append_nil]
      rw [pick_of_min _ (fh.depth, Sel.field fh) hfe
        (by intro y hy; obtain ⟨r, hr, rfl⟩ := List.mem_map.mp hy; exact hfmin' r hr),
        filter_length_countAt (fun h => (h.depth, Sel.field h)) FHit.depth (fun _ => rfl), htie]
      by_cases h1 : countAt fh.depth ((foccF D D.length t x).map FHit.depth) = 1
      · simp [h1]
      · have : countAt fh.depth ((foccF D D.length t x).map FHit.depth) > 1 := by omega
        simp [h1, this]
    | some mh =>
      rw [hm] at hM
      obtain ⟨hmmem, hmmin⟩ := firstMinBy_spec _ _ mh hm
      have hmmin' : ∀ b ∈ mocc D t x, mh.depth ≤ b.depth := hmmin
      have hme : (mh.depth, Sel.method mh) ∈ (mocc D t x).map (fun h => (h.depth, Sel.method h)) :=
        List.mem_map.mpr ⟨mh, hmmem, rfl⟩
      simp only
      rw [hfd]
      by_cases hlt : mh.depth < fh.depth
      · -- the method is strictly shallower than every field: the Go rule on the methods alone
        rw [if_pos hlt]
        simp only at hM
        rw [hM]
        rw [pick_of_min _ (mh.depth, Sel.method mh) hme
          (by intro y hy; obtain ⟨r, hr, rfl⟩ := List.mem_map.mp hy; exact hmmin' r hr),
          pick_of_min _ (mh.depth, Sel.method mh) (List.mem_append_right _ hme)
          (by
            intro y hy
            rcases List.mem_append.mp hy with hy | hy
            · obtain ⟨r, hr, rfl⟩ := List.mem_map.mp hy; have := hfmin' r hr; simp only; omega
            · obtain ⟨r, hr, rfl⟩ := List.mem_map.mp hy; exact hmmin' r hr),
          List.filter_append]
        have hnone : ((foccF D D.length t x).map (fun h => (h.depth, Sel.field h))).filter (fun y => y.1 == mh.depth) = [] := by
          apply filter_none
          intro y hy
          obtain ⟨r, hr, rfl⟩ := List.mem_map.mp hy
          have := hfmin' r hr
          simp only [beq_eq_false_iff_ne, ne_eq]; omega
        rw [hnone, List.nil_append]
      · rw [if_neg hlt]
        by_cases heq : mh.depth = fh.depth
        · -- same depth: ambiguous under both rules
          simp only [heq, decide_true, Bool.true_or, if_true]
          rw [pick_of_min _ (fh.depth, Sel.field fh) (List.mem_append_left _ hfe)
            (by
              intro y hy
              rcases List.mem_append.mp hy with hy | hy
              · obtain ⟨r, hr, rfl⟩ := List.mem_map.mp hy; exact hfmin' r hr
              · obtain ⟨r, hr, rfl⟩ := List.mem_map.mp hy; have := hmmin' r hr; simp only; omega)]
          dsimp only
          have h2 : (((foccF D D.length t x).map (fun h => (h.depth, Sel.field h)) ++
              (mocc D t x).map (fun h => (h.depth, Sel.method h))).filter (fun y => y.1 == fh.depth)).length ≥ 2 := by
            rw [List.filter_append, List.length_append,
              filter_length_countAt (fun h => (h.depth, Sel.field h)) FHit.depth (fun _ => rfl),
              filter_length_countAt (fun h => (h.depth, Sel.method h)) MHit.depth (fun _ => rfl)]
            have : 0 < countAt fh.depth ((mocc D t x).map MHit.depth) := by
              unfold countAt
              apply List.length_pos_of_mem (a := fh.depth)
              exact List.mem_filter.mpr ⟨List.mem_map.mpr ⟨mh, hmmem, heq⟩, by simp⟩
            omega
          rw [if_neg (by omega)]
        · -- the field is strictly shallower than every method: the field, unless another field stands at its depth
          have hgt : fh.depth < mh.depth := by omega
          simp only [heq, decide_false, Bool.false_or]
          rw [pick_of_min _ (fh.depth, Sel.field fh) (List.mem_append_left _ hfe)
            (by
              intro y hy
              rcases List.mem_append.mp hy with hy | hy
              · obtain ⟨r, hr, rfl⟩ := List.mem_map.mp hy; exact hfmin' r hr
              · obtain ⟨r, hr, rfl⟩ := List.mem_map.mp hy; have := hmmin' r hr; simp only; omega),
            List.filter_append]
          have hnone : ((mocc D t x).map (fun h => (h.depth, Sel.method h))).filter (fun y => y.1 == fh.depth) = [] := by
            apply filter_none
            intro y hy
            obtain ⟨r, hr, rfl⟩ := List.mem_map.mp hy
            have := hmmin' r hr
            simp only [beq_eq_false_iff_ne, ne_eq]; omega
          rw [hnone, List.append_nil,
            filter_length_countAt (fun h => (h.depth, Sel.field h)) FHit.depth (fun _ => rfl), htie]
          by_cases h1 : countAt fh.depth ((foccF D D.length t x).map FHit.depth) = 1
          · simp [h1]
          · have : countAt fh.depth ((foccF D D.length t x).map FHit.depth) > 1 := by omega
            simp [h1, this]

/-- the same for the facts regenerated from the source -/
theorem select_eq_spec_generated (D : Decls) (t : Nat) (x : String) :
    selectY Generated.C05.facts D t x = select D t x := select_eq_spec _ selFacts_generated D t x

/-- declaration sets for the selector case: a `func()` field `A.M` and a method `B.M` -/
def fmDecls : Decls :=
  [ .strct "A" [⟨"na", .int, 0⟩, ⟨"M", .func, 0⟩] [],
    .strct "B" [⟨"nb", .int, 0⟩] [⟨"M", false, 0⟩],
    .strct "S" [⟨"ns", .int, 0⟩, ⟨"A", .emb, 0⟩, ⟨"B", .emb, 1⟩] [],
    .strct "C" [⟨"nc", .int, 0⟩, ⟨"B", .emb, 1⟩] [],
    .strct "U" [⟨"nu", .int, 0⟩, ⟨"A", .emb, 0⟩, ⟨"C", .emb, 3⟩] [],
    .strct "P" [⟨"np", .int, 0⟩, ⟨"xa", .plain, 0⟩, ⟨"C", .emb, 3⟩] [] ]

/-- two methods at the same depth -/
def ambDecls : Decls :=
  [ .strct "A" [⟨"na", .int, 0⟩] [⟨"M", false, 0⟩],
    .strct "B" [⟨"nb", .int, 0⟩] [⟨"M", true, 0⟩],
    .strct "S" [⟨"ns", .int, 0⟩, ⟨"A", .emb, 0⟩, ⟨"B", .emb, 1⟩] [] ]

/-- **regressions of F05-2, F05-3, F05-1** (the replay inputs of the findings): field and method at
    the same depth — ambiguous; field one level above a method — the field; a field below a
    non-embedded struct field is not promoted — the method; two methods at the same depth — ambiguous,
    the program is rejected. Under the old facts the model still shows the old answers. -/
example :
    WF fmDecls ∧ WF ambDecls ∧
    select fmDecls 2 "M" = .ambiguous ∧ selectY EF fmDecls 2 "M" = .ambiguous ∧
    selectY OF fmDecls 2 "M" = .method ⟨1, [2], ⟨"M", false, 0⟩⟩ ∧
    select fmDecls 4 "M" = .field ⟨0, [1, 1], ⟨"M", .func, 0⟩⟩ ∧ selectY EF fmDecls 4 "M" = select fmDecls 4 "M" ∧
    selectY OF fmDecls 4 "M" = .ambiguous ∧
    select fmDecls 5 "M" = .method ⟨1, [2, 1], ⟨"M", false, 0⟩⟩ ∧ selectY EF fmDecls 5 "M" = select fmDecls 5 "M" ∧
    selectY OF fmDecls 5 "M" = .ambiguous ∧
    select ambDecls 2 "M" = .ambiguous ∧ selectY EF ambDecls 2 "M" = .ambiguous ∧
    selectY OF ambDecls 2 "M" = .method ⟨0, [1], ⟨"M", false, 0⟩⟩ ∧
    run .go EF ambDecls [.var "v" 2 1, .call (.var "v") "M"] = .reject ∧
    run .yaegi EF ambDecls [.var "v" 2 1, .call (.var "v") "M"] = .reject ∧
    run .yaegi OF ambDecls [.var "v" 2 1, .call (.var "v") "M"] = .ran [["A.M", "3"]] false := by decide

/-- two `func()` fields `M` at the same depth -/
def tieDecls : Decls :=
  [ .strct "A" [⟨"na", .int, 0⟩, ⟨"M", .func, 0⟩] [],
    .strct "B" [⟨"nb", .int, 0⟩, ⟨"M", .func, 0⟩] [],
    .strct "S" [⟨"ns", .int, 0⟩, ⟨"A", .emb, 0⟩, ⟨"B", .emb, 1⟩] [] ]

/-- **regression of F05-17**: two fields at the same shallowest depth are ambiguous under both rule
    sets, the program is rejected; without the `fieldCount` test (before f4dfaf4) `lookupField` took
    the first one and the program ran -/
example :
    WF tieDecls ∧ select tieDecls 2 "M" = .ambiguous ∧ selectY EF tieDecls 2 "M" = .ambiguous ∧
    run .go EF tieDecls [.var "v" 2 1, .call (.var "v") "M"] = .reject ∧
    run .yaegi EF tieDecls [.var "v" 2 1, .call (.var "v") "M"] = .reject ∧
    classify EF tieDecls [.var "v" 2 1, .call (.var "v") "M"] = "in-domain" ∧
    selectY { EF with fieldAmbiguityCheck := false } tieDecls 2 "M" = .field ⟨0, [1, 1], ⟨"M", .func, 0⟩⟩ ∧
    run .yaegi { EF with fieldAmbiguityCheck := false } tieDecls [.var "v" 2 1, .call (.var "v") "M"] = .ran [["A.f.M"]] false ∧
    fieldTie tieDecls 2 "M" = true := by decide

/-- non-vacuity of `selFacts`, and inputs of every kind — promoted methods, shadowing, a field and a
    method of the same name at several relative depths, ties — on which both rule sets agree -/
example : selFacts EF ∧ selectY EF f04Decls 3 "M" = select f04Decls 3 "M" ∧ selectY EF ambDecls 2 "M" = select ambDecls 2 "M" ∧
    selectY EF fmDecls 2 "M" = select fmDecls 2 "M" ∧ selectY EF fmDecls 4 "M" = select fmDecls 4 "M" ∧
    selectY EF fmDecls 5 "M" = select fmDecls 5 "M" ∧ selectY EF tieDecls 2 "M" = select tieDecls 2 "M" := by decide

/-! ### method sets -/

/-- **`methods()` collects exactly the names of the methods reachable through embedded fields**
    (by value or by pointer, any receiver kind), for every declaration set -/
theorem methods_names_reachable (D : Decls) (t : Nat) (k : String) :
    k ∈ (methodsY D t).map (·.1) ↔ mocc D t k ≠ [] := mem_names_methodsF D k _ t

/-- the Go promotion rule as `recvOK` computes it: through a field embedded by pointer every
    promoted method is in both method sets; through a field embedded by value the method set of
    `T` (resp. `*T`) gets what the method set of the embedded `S` (resp. `*S`) has -/
theorem recvOK_through_embedding (D : Decls) (t i : Nat) (f : Field) (p : Bool) (h : MHit)
    (hf : (fieldsOf D t)[i]? = some f) :
    recvOK D ⟨t, p⟩ (h.push i) = (f.kind == .embPtr || recvOK D ⟨f.typ, p⟩ h) := by
  unfold recvOK MHit.push
  simp only [viaPtr, hf]
  cases p <;> cases h.meth.ptr <;> cases (f.kind == FKind.embPtr) <;> simp

/-- the method set of `T` is included in the method set of `*T` -/
theorem methodset_value_subset_pointer (D : Decls) (t : Nat) (m : Meth)
    (h : m ∈ methodSet D ⟨t, false⟩) : m ∈ methodSet D ⟨t, true⟩ := by
  unfold methodSet at *
  simp only [List.mem_filterMap] at *
  obtain ⟨k, hk, hm⟩ := h
  refine ⟨k, hk, ?_⟩
  cases hs : select D t k with
  | method hh =>
    simp only [hs] at hm
    simp only [recvOK, Bool.true_or, if_true]
    by_cases hr : recvOK D ⟨t, false⟩ hh = true
    · simpa [hr] using hm
    · simp [hr] at hm
  | field _ => simp [hs] at hm
  | ambiguous => simp [hs] at hm
  | undefined => simp [hs] at hm

/-- **completeness**: every method of the Go method set of `T` or `*T` is in `methods()` —
    the interpreter never misses a method (all declaration sets) -/
theorem methodset_complete (D : Decls) (d : DynT) (m : Meth) (h : m ∈ methodSet D d) :
    m.name ∈ (methodsY D d.t).map (·.1) := by
  unfold methodSet at h
  simp only [List.mem_filterMap] at h
  obtain ⟨k, _, hm⟩ := h
  cases hs : select D d.t k with
  | method hh =>
    simp only [hs] at hm
    by_cases hr : recvOK D d hh = true
    · simp only [hr, if_true, Option.some.injEq] at hm
      subst hm
      have hmem := select_method_mem D d.t k hh hs
      obtain ⟨hn, _⟩ := moccF_sound D k _ _ hh hmem
      rw [hn, methods_names_reachable]
      intro hnil
      rw [hnil] at hmem
      simp at hmem
    · simp [hr] at hm
  | field _ => simp [hs] at hm
  | ambiguous => simp [hs] at hm
  | undefined => simp [hs] at hm

/-- domain of `methodset_correct_partial`: every reachable method name is selected by the Go rule
    as a method (not ambiguous, not hidden by a field) whose receiver kind fits `T` / `*T` -/
def msDom (D : Decls) (d : DynT) : Bool :=
  (allNames D).all (fun k => (mocc D d.t k).isEmpty ||
    (match select D d.t k with
     | .method h => recvOK D d h
     | _ => false))

/-- **`methods()` is the Go method set** of `T` (`d.ptr = false`) or `*T` (`d.ptr = true`) on the
    decidable domain `msDom`; all declaration sets, value and pointer receivers, embedding by value
    and by pointer -/
theorem methodset_correct_partial (D : Decls) (d : DynT) (hd : msDom D d = true) (k : String) :
    k ∈ (methodsY D d.t).map (·.1) ↔ k ∈ (methodSet D d).map (·.name) := by
  constructor
  · intro hk
    have hne := (methods_names_reachable D d.t k).mp hk
    have hall := mocc_ne_nil_mem_allNames D d.t k hne
    unfold msDom at hd
    have := (List.all_eq_true.mp hd) k hall
    simp only [Bool.or_eq_true, List.isEmpty_iff] at this
    rcases this with h | h
    · exact absurd h hne
    · cases hs : select D d.t k with
      | method hh =>
        simp only [hs] at h
        have hmem := select_method_mem D d.t k hh hs
        obtain ⟨hn, _⟩ := moccF_sound D k _ _ hh hmem
        refine List.mem_map.mpr ⟨hh.meth, ?_, hn⟩
        unfold methodSet
        simp only [List.mem_filterMap]
        exact ⟨k, hall, by simp [hs, h]⟩
      | field _ => simp [hs] at h
      | ambiguous => simp [hs] at h
      | undefined => simp [hs] at h
  · intro hk
    obtain ⟨m, hm, rfl⟩ := List.mem_map.mp hk
    exact methodset_complete D d m hm

/-- **witness** (value type with a pointer-receiver method): `Inc` is in `methods()` of `T` but not
    in the Go method set of `T`; it is in the method set of `*T` and, through an embedded pointer,
    in the method set of the embedding value type -/
def msDecls : Decls :=
  [ .strct "T" [⟨"nt", .int, 0⟩] [⟨"Get", false, 0⟩, ⟨"Inc", true, 0⟩],
    .strct "V" [⟨"nv", .int, 0⟩, ⟨"T", .emb, 0⟩] [],
    .strct "P" [⟨"np", .int, 0⟩, ⟨"T", .embPtr, 0⟩] [] ]

theorem methodset_value_witness :
    WF msDecls ∧
    (methodsY msDecls 0).map (·.1) = ["Get", "Inc"] ∧
    (methodSet msDecls ⟨0, false⟩).map (·.name) = ["Get"] ∧
    (methodSet msDecls ⟨0, true⟩).map (·.name) = ["Get", "Inc"] ∧
    (methodSet msDecls ⟨1, false⟩).map (·.name) = ["Get"] ∧
    (methodSet msDecls ⟨1, true⟩).map (·.name) = ["Get", "Inc"] ∧
    (methodSet msDecls ⟨2, false⟩).map (·.name) = ["Get", "Inc"] ∧
    msDom msDecls ⟨0, false⟩ = false ∧ msDom msDecls ⟨0, true⟩ = true ∧ msDom msDecls ⟨2, false⟩ = true := by decide

/-! ### interface satisfaction -/

def sigList (ims : List Meth) : List (String × Nat) := ims.map (fun m => (m.name, m.sig))

theorem pathViaPtr_eq (D : Decls) : ∀ (p : List Nat) (t : Nat), pathViaPtr D t p = viaPtr D t p := by
  intro p
  induction p with
  | nil => intro t; rfl
  | cons i rest ih =>
    intro t
    unfold pathViaPtr viaPtr
    cases (fieldsOf D t)[i]? with
    | none => rfl
    | some f => simp only [ih]

/-- **what the Go rule selects as a method is what `lookupMethod` finds** (the converse needs the
    `methodCount` test: `lookup_eq_spec`) -/
theorem select_method_lookup (F : Facts) (hP : F.methodPick = .shallowest) (D : Decls) (t : Nat) (k : String) (h : MHit)
    (hs : select D t k = .method h) : lookupMethodY F D t k = some h := by
  rw [lookup_is_first_shallowest F hP]
  unfold select occs at hs
  obtain ⟨o, ho, ho2, hmin, huniq⟩ := pick_unique _ _ hs (by simp) (by simp)
  -- the selected entry comes from the enumeration of the methods
  have hom : o = (h.depth, Sel.method h) ∧ h ∈ mocc D t k := by
    rcases List.mem_append.mp ho with hf | hm
    · obtain ⟨r, _, rfl⟩ := List.mem_map.mp hf; simp at ho2
    · obtain ⟨r, hr, rfl⟩ := List.mem_map.mp hm
      simp only [Sel.method.injEq] at ho2
      subst ho2
      exact ⟨rfl, hr⟩
  obtain ⟨rfl, hmem⟩ := hom
  cases hm : firstMinBy (fun (h : MHit) => h.path.length) (mocc D t k) with
  | none => rw [firstMinBy_none' _ _ hm] at hmem; simp at hmem
  | some h' =>
    obtain ⟨hmem', hmin'⟩ := firstMinBy_spec _ _ h' hm
    have he' : (h'.depth, Sel.method h') ∈ (focc D t k).map (fun h => (h.depth, Sel.field h)) ++
        (mocc D t k).map (fun h => (h.depth, Sel.method h)) :=
      List.mem_append_right _ (List.mem_map.mpr ⟨h', hmem', rfl⟩)
    have h1 : h.depth ≤ h'.depth := hmin _ he'
    have h2 : h'.depth ≤ h.depth := hmin' h hmem
    have := huniq _ he' (by simp only; omega)
    simp only [Prod.mk.injEq, Sel.method.injEq] at this
    rw [this.2]

/-- a method of the Go method set, found through its name -/
theorem methodSet_mem_select (D : Decls) (d : DynT) (m : Meth) (hm : m ∈ methodSet D d) :
    ∃ h, select D d.t m.name = .method h ∧ recvOK D d h = true ∧ h.meth = m := by
  unfold methodSet at hm
  simp only [List.mem_filterMap] at hm
  obtain ⟨k, _, hk⟩ := hm
  cases hs : select D d.t k with
  | method hh =>
    simp only [hs] at hk
    by_cases hr : recvOK D d hh = true
    · simp only [hr, if_true, Option.some.injEq] at hk
      have hmem := select_method_mem D d.t k hh hs
      obtain ⟨hn, _⟩ := moccF_sound D k _ _ hh hmem
      subst hk
      rw [hn]
      exact ⟨hh, hs, hr, rfl⟩
    · simp [hr] at hk
  | field _ => simp [hs] at hk
  | ambiguous => simp [hs] at hk
  | undefined => simp [hs] at hk

/-- **completeness of `implements()`** (names, and since 79ed061 the receiver kind): a type that
    implements the interface by the Go rules passes it — value and pointer types, promotion through
    embedded values and pointers, all declaration sets -/
theorem implements_complete (F : Facts) (hF : F.containsNamesOnly = true) (hP : F.methodPick = .shallowest)
    (D : Decls) (d : DynT) (ims : List Meth)
    (h : implements D d ims = true) : implementsY F D d.t d.ptr (sigList ims) = true := by
  unfold implementsY
  have hc : containsY F (methodsY D d.t) (sigList ims) = true := by
    unfold containsY sigList
    unfold implements at h
    rw [List.all_eq_true] at *
    intro k hk
    obtain ⟨im, him, rfl⟩ := List.mem_map.mp hk
    have := h im him
    rw [List.any_eq_true] at this
    obtain ⟨m, hm, hms⟩ := this
    simp only [Bool.and_eq_true, beq_iff_eq] at hms
    have hn := methodset_complete D d m hm
    obtain ⟨p, hp, hpn⟩ := List.mem_map.mp hn
    rw [List.any_eq_true]
    exact ⟨p, hp, by simp [hF, hpn, hms.1]⟩
  have hn : needsPtrY F D d.t d.ptr (sigList ims) = false := by
    unfold needsPtrY
    cases hdp : d.ptr with
    | true => rfl
    | false =>
      simp only [Bool.not_false, Bool.true_and]
      rw [Bool.eq_false_iff]
      intro hany
      rw [List.any_eq_true] at hany
      obtain ⟨k, hk, hkk⟩ := hany
      unfold sigList at hk
      obtain ⟨im, him, rfl⟩ := List.mem_map.mp hk
      unfold implements at h
      have := (List.all_eq_true.mp h) im him
      rw [List.any_eq_true] at this
      obtain ⟨m, hm, hms⟩ := this
      simp only [Bool.and_eq_true, beq_iff_eq] at hms
      obtain ⟨hh, hs, hr, hme⟩ := methodSet_mem_select D d m hm
      rw [hms.1] at hs
      simp only [select_method_lookup F hP D d.t im.name hh hs, pathViaPtr_eq, Bool.and_eq_true, Bool.not_eq_true'] at hkk
      unfold recvOK at hr
      simp [hdp, hkk.1, hkk.2] at hr
  rw [hc, hn]
  simp

theorem implements_complete_generated (D : Decls) (d : DynT) (ims : List Meth)
    (h : implements D d ims = true) : implementsY Generated.C05.facts D d.t d.ptr (sigList ims) = true :=
  implements_complete _ (by rw [facts_tie]; rfl) selFacts_generated.1 D d ims h

/-- the interpreter's and the specification's reading of an interface type (own methods and
    embedded interfaces, to any depth) list the same names -/
theorem iface_methods_names (D : Decls) (i : Nat) (k : String) :
    k ∈ (ifaceMethodsY D i).map (·.1) ↔ k ∈ (ifaceMethods D i).map (·.name) := iface_names_eq D k _ i

/-- every interface method name is selected by the Go rule as a method of `t` or is not a method
    name below `t` at all (not ambiguous, not hidden by a field) -/
def namesResolved (D : Decls) (t : Nat) (ims : List Meth) : Bool :=
  ims.all (fun im => (mocc D t im.name).isEmpty || (match select D t im.name with | .method _ => true | _ => false))

/-- the method the Go rule selects for each interface method has the interface's signature -/
def sigAgree (D : Decls) (t : Nat) (ims : List Meth) : Bool :=
  ims.all (fun im => match select D t im.name with | .method h => h.meth.sig == im.sig | _ => true)

/-- **soundness of `implements()` with the receiver kind** (79ed061): on the domain where the names
    resolve unambiguously (`namesResolved`) and signatures agree (`sigAgree`) — what is left of F05-7,
    now F05-20 — a type that passes it implements the interface by the Go rules: the pointer-receiver
    rule for values, promotion through embedded pointers included, is the specification's -/
theorem implements_sound_partial (F : Facts) (hR : F.implementsChecksRecv = true) (hP : F.methodPick = .shallowest)
    (D : Decls) (d : DynT) (ims : List Meth)
    (hd : namesResolved D d.t ims = true) (hs : sigAgree D d.t ims = true)
    (h : implementsY F D d.t d.ptr (sigList ims) = true) : implements D d ims = true := by
  unfold implementsY at h
  simp only [hR, Bool.true_and, Bool.and_eq_true, Bool.not_eq_true'] at h
  obtain ⟨hc, hn⟩ := h
  unfold containsY sigList at hc
  unfold implements
  unfold namesResolved at hd
  unfold sigAgree at hs
  rw [List.all_eq_true] at *
  intro im him
  have := hc (im.name, im.sig) (List.mem_map.mpr ⟨im, him, rfl⟩)
  rw [List.any_eq_true] at this
  obtain ⟨p, hp, hpk⟩ := this
  simp only [Bool.and_eq_true, beq_iff_eq] at hpk
  have hne : mocc D d.t im.name ≠ [] :=
    (methods_names_reachable D d.t im.name).mp (List.mem_map.mpr ⟨p, hp, hpk.1⟩)
  have hres := hd im him
  simp only [Bool.or_eq_true, List.isEmpty_iff] at hres
  rcases hres with hres | hres
  · exact absurd hres hne
  · cases hsel : select D d.t im.name with
    | method hh =>
      have hlook := select_method_lookup F hP D d.t im.name hh hsel
      have hmem := select_method_mem D d.t im.name hh hsel
      obtain ⟨hname, _⟩ := moccF_sound D im.name _ _ hh hmem
      -- the receiver rule
      have hrecv : recvOK D d hh = true := by
        unfold recvOK
        cases hdp : d.ptr with
        | true => rfl
        | false =>
          unfold needsPtrY at hn
          simp only [hdp, Bool.not_false, Bool.true_and] at hn
          have := (List.any_eq_false.mp hn) (im.name, im.sig) (List.mem_map.mpr ⟨im, him, rfl⟩)
          simp only [hlook, pathViaPtr_eq] at this
          cases hmp : hh.meth.ptr <;> cases hvp : viaPtr D d.t hh.path <;> simp_all
      have hsig := hs im him
      simp only [hsel, beq_iff_eq] at hsig
      rw [List.any_eq_true]
      refine ⟨hh.meth, ?_, by simp [hname, hsig]⟩
      unfold methodSet
      simp only [List.mem_filterMap]
      exact ⟨im.name, mocc_ne_nil_mem_allNames D d.t im.name hne, by simp [hsel, hrecv]⟩
    | field _ => simp [hsel] at hres
    | ambiguous => simp [hsel] at hres
    | undefined => simp [hsel] at hres

/-- **witness (F05-20)**: the interface wants `Get() int`, the type has `Get()`: accepted by name -/
theorem implements_signature_witness :
    implementsY EF msDecls 0 true (sigList [⟨"Get", false, 1⟩]) = true ∧
    implements msDecls ⟨0, true⟩ [⟨"Get", false, 1⟩] = false ∧
    sigAgree msDecls 0 [⟨"Get", false, 1⟩] = false := by decide

/-- **regression of F05-7** (its receiver half): a value of `T` is rejected for an interface that needs
    the pointer method `Inc`, `*T` and a value of `P` (which embeds `*T`) are accepted — as in Go;
    without the receiver test (before 79ed061) the value of `T` was accepted -/
example :
    implementsY EF msDecls 0 false (sigList [⟨"Inc", false, 0⟩]) = false ∧
    implements msDecls ⟨0, false⟩ [⟨"Inc", false, 0⟩] = false ∧
    implementsY EF msDecls 0 true (sigList [⟨"Inc", false, 0⟩]) = true ∧
    implements msDecls ⟨0, true⟩ [⟨"Inc", false, 0⟩] = true ∧
    implementsY EF msDecls 2 false (sigList [⟨"Inc", false, 0⟩]) = true ∧
    implements msDecls ⟨2, false⟩ [⟨"Inc", false, 0⟩] = true ∧
    implementsY EF msDecls 1 false (sigList [⟨"Inc", false, 0⟩]) = false ∧
    implementsY { EF with implementsChecksRecv := false } msDecls 0 false (sigList [⟨"Inc", false, 0⟩]) = true ∧
    namesResolved msDecls 0 [⟨"Inc", false, 0⟩] = true ∧ sigAgree msDecls 0 [⟨"Inc", false, 0⟩] = true := by decide

/-! ### host-side probes of optional interfaces -/

/-- **a host-side probe `x.(J)` on a script value converted to the host interface `I` succeeds exactly
    when it does in compiled Go** — when the value implements `J` — on the domain: stdlib has a
    composed wrapper for `I` + `J` (and no other composed wrapper for `I`; `hC`), the conversion is legal
    (`hI`) and `methods()` of the type is its method set (`msDom`: `getWrapper` looks at names in
    `methods()`, own and promoted alike, whatever the receiver kind). Requires `getWrapper` to decide
    with the full method set (`wrapperUsesMethodSet`, the extracted fact). All declaration sets, value
    and pointer operands, methods promoted through embedded values and pointers. -/
theorem host_probe_agrees_partial (F : Facts) (hF : F.wrapperUsesMethodSet = true) (C : Composed) (D : Decls) (d : DynT)
    (base : String) (im jm : List String)
    (hC : composedOf C base = [im ++ jm])
    (hI : ∀ i ∈ im, i ∈ (methodSet D d).map (·.name))
    (hd : msDom D d = true) :
    hostProbeY F C D d.t base im jm = hostProbeG D d jm := by
  have hms := methodset_correct_partial D d hd
  unfold hostProbeY hostProbeG chooseWrapperY visibleNamesY
  rw [hC, hF]
  simp only [if_true, List.find?_cons, List.find?_nil]
  by_cases hall : (im ++ jm).all (fun m => ((methodsY D d.t).map (·.1)).contains m) = true
  · -- the type has every method of the composed wrapper: it is chosen, and Go's probe succeeds too
    rw [hall]
    simp only
    have hy : jm.all (fun j => (im ++ jm).contains j) = true := by
      rw [List.all_eq_true]; intro j hj; simp [hj]
    have hg : jm.all (fun j => ((methodSet D d).map (·.name)).contains j) = true := by
      rw [List.all_eq_true] at hall ⊢
      intro j hj
      have := hall j (by simp [hj])
      simp only [List.contains_iff_mem] at this ⊢
      exact (hms j).mp this
    rw [hy, hg]
  · -- some method of the composed wrapper is missing: the plain wrapper; it must be one of `J`'s
    have hfalse : (im ++ jm).all (fun m => ((methodsY D d.t).map (·.1)).contains m) = false := by
      simpa using hall
    rw [hfalse]
    simp only [Bool.false_eq_true, if_false]
    have hex : ∃ x ∈ im ++ jm, x ∉ (methodsY D d.t).map (·.1) := by
      obtain ⟨x, hx, hxp⟩ := List.all_eq_false.mp hfalse
      refine ⟨x, hx, ?_⟩
      intro hmem
      apply hxp
      simp only [List.contains_iff_mem]
      exact hmem
    obtain ⟨x, hx, hxn⟩ := hex
    have hxj : x ∈ jm ∧ x ∉ im := by
      rcases List.mem_append.mp hx with hxi | hxj
      · exact absurd ((hms x).mpr (hI x hxi)) hxn
      · exact ⟨hxj, fun hxi => hxn ((hms x).mpr (hI x hxi))⟩
    have hy : jm.all (fun j => im.contains j) = false := by
      rw [Bool.eq_false_iff]; intro h
      have := (List.all_eq_true.mp h) x hxj.1
      simp only [List.contains_iff_mem] at this
      exact hxj.2 this
    have hg : jm.all (fun j => ((methodSet D d).map (·.name)).contains j) = false := by
      rw [Bool.eq_false_iff]; intro h
      have := (List.all_eq_true.mp h) x hxj.1
      simp only [List.contains_iff_mem] at this
      exact hxn ((hms x).mpr this)
    rw [hy, hg]

/-- the same for the facts and the table regenerated from the source, for the two pairs of the io
    package: io.Reader + io.WriterTo and io.Writer + io.ReaderFrom (what io.Copy probes) -/
theorem host_probe_agrees_generated (D : Decls) (d : DynT) (hd : msDom D d = true) :
    ((∀ i ∈ ["Read"], i ∈ (methodSet D d).map (·.name)) →
      hostProbeY Generated.C05.facts Generated.C05.composedWrappers D d.t "_io_Reader" ["Read"] ["WriteTo"] = hostProbeG D d ["WriteTo"]) ∧
    ((∀ i ∈ ["Write"], i ∈ (methodSet D d).map (·.name)) →
      hostProbeY Generated.C05.facts Generated.C05.composedWrappers D d.t "_io_Writer" ["Write"] ["ReadFrom"] = hostProbeG D d ["ReadFrom"]) := by
  have hF : Generated.C05.facts.wrapperUsesMethodSet = true := by rw [facts_tie]; rfl
  constructor
  · intro hI
    exact host_probe_agrees_partial _ hF _ D d "_io_Reader" ["Read"] ["WriteTo"] (by rw [composed_tie]; rfl) hI hd
  · intro hI
    exact host_probe_agrees_partial _ hF _ D d "_io_Writer" ["Write"] ["ReadFrom"] (by rw [composed_tie]; rfl) hI hd

/-- `R{nr}` with `Read` and `WriteTo` on `*R`; `E` embeds `*R`, `V` embeds `R` by value; `W{nw}` with
    `Write`, `WriteString` and `Seek` on `*W` -/
def hostDecls : Decls :=
  [ .strct "R" [⟨"nr", .int, 0⟩] [⟨"Read", true, 0⟩, ⟨"WriteTo", true, 0⟩],
    .strct "E" [⟨"ne", .int, 0⟩, ⟨"R", .embPtr, 0⟩] [],
    .strct "V" [⟨"nv", .int, 0⟩, ⟨"R", .emb, 0⟩] [],
    .strct "W" [⟨"nw", .int, 0⟩] [⟨"Write", true, 0⟩, ⟨"WriteString", true, 0⟩, ⟨"Read", true, 0⟩, ⟨"Seek", true, 0⟩] ]

/-- non-vacuity and **regression of the seeded change C05-3**: own and promoted `WriteTo` are seen by
    the probe as in Go (`*R`, a value of `E`, `*V`); if `getWrapper` tested the methods declared on the
    type itself only, the promoted ones would get the plain wrapper and the probe would fail -/
example :
    WF hostDecls ∧ msDom hostDecls ⟨0, true⟩ = true ∧ msDom hostDecls ⟨1, false⟩ = true ∧ msDom hostDecls ⟨2, true⟩ = true ∧
    hostProbeG hostDecls ⟨0, true⟩ ["WriteTo"] = true ∧
    hostProbeY EF Expected.C05.composedWrappers hostDecls 0 "_io_Reader" ["Read"] ["WriteTo"] = true ∧
    hostProbeG hostDecls ⟨1, false⟩ ["WriteTo"] = true ∧
    hostProbeY EF Expected.C05.composedWrappers hostDecls 1 "_io_Reader" ["Read"] ["WriteTo"] = true ∧
    hostProbeY EF Expected.C05.composedWrappers hostDecls 2 "_io_Reader" ["Read"] ["WriteTo"] = hostProbeG hostDecls ⟨2, true⟩ ["WriteTo"] ∧
    hostProbeY { EF with wrapperUsesMethodSet := false } Expected.C05.composedWrappers hostDecls 1 "_io_Reader" ["Read"] ["WriteTo"] = false ∧
    hostProbeY { EF with wrapperUsesMethodSet := false } Expected.C05.composedWrappers hostDecls 0 "_io_Reader" ["Read"] ["WriteTo"] = true := by decide

/-- **witnesses for what the domain excludes**: (F05-22) a pair without composed wrapper — io.Writer +
    io.StringWriter, io.Reader + io.Seeker: the value implements the optional interface, Go's probe
    succeeds, host code sees the plain wrapper; (F05-23) `msDom` fails — a *value* of `V` (which embeds
    `R` by value) has no `WriteTo` in its method set (pointer receiver), `getWrapper` finds the name in
    `methods()` and hands out the composed wrapper -/
theorem host_probe_witnesses :
    hostProbeG hostDecls ⟨3, true⟩ ["WriteString"] = true ∧
    hostProbeY EF Expected.C05.composedWrappers hostDecls 3 "_io_Writer" ["Write"] ["WriteString"] = false ∧
    hostProbeG hostDecls ⟨3, true⟩ ["Seek"] = true ∧
    hostProbeY EF Expected.C05.composedWrappers hostDecls 3 "_io_Reader" ["Read"] ["Seek"] = false ∧
    hostProbeG hostDecls ⟨2, false⟩ ["WriteTo"] = false ∧
    hostProbeY EF Expected.C05.composedWrappers hostDecls 2 "_io_Reader" ["Read"] ["WriteTo"] = true ∧
    msDom hostDecls ⟨2, false⟩ = false := by decide

/-! ### type switches -/

/-- **first match**: the clause taken matches and no earlier clause does; when no clause matches
    the default clause (if any) is taken -/
theorem typeswitch_first_match (mt : α → Bool) (cs : List (List α)) (i : Nat) (h : typeSwitch mt cs = some i) :
    (clauseMatches mt cs i = true ∧ ∀ j, j < i → clauseMatches mt cs j = false) ∨
    ((∀ j, j < cs.length → clauseMatches mt cs j = false) ∧ defaultClause cs 0 = some i) := by
  unfold typeSwitch at h
  cases hf : firstClause mt cs 0 with
  | some k =>
    simp only [hf, Option.some.injEq] at h
    subst h
    obtain ⟨_, hm, hall⟩ := firstClause_spec mt cs 0 k hf
    exact Or.inl ⟨by simpa using hm, by simpa using hall⟩
  | none =>
    simp only [hf] at h
    exact Or.inr ⟨firstClause_none mt cs 0 hf, h⟩

/-- **the interpreter takes the clause Go takes, wherever the default clause stands**: when the
    pre-order pass does not swap the default clause (`F.defaultSwap = false`) and the post-order pass
    sends a failed clause to the next clause with a test and at last to the default clause
    (`F.clauseChain = .nextTest`) — the values read from the source since ff01288 — and the
    interpreter's clause test agrees with the specification's on the types of the clauses.
    All clause lists: any number of clauses, any types, default clause anywhere or absent. -/
theorem typeswitch_eq_spec (F : Facts) (hs : F.defaultSwap = false) (hc : F.clauseChain = .nextTest)
    (mY mG : α → Bool) (cs : List (List α)) (hm : ∀ c ∈ cs, ∀ ty ∈ c, mY ty = mG ty) :
    typeSwitchY F.defaultSwap F.clauseChain mY cs = typeSwitch mG cs := by
  rw [hs, hc]
  unfold typeSwitchY typeSwitch
  simp only
  rw [clauseOrder_noswap, firstInOrder_congr mY mG cs hm, firstInOrder_source]

/-- the same for the facts regenerated from the source -/
theorem typeswitch_eq_spec_generated (mY mG : α → Bool) (cs : List (List α))
    (hm : ∀ c ∈ cs, ∀ ty ∈ c, mY ty = mG ty) :
    typeSwitchY Generated.C05.facts.defaultSwap Generated.C05.facts.clauseChain mY cs = typeSwitch mG cs :=
  typeswitch_eq_spec _ (by rw [facts_tie]; rfl) (by rw [facts_tie]; rfl) mY mG cs hm

/-- **a type switch whose clauses list struct types, pointer types, `nil` or `interface{}` takes the
    clause Go takes** — for every declaration set, every operand (of empty or non-empty interface
    type, nil included, the value wrapped or stored raw), with or without a bound variable, every
    clause list, default clause anywhere (F05-13 for `nil`, F05-15 repaired by 9f81224: `matchCase`) -/
theorem typeswitch_plain_correct (F : Facts) (hs : F.defaultSwap = false) (hc : F.clauseChain = .nextTest)
    (hm : F.caseUsesMatchCase = true)
    (D : Decls) (ts b : Bool) (dyn : Option Dyn) (cs : List (List TyRef))
    (hcT : ∀ c ∈ cs, ∀ ty ∈ c, plainTy D ty = true) :
    typeSwitchY F.defaultSwap F.clauseChain (matchCaseY F D ts b dyn) cs = typeSwitchG D (dynT dyn) cs := by
  unfold typeSwitchG
  exact typeswitch_eq_spec F hs hc _ _ cs (fun c hcm ty hty => matchCase_plain F hm D ts b dyn ty (hcT c hcm ty hty))

/-- the same for the facts regenerated from the source -/
theorem typeswitch_plain_correct_generated (D : Decls) (ts b : Bool) (dyn : Option Dyn) (cs : List (List TyRef))
    (hcT : ∀ c ∈ cs, ∀ ty ∈ c, plainTy D ty = true) :
    typeSwitchY Generated.C05.facts.defaultSwap Generated.C05.facts.clauseChain (matchCaseY Generated.C05.facts D ts b dyn) cs
      = typeSwitchG D (dynT dyn) cs :=
  typeswitch_plain_correct _ (by rw [facts_tie]; rfl) (by rw [facts_tie]; rfl) (by rw [facts_tie]; rfl) D ts b dyn cs hcT

/-- **an interface clause type**: `matchCase` compares what `implements()` compares — the names in
    `methods()` of the dynamic type and the pointer-receiver rule — on a value that carries its type
    (wrapped); so the clause matches exactly when the value can be assigned to the interface type
    under the interpreter's static rule (`implementsY`; against Go: `implements_complete`,
    `implements_sound_partial`) -/
theorem matchCase_iface_is_implements (F : Facts) (hC : F.caseUsesMatchCase = true) (hR : F.implementsChecksRecv = true)
    (D : Decls) (ts b : Bool) (d : Dyn) (hw : d.wrapped = true) (t : Nat) (hi : isIfaceT D t = true)
    (hne : (ifaceNamesY D (.named t)).isEmpty = false) :
    matchCaseY F D ts b (some d) (.named t) = implementsY F D d.t d.ptr (ifaceNamesY D (.named t)) := by
  unfold matchCaseY implementsY
  simp [hC, matchCaseNewY, hi, hne, hw, hR]

/-- non-vacuity: the expected facts satisfy the hypotheses, and the clause list of F05-16 (default
    clause first, both other clauses match) is decided as Go decides it -/
example : EF.defaultSwap = false ∧ EF.clauseChain = .nextTest ∧
    typeSwitchY EF.defaultSwap EF.clauseChain (fun (_ : Nat) => true) [[], [1], [2]] = some 1 ∧
    typeSwitchY EF.defaultSwap EF.clauseChain (fun (_ : Nat) => false) [[1], [], [2]] = some 1 ∧
    typeSwitchY EF.defaultSwap EF.clauseChain (fun (x : Nat) => x == 2) [[1], [], [2]] = some 2 := by decide

/-- **witness for the OLD fact values** (finding F05-16, before ff01288: `defaultSwap = true`,
    `clauseChain = .nextClause`): `switch { default: …; case IA: …; case IB: … }` on a value that
    matches both: Go takes clause 1, the interpreter tested clause 2 first. Nothing here is about
    the current source. -/
theorem typeswitch_default_swap_witness :
    typeSwitchY Expected.C05.oldDefaultSwap Expected.C05.oldClauseChain (fun (_ : Nat) => true) [[], [1], [2]] = some 2 ∧
    typeSwitch (fun (_ : Nat) => true) [[], [1], [2]] = some 1 ∧
    clauseOrderY Expected.C05.oldDefaultSwap [([] : List Nat), [1], [2]] = [2, 1, 0] ∧
    defaultLast [([] : List Nat), [1], [2]] = false := by decide

/-- both facts matter: the old chaining on an unswapped list enters a default clause as soon as it
    is reached (the clauses after it are never tested) -/
theorem typeswitch_chain_witness :
    typeSwitchY false .nextClause (fun (x : Nat) => x == 2) [[1], [], [2]] = some 1 ∧
    typeSwitch (fun (x : Nat) => x == 2) [[1], [], [2]] = some 2 ∧
    typeSwitchY true .nextTest (fun (_ : Nat) => true) [[], [1], [2]] = some 2 := by decide

/-! ### calls, method values, interface values, assertions: where the rules agree, the statements do -/

/-- **a method call on a variable, a pointer or `&v`** is accepted or rejected, and executed
    (same method, same receiver storage, same output, same state), identically under the
    interpreter's rules and under Go's when the selector facts and the receiver binding have the
    extracted values (`selFacts`, `bindCopies`: both steps copy a value receiver) — for every
    declaration set, environment and state, every method or field name -/
theorem call_agrees (F : Facts) (hF : selFacts F) (hb : bindCopies F) (D : Decls) (e : SEnv) (s : St)
    (r : Recv) (m : String) (t : Nat)
    (hr : recvStatic e r = some (t, true))
    (hdyn : ∀ t' i s1, recvInst D s r = some (t', i, s1) → t' = t) :
    checkStmt .yaegi F D e (.call r m) = checkStmt .go F D e (.call r m) ∧
    execStmt .yaegi F D e s (.call r m) = execStmt .go F D e s (.call r m) := by
  have hsel : selectY F D t m = select D t m := select_eq_spec F hF D t m
  cases r with
  | ifc i => simp [recvStatic] at hr
  | nil => simp [recvStatic] at hr
  | tmp t0 b => simp [recvStatic] at hr
  | var x =>
    constructor
    · simp only [checkStmt, hr, selLegal_agree F D t m hsel]
    · simp only [execStmt]
      cases hri : recvInst D s (.var x) with
      | none => rfl
      | some p =>
        obtain ⟨t', i, s1⟩ := p
        have := hdyn t' i s1 hri
        subst this
        simp only [sel, hsel, runSel_who F hb]
  | addr x =>
    constructor
    · simp only [checkStmt, hr, selLegal_agree F D t m hsel]
    · simp only [execStmt]
      cases hri : recvInst D s (.addr x) with
      | none => rfl
      | some p =>
        obtain ⟨t', i, s1⟩ := p
        have := hdyn t' i s1 hri
        subst this
        simp only [sel, hsel, runSel_who F hb]
  | ptrvar x =>
    constructor
    · simp only [checkStmt, hr, selLegal_agree F D t m hsel]
    · simp only [execStmt]
      cases hri : recvInst D s (.ptrvar x) with
      | none => rfl
      | some p =>
        obtain ⟨t', i, s1⟩ := p
        have := hdyn t' i s1 hri
        subst this
        simp only [sel, hsel, runSel_who F hb]

/-- **a method value binds its receiver when it is evaluated (F05 repaired)**: `g := r.m` is accepted
    or rejected and executed identically — the same closure over the same bound receiver, a copy for a
    value receiver — when the receiver is read at creation (`atCreation`, since 3081633) and the binding
    copies; every declaration set, environment and state -/
theorem mval_agrees (F : Facts) (hF : selFacts F) (hb : bindCopies F) (hc : F.recvBind.atCreation = true)
    (D : Decls) (e : SEnv) (s : St) (x : String) (r : Recv) (m : String) (t : Nat)
    (hr : recvStatic e r = some (t, true))
    (hdyn : ∀ t' i s1, recvInst D s r = some (t', i, s1) → t' = t) :
    checkStmt .yaegi F D e (.mval x r m) = checkStmt .go F D e (.mval x r m) ∧
    execStmt .yaegi F D e s (.mval x r m) = execStmt .go F D e s (.mval x r m) := by
  have hsel : selectY F D t m = select D t m := select_eq_spec F hF D t m
  cases r with
  | ifc i => simp [recvStatic] at hr
  | nil => simp [recvStatic] at hr
  | tmp t0 b => simp [recvStatic] at hr
  | var y =>
    constructor
    · simp only [checkStmt, hr, selLegal_agree F D t m hsel]
    · simp only [execStmt]
      cases hri : recvInst D s (.var y) with
      | none => rfl
      | some p =>
        obtain ⟨t', i, s1⟩ := p
        have := hdyn t' i s1 hri
        subst this
        simp only [sel, hsel, hc, Bool.or_true, if_true, bindRecv_who F hb]
  | addr y =>
    constructor
    · simp only [checkStmt, hr, selLegal_agree F D t m hsel]
    · simp only [execStmt]
      cases hri : recvInst D s (.addr y) with
      | none => rfl
      | some p =>
        obtain ⟨t', i, s1⟩ := p
        have := hdyn t' i s1 hri
        subst this
        simp only [sel, hsel, hc, Bool.or_true, if_true, bindRecv_who F hb]
  | ptrvar y =>
    constructor
    · simp only [checkStmt, hr, selLegal_agree F D t m hsel]
    · simp only [execStmt]
      cases hri : recvInst D s (.ptrvar y) with
      | none => rfl
      | some p =>
        obtain ⟨t', i, s1⟩ := p
        have := hdyn t' i s1 hri
        subst this
        simp only [sel, hsel, hc, Bool.or_true, if_true, bindRecv_who F hb]

/-- **calling a method value**: `g()` does the same under both rule sets in *every* state (whatever
    closure `g` holds), when the binding copies: each call works on a fresh copy of the bound value
    receiver, or on the storage a pointer receiver designates -/
theorem callf_agrees (F : Facts) (hb : bindCopies F) (D : Decls) (e : SEnv) (s : St) (x : String) :
    execStmt .yaegi F D e s (.callf x) = execStmt .go F D e s (.callf x) := by
  simp only [execStmt, runBound_who F hb, runHit, runMeth_who F hb]

/-- **a value assigned to a non-empty interface type is copied (F05-6 repaired)**: the interface
    value the interpreter builds is the one Go builds — same dynamic type, and for a struct operand
    a copy of the variable — when `genValueInterface` copies (`ifaceCopies`, since 16a5ac7) -/
theorem iface_value_is_copy (F : Facts) (hc : F.ifaceCopies = true) (D : Decls) (t : Nat) (isPtr : Bool) (inst : Inst) (s : St) :
    box .yaegi F D true t isPtr inst s = box .go F D true t isPtr inst s ∧
    (isPtr = false → CopyInv D t inst s.heap ((box .yaegi F D true t isPtr inst s).1.inst, (box .yaegi F D true t isPtr inst s).2.heap)) := by
  constructor
  · cases isPtr <;> simp [box, hc]
  · intro hp
    subst hp
    simp only [box, hc, Bool.true_or, Bool.not_true, Bool.and_false, Bool.or_false, Bool.false_eq_true, if_false, if_true]
    exact copyInst_inv D t inst s.heap

/-- the statement `var x I = r` (`I` a declared interface type) is executed identically in every
    state (its static check, `implements`, is names-only: F05-7) -/
theorem iface_assign_agrees (F : Facts) (hc : F.ifaceCopies = true) (D : Decls) (e : SEnv) (s : St) (x : String) (i : Nat) (r : Recv) :
    execStmt .yaegi F D e s (.iface x (some i) r) = execStmt .go F D e s (.iface x (some i) r) := by
  cases r <;> simp only [execStmt, Option.isSome_some, (iface_value_is_copy F hc D _ _ _ _).1]

/-- **assertion outcomes (F05-9, F05-10 repaired)**: `y.(ty)` is ok under the interpreter's rules
    exactly when it is under Go's — a nil operand included, whatever the operand type — provided that,
    for an interface target type, the value is wrapped and the names-and-signatures comparison agrees
    with Go's `implements` on it (F05-8, F06 are what this hypothesis excludes); struct and pointer
    target types need no hypothesis -/
theorem assert_outcome_agrees_partial (D : Decls) (d : Option Dyn) (ty : TyRef) (hn : ty ≠ .nil)
    (h : tyIsIface D ty = true → ∀ dd, d = some dd → (dd.wrapped && matchIfaceY D dd ty) = matchG D (dynT d) ty) :
    assertOk .yaegi D d ty = assertOk .go D d ty := by
  unfold assertOk
  simp only
  by_cases hi : tyIsIface D ty = true
  · rw [if_pos hi]
    cases d with
    | some dd => exact h hi dd rfl
    | none =>
      cases ty with
      | named t => simp [tyIsIface] at hi; simp [matchG, dynT, hi]
      | anon ms => simp [matchG, dynT]
      | empty => simp [matchG, dynT]
      | ptr t => simp [tyIsIface] at hi
      | nil => exact absurd rfl hn
  · rw [if_neg hi]
    cases ty with
    | ptr t =>
      cases d with
      | none => simp [matchG, dynT]
      | some dd =>
        simp only [matchG, dynT, Option.map_some]
        rw [Bool.eq_iff_iff]
        simp [DynT.mk.injEq]
    | named t =>
      have hi' : isIfaceT D t = false := by simpa [tyIsIface] using hi
      cases d with
      | none => simp [matchG, dynT, hi']
      | some dd =>
        simp only [matchG, dynT, Option.map_some, hi']
        rw [Bool.eq_iff_iff]
        simp [DynT.mk.injEq]
    | anon ms => simp [tyIsIface] at hi
    | empty => simp [tyIsIface] at hi
    | nil => exact absurd rfl hn

/-- a nil interface value asserted to any type: not ok under both rule sets (F05-9) -/
theorem assert_nil_agrees (D : Decls) (ty : TyRef) (hn : ty ≠ .nil) :
    assertOk .yaegi D none ty = assertOk .go D none ty :=
  assert_outcome_agrees_partial D none ty hn (fun _ dd hd => by cases hd)

/-- **the assertion statement** `x, ok := y.(ty)` / `x := y.(ty)` is executed identically — `ok`,
    the value bound to `x` (a copy for a struct type), the panic of the one-result form on failure
    (F05-10) — in every state where the outcome agrees -/
theorem assert_agrees_partial (F : Facts) (D : Decls) (e : SEnv) (s : St) (x y : String) (ty : TyRef) (two : Bool)
    (hn : ty ≠ .nil)
    (h : ∀ d, look s y = some (.ifc d) → tyIsIface D ty = true → ∀ dd, d = some dd →
      (dd.wrapped && matchIfaceY D dd ty) = matchG D (dynT d) ty) :
    execStmt .yaegi F D e s (.assert x y ty two "") = execStmt .go F D e s (.assert x y ty two "") := by
  simp only [execStmt]
  cases hl : look s y with
  | none => rfl
  | some v =>
    cases v with
    | ifc d =>
      simp only [assert_outcome_agrees_partial D d ty hn (h d hl), beq_self_eq_true, Bool.true_or, if_true]
    | strct t i => rfl
    | ptr t i => rfl
    | fn c => rfl
    | zero => rfl

/-! ### receiver passing -/

/-- one of the two steps of the receiver binding of `genFunctionWrapper` that a value receiver goes
    through copies: the callback (`d[numRet].Set(recv)`, and `d[numRet].Set(bindRecv())` for the
    receivers resolved at each call), or both arms that serve value receivers
    (`copyDeferArg(src.Elem())`, `copyDeferArg(src)`) -/
def recvCopies (F : Facts) : Prop :=
  (F.recvBind.call = .set ∧ F.recvBind.lateCall = .set) ∨ (F.recvBind.ptrToVal = .set ∧ F.recvBind.same = .set)

instance (F : Facts) : Decidable (recvCopies F) := by unfold recvCopies; infer_instance

theorem recvCopies_slot (F : Facts) (hF : recvCopies F) (vi : Bool) :
    callSlot F vi = .set ∨ (F.recvBind.ptrToVal = .set ∧ F.recvBind.same = .set) := by
  rcases hF with ⟨h1, h2⟩ | h
  · left; unfold callSlot; cases vi <;> cases F.recvBind.lateNilNode <;> simp [h1, h2]
  · exact Or.inr h

/-- **a value receiver is a copy**: a method with a value receiver, invoked on any operand (`srcPtr`:
    through a pointer — pointer variable, `&v`, last field of the promotion path embedded by pointer,
    interface holding a pointer, method value bound from a pointer — or on a value; `vi`: selected on
    the value held by an interface), whatever assignments to fields of its receiver its body makes
    (`body`: any sequence of `r.p = v` / `r.p += d`, any paths, any values), leaves every cell that
    existed before the call unchanged, except those the operand itself reaches through an embedded
    pointer (shared in Go as well). Under Go's rules always; under the interpreter's when the binding
    copies (`recvCopies`, the extracted value). All declaration sets, receiver types, storages, heaps. -/
theorem value_receiver_is_copy (w : Who) (F : Facts) (hF : recvCopies F)
    (D : Decls) (owner : Nat) (m : Meth) (hm : m.ptr = false) (srcPtr vi : Bool) (inst : Inst) (h : Heap)
    (body : List Write) (a : Nat) (ha : a < h.length)
    (hown : ∀ pa ∈ inst, viaPtr D owner pa.1 = true → pa.2 ≠ a) :
    cell (runBody (recvStorage w F D owner m srcPtr vi inst h).1 body (recvStorage w F D owner m srcPtr vi inst h).2) a
      = cell h a := by
  obtain ⟨⟨ext, hext⟩, hcells⟩ := recvStorage_fresh w F D owner m hm srcPtr vi inst h (Or.inr (recvCopies_slot F hF vi))
  rw [runBody_other _ a (by
    intro pa hpa
    rcases hcells pa hpa with hfresh | ⟨hin, hv⟩
    · omega
    · exact hown pa hin hv), hext, cell_append_lt h ext a ha]

/-- **the caller's object is unchanged**: for a receiver type without embedded pointers the values
    of the operand's storage after the body has run are the values before the call -/
theorem value_receiver_caller_unchanged (w : Who) (F : Facts) (hF : recvCopies F)
    (D : Decls) (owner : Nat) (m : Meth) (hm : m.ptr = false) (srcPtr vi : Bool) (inst : Inst) (h : Heap)
    (body : List Write) (hin : ∀ pa ∈ inst, pa.2 < h.length) (hfree : ∀ pa ∈ inst, viaPtr D owner pa.1 = false) :
    values inst (runBody (recvStorage w F D owner m srcPtr vi inst h).1 body (recvStorage w F D owner m srcPtr vi inst h).2)
      = values inst h := by
  unfold values
  apply List.map_congr_left
  intro pa hpa
  obtain ⟨p, a⟩ := pa
  simp only
  rw [value_receiver_is_copy w F hF D owner m hm srcPtr vi inst h body a (hin (p, a) hpa)
    (fun q hq hv => by rw [hfree q hq] at hv; exact absurd hv (by decide))]

/-- the same for the facts regenerated from the source, under the interpreter's rules -/
theorem value_receiver_is_copy_generated (D : Decls) (owner : Nat) (m : Meth) (hm : m.ptr = false) (srcPtr vi : Bool)
    (inst : Inst) (h : Heap) (body : List Write) (hin : ∀ pa ∈ inst, pa.2 < h.length)
    (hfree : ∀ pa ∈ inst, viaPtr D owner pa.1 = false) :
    values inst (runBody (recvStorage .yaegi Generated.C05.facts D owner m srcPtr vi inst h).1 body
      (recvStorage .yaegi Generated.C05.facts D owner m srcPtr vi inst h).2) = values inst h :=
  value_receiver_caller_unchanged .yaegi _ (by rw [facts_tie]; decide) D owner m hm srcPtr vi inst h body hin hfree

/-- **a pointer receiver is the address**: the body works on the operand's own storage, whatever
    the facts are -/
theorem pointer_receiver_is_address (w : Who) (F : Facts) (D : Decls) (owner : Nat) (m : Meth) (hm : m.ptr = true)
    (srcPtr vi : Bool) (inst : Inst) (h : Heap) : recvStorage w F D owner m srcPtr vi inst h = (inst, h) := by
  simp [recvStorage, bindRecv, enterRecv, hm]

/-! ### methods selected on the value held by an interface (F05-18 repaired) -/

/-- **the receiver of a call holds the operand's values at the time the storage is made**, whichever
    step copies: what the callee reads is the state of the operand at that moment -/
theorem receiver_has_current_values (w : Who) (F : Facts) (D : Decls) (owner : Nat) (m : Meth) (srcPtr vi : Bool)
    (inst : Inst) (h : Heap) (hin : ∀ pa ∈ inst, pa.2 < h.length) :
    values (recvStorage w F D owner m srcPtr vi inst h).1 (recvStorage w F D owner m srcPtr vi inst h).2 = values inst h :=
  recvStorage_values w F D owner m srcPtr vi inst h hin

/-- the closure a method value taken from an interface value is, when receivers without node are
    resolved in the callback: the held storage, nothing bound -/
def lateClo (h : MHit) (d : Dyn) (D : Decls) : Val :=
  .fn (.meth ⟨h.owner, [], h.meth⟩ (subInst d.inst h.path) (srcIsPtr D d.t d.ptr h.path) false true)

/-- **`f := i.M` on a script interface value** is executed as in Go — the closure keeps the value the
    interface holds, nothing is read yet — when such receivers are resolved at each call
    (`lateNilNode`, since 32d4f06), the dynamic lookup finds the method Go selects and that method has
    the signature the interface type declares (`hsig`; otherwise Go rejects the assignment to `i`, F05-7) -/
theorem iface_mval_agrees_partial (F : Facts) (hl : F.recvBind.lateNilNode = true) (D : Decls) (e : SEnv) (s : St)
    (x i m : String)
    (hd : ∀ d, look s i = some (.ifc (some d)) → ∀ h, select D d.t m = .method h → lookupMethodY F D d.t m = some h)
    (hu : ∀ d, look s i = some (.ifc (some d)) → (∀ h, select D d.t m ≠ .method h) → lookupMethodY F D d.t m = none)
    (hsig : ∀ d h, look s i = some (.ifc (some d)) → select D d.t m = .method h →
      (match slook e i with | some (.ifc ity) => sigOf D ity m | _ => 0) = h.meth.sig) :
    checkStmt .yaegi F D e (.mval x (.ifc i) m) = checkStmt .go F D e (.mval x (.ifc i) m) ∧
    execStmt .yaegi F D e s (.mval x (.ifc i) m) = execStmt .go F D e s (.mval x (.ifc i) m) := by
  constructor
  · rfl
  · simp only [execStmt]
    cases hlk : look s i with
    | none => rfl
    | some v =>
      cases v with
      | ifc od =>
        cases od with
        | none => rfl
        | some d =>
          simp only [hl, Bool.not_true, Bool.and_false, Bool.false_eq_true, if_false]
          cases hs : select D d.t m with
          | method h =>
            have hq := hsig d h hlk hs
            simp [hd d hlk h hs]
            intro hne
            exact absurd hq hne
          | field fh => simp only [hu d hlk (by intro h; rw [hs]; exact Sel.noConfusion)]
          | ambiguous => simp only [hu d hlk (by intro h; rw [hs]; exact Sel.noConfusion)]
          | undefined => simp only [hu d hlk (by intro h; rw [hs]; exact Sel.noConfusion)]
      | strct t i' => rfl
      | ptr t i' => rfl
      | fn c => rfl
      | zero => rfl

/-- **a pointer dynamic value is dereferenced at each call; a value dynamic value is the copy made at
    the conversion.** Calling the closure of `f := i.M` (or the wrapper a conversion to a host
    interface makes) in a later state `s`: the body runs on storage made from the *current* heap — for a
    value receiver a fresh copy holding the values the held storage has in `s` (the pointee as it is
    now when the interface holds a pointer; the private copy `iface_value_is_copy` describes when it
    holds a struct), under both rule sets, for every fact value -/
theorem iface_wrapper_call_reads_now (w : Who) (F : Facts) (D : Decls) (e : SEnv) (s : St) (x : String)
    (h : MHit) (inst : Inst) (sp : Bool) (hx : look s x = some (.fn (.meth h inst sp false true)))
    (hin : ∀ pa ∈ subInst inst h.path, pa.2 < s.heap.length) :
    execStmt w F D e s (.callf x) = runHit w F D h h.owner sp true inst s ∧
    values (recvStorage w F D h.owner h.meth (srcIsPtr D h.owner sp h.path) true (subInst inst h.path) s.heap).1
           (recvStorage w F D h.owner h.meth (srcIsPtr D h.owner sp h.path) true (subInst inst h.path) s.heap).2
      = values (subInst inst h.path) s.heap := by
  constructor
  · simp only [execStmt, hx, Bool.false_eq_true, if_false]
  · exact recvStorage_values w F D _ _ _ true _ s.heap hin

/-- `C{nc}` with `Bump` (value receiver) and `Inc` (pointer receiver); `M` embeds `*C`; `O` embeds
    `M`; `IB = interface{ Bump() }` -/
def rDecls : Decls :=
  [ .strct "C" [⟨"nc", .int, 0⟩] [⟨"Bump", false, 0⟩, ⟨"Inc", true, 0⟩],
    .strct "M" [⟨"nm", .int, 0⟩, ⟨"C", .embPtr, 0⟩] [],
    .strct "O" [⟨"no", .int, 0⟩, ⟨"M", .emb, 1⟩] [],
    .iface "IB" [⟨"Bump", false, 0⟩] [] ]

/-- the facts with the first arm of the binding and the callback aliasing the pointee
    (`return src.Elem()`, `d[numRet] = recv`, `d[numRet] = bindRecv()`: the seeded change C05-2) -/
def aliasFacts : Facts := { EF with recvBind := { EF.recvBind with ptrToVal := .slot, call := .slot, lateCall := .slot } }

/-- the four ways of reaching a value method through a pointer: pointer variable, promotion
    through an embedded `*C`, interface holding `*C`, method value bound from a pointer -/
def recvForms : List (List Stmt) :=
  [ [.var "v" 0 1, .ptr "p" "v", .call (.ptrvar "p") "Bump", .call (.ptrvar "p") "Bump", .dump "v"],
    [.var "v" 2 1, .call (.var "v") "Bump", .call (.var "v") "Bump", .dump "v"],
    [.var "v" 0 1, .iface "i" (some 3) (.addr "v"), .call (.ifc "i") "Bump", .call (.ifc "i") "Bump", .dump "v"],
    [.var "v" 0 1, .ptr "p" "v", .mval "g" (.ptrvar "p") "Bump", .callf "g", .callf "g", .dump "v"] ]

/-- non-vacuity and regression: with the expected facts the four forms run as in Go (the object is
    unchanged: each call prints the incremented copy, the dump the old value), the hypotheses of the
    theorems hold, and the body of the generated methods writes its receiver -/
example : recvCopies EF ∧ bindCopies EF ∧ EF.recvBind.atCreation = true ∧ EF.ifaceCopies = true ∧ WF rDecls ∧ stdBody rDecls 0 = [.add [0] 1] ∧
    recvForms.all (fun p => run .yaegi EF rDecls p == run .go EF rDecls p && classify EF rDecls p == "in-domain") = true ∧
    run .go EF rDecls (recvForms.getD 0 []) = .ran [["C.Bump", "2"], ["C.Bump", "2"], ["v", "1"]] false ∧
    run .go EF rDecls (recvForms.getD 1 []) = .ran [["C.Bump", "4"], ["C.Bump", "4"], ["v", "1", "2", "3"]] false := by decide

/-- **witness (what the hypothesis excludes)**: if the first arm aliased the pointee, each of the
    four forms would leave the caller's object modified — the model run with such facts differs from
    Go on all of them -/
theorem value_receiver_alias_witness :
    ¬ recvCopies aliasFacts ∧
    recvForms.all (fun p => run .yaegi aliasFacts rDecls p != run .go aliasFacts rDecls p) = true ∧
    run .yaegi aliasFacts rDecls (recvForms.getD 0 []) = .ran [["C.Bump", "2"], ["C.Bump", "3"], ["v", "3"]] false ∧
    run .yaegi aliasFacts rDecls (recvForms.getD 1 []) = .ran [["C.Bump", "4"], ["C.Bump", "5"], ["v", "1", "2", "5"]] false := by decide

/-- `T{nt}` with `Get` (value receiver) and `Inc` (pointer receiver), `IG = interface{ Get() }` -/
def lateDecls : Decls :=
  [ .strct "T" [⟨"nt", .int, 0⟩] [⟨"Get", false, 0⟩, ⟨"Inc", true, 0⟩],
    .iface "IG" [⟨"Get", false, 0⟩] [] ]

/-- **regression of F05-18 in the script-interface form**: `var i IG = &v; f := i.Get; (mutate v); f()`
    prints the state `v` has when `f` is called, under both rule sets (Go dereferences the pointer the
    interface holds at each call); with an interface holding a *value* the copy made at the conversion
    is printed. With the facts as they were between 3081633 and 32d4f06 the receiver was copied when
    `f` was made. -/
example :
    (let p := [Stmt.var "v" 0 1, .iface "i" (some 1) (.addr "v"), .mval "f" (.ifc "i") "Get", .bump "v", .callf "f", .dump "v"]
     run .go EF lateDecls p = .ran [["T.Get", "12"], ["v", "11"]] false ∧ run .yaegi EF lateDecls p = run .go EF lateDecls p ∧
     classify EF lateDecls p = "in-domain" ∧
     run .yaegi Expected.C05.earlyIfaceFacts lateDecls p = .ran [["T.Get", "2"], ["v", "11"]] false) ∧
    (let p := [Stmt.var "v" 0 1, .iface "i" (some 1) (.var "v"), .mval "f" (.ifc "i") "Get", .bump "v", .callf "f", .dump "v"]
     run .go EF lateDecls p = .ran [["T.Get", "2"], ["v", "11"]] false ∧ run .yaegi EF lateDecls p = run .go EF lateDecls p) ∧
    EF.recvBind.lateNilNode = true ∧ EF.recvBind.ifaceWrapHeld = true := by decide

/-! ### witnesses at program level (the replay inputs of the known findings) -/

/-- `W{n}` with `Get` (value receiver) and `Inc` (pointer receiver); `V` embeds `W`;
    `IG = interface{ Get() }`, `II = interface{ Inc() }`, `IGI` embeds both -/
def wDecls : Decls :=
  [ .strct "W" [⟨"nw", .int, 0⟩] [⟨"Get", false, 0⟩, ⟨"Inc", true, 0⟩],
    .strct "V" [⟨"nv", .int, 0⟩, ⟨"W", .emb, 0⟩] [],
    .iface "IG" [⟨"Get", false, 0⟩] [],
    .iface "II" [⟨"Inc", false, 0⟩] [],
    .iface "IGI" [] [2, 3],
    .strct "N" [⟨"nn", .int, 0⟩] [] ]

/-- **regression of F05-16** at program level (the replay input of the finding): default clause
    first, `case IG`, `case II` on `&v`: clause 1 under both rule sets with the current facts, and
    the input is in no divergence class -/
example :
    (let p := [Stmt.var "v" 0 1, .iface "x" none (.addr "v"), .tswitch "x" true [[], [.named 2], [.named 3]], .dump "v"]
     run .yaegi EF wDecls p = .ran [["case", "1"], ["v", "1"]] false ∧ run .go EF wDecls p = run .yaegi EF wDecls p ∧
     classify EF wDecls p = "in-domain" ∧
     run .yaegi { EF with defaultSwap := Expected.C05.oldDefaultSwap, clauseChain := Expected.C05.oldClauseChain } wDecls p
       = .ran [["case", "2"], ["v", "1"]] false) := by decide

/-- **regression of F05**: `g := v.Get; (mutate v); g()`: the method value bound a copy of `v` when
    it was evaluated (prints the old state) under both rule sets; with the facts as they were before
    3081633 the model still reads `v` when `g` is called -/
example :
    (let p := [Stmt.var "v" 0 1, .mval "g" (.var "v") "Get", .bump "v", .callf "g", .dump "v"]
     run .go EF wDecls p = .ran [["W.Get", "2"], ["v", "11"]] false ∧
     run .yaegi EF wDecls p = run .go EF wDecls p ∧ classify EF wDecls p = "in-domain" ∧
     run .yaegi OF wDecls p = .ran [["W.Get", "12"], ["v", "11"]] false) := by decide

/-- **F06 (what is left of it)**: `var x interface{} = &v; g, ok := x.(interface{ Get() })` with `Get`
    promoted from the embedded `W`: ok in Go, not ok in the interpreter — a pointer (or a struct whose
    type has no method of its own) is stored unwrapped in the empty interface, and only wrapped values
    can be asserted to an interface type. A value that is wrapped (`&v` with `v` of type `W`, which
    has methods of its own) is asserted and called as in Go since c2466b4. -/
theorem assert_anonymous_iface_witness :
    run .go EF wDecls [.var "v" 1 1, .iface "x" none (.addr "v"), .assert "g" "x" (.anon [⟨"Get", false, 0⟩]) true "Get"]
      = .ran [["ok", "true"], ["W.Get", "3"]] false ∧
    run .yaegi EF wDecls [.var "v" 1 1, .iface "x" none (.addr "v"), .assert "g" "x" (.anon [⟨"Get", false, 0⟩]) true "Get"]
      = .ran [["ok", "false"]] false ∧
    classify EF wDecls [.var "v" 1 1, .iface "x" none (.addr "v"), .assert "g" "x" (.anon [⟨"Get", false, 0⟩]) true "Get"]
      = "assert-from-empty-interface" ∧
    run .yaegi EF wDecls [.var "v" 0 1, .iface "x" none (.addr "v"), .assert "g" "x" (.anon [⟨"Get", false, 0⟩]) true "Get"]
      = run .go EF wDecls [.var "v" 0 1, .iface "x" none (.addr "v"), .assert "g" "x" (.anon [⟨"Get", false, 0⟩]) true "Get"] := by decide

/-- **regression of F05-6**: a struct put in an interface is copied: a later mutation of the variable
    is not seen through the interface (under the old facts it was) -/
example :
    (let p := [Stmt.var "v" 0 1, .iface "i" (some 2) (.var "v"), .bump "v", .call (.ifc "i") "Get"]
     run .go EF wDecls p = .ran [["W.Get", "2"]] false ∧ run .yaegi EF wDecls p = run .go EF wDecls p ∧
     classify EF wDecls p = "in-domain" ∧ run .yaegi OF wDecls p = .ran [["W.Get", "12"]] false) := by decide

/-- a pointer method called on a function result: rejected by Go (the operand is not addressable),
    accepted by the interpreter (F05-4). A value of `W` assigned to `interface{ Inc() }` is rejected
    under both rule sets since 79ed061 (regression of F05-7). -/
theorem pointer_method_on_value_witness :
    run .go EF wDecls [.call (.tmp 0 1) "Inc"] = .reject ∧
    run .yaegi EF wDecls [.call (.tmp 0 1) "Inc"] = .ran [["W.Inc", "2"]] false ∧
    classify EF wDecls [.call (.tmp 0 1) "Inc"] = "pointer-method-on-value" ∧
    run .go EF wDecls [.var "v" 0 1, .iface "i" (some 3) (.var "v"), .call (.ifc "i") "Inc", .dump "v"] = .reject ∧
    run .yaegi EF wDecls [.var "v" 0 1, .iface "i" (some 3) (.var "v"), .call (.ifc "i") "Inc", .dump "v"] = .reject := by decide

/-- method expressions work only for a method declared on the type itself with the same kind of
    receiver: `(*V).Get(&v)` (promoted, value receiver) fails at run time -/
theorem method_expression_witness :
    run .go EF wDecls [.var "v" 1 1, .mexpr 1 true "Get" "v"] = .ran [["W.Get", "3"]] false ∧
    run .yaegi EF wDecls [.var "v" 1 1, .mexpr 1 true "Get" "v"] = .ran [] true ∧
    run .yaegi EF wDecls [.var "v" 0 1, .mexpr 0 false "Get" "v"] = run .go EF wDecls [.var "v" 0 1, .mexpr 0 false "Get" "v"] := by decide

/-- assertions on an operand of non-empty interface type: receiver kinds are ignored (a `W` value
    is found to implement `interface{ Inc() }`, F05-8) -/
theorem assert_witnesses :
    run .go EF wDecls [.var "v" 0 1, .iface "i" (some 2) (.var "v"), .assert "j" "i" (.named 3) true ""]
      = .ran [["ok", "false"]] false ∧
    run .yaegi EF wDecls [.var "v" 0 1, .iface "i" (some 2) (.var "v"), .assert "j" "i" (.named 3) true ""]
      = .ran [["ok", "true"]] false ∧
    classify EF wDecls [.var "v" 0 1, .iface "i" (some 2) (.var "v"), .assert "j" "i" (.named 3) true ""]
      = "assert-interface-names-only" := by decide

/-- **regressions of F05-9 and F05-10**: a nil operand in the two-result form gives `ok == false`; the
    one-result form panics when a method is missing — as in Go -/
example :
    run .yaegi EF wDecls [.iface "i" (some 2) .nil, .assert "j" "i" (.named 3) true ""] = .ran [["ok", "false"]] false ∧
    run .go EF wDecls [.iface "i" (some 2) .nil, .assert "j" "i" (.named 3) true ""] = .ran [["ok", "false"]] false ∧
    run .yaegi EF wDecls [.var "v" 0 1, .iface "i" (some 2) (.var "v"), .assert "j" "i" (.anon [⟨"Put", false, 0⟩]) false ""]
      = .ran [] true ∧
    run .go EF wDecls [.var "v" 0 1, .iface "i" (some 2) (.var "v"), .assert "j" "i" (.anon [⟨"Put", false, 0⟩]) false ""]
      = .ran [] true ∧
    classify EF wDecls [.iface "i" (some 2) .nil, .assert "j" "i" (.named 3) true ""] = "in-domain" ∧
    classify EF wDecls [.var "v" 0 1, .iface "i" (some 2) (.var "v"), .assert "j" "i" (.anon [⟨"Put", false, 0⟩]) false ""]
      = "in-domain" := by decide

/-- `B{nb}` with the pointer method `Put`; `C` embeds `B` by value, `Cp` embeds `*B`; `IP = interface{ Put() }` -/
def impDecls : Decls :=
  [ .strct "B" [⟨"nb", .int, 0⟩] [⟨"Put", true, 0⟩],
    .strct "C" [⟨"nc", .int, 0⟩, ⟨"B", .emb, 0⟩] [],
    .strct "Cp" [⟨"ncp", .int, 0⟩, ⟨"B", .embPtr, 0⟩] [],
    .iface "IP" [⟨"Put", false, 0⟩] [] ]

/-- **regressions of F05-21, F05-11, F05-12**: `C{B}` (by value) with `(*B).Put` cannot hold in an
    `interface{ Put() }`: `i.(C)` and `case C:` are rejected under both rule sets (impossible type
    assertion / switch case) since 6b1f98f — before, the pointer-receiver rejection of
    `typeAssertionExpr` applied to methods declared on the type itself only and the interpreter
    accepted both statements. `Cp{*B}` implements the interface: accepted under both (F05-11; with the
    test as it was before 5c3b0c5 the interpreter rejected it); a type switch with an impossible case
    of a type that lacks the method is rejected under both (F05-12). -/
example :
    WF impDecls ∧
    assertLegalY EF impDecls (.named 3) (.named 1) = false ∧ assertLegal impDecls (tyMethods impDecls (.named 3)) (.named 1) = false ∧
    run .go EF impDecls [.var "v" 1 1, .iface "i" (some 3) (.addr "v"), .assert "j" "i" (.named 1) true ""] = .reject ∧
    run .yaegi EF impDecls [.var "v" 1 1, .iface "i" (some 3) (.addr "v"), .assert "j" "i" (.named 1) true ""] = .reject ∧
    run .go EF impDecls [.var "v" 1 1, .iface "i" (some 3) (.addr "v"), .tswitch "i" false [[.named 1], []]] = .reject ∧
    run .yaegi EF impDecls [.var "v" 1 1, .iface "i" (some 3) (.addr "v"), .tswitch "i" false [[.named 1], []]] = .reject ∧
    classify EF impDecls [.var "v" 1 1, .iface "i" (some 3) (.addr "v"), .assert "j" "i" (.named 1) true ""] = "in-domain" ∧
    classify EF impDecls [.var "v" 1 1, .iface "i" (some 3) (.addr "v"), .tswitch "i" false [[.named 1], []]] = "in-domain" ∧
    assertLegalY { EF with assertPtrNeedsPtr := false } impDecls (.named 3) (.named 1) = true ∧
    run .yaegi { EF with assertPtrNeedsPtr := false } impDecls [.var "v" 1 1, .iface "i" (some 3) (.addr "v"), .assert "j" "i" (.named 1) true ""]
      = .ran [["ok", "false"]] false ∧
    assertLegalY EF impDecls (.named 3) (.named 2) = true ∧ assertLegal impDecls (tyMethods impDecls (.named 3)) (.named 2) = true ∧
    assertLegalY { EF with assertPtrOwnOnly := false, assertPtrNeedsPtr := false } impDecls (.named 3) (.named 2) = false ∧
    run .yaegi EF impDecls [.var "v" 2 1, .iface "i" (some 3) (.var "v"), .assert "j" "i" (.named 2) true ""]
      = run .go EF impDecls [.var "v" 2 1, .iface "i" (some 3) (.var "v"), .assert "j" "i" (.named 2) true ""] ∧
    run .go EF impDecls [.var "v" 2 1, .iface "i" (some 3) (.var "v"), .tswitch "i" false [[.named 0], []]] = .reject ∧
    run .yaegi EF impDecls [.var "v" 2 1, .iface "i" (some 3) (.var "v"), .tswitch "i" false [[.named 0], []]] = .reject ∧
    run .yaegi { EF with tswitchCasesChecked := false } impDecls [.var "v" 2 1, .iface "i" (some 3) (.var "v"), .tswitch "i" false [[.named 0], []]]
      = .ran [["case", "1"]] false := by decide

/-- `A` and `B` both have `Name`; `D` embeds both and has `Get`; `IB = interface{ Get(); Name() }` -/
def ambIfaceDecls : Decls :=
  [ .strct "A" [⟨"na", .int, 0⟩] [⟨"Name", false, 0⟩],
    .strct "B" [⟨"nb", .int, 0⟩] [⟨"Name", false, 0⟩],
    .strct "D" [⟨"nd", .int, 0⟩, ⟨"A", .emb, 0⟩, ⟨"B", .emb, 1⟩] [⟨"Get", false, 0⟩],
    .iface "IB" [⟨"Get", false, 0⟩, ⟨"Name", false, 0⟩] [] ]

/-- **witness (F05-20 in the static assertion check)**: `typeAssertionExpr` looks methods up without
    the ambiguity test: `Name` is ambiguous in `D{A; B}`, `*D` does not implement `IB`, Go rejects
    `case *D:` (impossible type switch case), the interpreter accepts it -/
theorem typeassert_ambiguous_witness :
    WF ambIfaceDecls ∧ select ambIfaceDecls 2 "Name" = .ambiguous ∧
    assertLegalY EF ambIfaceDecls (.named 3) (.ptr 2) = true ∧ assertLegal ambIfaceDecls (tyMethods ambIfaceDecls (.named 3)) (.ptr 2) = false ∧
    run .go EF ambIfaceDecls [.iface "i" (some 3) .nil, .tswitch "i" false [[.ptr 2], []]] = .reject ∧
    run .yaegi EF ambIfaceDecls [.iface "i" (some 3) .nil, .tswitch "i" false [[.ptr 2], []]] = .ran [["case", "1"]] false ∧
    classify EF ambIfaceDecls [.iface "i" (some 3) .nil, .tswitch "i" false [[.ptr 2], []]] = "tswitch-impossible-case" ∧
    namesResolved ambIfaceDecls 2 (tyMethods ambIfaceDecls (.named 3)) = false := by decide

/-- **regressions of F05-13, F05-14, F05-15** (their replay inputs): on an operand of non-empty interface
    type an interface clause and `case nil` match as in Go; on an `interface{}` operand an interface
    clause matches by method set (a `W` value does not match `case interface{ Inc() }`), a struct
    clause matches a wrapped value in the binding form. With the three matchers of the code before
    9f81224 (`caseUsesMatchCase := false`) the model still gives the old answers. -/
example :
    (let p := [Stmt.var "v" 0 1, .iface "i" (some 2) (.addr "v"), .tswitch "i" false [[.named 3], []]]
     run .go EF wDecls p = .ran [["case", "0"]] false ∧ run .yaegi EF wDecls p = run .go EF wDecls p ∧
     classify EF wDecls p = "in-domain" ∧
     run .yaegi { EF with caseUsesMatchCase := false } wDecls p = .ran [["case", "1"]] false) ∧
    (let p := [Stmt.iface "i" (some 2) .nil, .tswitch "i" false [[.nil], []]]
     run .go EF wDecls p = .ran [["case", "0"]] false ∧ run .yaegi EF wDecls p = run .go EF wDecls p ∧
     run .yaegi { EF with caseUsesMatchCase := false } wDecls p = .ran [["case", "1"]] false) ∧
    (let p := [Stmt.var "v" 0 1, .iface "x" none (.var "v"), .tswitch "x" true [[.named 3], [.named 2], []]]
     run .go EF wDecls p = .ran [["case", "1"]] false ∧ run .yaegi EF wDecls p = run .go EF wDecls p ∧
     classify EF wDecls p = "in-domain" ∧
     run .yaegi { EF with caseUsesMatchCase := false } wDecls p = .ran [["case", "0"]] false) ∧
    (let p := [Stmt.var "v" 0 1, .iface "x" none (.var "v"), .tswitch "x" true [[.named 0], []]]
     run .go EF wDecls p = .ran [["case", "0"]] false ∧ run .yaegi EF wDecls p = run .go EF wDecls p ∧
     run .yaegi { EF with caseUsesMatchCase := false } wDecls p = .ran [["case", "1"]] false) ∧
    EF.caseUsesMatchCase = true := by decide

/-- **witness (F06 in a type switch)**: a value stored raw in `interface{}` — `&v` with `v` of type `V`,
    whose pointer type has no method of its own — has no methods for `matchCase`: `case IG` (`Get`
    promoted from the embedded `W`) does not match, Go takes it -/
theorem typeswitch_unwrapped_witness :
    run .go EF wDecls [.var "v" 1 1, .iface "x" none (.addr "v"), .tswitch "x" true [[.named 2], []]] = .ran [["case", "0"]] false ∧
    run .yaegi EF wDecls [.var "v" 1 1, .iface "x" none (.addr "v"), .tswitch "x" true [[.named 2], []]] = .ran [["case", "1"]] false ∧
    classify EF wDecls [.var "v" 1 1, .iface "x" none (.addr "v"), .tswitch "x" true [[.named 2], []]] = "tswitch-unwrapped-value" := by decide

/-- in-domain programs of every form agree (non-vacuity of the classes' complement) -/
example :
    (let p := [Stmt.var "v" 1 1, .ptr "p" "v", .call (.ptrvar "p") "Inc", .call (.var "v") "Get", .dump "v"]
     run .go EF wDecls p = run .yaegi EF wDecls p ∧ classify EF wDecls p = "in-domain") ∧
    (let p := [Stmt.var "v" 1 1, .iface "i" (some 4) (.addr "v"), .bump "v", .call (.ifc "i") "Inc", .call (.ifc "i") "Get", .dump "v"]
     run .go EF wDecls p = run .yaegi EF wDecls p ∧ classify EF wDecls p = "in-domain") ∧
    (let p := [Stmt.var "v" 1 1, .iface "i" (some 2) (.var "v"), .assert "j" "i" (.named 1) true "Inc", .tswitch "i" true [[.ptr 1], [.named 1, .named 0], []]]
     run .go EF wDecls p = run .yaegi EF wDecls p ∧ classify EF wDecls p = "in-domain") := by decide

end YaegiVerif.Props.C05
