import YaegiVerif.Model.Method
import YaegiVerif.Model.MethodRun
import YaegiVerif.Model.MethodClass
import YaegiVerif.Spec.GoSelector
import YaegiVerif.Expected.C05
import YaegiVerif.Generated.C05
import YaegiVerif.Proofs.C05Lookup
import YaegiVerif.Proofs.C05Sets
import YaegiVerif.Proofs.C05Fuel
import YaegiVerif.Proofs.C05Switch
import YaegiVerif.Proofs.C05Recv
/-
  C05 — property theorems: method calls and interface operations dispatch as in compiled Go.
  Statements a reader of the property cares about; helper lemmas are in Proofs/C05*.lean.
-/
namespace YaegiVerif.Props.C05
open YaegiVerif YaegiVerif.Method YaegiVerif.MethodRun YaegiVerif.MethodClass YaegiVerif.Spec.Selector
open YaegiVerif.Proofs.C05

/-! ### ties to the source -/

/-- the choices read from cfg.go / type.go / run.go are the ones the model was written for -/
theorem facts_tie : Generated.C05.facts = Expected.C05.facts := by decide

/-- the extractor recognised every construct it looks for -/
theorem unrecognised_tie : Generated.C05.unrecognised = Expected.C05.unrecognised := by decide

/-- the transcribed functions (and the selector case and the two switch cases of cfg.go, the
    receiver binding of genFunctionWrapper) are textually the ones the model was written from -/
theorem source_tie : Generated.C05.sourceHashes = Expected.C05.sourceHashes := by decide

abbrev EF : Facts := Expected.C05.facts

/-! ### method lookup -/

/-- result of `lookupMethod` read as a selector result -/
def selOfLookup : Option MHit → Sel
  | some h => .method h
  | none => .undefined

/-- the Go rule applied to the methods named `m` only -/
def selectMethod (D : Decls) (t : Nat) (m : String) : Sel :=
  pickShallowest ((mocc D t m).map (fun h => (h.depth, Sel.method h)))

/-- **`lookupMethod` returns the first method of that name in depth-first declaration order**,
    for every declaration set (cyclic ones included: both sides use the same fuel) -/
theorem lookup_is_first_dfs (D : Decls) (t : Nat) (m : String) :
    lookupMethodY D t m = (mocc D t m).head? := lookupMethodF_eq_head D _ t m

/-- **F04 domain.** When the first method found depth first is strictly shallower than every other
    method of that name (`shallowFirstM`, decidable), `lookupMethod` selects what the Go
    specification selects. All declaration sets, all types, all names. -/
theorem lookup_eq_spec_partial (D : Decls) (t : Nat) (m : String) (h : shallowFirstM D t m = true) :
    selOfLookup (lookupMethodY D t m) = selectMethod D t m := by
  rw [lookup_is_first_dfs]
  unfold selectMethod shallowFirstM at *
  cases hm : mocc D t m with
  | nil => rfl
  | cons a rest =>
    rw [hm] at h
    simp only [List.head?_cons, selOfLookup, List.map_cons]
    have hs := (headStrictMin_cons a.depth (rest.map MHit.depth)).mp h
    have := pick_unique_min [] (rest.map (fun h => (h.depth, Sel.method h))) (a.depth, Sel.method a)
      (by simp) (by
        intro x hx
        simp only [List.mem_map] at hx
        obtain ⟨r, hr, rfl⟩ := hx
        exact hs r.depth (List.mem_map.mpr ⟨r, hr, rfl⟩))
    simpa using this.symm

/-- **the fuel is sufficient**: on a well-formed declaration set (`WF`, decidable: struct-typed
    fields refer to earlier declarations, so embedding is acyclic) giving the searches more fuel
    than the number of declarations changes nothing — the enumerations of the specification, and
    hence `lookupMethod`, are the complete ones -/
theorem fuel_adequate (D : Decls) (hwf : WF D) (t : Nat) (ht : t < D.length) (m : String) (extra : Nat) :
    moccF D (D.length + extra) t m = mocc D t m ∧ foccF D (D.length + extra) t m = focc D t m ∧
    lookupMethodF D (D.length + extra) t m = lookupMethodY D t m := by
  refine ⟨moccF_fuel D hwf m t _ _ (by omega) ht, foccF_fuel D hwf m t _ _ (by omega) ht, ?_⟩
  unfold lookupMethodY
  rw [lookupMethodF_eq_head, lookupMethodF_eq_head, moccF_fuel D hwf m t _ _ (by omega) ht]

/-- the condition is exact: outside it the interpreter and the specification differ -/
theorem lookup_eq_spec_iff (D : Decls) (t : Nat) (m : String) :
    selOfLookup (lookupMethodY D t m) = selectMethod D t m ↔ shallowFirstM D t m = true := by
  constructor
  · intro heq
    rw [lookup_is_first_dfs] at heq
    unfold selectMethod at heq
    unfold shallowFirstM
    cases hm : mocc D t m with
    | nil => rfl
    | cons a rest =>
      rw [hm] at heq
      simp only [List.head?_cons, selOfLookup, List.map_cons] at heq
      rw [List.map_cons, headStrictMin_cons]
      intro e he
      obtain ⟨r, hr, rfl⟩ := List.mem_map.mp he
      exact pick_head_method a rest heq.symm r hr
  · exact lookup_eq_spec_partial D t m

/-- **F04 witness**: `S{A{C}; B}` with `C.M` and `B.M`: `lookupMethod` finds `C.M` (depth 2, met
    first), the specification selects `B.M` (depth 1). -/
def f04Decls : Decls :=
  [ .strct "C" [⟨"nc", .int, 0⟩] [⟨"M", false, 0⟩],
    .strct "A" [⟨"na", .int, 0⟩, ⟨"C", .emb, 0⟩] [],
    .strct "B" [⟨"nb", .int, 0⟩] [⟨"M", false, 0⟩],
    .strct "S" [⟨"ns", .int, 0⟩, ⟨"A", .emb, 1⟩, ⟨"B", .emb, 2⟩] [] ]

theorem lookup_depth_witness :
    WF f04Decls ∧
    lookupMethodY f04Decls 3 "M" = some ⟨0, [1, 1], ⟨"M", false, 0⟩⟩ ∧
    select f04Decls 3 "M" = .method ⟨2, [2], ⟨"M", false, 0⟩⟩ ∧
    shallowFirstM f04Decls 3 "M" = false := by decide

/-- the same witness at program level: `s.M()` prints `C.M` in the interpreter, `B.M` in Go -/
theorem lookup_depth_program_witness :
    run .yaegi EF f04Decls [.var "v" 3 1, .call (.var "v") "M"] = .ran [["C.M", "4"]] false ∧
    run .go EF f04Decls [.var "v" 3 1, .call (.var "v") "M"] = .ran [["B.M", "5"]] false := by decide

/-- the domain is inhabited by a non-trivial hierarchy: promoted through two levels, shadowed on
    the way -/
example : shallowFirstM f04Decls 1 "M" = true ∧ (mocc f04Decls 1 "M").length = 1 ∧
    selOfLookup (lookupMethodY f04Decls 1 "M") = .method ⟨0, [1], ⟨"M", false, 0⟩⟩ := by decide

/-! ### the selector case: field or method -/

/-- **Selector resolution agrees with the Go specification** (`x.f` denotes the field or method at
    the shallowest depth, which must be unique) on the decidable domain `selDom`:
    the first method and the first field found depth first are each strictly the shallowest of
    their kind, `lookupField` did not descend into a non-embedded field, and the depths of the two
    are not in one of the two positions where the comparison of cfg.go is off by one.
    All declaration sets, all types, all names, and whatever the extracted facts are. -/
theorem select_eq_spec_partial (F : Facts) (D : Decls) (t : Nat) (x : String) (h : selDom F D t x = true) :
    selectY F D t x = select D t x := by
  unfold selDom at h
  simp only [Bool.and_eq_true] at h
  obtain ⟨⟨⟨hM, hF⟩, hX⟩, hC⟩ := h
  unfold fieldLookupExact at hX
  have hX' : lookupFieldY F D t x = (focc D t x).head? := by simpa using hX
  unfold selectY select occs
  rw [hX', lookup_is_first_dfs]
  unfold shallowFirstM at hM
  unfold shallowFirstF at hF
  unfold depthsCompat at hC
  cases hf : focc D t x with
  | nil =>
    cases hm : mocc D t x with
    | nil => rfl
    | cons m ms =>
      rw [hm] at hM
      have hs := (headStrictMin_cons m.depth (ms.map MHit.depth)).mp hM
      have := pick_unique_min [] (ms.map (fun h => (h.depth, Sel.method h))) (m.depth, Sel.method m)
        (by simp) (by
          intro y hy
          obtain ⟨r, hr, rfl⟩ := List.mem_map.mp hy
          exact hs r.depth (List.mem_map.mpr ⟨r, hr, rfl⟩))
      simpa using this.symm
  | cons f fs =>
    rw [hf] at hF hC
    have hsF := (headStrictMin_cons f.depth (fs.map FHit.depth)).mp hF
    have hfp : f.path.length = f.depth + 1 := by
      have hne : f.path ≠ [] := foccF_path_ne D _ t x f (by unfold focc at hf; rw [hf]; simp)
      unfold FHit.depth
      cases hp : f.path with
      | nil => exact absurd hp hne
      | cons a as => simp
    cases hm : mocc D t x with
    | nil =>
      have := pick_unique_min [] (fs.map (fun h => (h.depth, Sel.field h)) ++ []) (f.depth, Sel.field f)
        (by simp) (by
          intro y hy
          simp only [List.append_nil] at hy
          obtain ⟨r, hr, rfl⟩ := List.mem_map.mp hy
          exact hsF r.depth (List.mem_map.mpr ⟨r, hr, rfl⟩))
      simpa using this.symm
    | cons m ms =>
      rw [hm] at hM hC
      have hsM := (headStrictMin_cons m.depth (ms.map MHit.depth)).mp hM
      simp only [List.head?_cons] at hC
      simp only [List.head?_cons, List.map_cons]
      have hC' : m.depth < f.depth ∨ m.depth > f.depth + 1 := by
        simp only [Bool.or_eq_true, decide_eq_true_eq] at hC
        exact hC
      rcases hC' with hlt | hgt
      · -- the method is strictly shallower than every field
        have h1 : m.depth < f.path.length := by omega
        simp only [h1, if_true]
        have := pick_unique_min ((f.depth, Sel.field f) :: fs.map (fun h => (h.depth, Sel.field h)))
          (ms.map (fun h => (h.depth, Sel.method h))) (m.depth, Sel.method m)
          (by
            intro y hy
            simp only [List.mem_cons] at hy
            rcases hy with rfl | hy
            · exact hlt
            · obtain ⟨r, hr, rfl⟩ := List.mem_map.mp hy
              have := hsF r.depth (List.mem_map.mpr ⟨r, hr, rfl⟩)
              simp only; omega)
          (by
            intro y hy
            obtain ⟨r, hr, rfl⟩ := List.mem_map.mp hy
            exact hsM r.depth (List.mem_map.mpr ⟨r, hr, rfl⟩))
        simpa using this.symm
      · -- the field is shallower by at least two levels
        have h1 : ¬ m.depth < f.path.length := by omega
        have h2 : ¬ m.depth = f.path.length := by omega
        simp only [h1, h2, if_false]
        have := pick_unique_min [] (fs.map (fun h => (h.depth, Sel.field h)) ++
            (m.depth, Sel.method m) :: ms.map (fun h => (h.depth, Sel.method h))) (f.depth, Sel.field f)
          (by simp)
          (by
            intro y hy
            simp only [List.mem_append, List.mem_cons] at hy
            rcases hy with hy | rfl | hy
            · obtain ⟨r, hr, rfl⟩ := List.mem_map.mp hy
              exact hsF r.depth (List.mem_map.mpr ⟨r, hr, rfl⟩)
            · simp only; omega
            · obtain ⟨r, hr, rfl⟩ := List.mem_map.mp hy
              have := hsM r.depth (List.mem_map.mpr ⟨r, hr, rfl⟩)
              simp only; omega)
        simpa using this.symm

/-- the same for the facts regenerated from the source -/
theorem select_eq_spec_generated (D : Decls) (t : Nat) (x : String)
    (h : selDom Generated.C05.facts D t x = true) :
    selectY Generated.C05.facts D t x = select D t x := select_eq_spec_partial _ D t x h

/-- if `lookupField` looped over embedded fields only, its part of the domain would always hold -/
theorem field_lookup_exact_of_embedOnly (F : Facts) (hF : F.fieldLoopEmbedOnly = true) (D : Decls) (t : Nat) (x : String) :
    fieldLookupExact F D t x = true := by
  unfold fieldLookupExact lookupFieldY focc
  rw [lookupFieldF_eq_head F hF]
  simp

/-- with the loop as it is, it holds on declaration sets without non-embedded struct fields -/
theorem field_lookup_exact_of_plainFree (F : Facts) (D : Decls) (hD : plainFree D = true) (t : Nat) (x : String) :
    fieldLookupExact F D t x = true := by
  unfold fieldLookupExact lookupFieldY focc
  rw [lookupFieldF_eq_head_plainFree F D hD]
  simp

/-- **witnesses for what `selDom` excludes** -/
def fmDecls : Decls :=
  [ .strct "A" [⟨"na", .int, 0⟩, ⟨"M", .func, 0⟩] [],
    .strct "B" [⟨"nb", .int, 0⟩] [⟨"M", false, 0⟩],
    .strct "S" [⟨"ns", .int, 0⟩, ⟨"A", .emb, 0⟩, ⟨"B", .emb, 1⟩] [],
    .strct "C" [⟨"nc", .int, 0⟩, ⟨"B", .emb, 1⟩] [],
    .strct "U" [⟨"nu", .int, 0⟩, ⟨"A", .emb, 0⟩, ⟨"C", .emb, 3⟩] [],
    .strct "P" [⟨"np", .int, 0⟩, ⟨"xa", .plain, 0⟩, ⟨"C", .emb, 3⟩] [] ]

/-- field `A.M` and method `B.M` at the same depth: ambiguous in Go, the interpreter takes the
    method (`d < len(ti)` compares a depth with a path length) -/
theorem select_same_depth_witness :
    WF fmDecls ∧ select fmDecls 2 "M" = .ambiguous ∧
    selectY EF fmDecls 2 "M" = .method ⟨1, [2], ⟨"M", false, 0⟩⟩ ∧ depthsCompat fmDecls 2 "M" = false := by decide

/-- field `A.M` at depth 1, method `B.M` at depth 2: Go selects the field, the interpreter reports
    "ambiguous selector" (`d == len(ti)`) -/
theorem select_false_ambiguity_witness :
    select fmDecls 4 "M" = .field ⟨0, [1, 1], ⟨"M", .func, 0⟩⟩ ∧
    selectY EF fmDecls 4 "M" = .ambiguous ∧ depthsCompat fmDecls 4 "M" = false := by decide

/-- `lookupField` descends into the non-embedded field `xa A` and finds `A.M`, which Go does not
    promote: Go selects the method `B.M` through the embedded `C` -/
theorem select_plain_field_witness :
    select fmDecls 5 "M" = .method ⟨1, [2, 1], ⟨"M", false, 0⟩⟩ ∧
    lookupFieldY EF fmDecls 5 "M" = some ⟨0, [1, 1], ⟨"M", .func, 0⟩⟩ ∧
    selectY EF fmDecls 5 "M" = .ambiguous ∧ fieldLookupExact EF fmDecls 5 "M" = false := by decide

/-- two methods at the same depth: illegal in Go, the interpreter takes the first -/
def ambDecls : Decls :=
  [ .strct "A" [⟨"na", .int, 0⟩] [⟨"M", false, 0⟩],
    .strct "B" [⟨"nb", .int, 0⟩] [⟨"M", true, 0⟩],
    .strct "S" [⟨"ns", .int, 0⟩, ⟨"A", .emb, 0⟩, ⟨"B", .emb, 1⟩] [] ]

theorem ambiguous_accepted_witness :
    WF ambDecls ∧ select ambDecls 2 "M" = .ambiguous ∧
    selectY EF ambDecls 2 "M" = .method ⟨0, [1], ⟨"M", false, 0⟩⟩ ∧
    run .go EF ambDecls [.var "v" 2 1, .call (.var "v") "M"] = .reject ∧
    run .yaegi EF ambDecls [.var "v" 2 1, .call (.var "v") "M"] = .ran [["A.M", "3"]] false := by decide

/-- non-vacuity of `selDom`: a field and a method of the same name, the method three levels
    deeper; and a promoted method shadowing a deeper one -/
example : selDom EF f04Decls 1 "M" = true ∧ selDom EF ambDecls 0 "M" = true ∧ selDom EF fmDecls 3 "M" = true := by decide


/-! ### method sets -/

/-- **`methods()` collects exactly the names of the methods reachable through embedded fields**
    (by value or by pointer, any receiver kind), for every declaration set -/
theorem methods_names_reachable (D : Decls) (t : Nat) (k : String) :
    k ∈ (methodsY D t).map (·.1) ↔ mocc D t k ≠ [] := mem_names_methodsF D k _ t

/-- the Go promotion rule as `recvOK` computes it: through a field embedded by pointer every
    promoted method is in both method sets; through a field embedded by value the method set of
    `T` (resp. `*T`) gets what the method set of the embedded `S` (resp. `*S`) has -/
theorem recvOK_through_embedding (D : Decls) (t i : Nat) (f : Field) (p : Bool) (h : MHit)
    (hf : (fieldsOf D t)[i]? = some f) :
    recvOK D ⟨t, p⟩ (h.push i) = (f.kind == .embPtr || recvOK D ⟨f.typ, p⟩ h) := by
  unfold recvOK MHit.push
  simp only [viaPtr, hf]
  cases p <;> cases h.meth.ptr <;> cases (f.kind == FKind.embPtr) <;> simp

/-- the method set of `T` is included in the method set of `*T` -/
theorem methodset_value_subset_pointer (D : Decls) (t : Nat) (m : Meth)
    (h : m ∈ methodSet D ⟨t, false⟩) : m ∈ methodSet D ⟨t, true⟩ := by
  unfold methodSet at *
  simp only [List.mem_filterMap] at *
  obtain ⟨k, hk, hm⟩ := h
  refine ⟨k, hk, ?_⟩
  cases hs : select D t k with
  | method hh =>
    simp only [hs] at hm
    simp only [recvOK, Bool.true_or, if_true]
    by_cases hr : recvOK D ⟨t, false⟩ hh = true
    · simpa [hr] using hm
    · simp [hr] at hm
  | field _ => simp [hs] at hm
  | ambiguous => simp [hs] at hm
  | undefined => simp [hs] at hm

/-- **completeness**: every method of the Go method set of `T` or `*T` is in `methods()` —
    the interpreter never misses a method (all declaration sets) -/
theorem methodset_complete (D : Decls) (d : DynT) (m : Meth) (h : m ∈ methodSet D d) :
    m.name ∈ (methodsY D d.t).map (·.1) := by
  unfold methodSet at h
  simp only [List.mem_filterMap] at h
  obtain ⟨k, _, hm⟩ := h
  cases hs : select D d.t k with
  | method hh =>
    simp only [hs] at hm
    by_cases hr : recvOK D d hh = true
    · simp only [hr, if_true, Option.some.injEq] at hm
      subst hm
      have hmem := select_method_mem D d.t k hh hs
      obtain ⟨hn, _⟩ := moccF_sound D k _ _ hh hmem
      rw [hn, methods_names_reachable]
      intro hnil
      rw [hnil] at hmem
      simp at hmem
    · simp [hr] at hm
  | field _ => simp [hs] at hm
  | ambiguous => simp [hs] at hm
  | undefined => simp [hs] at hm

/-- domain of `methodset_correct_partial`: every reachable method name is selected by the Go rule
    as a method (not ambiguous, not hidden by a field) whose receiver kind fits `T` / `*T` -/
def msDom (D : Decls) (d : DynT) : Bool :=
  (allNames D).all (fun k => (mocc D d.t k).isEmpty ||
    (match select D d.t k with
     | .method h => recvOK D d h
     | _ => false))

/-- **`methods()` is the Go method set** of `T` (`d.ptr = false`) or `*T` (`d.ptr = true`) on the
    decidable domain `msDom`; all declaration sets, value and pointer receivers, embedding by value
    and by pointer -/
theorem methodset_correct_partial (D : Decls) (d : DynT) (hd : msDom D d = true) (k : String) :
    k ∈ (methodsY D d.t).map (·.1) ↔ k ∈ (methodSet D d).map (·.name) := by
  constructor
  · intro hk
    have hne := (methods_names_reachable D d.t k).mp hk
    have hall := mocc_ne_nil_mem_allNames D d.t k hne
    unfold msDom at hd
    have := (List.all_eq_true.mp hd) k hall
    simp only [Bool.or_eq_true, List.isEmpty_iff] at this
    rcases this with h | h
    · exact absurd h hne
    · cases hs : select D d.t k with
      | method hh =>
        simp only [hs] at h
        have hmem := select_method_mem D d.t k hh hs
        obtain ⟨hn, _⟩ := moccF_sound D k _ _ hh hmem
        refine List.mem_map.mpr ⟨hh.meth, ?_, hn⟩
        unfold methodSet
        simp only [List.mem_filterMap]
        exact ⟨k, hall, by simp [hs, h]⟩
      | field _ => simp [hs] at h
      | ambiguous => simp [hs] at h
      | undefined => simp [hs] at h
  · intro hk
    obtain ⟨m, hm, rfl⟩ := List.mem_map.mp hk
    exact methodset_complete D d m hm

/-- **witness** (value type with a pointer-receiver method): `Inc` is in `methods()` of `T` but not
    in the Go method set of `T`; it is in the method set of `*T` and, through an embedded pointer,
    in the method set of the embedding value type -/
def msDecls : Decls :=
  [ .strct "T" [⟨"nt", .int, 0⟩] [⟨"Get", false, 0⟩, ⟨"Inc", true, 0⟩],
    .strct "V" [⟨"nv", .int, 0⟩, ⟨"T", .emb, 0⟩] [],
    .strct "P" [⟨"np", .int, 0⟩, ⟨"T", .embPtr, 0⟩] [] ]

theorem methodset_value_witness :
    WF msDecls ∧
    (methodsY msDecls 0).map (·.1) = ["Get", "Inc"] ∧
    (methodSet msDecls ⟨0, false⟩).map (·.name) = ["Get"] ∧
    (methodSet msDecls ⟨0, true⟩).map (·.name) = ["Get", "Inc"] ∧
    (methodSet msDecls ⟨1, false⟩).map (·.name) = ["Get"] ∧
    (methodSet msDecls ⟨1, true⟩).map (·.name) = ["Get", "Inc"] ∧
    (methodSet msDecls ⟨2, false⟩).map (·.name) = ["Get", "Inc"] ∧
    msDom msDecls ⟨0, false⟩ = false ∧ msDom msDecls ⟨0, true⟩ = true ∧ msDom msDecls ⟨2, false⟩ = true := by decide

/-! ### interface satisfaction -/

def sigList (ims : List Meth) : List (String × Nat) := ims.map (fun m => (m.name, m.sig))

/-- **completeness of the names-only check**: a type that implements the interface by the Go rules
    passes `implements()` (as long as `contains` compares names only, which the tie establishes) -/
theorem implements_complete (F : Facts) (hF : F.containsNamesOnly = true) (D : Decls) (d : DynT) (ims : List Meth)
    (h : implements D d ims = true) : implementsY F D d.t (sigList ims) = true := by
  unfold implementsY containsY sigList
  unfold implements at h
  rw [List.all_eq_true] at *
  intro k hk
  obtain ⟨im, him, rfl⟩ := List.mem_map.mp hk
  have := h im him
  rw [List.any_eq_true] at this
  obtain ⟨m, hm, hms⟩ := this
  simp only [Bool.and_eq_true, beq_iff_eq] at hms
  have hn := methodset_complete D d m hm
  obtain ⟨p, hp, hpn⟩ := List.mem_map.mp hn
  rw [List.any_eq_true]
  exact ⟨p, hp, by simp [hF, hpn, hms.1]⟩

theorem implements_complete_generated (D : Decls) (d : DynT) (ims : List Meth)
    (h : implements D d ims = true) : implementsY Generated.C05.facts D d.t (sigList ims) = true :=
  implements_complete _ (by rw [facts_tie]; rfl) D d ims h

/-- the interpreter's and the specification's reading of an interface type (own methods and
    embedded interfaces, to any depth) list the same names -/
theorem iface_methods_names (D : Decls) (i : Nat) (k : String) :
    k ∈ (ifaceMethodsY D i).map (·.1) ↔ k ∈ (ifaceMethods D i).map (·.name) := iface_names_eq D k _ i

/-- **assignment to a declared interface type**: whatever Go accepts, `implements()` accepts
    (embedded interfaces included) -/
theorem implements_iface_complete (F : Facts) (hF : F.containsNamesOnly = true) (D : Decls) (d : DynT) (i : Nat)
    (h : implements D d (ifaceMethods D i) = true) : implementsY F D d.t (ifaceMethodsY D i) = true := by
  unfold implementsY containsY
  unfold implements at h
  rw [List.all_eq_true] at *
  intro k hk
  have hkn : k.1 ∈ (ifaceMethodsY D i).map (·.1) := List.mem_map.mpr ⟨k, hk, rfl⟩
  obtain ⟨im, him, hin⟩ := List.mem_map.mp ((iface_methods_names D i k.1).mp hkn)
  have := h im him
  rw [List.any_eq_true] at this
  obtain ⟨m, hm, hms⟩ := this
  simp only [Bool.and_eq_true, beq_iff_eq] at hms
  have hn := methodset_complete D d m hm
  obtain ⟨p, hp, hpn⟩ := List.mem_map.mp hn
  rw [List.any_eq_true]
  refine ⟨p, hp, ?_⟩
  simp only [hF, Bool.true_or, Bool.and_true, beq_iff_eq]
  rw [hpn, hms.1, hin]

/-- every method of the type's method set that the interface names has the interface's signature -/
def sigAgree (D : Decls) (d : DynT) (ims : List Meth) : Bool :=
  ims.all (fun im => (methodSet D d).all (fun m => m.name != im.name || m.sig == im.sig))

/-- **soundness of the names-only check** on the domain where `methods()` is the method set
    (`msDom`) and signatures agree (`sigAgree`) -/
theorem implements_sound_partial (F : Facts) (D : Decls) (d : DynT) (ims : List Meth)
    (hd : msDom D d = true) (hs : sigAgree D d ims = true)
    (h : implementsY F D d.t (sigList ims) = true) : implements D d ims = true := by
  unfold implementsY containsY sigList at h
  unfold implements
  unfold sigAgree at hs
  rw [List.all_eq_true] at *
  intro im him
  have := h (im.name, im.sig) (List.mem_map.mpr ⟨im, him, rfl⟩)
  rw [List.any_eq_true] at this
  obtain ⟨p, hp, hpk⟩ := this
  simp only [Bool.and_eq_true, beq_iff_eq] at hpk
  have hn : im.name ∈ (methodsY D d.t).map (·.1) := List.mem_map.mpr ⟨p, hp, hpk.1⟩
  obtain ⟨m, hm, hmn⟩ := List.mem_map.mp ((methodset_correct_partial D d hd im.name).mp hn)
  have hsg := (List.all_eq_true.mp (hs im him)) m hm
  rw [List.any_eq_true]
  refine ⟨m, hm, ?_⟩
  simp only [Bool.or_eq_true, bne_iff_ne, ne_eq, beq_iff_eq] at hsg
  rcases hsg with h1 | h1
  · exact absurd hmn h1
  · simp [hmn, h1]

/-- **witness**: the interface wants `Get() int`, the type has `Get()`: accepted by name -/
theorem implements_signature_witness :
    implementsY EF msDecls 0 (sigList [⟨"Get", false, 1⟩]) = true ∧
    implements msDecls ⟨0, true⟩ [⟨"Get", false, 1⟩] = false ∧
    sigAgree msDecls ⟨0, true⟩ [⟨"Get", false, 1⟩] = false := by decide

/-- **witness**: a value of `T` is accepted for an interface that needs the pointer method `Inc` -/
theorem implements_receiver_witness :
    implementsY EF msDecls 0 (sigList [⟨"Inc", false, 0⟩]) = true ∧
    implements msDecls ⟨0, false⟩ [⟨"Inc", false, 0⟩] = false ∧
    implements msDecls ⟨0, true⟩ [⟨"Inc", false, 0⟩] = true := by decide

/-! ### type switches -/

/-- **first match**: the clause taken matches and no earlier clause does; when no clause matches
    the default clause (if any) is taken -/
theorem typeswitch_first_match (mt : α → Bool) (cs : List (List α)) (i : Nat) (h : typeSwitch mt cs = some i) :
    (clauseMatches mt cs i = true ∧ ∀ j, j < i → clauseMatches mt cs j = false) ∨
    ((∀ j, j < cs.length → clauseMatches mt cs j = false) ∧ defaultClause cs 0 = some i) := by
  unfold typeSwitch at h
  cases hf : firstClause mt cs 0 with
  | some k =>
    simp only [hf, Option.some.injEq] at h
    subst h
    obtain ⟨_, hm, hall⟩ := firstClause_spec mt cs 0 k hf
    exact Or.inl ⟨by simpa using hm, by simpa using hall⟩
  | none =>
    simp only [hf] at h
    exact Or.inr ⟨firstClause_none mt cs 0 hf, h⟩

/-- **the interpreter takes the clause Go takes, wherever the default clause stands**: when the
    pre-order pass does not swap the default clause (`F.defaultSwap = false`) and the post-order pass
    sends a failed clause to the next clause with a test and at last to the default clause
    (`F.clauseChain = .nextTest`) — the values read from the source since ff01288 — and the
    interpreter's clause test agrees with the specification's on the types of the clauses.
    All clause lists: any number of clauses, any types, default clause anywhere or absent. -/
theorem typeswitch_eq_spec (F : Facts) (hs : F.defaultSwap = false) (hc : F.clauseChain = .nextTest)
    (mY mG : α → Bool) (cs : List (List α)) (hm : ∀ c ∈ cs, ∀ ty ∈ c, mY ty = mG ty) :
    typeSwitchY F.defaultSwap F.clauseChain mY cs = typeSwitch mG cs := by
  rw [hs, hc]
  unfold typeSwitchY typeSwitch
  simp only
  rw [clauseOrder_noswap, firstInOrder_congr mY mG cs hm, firstInOrder_source]

/-- the same for the facts regenerated from the source -/
theorem typeswitch_eq_spec_generated (mY mG : α → Bool) (cs : List (List α))
    (hm : ∀ c ∈ cs, ∀ ty ∈ c, mY ty = mG ty) :
    typeSwitchY Generated.C05.facts.defaultSwap Generated.C05.facts.clauseChain mY cs = typeSwitch mG cs :=
  typeswitch_eq_spec _ (by rw [facts_tie]; rfl) (by rw [facts_tie]; rfl) mY mG cs hm

/-- **type switch on an operand of non-empty interface type**: when every clause lists struct or
    pointer types the interpreter takes the clause Go takes — for every declaration set, dynamic
    value (nil included) and clause list, default clause anywhere -/
theorem typeswitch_typed_concrete_correct (F : Facts) (hs : F.defaultSwap = false) (hc : F.clauseChain = .nextTest)
    (D : Decls) (b : Bool) (dyn : Option Dyn) (cs : List (List TyRef))
    (hcT : ∀ c ∈ cs, ∀ ty ∈ c, concreteTy D ty = true) :
    typeSwitchY F.defaultSwap F.clauseChain (matchCaseY D true b dyn) cs = typeSwitchG D (dynT dyn) cs := by
  unfold typeSwitchG
  exact typeswitch_eq_spec F hs hc _ _ cs (fun c hcm ty hty => matchCase_typed_concrete D b dyn ty (hcT c hcm ty hty))

/-- non-vacuity: the expected facts satisfy the hypotheses, and the clause list of F05-16 (default
    clause first, both other clauses match) is decided as Go decides it -/
example : EF.defaultSwap = false ∧ EF.clauseChain = .nextTest ∧
    typeSwitchY EF.defaultSwap EF.clauseChain (fun (_ : Nat) => true) [[], [1], [2]] = some 1 ∧
    typeSwitchY EF.defaultSwap EF.clauseChain (fun (_ : Nat) => false) [[1], [], [2]] = some 1 ∧
    typeSwitchY EF.defaultSwap EF.clauseChain (fun (x : Nat) => x == 2) [[1], [], [2]] = some 2 := by decide

/-- **witness for the OLD fact values** (finding F05-16, before ff01288: `defaultSwap = true`,
    `clauseChain = .nextClause`): `switch { default: …; case IA: …; case IB: … }` on a value that
    matches both: Go takes clause 1, the interpreter tested clause 2 first. Nothing here is about
    the current source. -/
theorem typeswitch_default_swap_witness :
    typeSwitchY Expected.C05.oldDefaultSwap Expected.C05.oldClauseChain (fun (_ : Nat) => true) [[], [1], [2]] = some 2 ∧
    typeSwitch (fun (_ : Nat) => true) [[], [1], [2]] = some 1 ∧
    clauseOrderY Expected.C05.oldDefaultSwap [([] : List Nat), [1], [2]] = [2, 1, 0] ∧
    defaultLast [([] : List Nat), [1], [2]] = false := by decide

/-- both facts matter: the old chaining on an unswapped list enters a default clause as soon as it
    is reached (the clauses after it are never tested) -/
theorem typeswitch_chain_witness :
    typeSwitchY false .nextClause (fun (x : Nat) => x == 2) [[1], [], [2]] = some 1 ∧
    typeSwitch (fun (x : Nat) => x == 2) [[1], [], [2]] = some 2 ∧
    typeSwitchY true .nextTest (fun (_ : Nat) => true) [[], [1], [2]] = some 2 := by decide

/-! ### calls: where the selector rule agrees, the call does -/

/-- **a method call on a variable, a pointer or `&v`** is accepted or rejected, and executed
    (same method, same receiver storage, same output, same state), identically under the
    interpreter's rules and under Go's whenever the selector is in `selDom` and the two arms of the
    receiver binding that serve value receivers copy (`hb`, the extracted values) — for every
    declaration set, environment and state -/
theorem call_agrees_partial (F : Facts) (D : Decls) (e : SEnv) (s : St) (r : Recv) (m : String) (t : Nat)
    (hr : recvStatic e r = some (t, true))
    (hdyn : ∀ t' i s1, recvInst D s r = some (t', i, s1) → t' = t)
    (h : selDom F D t m = true) (hb : F.recvBind.ptrToVal = .set ∧ F.recvBind.same = .set) :
    checkStmt .yaegi F D e (.call r m) = checkStmt .go F D e (.call r m) ∧
    execStmt .yaegi F D e s (.call r m) = execStmt .go F D e s (.call r m) := by
  have hsel : selectY F D t m = select D t m := select_eq_spec_partial F D t m h
  cases r with
  | ifc i => simp [recvStatic] at hr
  | nil => simp [recvStatic] at hr
  | tmp t0 b => simp [recvStatic] at hr
  | var x =>
    constructor
    · simp only [checkStmt, hr, selLegal_agree F D t m hsel]
    · simp only [execStmt]
      cases hri : recvInst D s (.var x) with
      | none => rfl
      | some p =>
        obtain ⟨t', i, s1⟩ := p
        have := hdyn t' i s1 hri
        subst this
        simp only [sel, hsel, runSel_who F hb]
  | addr x =>
    constructor
    · simp only [checkStmt, hr, selLegal_agree F D t m hsel]
    · simp only [execStmt]
      cases hri : recvInst D s (.addr x) with
      | none => rfl
      | some p =>
        obtain ⟨t', i, s1⟩ := p
        have := hdyn t' i s1 hri
        subst this
        simp only [sel, hsel, runSel_who F hb]
  | ptrvar x =>
    constructor
    · simp only [checkStmt, hr, selLegal_agree F D t m hsel]
    · simp only [execStmt]
      cases hri : recvInst D s (.ptrvar x) with
      | none => rfl
      | some p =>
        obtain ⟨t', i, s1⟩ := p
        have := hdyn t' i s1 hri
        subst this
        simp only [sel, hsel, runSel_who F hb]

/-! ### receiver passing -/

/-- the two arms of the receiver binding of `genFunctionWrapper` that serve methods with a value
    receiver copy their operand into the fresh receiver slot (`dest.Set(src.Elem())`, `dest.Set(src)`) -/
def recvCopies (F : Facts) : Prop := F.recvBind.ptrToVal = .set ∧ F.recvBind.same = .set

instance (F : Facts) : Decidable (recvCopies F) := by unfold recvCopies; infer_instance

/-- **a value receiver is a copy**: a method with a value receiver, invoked on any operand (`srcPtr`:
    through a pointer — pointer variable, `&v`, last field of the promotion path embedded by pointer,
    interface holding a pointer, method value bound from a pointer — or on a value), whatever
    assignments to fields of its receiver its body makes (`body`: any sequence of `r.p = v` /
    `r.p += d`, any paths, any values), leaves every cell that existed before the call unchanged,
    except those the operand itself reaches through an embedded pointer (shared in Go as well).
    Under Go's rules always; under the interpreter's when the binding copies (`recvCopies`, the
    extracted value). All declaration sets, receiver types, storages and heaps. -/
theorem value_receiver_is_copy (w : Who) (F : Facts) (hF : recvCopies F)
    (D : Decls) (owner : Nat) (m : Meth) (hm : m.ptr = false) (srcPtr : Bool) (inst : Inst) (h : Heap)
    (body : List Write) (a : Nat) (ha : a < h.length)
    (hown : ∀ pa ∈ inst, viaPtr D owner pa.1 = true → pa.2 ≠ a) :
    cell (runBody (recvStorage w F D owner m srcPtr inst h).1 body (recvStorage w F D owner m srcPtr inst h).2) a
      = cell h a := by
  have hgo : recvStorage w F D owner m srcPtr inst h = copyInst D owner inst h := by
    cases w with
    | go => simp [recvStorage, hm]
    | yaegi => rw [recvStorage_who F hF]; simp [recvStorage, hm]
  rw [hgo]
  obtain ⟨⟨ext, hext⟩, hcells⟩ := copyInst_inv D owner inst h
  rw [runBody_other _ a (by
    intro pa hpa
    rcases hcells pa hpa with hfresh | ⟨hin, hv⟩
    · omega
    · exact hown pa hin hv), hext, cell_append_lt h ext a ha]

/-- **the caller's object is unchanged**: for a receiver type without embedded pointers the values
    of the operand's storage after the body has run are the values before the call -/
theorem value_receiver_caller_unchanged (w : Who) (F : Facts) (hF : recvCopies F)
    (D : Decls) (owner : Nat) (m : Meth) (hm : m.ptr = false) (srcPtr : Bool) (inst : Inst) (h : Heap)
    (body : List Write) (hin : ∀ pa ∈ inst, pa.2 < h.length) (hfree : ∀ pa ∈ inst, viaPtr D owner pa.1 = false) :
    values inst (runBody (recvStorage w F D owner m srcPtr inst h).1 body (recvStorage w F D owner m srcPtr inst h).2)
      = values inst h := by
  unfold values
  apply List.map_congr_left
  intro pa hpa
  obtain ⟨p, a⟩ := pa
  simp only
  rw [value_receiver_is_copy w F hF D owner m hm srcPtr inst h body a (hin (p, a) hpa)
    (fun q hq hv => by rw [hfree q hq] at hv; exact absurd hv (by decide))]

/-- the same for the facts regenerated from the source, under the interpreter's rules -/
theorem value_receiver_is_copy_generated (D : Decls) (owner : Nat) (m : Meth) (hm : m.ptr = false) (srcPtr : Bool)
    (inst : Inst) (h : Heap) (body : List Write) (hin : ∀ pa ∈ inst, pa.2 < h.length)
    (hfree : ∀ pa ∈ inst, viaPtr D owner pa.1 = false) :
    values inst (runBody (recvStorage .yaegi Generated.C05.facts D owner m srcPtr inst h).1 body
      (recvStorage .yaegi Generated.C05.facts D owner m srcPtr inst h).2) = values inst h :=
  value_receiver_caller_unchanged .yaegi _ (by rw [facts_tie]; decide) D owner m hm srcPtr inst h body hin hfree

/-- **a pointer receiver is the address**: the body works on the operand's own storage, whatever
    the facts are (`dest.Set(src.Addr())` and `d[numRet] = src.Addr()` designate the same storage) -/
theorem pointer_receiver_is_address (w : Who) (F : Facts) (D : Decls) (owner : Nat) (m : Meth) (hm : m.ptr = true)
    (srcPtr : Bool) (inst : Inst) (h : Heap) : recvStorage w F D owner m srcPtr inst h = (inst, h) := by
  simp [recvStorage, hm]

/-- `C{nc}` with `Bump` (value receiver) and `Inc` (pointer receiver); `M` embeds `*C`; `O` embeds
    `M`; `IB = interface{ Bump() }` -/
def rDecls : Decls :=
  [ .strct "C" [⟨"nc", .int, 0⟩] [⟨"Bump", false, 0⟩, ⟨"Inc", true, 0⟩],
    .strct "M" [⟨"nm", .int, 0⟩, ⟨"C", .embPtr, 0⟩] [],
    .strct "O" [⟨"no", .int, 0⟩, ⟨"M", .emb, 1⟩] [],
    .iface "IB" [⟨"Bump", false, 0⟩] [] ]

/-- the facts with the first arm of the binding aliasing the pointee (`d[numRet] = src.Elem()`) -/
def aliasFacts : Facts := { EF with recvBind := { EF.recvBind with ptrToVal := .slot } }

/-- the four ways of reaching a value method through a pointer: pointer variable, promotion
    through an embedded `*C`, interface holding `*C`, method value bound from a pointer -/
def recvForms : List (List Stmt) :=
  [ [.var "v" 0 1, .ptr "p" "v", .call (.ptrvar "p") "Bump", .call (.ptrvar "p") "Bump", .dump "v"],
    [.var "v" 2 1, .call (.var "v") "Bump", .call (.var "v") "Bump", .dump "v"],
    [.var "v" 0 1, .iface "i" (some 3) (.addr "v"), .call (.ifc "i") "Bump", .call (.ifc "i") "Bump", .dump "v"],
    [.var "v" 0 1, .ptr "p" "v", .mval "g" (.ptrvar "p") "Bump", .callf "g", .callf "g", .dump "v"] ]

/-- non-vacuity and regression: with the expected facts the four forms run as in Go (the object is
    unchanged: each call prints the incremented copy, the dump the old value), the hypotheses of the
    theorems hold, and the body of the generated methods writes its receiver -/
example : recvCopies EF ∧ WF rDecls ∧ stdBody rDecls 0 = [.add [0] 1] ∧
    recvForms.all (fun p => run .yaegi EF rDecls p == run .go EF rDecls p && classify EF rDecls p == "in-domain") = true ∧
    run .go EF rDecls (recvForms.getD 0 []) = .ran [["C.Bump", "2"], ["C.Bump", "2"], ["v", "1"]] false ∧
    run .go EF rDecls (recvForms.getD 1 []) = .ran [["C.Bump", "4"], ["C.Bump", "4"], ["v", "1", "2", "3"]] false := by decide

/-- **witness (what the hypothesis excludes)**: if the first arm aliased the pointee, each of the
    four forms would leave the caller's object modified — the model run with such facts differs from
    Go on all of them -/
theorem value_receiver_alias_witness :
    ¬ recvCopies aliasFacts ∧
    recvForms.all (fun p => run .yaegi aliasFacts rDecls p != run .go aliasFacts rDecls p) = true ∧
    run .yaegi aliasFacts rDecls (recvForms.getD 0 []) = .ran [["C.Bump", "2"], ["C.Bump", "3"], ["v", "3"]] false ∧
    run .yaegi aliasFacts rDecls (recvForms.getD 1 []) = .ran [["C.Bump", "4"], ["C.Bump", "5"], ["v", "1", "2", "5"]] false := by decide

/-! ### witnesses at program level (the replay inputs of the known findings) -/

/-- `W{n}` with `Get` (value receiver) and `Inc` (pointer receiver); `V` embeds `W`;
    `IG = interface{ Get() }`, `II = interface{ Inc() }`, `IGI` embeds both -/
def wDecls : Decls :=
  [ .strct "W" [⟨"nw", .int, 0⟩] [⟨"Get", false, 0⟩, ⟨"Inc", true, 0⟩],
    .strct "V" [⟨"nv", .int, 0⟩, ⟨"W", .emb, 0⟩] [],
    .iface "IG" [⟨"Get", false, 0⟩] [],
    .iface "II" [⟨"Inc", false, 0⟩] [],
    .iface "IGI" [] [2, 3],
    .strct "N" [⟨"nn", .int, 0⟩] [] ]

/-- **regression of F05-16** at program level (the replay input of the finding): default clause
    first, `case IG`, `case II` on `&v`: clause 1 under both rule sets with the current facts, and
    the input is in no divergence class -/
example :
    (let p := [Stmt.var "v" 0 1, .iface "x" none (.addr "v"), .tswitch "x" true [[], [.named 2], [.named 3]], .dump "v"]
     run .yaegi EF wDecls p = .ran [["case", "1"], ["v", "1"]] false ∧ run .go EF wDecls p = run .yaegi EF wDecls p ∧
     classify EF wDecls p = "in-domain" ∧
     run .yaegi { EF with defaultSwap := Expected.C05.oldDefaultSwap, clauseChain := Expected.C05.oldClauseChain } wDecls p
       = .ran [["case", "2"], ["v", "1"]] false) := by decide

/-- **F05**: `g := v.Get; (mutate v); g()`: Go bound a copy of `v` when `g` was evaluated (prints
    the old state), the interpreter reads `v` when `g` is called (prints the new state) -/
theorem method_value_binding_witness :
    run .go EF wDecls [.var "v" 0 1, .mval "g" (.var "v") "Get", .bump "v", .callf "g", .dump "v"]
      = .ran [["W.Get", "2"], ["v", "11"]] false ∧
    run .yaegi EF wDecls [.var "v" 0 1, .mval "g" (.var "v") "Get", .bump "v", .callf "g", .dump "v"]
      = .ran [["W.Get", "12"], ["v", "11"]] false ∧
    classify EF wDecls [.var "v" 0 1, .mval "g" (.var "v") "Get", .bump "v", .callf "g", .dump "v"]
      = "method-value-late-binding" := by decide

/-- without the mutation in between both agree (the domain is not empty) -/
example :
    run .go EF wDecls [.var "v" 1 1, .mval "g" (.var "v") "Get", .callf "g", .dump "v"] =
    run .yaegi EF wDecls [.var "v" 1 1, .mval "g" (.var "v") "Get", .callf "g", .dump "v"] ∧
    classify EF wDecls [.var "v" 1 1, .mval "g" (.var "v") "Get", .callf "g", .dump "v"] = "in-domain" := by decide

/-- **F06**: `var x interface{} = &v; g, ok := x.(interface{ Get() })` with `Get` promoted from the
    embedded `W`: ok in Go, not ok in the interpreter (the pointer is stored unwrapped in the
    empty interface, and only wrapped values can be asserted to an interface type) -/
theorem assert_anonymous_iface_witness :
    run .go EF wDecls [.var "v" 1 1, .iface "x" none (.addr "v"), .assert "g" "x" (.anon [⟨"Get", false, 0⟩]) true "Get"]
      = .ran [["ok", "true"], ["W.Get", "3"]] false ∧
    run .yaegi EF wDecls [.var "v" 1 1, .iface "x" none (.addr "v"), .assert "g" "x" (.anon [⟨"Get", false, 0⟩]) true "Get"]
      = .ran [["ok", "false"]] false ∧
    classify EF wDecls [.var "v" 1 1, .iface "x" none (.addr "v"), .assert "g" "x" (.anon [⟨"Get", false, 0⟩]) true "Get"]
      = "assert-from-empty-interface" := by decide

/-- a struct put in an interface is not copied: a later mutation of the variable is seen through
    the interface -/
theorem interface_holds_variable_witness :
    run .go EF wDecls [.var "v" 0 1, .iface "i" (some 2) (.var "v"), .bump "v", .call (.ifc "i") "Get"]
      = .ran [["W.Get", "2"]] false ∧
    run .yaegi EF wDecls [.var "v" 0 1, .iface "i" (some 2) (.var "v"), .bump "v", .call (.ifc "i") "Get"]
      = .ran [["W.Get", "12"]] false := by decide

/-- a pointer method called on a function result / a value of `W` assigned to `interface{ Inc() }`:
    rejected by Go, accepted by the interpreter -/
theorem pointer_method_on_value_witness :
    run .go EF wDecls [.call (.tmp 0 1) "Inc"] = .reject ∧
    run .yaegi EF wDecls [.call (.tmp 0 1) "Inc"] = .ran [["W.Inc", "2"]] false ∧
    run .go EF wDecls [.var "v" 0 1, .iface "i" (some 3) (.var "v"), .call (.ifc "i") "Inc", .dump "v"] = .reject ∧
    run .yaegi EF wDecls [.var "v" 0 1, .iface "i" (some 3) (.var "v"), .call (.ifc "i") "Inc", .dump "v"]
      = .ran [["W.Inc", "2"], ["v", "2"]] false := by decide

/-- method expressions work only for a method declared on the type itself with the same kind of
    receiver: `(*V).Get(&v)` (promoted, value receiver) fails at run time -/
theorem method_expression_witness :
    run .go EF wDecls [.var "v" 1 1, .mexpr 1 true "Get" "v"] = .ran [["W.Get", "3"]] false ∧
    run .yaegi EF wDecls [.var "v" 1 1, .mexpr 1 true "Get" "v"] = .ran [] true ∧
    run .yaegi EF wDecls [.var "v" 0 1, .mexpr 0 false "Get" "v"] = run .go EF wDecls [.var "v" 0 1, .mexpr 0 false "Get" "v"] := by decide

/-- assertions on an operand of non-empty interface type: receiver kinds are ignored (a `W` value
    is found to implement `interface{ Inc() }`); a nil operand makes the interpreter fail even in the
    two-result form; the one-result form does not panic when a method is missing -/
theorem assert_witnesses :
    run .go EF wDecls [.var "v" 0 1, .iface "i" (some 2) (.var "v"), .assert "j" "i" (.named 3) true ""]
      = .ran [["ok", "false"]] false ∧
    run .yaegi EF wDecls [.var "v" 0 1, .iface "i" (some 2) (.var "v"), .assert "j" "i" (.named 3) true ""]
      = .ran [["ok", "true"]] false ∧
    run .go EF wDecls [.iface "i" (some 2) .nil, .assert "j" "i" (.named 3) true ""] = .ran [["ok", "false"]] false ∧
    run .yaegi EF wDecls [.iface "i" (some 2) .nil, .assert "j" "i" (.named 3) true ""] = .ran [] true ∧
    run .go EF wDecls [.var "v" 0 1, .iface "i" (some 2) (.var "v"), .assert "j" "i" (.anon [⟨"Put", false, 0⟩]) false ""]
      = .ran [] true ∧
    run .yaegi EF wDecls [.var "v" 0 1, .iface "i" (some 2) (.var "v"), .assert "j" "i" (.anon [⟨"Put", false, 0⟩]) false ""]
      = .ran [["asserted"]] false := by decide

/-- type switches: on an operand of non-empty interface type neither an interface clause nor
    `case nil` ever matches; on an `interface{}` operand holding a wrapped value every interface
    clause matches in the binding form (a `W` value matches `case interface{ Inc() }`) -/
theorem typeswitch_witnesses :
    run .go EF wDecls [.var "v" 0 1, .iface "i" (some 2) (.addr "v"), .tswitch "i" false [[.named 3], []]]
      = .ran [["case", "0"]] false ∧
    run .yaegi EF wDecls [.var "v" 0 1, .iface "i" (some 2) (.addr "v"), .tswitch "i" false [[.named 3], []]]
      = .ran [["case", "1"]] false ∧
    run .go EF wDecls [.iface "i" (some 2) .nil, .tswitch "i" false [[.nil], []]] = .ran [["case", "0"]] false ∧
    run .yaegi EF wDecls [.iface "i" (some 2) .nil, .tswitch "i" false [[.nil], []]] = .ran [["case", "1"]] false ∧
    run .go EF wDecls [.var "v" 0 1, .iface "x" none (.var "v"), .tswitch "x" true [[.named 3], [.named 2], []]]
      = .ran [["case", "1"]] false ∧
    run .yaegi EF wDecls [.var "v" 0 1, .iface "x" none (.var "v"), .tswitch "x" true [[.named 3], [.named 2], []]]
      = .ran [["case", "0"]] false := by decide

/-- in-domain programs of every form agree (non-vacuity of the classes' complement) -/
example :
    (let p := [Stmt.var "v" 1 1, .ptr "p" "v", .call (.ptrvar "p") "Inc", .call (.var "v") "Get", .dump "v"]
     run .go EF wDecls p = run .yaegi EF wDecls p ∧ classify EF wDecls p = "in-domain") ∧
    (let p := [Stmt.var "v" 1 1, .iface "i" (some 4) (.addr "v"), .bump "v", .call (.ifc "i") "Inc", .call (.ifc "i") "Get", .dump "v"]
     run .go EF wDecls p = run .yaegi EF wDecls p ∧ classify EF wDecls p = "in-domain") ∧
    (let p := [Stmt.var "v" 1 1, .iface "i" (some 2) (.var "v"), .assert "j" "i" (.named 1) true "Inc", .tswitch "i" true [[.ptr 1], [.named 1, .named 0], []]]
     run .go EF wDecls p = run .yaegi EF wDecls p ∧ classify EF wDecls p = "in-domain") := by decide

end YaegiVerif.Props.C05
