import YaegiVerif.Model.Conc
import YaegiVerif.Model.ConcFrames
import YaegiVerif.Proofs.C08Iso
import YaegiVerif.Proofs.C08Frames
import YaegiVerif.Expected.C08
import YaegiVerif.Generated.C08
/-
  C08 — concurrent execution is correct and free of interpreter-induced races.

  What is proved here is isolation of interpreter state under sequentially consistent interleaving:
  every activation sees only its own arguments, locals and channels, for EVERY schedule, provided no
  generated closure writes a variable of its generator (the table `closureWrites`, regenerated from the
  source).  Since the repair of F08 (`_select` copies its case vector per execution) the regenerated table is
  empty, so the statement holds at full strength for ALL programs, `select` included (`isolation_fixed`).
  The table before the repair, `[_select: cases]`, is kept as `closureWritesOld`: the `old_table_…` theorems
  state what it allowed (cross-talk between two goroutines executing one select statement) and what held
  nevertheless (every statement kind except `select`).
  Data races in the sense of the Go memory model are outside the model (correspondence only: race detector).
-/
namespace YaegiVerif.Props.C08
open YaegiVerif.Conc YaegiVerif.ConcFrames

/-! ## ties to the source -/

/-- the closures of run.go / op.go / value.go write exactly these generator-level variables -/
theorem closurewrites_tie : Generated.C08.closureWrites = Expected.C08.closureWrites := by decide

/-- go-statement argument copying, per-call frames, getFunc cloning, locks: as read -/
theorem gofacts_tie : Generated.C08.goFacts = Expected.C08.goFacts := by decide

/-- the transcribed functions are the ones that were read -/
theorem source_tie : Generated.C08.sourceHashes = Expected.C08.sourceHashes := by decide

theorem generators_tie : Generated.C08.modelledGenerators = Expected.C08.modelledGenerators := by decide

/-- every statement kind of the model names a generator that exists in the source with a run-time closure -/
theorem kinds_have_generators (s : Stmt) : s.gen ∈ Generated.C08.modelledGenerators := by
  rw [generators_tie]
  cases s <;> simp [Stmt.gen, Expected.C08.modelledGenerators]

/-- the scan is not vacuous: it covered the generators of the three files -/
theorem scan_nonvacuous : Generated.C08.scannedGenerators ≥ 100 ∧ Generated.C08.scannedClosures ≥ 500 := by decide

/-! ## isolation under every schedule -/

/-- the invariants of the schedule model hold along every schedule -/
theorem run_invariants (cw : CW) (prog : List Stmt) (hns : NoShare cw prog) :
    ∀ (sched : List Pick) (σ : State), Owned σ → Disjoint σ →
      Owned (run cw prog sched σ) ∧ Disjoint (run cw prog sched σ) := by
  intro sched
  induction sched with
  | nil => intro σ ho hd; exact ⟨ho, hd⟩
  | cons p ps ih =>
    intro σ ho hd
    exact ih _ (step_owned cw prog hns p σ ho) (step_disjoint cw prog hns p σ ho hd)

/-- Non-interference, whole activation: under ANY schedule activation `i` ends in exactly the state (frame,
    pc, output) it reaches when it runs alone with its own picks. -/
theorem isolation_act (cw : CW) (prog : List Stmt) (hns : NoShare cw prog) (σ : State) (hd : Disjoint σ) (ho : Owned σ)
    (sched : List Pick) (i : Nat) :
    (run cw prog sched σ).acts[i]? = (runSolo cw prog i sched σ).acts[i]? :=
  (agree_run cw prog hns i sched σ σ ho hd (agree_refl i σ)).1

/-- FULL STATEMENT (for a closure-write table `cw`): if no statement of the program has a generator whose
    closure writes generator-level variables, then for every schedule the trace of every activation is the
    trace of that activation run alone. -/
theorem isolation (cw : CW) (prog : List Stmt) (hns : ∀ s ∈ prog, writesOf cw s.gen = []) (σ : State)
    (hd : Disjoint σ) (ho : Owned σ) (sched : List Pick) (i : Nat) :
    trace i (run cw prog sched σ) = trace i (runSolo cw prog i sched σ) := by
  have hns' : NoShare cw prog := fun s hs => by simp [shared, hns s hs]
  unfold trace
  rw [isolation_act cw prog hns' σ hd ho sched i]

/-- the channels of an activation are changed only by its own steps -/
theorem channels_private (cw : CW) (prog : List Stmt) (hns : NoShare cw prog) (σ : State) (hd : Disjoint σ) (ho : Owned σ)
    (sched : List Pick) (i : Nat) (a : Act) (ha : (run cw prog sched σ).acts[i]? = some a) (c : ChanId) (hc : c ∈ a.chans) :
    (run cw prog sched σ).heap c = (runSolo cw prog i sched σ).heap c :=
  (agree_run cw prog hns i sched σ σ ho hd (agree_refl i σ)).2 a ha c hc

/-- a program none of whose statements shares operand variables behaves, as a whole and under every
    schedule, exactly like the same program on an interpreter without any per-statement state (this covers
    programs whose goroutines DO share channels: pipelines, worker pools) -/
theorem refines_ideal (cw : CW) (prog : List Stmt) (hns : NoShare cw prog) :
    ∀ (sched : List Pick) (σ : State), run cw prog sched σ = run [] prog sched σ := by
  have hact : ∀ (s : Stmt) (a : Act) (c : Nat) (h : ChanId → Chan) (gv : Ops), shared cw s = false →
      stepAct cw s a c h gv = stepAct [] s a c h gv := by
    intro s a c h gv h1
    have h2 : shared [] s = false := by simp [shared, writesOf]
    simp only [stepAct, h1, h2]
  have hstep : ∀ p σ, step cw prog p σ = step [] prog p σ := by
    intro p σ
    unfold step
    cases ha : σ.acts[p.act]? with
    | none => rfl
    | some a =>
      simp only []
      cases hs : prog[a.pc]? with
      | none => rfl
      | some s =>
        simp only []
        rw [hact s a p.choice σ.heap (σ.stmt a.pc) (hns s (List.mem_of_getElem? hs))]
  intro sched
  induction sched with
  | nil => intro σ; rfl
  | cons p ps ih => intro σ; simp only [run]; rw [hstep, ih]

/-- the property as a statement about a closure-write table -/
def IsolationStatement (cw : CW) : Prop :=
  ∀ (prog : List Stmt) (σ : State) (sched : List Pick) (i : Nat), Disjoint σ → Owned σ →
    trace i (run cw prog sched σ) = trace i (runSolo cw prog i sched σ)

theorem noshare_generated (prog : List Stmt) : NoShare Generated.C08.closureWrites prog := by
  intro s _
  rw [closurewrites_tie]
  simp [shared, writesOf, Expected.C08.closureWrites]

/-- HEADLINE, FULL STRENGTH (table regenerated from the current source): for ALL programs — `select` included —
    all initial states with private channels and ALL schedules, the trace of every activation is the trace of
    that activation run alone -/
theorem isolation_fixed : IsolationStatement Generated.C08.closureWrites := by
  intro prog σ sched i hd ho
  unfold trace
  rw [isolation_act _ prog (noshare_generated prog) σ hd ho sched i]

/-- … the whole activation (frame, pc, pending operands, output), not only its trace -/
theorem isolation_act_fixed (prog : List Stmt) (σ : State) (hd : Disjoint σ) (ho : Owned σ) (sched : List Pick) (i : Nat) :
    (run Generated.C08.closureWrites prog sched σ).acts[i]? = (runSolo Generated.C08.closureWrites prog i sched σ).acts[i]? :=
  isolation_act _ prog (noshare_generated prog) σ hd ho sched i

/-- FULL STRENGTH: every program, whether or not its goroutines share channels, runs under every schedule
    exactly as on an interpreter without any per-statement state -/
theorem refines_ideal_fixed (prog : List Stmt) (sched : List Pick) (σ : State) :
    run Generated.C08.closureWrites prog sched σ = run [] prog sched σ :=
  refines_ideal _ prog (noshare_generated prog) sched σ

/-! ### F08 (repaired): one `select` statement executed by two goroutines -/

/-- two workers run `select { case v := <-own: fmt.Println(v) }`, each with a private channel holding one value -/
def xProg : List Stmt := [.select [{ dir := .recv, ch := 0, slot := 0, target := 1 }], .print 0, .halt]
def xState : State := mkState [mkAct [0] [0], mkAct [0] [1]] [⟨[10], 1, false⟩, ⟨[20], 1, false⟩]
/-- worker 0 fills its case vector, worker 1 fills its own, worker 0 calls reflect.Select -/
def xSched : List Pick := [⟨0, 0⟩, ⟨1, 0⟩, ⟨0, 0⟩, ⟨0, 0⟩, ⟨0, 0⟩]

theorem xState_ok : Disjoint xState ∧ Owned xState := by
  constructor
  · intro i j a b hij ha hb c hc
    match i, j with
    | 0, 0 => exact absurd rfl hij
    | 0, 1 => simp [xState, mkState, mkAct] at ha hb; subst ha; subst hb; simp_all
    | 1, 0 => simp [xState, mkState, mkAct] at ha hb; subst ha; subst hb; simp_all
    | 1, 1 => exact absurd rfl hij
    | 0, j + 2 => simp [xState, mkState] at hb
    | 1, j + 2 => simp [xState, mkState] at hb
    | i + 2, _ => simp [xState, mkState] at ha
  · intro i a ha c hc
    match i with
    | 0 => simp [xState, mkState, mkAct] at ha; subst ha; simp at hc
    | 1 => simp [xState, mkState, mkAct] at ha; subst ha; simp at hc
    | i + 2 => simp [xState, mkState] at ha

/-- REGRESSION EXAMPLE (also the non-vacuity example of `isolation_fixed`: a program WITH a select executed by two
    activations, an interleaving schedule, both invariants satisfied): with the table of the current source the
    schedule that used to deliver worker 1's value to worker 0 delivers each worker its own value -/
theorem select_isolated_now :
    trace 0 (run Generated.C08.closureWrites xProg xSched xState) = [10] ∧
    trace 0 (runSolo Generated.C08.closureWrites xProg 0 xSched xState) = [10] ∧
    trace 1 (run Generated.C08.closureWrites xProg (xSched ++ [⟨1, 0⟩, ⟨1, 0⟩, ⟨1, 0⟩]) xState) = [20] := by
  rw [closurewrites_tie]; decide

/-- WHAT THE OLD TABLE ALLOWED (F08): worker 0 prints the value that was sent on worker 1's private channel -/
theorem old_table_crosstalk_trace :
    trace 0 (run Expected.C08.closureWritesOld xProg xSched xState) = [20] ∧
    trace 0 (runSolo Expected.C08.closureWritesOld xProg 0 xSched xState) = [10] := by decide

/-- … so the full statement was false for the table `[_select: cases]` -/
theorem old_table_crosstalk_witness : ¬ IsolationStatement Expected.C08.closureWritesOld := by
  intro h
  have := h xProg xState xSched 0 xState_ok.1 xState_ok.2
  rw [old_table_crosstalk_trace.1, old_table_crosstalk_trace.2] at this
  exact absurd this (by decide)

/-- send direction: with the old table worker 0's `select { case own <- v: }` deposits a value in worker 1's
    channel (and it is worker 1's value: `cases[i].Send` was shared too) and its own channel stays empty; with
    the table of the current source every worker sends its own value on its own channel -/
def sProg : List Stmt := [.select [{ dir := .send, ch := 0, slot := 0, target := 1 }], .halt]
def sState : State := mkState [mkAct [7] [0], mkAct [9] [1]] [⟨[], 2, false⟩, ⟨[], 2, false⟩]

theorem old_table_send_crosstalk :
    ((run Expected.C08.closureWritesOld sProg [⟨0, 0⟩, ⟨1, 0⟩, ⟨0, 0⟩, ⟨1, 0⟩] sState).heap 0).buf = [] ∧
    ((run Expected.C08.closureWritesOld sProg [⟨0, 0⟩, ⟨1, 0⟩, ⟨0, 0⟩, ⟨1, 0⟩] sState).heap 1).buf = [9, 9] := by decide

theorem select_send_isolated_now :
    ((run Generated.C08.closureWrites sProg [⟨0, 0⟩, ⟨1, 0⟩, ⟨0, 0⟩, ⟨1, 0⟩] sState).heap 0).buf = [7] ∧
    ((run Generated.C08.closureWrites sProg [⟨0, 0⟩, ⟨1, 0⟩, ⟨0, 0⟩, ⟨1, 0⟩] sState).heap 1).buf = [9] := by
  rw [closurewrites_tie]; decide

/-- two-value and assignment forms of receive clauses (`case x, ok = <-own:`), since the repairs of F08-1/3/5 in the
    default stream: two workers, the value and the status go to each worker's own slots -/
def tProg : List Stmt :=
  [.select [{ dir := .recv, ch := 0, slot := 0, target := 1, ok := some 1 }], .print 0, .print 1, .halt]
def tState : State := mkState [mkAct [0, 0] [0], mkAct [0, 0] [1]] [⟨[10], 1, false⟩, ⟨[], 1, true⟩]

theorem select_recv2_isolated_now :
    trace 0 (run Generated.C08.closureWrites tProg [⟨0, 0⟩, ⟨1, 0⟩, ⟨0, 0⟩, ⟨1, 0⟩, ⟨0, 0⟩, ⟨0, 0⟩, ⟨0, 0⟩, ⟨0, 0⟩] tState) = [10, 1] ∧
    trace 1 (run Generated.C08.closureWrites tProg [⟨0, 0⟩, ⟨1, 0⟩, ⟨0, 0⟩, ⟨1, 0⟩, ⟨1, 0⟩, ⟨1, 0⟩, ⟨1, 0⟩, ⟨1, 0⟩] tState) = [0, 0] := by
  rw [closurewrites_tie]; decide

/-- two workers run `for v := range own { fmt.Println(v) }`, each over a private, filled and closed channel -/
def rProg : List Stmt := [.range 0 0 3, .print 0, .jmp 0, .halt]
def rState : State := mkState [mkAct [0] [0], mkAct [0] [1]] [⟨[10], 1, true⟩, ⟨[20], 1, true⟩]

/-- the model is not specific to `select`: ANY statement kind whose generator is listed in the table shares its
    operand variables.  With the table of the current source the two ranging workers are isolated; a generator
    `rangeChan` that kept its select cases in a generator-level variable (table entry `rangeChan: cases`) would let
    worker 0 receive worker 1's value under the schedule fill-fill-commit -/
theorem range_isolated_now_and_shared_witness :
    trace 0 (run Generated.C08.closureWrites rProg xSched rState) = [10] ∧
    trace 0 (run [("rangeChan", ["cases"])] rProg xSched rState) = [20] ∧
    trace 0 (runSolo [("rangeChan", ["cases"])] rProg 0 xSched rState) = [10] := by
  rw [closurewrites_tie]; decide

/-- programs without a `select` statement: the domain on which isolation held with the old table -/
def NoSelect (prog : List Stmt) : Bool := prog.all (fun s => !s.isSelect)

/-- with the old table exactly the `select` statements shared their operand variables -/
theorem old_table_shared_iff_select (s : Stmt) : shared Expected.C08.closureWritesOld s = s.isSelect := by
  cases s <;> rfl

/-- WHAT HELD WITH THE OLD TABLE: isolation for every statement kind except `select`, for every schedule -/
theorem old_table_isolation_partial (prog : List Stmt) (hdom : NoSelect prog = true) (σ : State) (hd : Disjoint σ) (ho : Owned σ)
    (sched : List Pick) (i : Nat) :
    trace i (run Expected.C08.closureWritesOld prog sched σ) = trace i (runSolo Expected.C08.closureWritesOld prog i sched σ) := by
  have hns : NoShare Expected.C08.closureWritesOld prog := by
    intro s hs
    rw [old_table_shared_iff_select]
    have := List.all_eq_true.mp hdom s hs
    simpa using this
  unfold trace
  rw [isolation_act _ prog hns σ hd ho sched i]

/-- non-vacuity without select: a two-worker program (loop: send to the own channel, receive it back, print) whose
    schedule interleaves the workers statement by statement -/
def nvProg : List Stmt :=
  [.set 1 0, .jlt 1 2 3, .halt, .send 0 1, .recv 3 4 0, .print 3, .addc 1 1 1, .jmp 1]
def nvState : State := mkState [mkAct [0, 0, 2, 0, 0] [0], mkAct [0, 0, 2, 0, 0] [1]] [⟨[], 1, false⟩, ⟨[], 1, false⟩]
def nvSched : List Pick := (List.range 80).map (fun k => ⟨k % 2, 0⟩)

set_option maxRecDepth 8000 in
theorem isolation_nonvacuous :
    NoSelect nvProg = true ∧ trace 0 (run Generated.C08.closureWrites nvProg nvSched nvState) = [0, 1] ∧
    trace 1 (run Generated.C08.closureWrites nvProg nvSched nvState) = [0, 1] := by
  rw [closurewrites_tie]; decide

/-! ## frames -/

/-- FRAMES DISJOINT (invariant): with arguments copied into fresh cells, for every sequence of writes,
    definitions, calls and go statements, every cell reachable from a frame was allocated by that frame … -/
theorem frames_owned (m : Mem) (h : Owns m) (ops : List Op) : Owns (runOps true ops m) :=
  runOps_owns ops m h

/-- … hence two distinct frames never reach a common cell -/
theorem frames_disjoint (m : Mem) (h : Owns m) (ops : List Op) (i j : Nat) (f g : List Nat) (hij : i ≠ j)
    (hf : (runOps true ops m).frames[i]? = some f) (hg : (runOps true ops m).frames[j]? = some g) :
    ∀ c ∈ f, c ∉ g :=
  owns_disjoint (runOps_owns ops m h) hij hf hg

/-- a goroutine started by `go f(args)` keeps seeing the argument values of the moment of the go statement,
    whatever the other frames (the parent included) do afterwards -/
theorem go_args_private (m : Mem) (h : Owns m) (fr : Nat) (args : List Nat) (ops : List Op)
    (hothers : ∀ op ∈ ops, op.frame ≠ m.frames.length) (j : Nat) (hj : j < args.length) :
    read (runOps true ops (stepOp true m (.call fr args))) m.frames.length j = read m fr (args.getD j 0) := by
  have hk : (stepOp true m (.call fr args)).frames[m.frames.length]? = some (List.range' m.cells.length args.length) := by
    simp [stepOp]
  rw [runOps_other ops _ (stepOp_owns m _ h) m.frames.length _ hk hothers j]
  exact call_reads_args m fr args j hj

/-- the same with the facts read from the current source -/
theorem go_args_private_generated (m : Mem) (h : Owns m) (fr : Nat) (args : List Nat) (ops : List Op)
    (hothers : ∀ op ∈ ops, op.frame ≠ m.frames.length) (j : Nat) (hj : j < args.length) :
    read (runOps Generated.C08.goFacts.argsCopied ops (stepOp Generated.C08.goFacts.argsCopied m (.call fr args))) m.frames.length j
      = read m fr (args.getD j 0) := by
  have : Generated.C08.goFacts.argsCopied = true := by rw [gofacts_tie]; decide
  rw [this]
  exact go_args_private m h fr args ops hothers j hj

/-- WITNESS for the fact: without the copy the goroutine sees the parent's later assignment
    (`x := 1; go worker(x); x = 2`) -/
theorem go_args_alias_witness :
    let m : Mem := { cells := [1], owner := [0], frames := [[0]] }
    read (runOps false [.write 0 0 2] (stepOp false m (.call 0 [0]))) 1 0 = 2 ∧
    read (runOps true [.write 0 0 2] (stepOp true m (.call 0 [0]))) 1 0 = 1 := by decide

/-- FULL (since the repair of F08-2, fact read from callBin's go branch): a goroutine started by `go hostFn(args)` —
    a binary function or method — keeps seeing the argument values of the moment of the go statement -/
theorem go_args_private_host_generated (m : Mem) (h : Owns m) (fr : Nat) (args : List Nat) (ops : List Op)
    (hothers : ∀ op ∈ ops, op.frame ≠ m.frames.length) (j : Nat) (hj : j < args.length) :
    read (runOps Generated.C08.goFacts.callBinGoArgsCopied ops
            (stepOp Generated.C08.goFacts.callBinGoArgsCopied m (.call fr args))) m.frames.length j
      = read m fr (args.getD j 0) := by
  have : Generated.C08.goFacts.callBinGoArgsCopied = true := by rw [gofacts_tie]; decide
  rw [this]
  exact go_args_private m h fr args ops hothers j hj

/-- FULL (since the repair of F08-4, fact read from genFunctionWrapper): the receiver of `go x.M(args)` on a method of a
    script type is an operand of the go statement like any argument — it is read when the method value is made and a
    value receiver is copied — so the goroutine keeps seeing the receiver of the moment of the go statement
    (operand 0 of the call in the frame model) whatever the other frames do -/
theorem go_receiver_private_generated (m : Mem) (h : Owns m) (fr : Nat) (recv : Nat) (args : List Nat) (ops : List Op)
    (hothers : ∀ op ∈ ops, op.frame ≠ m.frames.length) :
    read (runOps Generated.C08.goFacts.wrapperRecvBound ops
            (stepOp Generated.C08.goFacts.wrapperRecvBound m (.call fr (recv :: args)))) m.frames.length 0
      = read m fr recv := by
  have : Generated.C08.goFacts.wrapperRecvBound = true := by rw [gofacts_tie]; decide
  rw [this]
  have := go_args_private m h fr (recv :: args) ops hothers 0 (by simp)
  simpa using this

/-- FULL, EVERY ARM AND EVERY KIND (facts read from the operand loops of call's two go branches and of callBin's): the
    go statement copies an argument of ANY kind — chan, func, map, pointer and unsafe pointer included — for a
    declared function, for a function value (literal, closure variable, method value) and for a host callee -/
theorem go_operand_copied_all_arms_all_kinds (arm : GoArm) (k : ArgKind) :
    Generated.C08.goFacts.copiedAt arm k = true := by
  rw [gofacts_tie]
  cases arm <;> cases k <;> decide

/-- FULL: for every arm and every list of argument kinds, the goroutine keeps seeing the argument values of the moment
    of the go statement whatever the other frames (the spawning loop that reassigns `ch`, `p`, `m`, `f`) do afterwards -/
theorem go_args_private_kinds (arm : GoArm) (kinds : List ArgKind) (m : Mem) (h : Owns m) (fr : Nat) (args : List Nat)
    (ops : List Op) (hothers : ∀ op ∈ ops, op.frame ≠ m.frames.length) (j : Nat) (hj : j < args.length) :
    read (runOps (Generated.C08.goFacts.allCopied arm kinds) ops
            (stepOp (Generated.C08.goFacts.allCopied arm kinds) m (.call fr args))) m.frames.length j
      = read m fr (args.getD j 0) := by
  have : Generated.C08.goFacts.allCopied arm kinds = true := by
    unfold GoFacts.allCopied
    rw [List.all_eq_true]
    intro k _
    exact go_operand_copied_all_arms_all_kinds arm k
  rw [this]
  exact go_args_private m h fr args ops hothers j hj

/-- WHAT A KIND-DEPENDENT RULE WOULD ALLOW: facts in which the function-value arm names `reflect.Chan` (reference kinds
    passed without copy) — the operand is not private, and the goroutine sees the channel assigned by the next iteration -/
theorem go_reference_kind_exception_witness :
    let g : GoFacts := { Expected.C08.goFacts with goValueArgKinds := ["reflect.Chan", "reflect.Ptr"] }
    g.copiedAt .funcValue .chan = false ∧ g.copiedAt .funcValue .ptr = false ∧ g.copiedAt .funcValue .int = true ∧
    (let m : Mem := { cells := [10], owner := [0], frames := [[0]] }
     read (runOps (g.allCopied .funcValue [.chan]) [.write 0 0 20] (stepOp (g.allCopied .funcValue [.chan]) m (.call 0 [0]))) 1 0 = 20) := by
  decide

/-- two successive (or concurrent) calls of ONE method value / function wrapper / function literal from frame `fr` with the
    operand slots `args` (the bound receiver first): the frames of the two activations are `m.frames.length` and
    `m.frames.length + 1` -/
def twoCalls (fresh : Bool) (m : Mem) (fr : Nat) (args : List Nat) : Mem :=
  stepOp fresh (stepOp fresh m (.call fr args)) (.call fr args)

/-- FULL (facts read from the reflect.MakeFunc callbacks of genFunctionWrapperFor and getFunc: one frame per call, every
    slot rebound only to `reflect.New(t).Elem()`, receiver and arguments written THROUGH the slots): every activation of a
    method value has a receiver variable (and parameters) of its own — whatever the first activation writes to its
    operand slots, whatever any other frame does afterwards, the second activation reads what it was given -/
theorem wrapper_activations_own_cells (m : Mem) (h : Owns m) (fr : Nat) (args : List Nat) (slot : Nat) (v : Int)
    (ops : List Op) (hothers : ∀ op ∈ ops, op.frame ≠ m.frames.length + 1) (j : Nat) :
    read (runOps Generated.C08.goFacts.wrapperCallFresh (.write m.frames.length slot v :: ops)
            (twoCalls Generated.C08.goFacts.wrapperCallFresh m fr args)) (m.frames.length + 1) j
      = read (twoCalls Generated.C08.goFacts.wrapperCallFresh m fr args) (m.frames.length + 1) j := by
  have hf : Generated.C08.goFacts.wrapperCallFresh = true := by rw [gofacts_tie]; decide
  rw [hf]
  unfold twoCalls
  have ho1 := stepOp_owns m (.call fr args) h
  have ho2 := stepOp_owns _ (.call fr args) ho1
  have hlen : (stepOp true m (.call fr args)).frames.length = m.frames.length + 1 := by simp [stepOp]
  have hk : (stepOp true (stepOp true m (.call fr args)) (.call fr args)).frames[m.frames.length + 1]?
      = some (List.range' (stepOp true m (.call fr args)).cells.length args.length) := by
    rw [← hlen]; simp [stepOp]
  refine runOps_other _ _ ho2 (m.frames.length + 1) _ hk ?_ j
  intro op hop
  rcases List.mem_cons.mp hop with rfl | hin
  · simp [Op.frame]
  · exact hothers op hin

/-- the same for the function made for a function literal (getFunc) -/
theorem literal_activations_own_cells (m : Mem) (h : Owns m) (fr : Nat) (args : List Nat) (slot : Nat) (v : Int) (j : Nat) :
    read (runOps Generated.C08.goFacts.literalCallFresh [.write m.frames.length slot v]
            (twoCalls Generated.C08.goFacts.literalCallFresh m fr args)) (m.frames.length + 1) j
      = read (twoCalls Generated.C08.goFacts.literalCallFresh m fr args) (m.frames.length + 1) j := by
  have hf : Generated.C08.goFacts.literalCallFresh = true := by rw [gofacts_tie]; decide
  have hw : Generated.C08.goFacts.wrapperCallFresh = true := by rw [gofacts_tie]; decide
  rw [hf]
  have := wrapper_activations_own_cells m h fr args slot v [] (by simp) j
  rw [hw] at this
  exact this

/-- frames_disjoint for wrapper calls, over the regenerated facts: the frames of all activations of wrappers and literals
    reach pairwise disjoint cells, for every sequence of calls, writes and definitions -/
theorem wrapper_frames_disjoint (m : Mem) (h : Owns m) (ops : List Op) (i j : Nat) (f g : List Nat) (hij : i ≠ j)
    (hf : (runOps Generated.C08.goFacts.wrapperCallFresh ops m).frames[i]? = some f)
    (hg : (runOps Generated.C08.goFacts.wrapperCallFresh ops m).frames[j]? = some g) : ∀ c ∈ f, c ∉ g := by
  have hw : Generated.C08.goFacts.wrapperCallFresh = true := by rw [gofacts_tie]; decide
  rw [hw] at hf hg
  exact frames_disjoint m h ops i j f g hij hf hg

/-- WHAT A SHARED RECEIVER CELL WOULD ALLOW (a callback that rebinds the receiver slot to the copy made when the method
    value was bound, `d[numRet] = recv`): `sum := a.Sum` with a value receiver that accumulates into its copy — the
    second activation starts from what the first one left (cell 0 is the bound copy holding 100; activation 1 writes
    155 through its receiver slot) -/
theorem shared_receiver_cell_witness :
    let m : Mem := { cells := [100], owner := [0], frames := [[0]] }
    read (runOps false [.write 1 0 155] (twoCalls false m 0 [0])) 2 0 = 155 ∧
    read (runOps true [.write 1 0 155] (twoCalls true m 0 [0])) 2 0 = 100 ∧
    ({ Expected.C08.goFacts with wrapperCellsFresh := false } : GoFacts).wrapperCallFresh = false := by decide

/-- REGRESSION EXAMPLES / WHAT THE OLD FACTS ALLOWED (F08-2: callBin's go branch passed the frame values; F08-4: the
    receiver was read inside the wrapper's callback): an operand that is not copied at the go statement shows the
    parent's later assignment (`y := 10; go m.Store("k", y); y = 20` stored 20; `go accs[w].run()` in a loop ran the
    last receiver); with the facts of the current source the goroutine sees 10 -/
theorem go_operands_old_facts_witness :
    (let m : Mem := { cells := [10], owner := [0], frames := [[0]] }
     read (runOps false [.write 0 0 20] (stepOp false m (.call 0 [0]))) 1 0 = 20) ∧
    (let m : Mem := { cells := [10], owner := [0], frames := [[0]] }
     read (runOps Generated.C08.goFacts.callBinGoArgsCopied [.write 0 0 20]
            (stepOp Generated.C08.goFacts.callBinGoArgsCopied m (.call 0 [0]))) 1 0 = 10) ∧
    (let m : Mem := { cells := [10], owner := [0], frames := [[0]] }
     read (runOps Generated.C08.goFacts.wrapperRecvBound [.write 0 0 20]
            (stepOp Generated.C08.goFacts.wrapperRecvBound m (.call 0 [0]))) 1 0 = 10) := by
  rw [gofacts_tie]; decide

theorem stepOp_frames_other (cp : Bool) (m : Mem) (op : Op) (k : Nat) (hk : k < m.frames.length) (hne : op.frame ≠ k) :
    (stepOp cp m op).frames[k]? = m.frames[k]? ∧ k < (stepOp cp m op).frames.length := by
  cases op with
  | write fr slot v =>
    simp only [stepOp]
    split <;> exact ⟨rfl, hk⟩
  | define fr slot v =>
    simp only [stepOp]
    split
    · exact ⟨List.getElem?_set_ne hne, by simpa using hk⟩
    · exact ⟨rfl, hk⟩
  | call fr args =>
    simp only [stepOp]
    split
    · exact ⟨List.getElem?_append_left hk, by simp; omega⟩
    · exact ⟨List.getElem?_append_left hk, by simp; omega⟩

/-- CLOSURES: evaluating a function literal clones the defining frame, so whatever is executed afterwards in
    other frames — in particular `x := …` of the next loop iteration in the defining function — the closure
    keeps referring to the variable cells it captured (closures created in a loop and started as goroutines
    each see their own iteration's variables) -/
theorem closure_env_stable (cp : Bool) (m : Mem) (fr : Nat) (f : List Nat) (hf : m.frames[fr]? = some f) :
    ∀ (ops : List Op), (∀ op ∈ ops, op.frame ≠ (closureEnv true m fr).2) →
      (runOps cp ops (closureEnv true m fr).1).frames[(closureEnv true m fr).2]? = some f := by
  have henv : closureEnv true m fr = ({ m with frames := m.frames ++ [f] }, m.frames.length) := by
    simp [closureEnv, hf]
  rw [henv]
  have gen : ∀ (ops : List Op) (m' : Mem), m.frames.length < m'.frames.length → m'.frames[m.frames.length]? = some f →
      (∀ op ∈ ops, op.frame ≠ m.frames.length) → (runOps cp ops m').frames[m.frames.length]? = some f := by
    intro ops
    induction ops with
    | nil => intro m' _ h _; exact h
    | cons o os ih =>
      intro m' hl h hall
      obtain ⟨h1, h2⟩ := stepOp_frames_other cp m' o m.frames.length hl (hall o (by simp))
      exact ih _ h2 (by rw [h1]; exact h) (fun op hop => hall op (by simp [hop]))
  intro ops hall
  exact gen ops _ (by simp) (by simp) hall

/-- the same with the facts read from the current source -/
theorem closure_env_stable_generated (cp : Bool) (m : Mem) (fr : Nat) (f : List Nat) (hf : m.frames[fr]? = some f)
    (ops : List Op) (hall : ∀ op ∈ ops, op.frame ≠ (closureEnv Generated.C08.goFacts.closureClones m fr).2) :
    (runOps cp ops (closureEnv Generated.C08.goFacts.closureClones m fr).1).frames[(closureEnv Generated.C08.goFacts.closureClones m fr).2]?
      = some f := by
  have : Generated.C08.goFacts.closureClones = true := by rw [gofacts_tie]; decide
  rw [this] at hall ⊢
  exact closure_env_stable cp m fr f hf ops hall

/-- WITNESS for the fact: without the clone a later `x := 5` of the defining function changes the variable
    the closure refers to -/
theorem closure_noclone_witness :
    let m : Mem := { cells := [1], owner := [0], frames := [[0]] }
    read (stepOp true (closureEnv false m 0).1 (.define 0 0 5)) (closureEnv false m 0).2 0 = 5 ∧
    read (stepOp true (closureEnv true m 0).1 (.define 0 0 5)) (closureEnv true m 0).2 0 = 1 := by decide

/-- closures capture variables, not values: an assignment through the defining frame is seen by the closure -/
theorem closure_shares_cells :
    let m : Mem := { cells := [1], owner := [0], frames := [[0]] }
    read (stepOp true (closureEnv true m 0).1 (.write 0 0 7)) (closureEnv true m 0).2 0 = 7 := by decide

/-- FULL (since the repair of F08-6, fact read from getFunc): the return of an activation of a function literal — in
    whatever goroutine it ran — leaves the whole memory, in particular the defining frame's slot array, as it is; so a
    `go func(){…}()` statement executed again finds in the literal's slot the function value it has just stored -/
theorem literal_return_leaves_defining_frame (m : Mem) (fr slot old : Nat) :
    literalReturn Generated.C08.goFacts.getFuncNoDefFrameWrite m fr slot old = m := by
  have : Generated.C08.goFacts.getFuncNoDefFrameWrite = true := by rw [gofacts_tie]; decide
  simp [literalReturn, this]

/-- WHAT THE OLD FACT ALLOWED (F08-6): slot 0 of the defining frame holds the new function value (cell 1) stored by the
    second evaluation of the literal; an earlier activation returns and rebinds it to the old content (cell 0, the nil
    function): the go statement that follows calls a nil function -/
theorem literal_return_old_fact_witness :
    let m : Mem := { cells := [0, 7], owner := [0, 0], frames := [[1]] }
    read (literalReturn false m 0 0 0) 0 0 = 0 ∧ read (literalReturn true m 0 0 0) 0 0 = 7 := by decide

/-- the locks that make the frame operations of closure creation atomic are in place (their effect is a
    matter of the Go memory model: correspondence with the race detector only) -/
theorem locks_in_place :
    Generated.C08.goFacts.cloneLocked = true ∧ Generated.C08.goFacts.getFuncStoreLocked = true ∧
    Generated.C08.goFacts.getFuncNoDefFrameWrite = true ∧ Generated.C08.goFacts.selectDoneLocked = true ∧
    Generated.C08.goFacts.goBinArgsCopied = true ∧ Generated.C08.goFacts.wrapperFramePerCall = true ∧
    Generated.C08.goFacts.selectCopiesCases = true ∧ Generated.C08.goFacts.callBinGoArgsCopied = true ∧
    Generated.C08.goFacts.wrapperRecvBound = true ∧ Generated.C08.goFacts.callFrameLocked = true := by
  rw [gofacts_tie]; decide

end YaegiVerif.Props.C08
