import YaegiVerif.Model.Method
import YaegiVerif.Model.MethodClass
import YaegiVerif.Spec.GoSelector
/-
  C05 — helper lemmas: the interpreter's first-hit searches are the heads of the specification's
  enumerations; the shallowest-unique choice on lists; well-formedness makes the fuel sufficient.
-/
namespace YaegiVerif.Proofs.C05
open YaegiVerif.Method YaegiVerif.Spec.Selector YaegiVerif.MethodClass

/-! ### first hit = head of the enumeration -/

theorem firstVia_eq_head {α : Type} (pred : Field → Bool) (g1 : Nat → Option α) (g2 : Nat → List α)
    (push : Nat → α → α) (h : ∀ j, g1 j = (g2 j).head?) :
    ∀ (fs : List Field) (i : Nat), firstVia pred g1 push fs i = (allVia pred g2 push fs i).head? := by
  intro fs
  induction fs with
  | nil => intro i; rfl
  | cons f fs ih =>
    intro i
    unfold firstVia allVia
    by_cases hp : pred f = true
    · simp only [hp, if_true]
      rw [h f.typ]
      cases hg : g2 f.typ with
      | nil => simp [ih]
      | cons a as => simp
    · simp only [hp]
      simp [ih]

/-- `lookupMethod2` finds the first element of the depth-first enumeration of all methods of
    that name (all declaration sets, all fuels) -/
theorem lookupMethodF_eq_head (D : Decls) : ∀ (fuel t : Nat) (m : String),
    lookupMethodF D fuel t m = (moccF D fuel t m).head? := by
  intro fuel
  induction fuel with
  | zero => intro t m; rfl
  | succ n ih =>
    intro t m
    unfold lookupMethodF moccF
    cases hg : getMethod (methsOf D t) m with
    | some x => simp
    | none =>
      simp only [List.nil_append]
      exact firstVia_eq_head _ _ _ _ (fun j => ih j m) _ _

/-- with the loop of `lookupField` restricted to embedded fields the same holds for fields -/
theorem lookupFieldF_eq_head (F : Facts) (hF : F.fieldLoopEmbedOnly = true) (D : Decls) :
    ∀ (fuel t : Nat) (x : String), lookupFieldF F D fuel t x = (foccF D fuel t x).head? := by
  intro fuel
  induction fuel with
  | zero => intro t x; rfl
  | succ n ih =>
    intro t x
    unfold lookupFieldF foccF
    cases hg : fieldIndex (fieldsOf D t) x 0 with
    | some p => obtain ⟨i, f⟩ := p; simp
    | none =>
      simp only [hF, if_true, List.nil_append]
      exact firstVia_eq_head _ _ _ _ (fun j => ih j x) _ _

/-! ### paths of field hits are never empty -/

theorem allVia_mem {α : Type} (pred : Field → Bool) (g : Nat → List α) (push : Nat → α → α) :
    ∀ (fs : List Field) (i : Nat) (a : α), a ∈ allVia pred g push fs i →
      ∃ f ∈ fs, ∃ k b, pred f = true ∧ b ∈ g f.typ ∧ a = push k b := by
  intro fs
  induction fs with
  | nil => intro i a h; simp [allVia] at h
  | cons f fs ih =>
    intro i a h
    unfold allVia at h
    rw [List.mem_append] at h
    cases h with
    | inl h1 =>
      by_cases hp : pred f = true
      · simp only [hp, if_true, List.mem_map] at h1
        obtain ⟨b, hb, rfl⟩ := h1
        exact ⟨f, by simp, i, b, hp, hb, rfl⟩
      · simp [hp] at h1
    | inr h2 =>
      obtain ⟨f', hf', k, b, hp, hb, rfl⟩ := ih (i + 1) a h2
      exact ⟨f', by simp [hf'], k, b, hp, hb, rfl⟩

theorem foccF_path_ne (D : Decls) : ∀ (fuel t : Nat) (x : String) (h : FHit), h ∈ foccF D fuel t x → h.path ≠ [] := by
  intro fuel
  induction fuel with
  | zero => intro t x h hm; simp [foccF] at hm
  | succ n ih =>
    intro t x h hm
    unfold foccF at hm
    rw [List.mem_append] at hm
    cases hm with
    | inl h1 =>
      cases hg : fieldIndex (fieldsOf D t) x 0 with
      | none => simp [hg] at h1
      | some p => obtain ⟨i, f⟩ := p; simp [hg] at h1; subst h1; simp
    | inr h2 =>
      obtain ⟨f, _, k, b, _, _, rfl⟩ := allVia_mem _ _ _ _ _ _ h2
      simp [FHit.push]

/-! ### shallowest and unique -/

theorem minDepth_spec {α : Type} : ∀ (l : List (Nat × α)) (d : Nat), minDepth l = some d →
    (∃ x ∈ l, x.1 = d) ∧ ∀ x ∈ l, d ≤ x.1 := by
  intro l
  induction l with
  | nil => intro d h; simp [minDepth] at h
  | cons o os ih =>
    intro d h
    unfold minDepth at h
    cases hm : minDepth os with
    | none =>
      simp [hm] at h
      cases os with
      | nil => subst h; simp
      | cons o' os' =>
        unfold minDepth at hm
        cases hm' : minDepth os' <;> simp [hm'] at hm
    | some e =>
      simp [hm] at h
      obtain ⟨⟨x, hx, hxe⟩, hall⟩ := ih e hm
      subst h
      constructor
      · by_cases hle : o.1 ≤ e
        · exact ⟨o, by simp, by omega⟩
        · exact ⟨x, by simp [hx], by omega⟩
      · intro y hy
        simp at hy
        cases hy with
        | inl h1 => subst h1; omega
        | inr h2 => have := hall y h2; omega

theorem minDepth_ne_none {α : Type} : ∀ (l : List (Nat × α)), l ≠ [] → ∃ d, minDepth l = some d := by
  intro l hl
  cases l with
  | nil => exact absurd rfl hl
  | cons o os =>
    unfold minDepth
    cases minDepth os with
    | none => exact ⟨o.1, rfl⟩
    | some e => exact ⟨min o.1 e, rfl⟩

theorem filter_none {α : Type} (p : α → Bool) : ∀ (l : List α), (∀ x ∈ l, p x = false) → l.filter p = [] := by
  intro l h
  induction l with
  | nil => rfl
  | cons a as ih =>
    have ha : p a = false := h a (by simp)
    simp [List.filter, ha]
    intro x hx
    have := h x (by simp [hx])
    simp [this]

/-- an element strictly shallower than every other one is the one selected -/
theorem pick_unique_min (pre post : List (Nat × Sel)) (o : Nat × Sel)
    (hpre : ∀ x ∈ pre, o.1 < x.1) (hpost : ∀ x ∈ post, o.1 < x.1) :
    pickShallowest (pre ++ o :: post) = o.2 := by
  unfold pickShallowest
  obtain ⟨d, hd⟩ := minDepth_ne_none (pre ++ o :: post) (by simp)
  obtain ⟨⟨x, hx, hxd⟩, hall⟩ := minDepth_spec _ _ hd
  have hdo : d = o.1 := by
    have h1 : d ≤ o.1 := hall o (by simp)
    simp at hx
    rcases hx with h | h | h
    · have := hpre x h; omega
    · subst h; omega
    · have := hpost x h; omega
  rw [hd]
  simp only
  have hf : (pre ++ o :: post).filter (fun y => y.1 == d) = [o] := by
    rw [List.filter_append, List.filter_cons]
    have h1 : pre.filter (fun y => y.1 == d) = [] :=
      filter_none _ _ (fun y hy => by have := hpre y hy; simp; omega)
    have h2 : post.filter (fun y => y.1 == d) = [] :=
      filter_none _ _ (fun y hy => by have := hpost y hy; simp; omega)
    subst hdo
    simp [h1, h2]
  rw [hf]

theorem pick_nil : pickShallowest [] = .undefined := rfl

/-- whatever is selected is one of the candidates -/
theorem pick_mem (os : List (Nat × Sel)) (s : Sel) (h : pickShallowest os = s)
    (h1 : s ≠ .undefined) (h2 : s ≠ .ambiguous) : ∃ o ∈ os, o.2 = s := by
  unfold pickShallowest at h
  cases hm : minDepth os with
  | none => simp [hm] at h; exact absurd h.symm h1
  | some d =>
    simp only [hm] at h
    cases hf : os.filter (fun o => o.1 == d) with
    | nil => simp [hf] at h; exact absurd h.symm h2
    | cons a as =>
      cases as with
      | nil =>
        simp [hf] at h
        have : a ∈ os.filter (fun o => o.1 == d) := by simp [hf]
        exact ⟨a, (List.mem_filter.mp this).1, h⟩
      | cons b bs => simp [hf] at h; exact absurd h.symm h2

/-- if the Go rule selects the first method of the enumeration, that method is strictly shallower
    than all the others -/
theorem pick_head_method (a : MHit) (rest : List MHit)
    (h : pickShallowest ((a.depth, Sel.method a) :: rest.map (fun h => (h.depth, Sel.method h))) = .method a) :
    ∀ r ∈ rest, a.depth < r.depth := by
  intro r hr
  apply Classical.byContradiction
  intro hle
  have hle : r.depth ≤ a.depth := by omega
  unfold pickShallowest at h
  obtain ⟨d, hd⟩ := minDepth_ne_none ((a.depth, Sel.method a) :: rest.map (fun h => (h.depth, Sel.method h))) (by simp)
  obtain ⟨_, hall⟩ := minDepth_spec _ _ hd
  rw [hd] at h
  simp only at h
  have hda : d ≤ a.depth := hall (a.depth, Sel.method a) (by simp)
  have hdr : d ≤ r.depth := hall (r.depth, Sel.method r) (by
    simp only [List.mem_cons, List.mem_map]
    exact Or.inr ⟨r, hr, rfl⟩)
  cases hf : ((a.depth, Sel.method a) :: rest.map (fun h => (h.depth, Sel.method h))).filter (fun o => o.1 == d) with
  | nil => rw [hf] at h; simp at h
  | cons o os =>
    cases os with
    | cons b bs => rw [hf] at h; simp at h
    | nil =>
      rw [hf] at h
      simp only at h
      have ho : o ∈ ((a.depth, Sel.method a) :: rest.map (fun h => (h.depth, Sel.method h))).filter (fun o => o.1 == d) := by
        rw [hf]; simp
      obtain ⟨hoL, hod⟩ := List.mem_filter.mp ho
      have hod' : o.1 = d := by simpa using hod
      -- o is the pair of a
      have hoa : o.1 = a.depth := by
        simp only [List.mem_cons, List.mem_map] at hoL
        rcases hoL with rfl | ⟨r', _, rfl⟩
        · rfl
        · simp only at h
          have : r' = a := by injection h
          subst this; rfl
      have hdeq : d = a.depth := by omega
      have hrd : r.depth = d := by omega
      -- both the pair of a and the pair of r pass the filter
      rw [List.filter_cons] at hf
      have hpa : ((a.depth, Sel.method a).1 == d) = true := by simp [hdeq]
      rw [if_pos hpa] at hf
      have hnil : (rest.map (fun h => (h.depth, Sel.method h))).filter (fun o => o.1 == d) = [] := by
        injection hf
      have hmem : (r.depth, Sel.method r) ∈ (rest.map (fun h => (h.depth, Sel.method h))).filter (fun o => o.1 == d) := by
        apply List.mem_filter.mpr
        constructor
        · exact List.mem_map.mpr ⟨r, hr, rfl⟩
        · simp [hrd]
      rw [hnil] at hmem
      simp at hmem

/-! ### `lookupField` on declaration sets without non-embedded struct fields -/

theorem firstVia_congr_pred {α : Type} (p q : Field → Bool) (g : Nat → Option α) (push : Nat → α → α) :
    ∀ (fs : List Field) (i : Nat), (∀ f ∈ fs, p f = q f) → firstVia p g push fs i = firstVia q g push fs i := by
  intro fs
  induction fs with
  | nil => intro i _; rfl
  | cons f fs ih =>
    intro i h
    unfold firstVia
    rw [h f (by simp), ih (i + 1) (fun f' hf' => h f' (by simp [hf']))]

theorem fieldsOf_plainFree (D : Decls) (hD : plainFree D = true) (t : Nat) :
    ∀ f ∈ fieldsOf D t, Field.isStruct f = Field.isEmb f := by
  intro f hf
  unfold fieldsOf at hf
  cases hg : D[t]? with
  | none => simp [hg] at hf
  | some d =>
    cases d with
    | iface n ms es => simp [hg] at hf
    | strct n fs ms =>
      simp [hg] at hf
      have hmem : TDecl.strct n fs ms ∈ D := List.mem_of_getElem? hg
      unfold plainFree at hD
      have := (List.all_eq_true.mp hD) _ hmem
      simp only at this
      have hk := (List.all_eq_true.mp this) f hf
      unfold Field.isStruct Field.isEmb
      cases hkind : f.kind <;> simp_all

theorem lookupFieldF_eq_head_plainFree (F : Facts) (D : Decls) (hD : plainFree D = true) :
    ∀ (fuel t : Nat) (x : String), lookupFieldF F D fuel t x = (foccF D fuel t x).head? := by
  intro fuel
  induction fuel with
  | zero => intro t x; rfl
  | succ n ih =>
    intro t x
    unfold lookupFieldF foccF
    cases hg : fieldIndex (fieldsOf D t) x 0 with
    | some p => obtain ⟨i, f⟩ := p; simp
    | none =>
      simp only [List.nil_append]
      have hc : firstVia (if F.fieldLoopEmbedOnly then Field.isEmb else Field.isStruct)
            (fun j => lookupFieldF F D n j x) FHit.push (fieldsOf D t) 0 =
          firstVia Field.isEmb (fun j => lookupFieldF F D n j x) FHit.push (fieldsOf D t) 0 := by
        apply firstVia_congr_pred
        intro f hf
        cases F.fieldLoopEmbedOnly
        · simpa using fieldsOf_plainFree D hD t f hf
        · rfl
      rw [hc]
      exact firstVia_eq_head _ _ _ _ (fun j => ih j x) _ _

/-! ### headStrictMin -/

theorem headStrictMin_cons (d : Nat) (rest : List Nat) :
    headStrictMin (d :: rest) = true ↔ ∀ e ∈ rest, d < e := by
  simp [headStrictMin]

end YaegiVerif.Proofs.C05
