import YaegiVerif.Model.Method
import YaegiVerif.Model.MethodClass
import YaegiVerif.Spec.GoSelector
/-
  C05 — helper lemmas: the interpreter's searches (first hit depth first before 4f1c6ee / a60b058,
  shortest path since) are the heads / the first minima of the specification's enumerations;
  `methodCount` counts the enumeration at one depth; the shallowest-unique choice on lists.
-/
namespace YaegiVerif.Proofs.C05
open YaegiVerif.Method YaegiVerif.Spec.Selector YaegiVerif.MethodClass

/-! ### first minimum of a list -/

/-- leftmost of two optional candidates, the second only when strictly smaller -/
def mergeMin (key : α → Nat) : Option α → Option α → Option α
  | x, none => x
  | none, y => y
  | some a, some b => if key b < key a then some b else some a

theorem mergeMin_none_left (key : α → Nat) (y : Option α) : mergeMin key none y = y := by
  cases y <;> rfl

theorem mergeMin_none_right (key : α → Nat) (x : Option α) : mergeMin key x none = x := by
  cases x <;> rfl

theorem mergeMin_assoc (key : α → Nat) (x y z : Option α) :
    mergeMin key (mergeMin key x y) z = mergeMin key x (mergeMin key y z) := by
  cases x with
  | none => rw [mergeMin_none_left, mergeMin_none_left]
  | some a =>
    cases y with
    | none => rw [mergeMin_none_right, mergeMin_none_left]
    | some b =>
      cases z with
      | none => rw [mergeMin_none_right, mergeMin_none_right]
      | some c =>
        by_cases h1 : key b < key a <;> by_cases h2 : key c < key b <;> by_cases h3 : key c < key a <;>
          simp [mergeMin, h1, h2, h3] <;> omega

theorem firstMinBy_cons (key : α → Nat) (a : α) (l : List α) :
    firstMinBy key (a :: l) = mergeMin key (some a) (firstMinBy key l) := by
  simp only [firstMinBy]
  cases firstMinBy key l <;> rfl

theorem firstMinBy_append (key : α → Nat) : ∀ (l1 l2 : List α),
    firstMinBy key (l1 ++ l2) = mergeMin key (firstMinBy key l1) (firstMinBy key l2) := by
  intro l1
  induction l1 with
  | nil => intro l2; simp [firstMinBy, mergeMin_none_left]
  | cons a l ih =>
    intro l2
    rw [List.cons_append, firstMinBy_cons, ih, firstMinBy_cons, mergeMin_assoc]

theorem firstMinBy_map (key : α → Nat) (f : α → α) (hf : ∀ x, key (f x) = key x + 1) : ∀ (l : List α),
    firstMinBy key (l.map f) = (firstMinBy key l).map f := by
  intro l
  induction l with
  | nil => rfl
  | cons a l ih =>
    rw [List.map_cons, firstMinBy_cons, ih, firstMinBy_cons]
    cases firstMinBy key l with
    | none => rfl
    | some b =>
      simp only [Option.map_some, mergeMin, hf]
      by_cases h : key b < key a
      · simp [h]
      · simp [h]

theorem firstMinBy_none' (key : α → Nat) (l : List α) (h : firstMinBy key l = none) : l = [] := by
  cases l with
  | nil => rfl
  | cons a l' =>
    rw [firstMinBy_cons] at h
    cases hq : firstMinBy key l' with
    | none => simp [hq, mergeMin] at h
    | some b =>
      rw [hq] at h
      simp only [mergeMin] at h
      split at h <;> simp at h

theorem firstMinBy_spec (key : α → Nat) : ∀ (l : List α) (a : α), firstMinBy key l = some a →
    a ∈ l ∧ ∀ b ∈ l, key a ≤ key b := by
  intro l
  induction l with
  | nil => intro a h; simp [firstMinBy] at h
  | cons c l ih =>
    intro a h
    rw [firstMinBy_cons] at h
    cases hm : firstMinBy key l with
    | none =>
      rw [hm] at h
      simp only [mergeMin, Option.some.injEq] at h
      subst h
      have := firstMinBy_none' key l hm
      subst this
      simp
    | some b =>
      rw [hm] at h
      obtain ⟨hb, hall⟩ := ih b hm
      simp only [mergeMin] at h
      by_cases hlt : key b < key c
      · simp only [hlt, if_true, Option.some.injEq] at h
        subst h
        refine ⟨by simp [hb], ?_⟩
        intro x hx
        simp only [List.mem_cons] at hx
        rcases hx with rfl | hx
        · omega
        · exact hall x hx
      · simp only [hlt, if_false, Option.some.injEq] at h
        subst h
        refine ⟨by simp, ?_⟩
        intro x hx
        simp only [List.mem_cons] at hx
        rcases hx with rfl | hx
        · omega
        · have := hall x hx; omega

/-- a head that no later element undercuts is the first minimum -/
theorem firstMinBy_head (key : α → Nat) (a : α) (l : List α) (h : ∀ b ∈ l, key a ≤ key b) :
    firstMinBy key (a :: l) = some a := by
  rw [firstMinBy_cons]
  cases hm : firstMinBy key l with
  | none => rfl
  | some b =>
    have := h b (firstMinBy_spec key l b hm).1
    simp only [mergeMin]
    rw [if_neg (by omega)]

/-! ### the searches of the interpreter and the enumerations of the specification -/

theorem firstVia_eq_head {α : Type} (pred : Field → Bool) (g1 : Nat → Option α) (g2 : Nat → List α)
    (push : Nat → α → α) (h : ∀ j, g1 j = (g2 j).head?) :
    ∀ (fs : List Field) (i : Nat), firstVia pred g1 push fs i = (allVia pred g2 push fs i).head? := by
  intro fs
  induction fs with
  | nil => intro i; rfl
  | cons f fs ih =>
    intro i
    unfold firstVia allVia
    by_cases hp : pred f = true
    · simp only [hp, if_true]
      rw [h f.typ]
      cases hg : g2 f.typ with
      | nil => simp [ih]
      | cons a as => simp
    · simp only [hp]
      simp [ih]

/-- the loop that keeps the shortest path computes the first minimum of the enumeration -/
theorem bestVia_eq_firstMin {α : Type} (pred : Field → Bool) (g1 : Nat → Option α) (g2 : Nat → List α)
    (push : Nat → α → α) (len : α → Nat) (hpush : ∀ i x, len (push i x) = len x + 1)
    (h : ∀ j, g1 j = firstMinBy len (g2 j)) :
    ∀ (fs : List Field) (i : Nat) (cur : Option α),
      bestVia pred g1 push len fs i cur = mergeMin len cur (firstMinBy len (allVia pred g2 push fs i)) := by
  intro fs
  induction fs with
  | nil => intro i cur; simp [bestVia, allVia, firstMinBy, mergeMin_none_right]
  | cons f fs ih =>
    intro i cur
    unfold bestVia allVia
    rw [ih, firstMinBy_append, ← mergeMin_assoc]
    congr 1
    by_cases hp : pred f = true
    · simp only [hp, if_true]
      rw [h f.typ, firstMinBy_map len (push i) (hpush i)]
      cases hg : firstMinBy len (g2 f.typ) with
      | none => cases cur <;> rfl
      | some r =>
        cases cur with
        | none => rfl
        | some c => simp only [Option.map_some, mergeMin, hpush]
    · simp only [hp]
      cases cur <;> rfl

theorem lookupMethodF_eq_head (D : Decls) : ∀ (fuel t : Nat) (m : String),
    lookupMethodF .firstDfs D fuel t m = (moccF D fuel t m).head? := by
  intro fuel
  induction fuel with
  | zero => intro t m; rfl
  | succ n ih =>
    intro t m
    unfold lookupMethodF moccF
    cases hg : getMethod (methsOf D t) m with
    | some x => simp
    | none =>
      simp only [List.nil_append, pickVia]
      exact firstVia_eq_head _ _ _ _ (fun j => ih j m) _ _

/-- **`lookupMethod2` (since 4f1c6ee) finds the first of the shallowest methods** of the depth-first
    enumeration of all methods of that name (all declaration sets, all fuels) -/
theorem lookupMethodF_eq_firstMin (D : Decls) : ∀ (fuel t : Nat) (m : String),
    lookupMethodF .shallowest D fuel t m = firstMinBy (fun h => h.path.length) (moccF D fuel t m) := by
  intro fuel
  induction fuel with
  | zero => intro t m; rfl
  | succ n ih =>
    intro t m
    unfold lookupMethodF moccF
    cases hg : getMethod (methsOf D t) m with
    | some x =>
      simp only [List.singleton_append]
      rw [firstMinBy_head]
      intro b _; simp
    | none =>
      simp only [List.nil_append, pickVia]
      rw [bestVia_eq_firstMin _ _ (fun j => moccF D n j m) _ _ (by intro i x; simp [MHit.push]) (fun j => ih j m),
        mergeMin_none_left]

/-! ### paths of field hits are never empty -/

theorem allVia_mem {α : Type} (pred : Field → Bool) (g : Nat → List α) (push : Nat → α → α) :
    ∀ (fs : List Field) (i : Nat) (a : α), a ∈ allVia pred g push fs i →
      ∃ f ∈ fs, ∃ k b, pred f = true ∧ b ∈ g f.typ ∧ a = push k b := by
  intro fs
  induction fs with
  | nil => intro i a h; simp [allVia] at h
  | cons f fs ih =>
    intro i a h
    unfold allVia at h
    rw [List.mem_append] at h
    cases h with
    | inl h1 =>
      by_cases hp : pred f = true
      · simp only [hp, if_true, List.mem_map] at h1
        obtain ⟨b, hb, rfl⟩ := h1
        exact ⟨f, by simp, i, b, hp, hb, rfl⟩
      · simp [hp] at h1
    | inr h2 =>
      obtain ⟨f', hf', k, b, hp, hb, rfl⟩ := ih (i + 1) a h2
      exact ⟨f', by simp [hf'], k, b, hp, hb, rfl⟩

theorem foccF_path_ne (D : Decls) : ∀ (fuel t : Nat) (x : String) (h : FHit), h ∈ foccF D fuel t x → h.path ≠ [] := by
  intro fuel
  induction fuel with
  | zero => intro t x h hm; simp [foccF] at hm
  | succ n ih =>
    intro t x h hm
    unfold foccF at hm
    rw [List.mem_append] at hm
    cases hm with
    | inl h1 =>
      cases hg : fieldIndex (fieldsOf D t) x 0 with
      | none => simp [hg] at h1
      | some p => obtain ⟨i, f⟩ := p; simp [hg] at h1; subst h1; simp
    | inr h2 =>
      obtain ⟨f, _, k, b, _, _, rfl⟩ := allVia_mem _ _ _ _ _ _ h2
      simp [FHit.push]

/-- **`lookupField` (since a60b058) finds the first of the shallowest fields** reachable through
    embedded fields -/
theorem lookupFieldF_eq_firstMin (F : Facts) (hE : F.fieldLoopEmbedOnly = true) (hP : F.fieldPick = .shallowest) (D : Decls) :
    ∀ (fuel t : Nat) (x : String),
      lookupFieldF F D fuel t x = firstMinBy (fun h => h.path.length) (foccF D fuel t x) := by
  intro fuel
  induction fuel with
  | zero => intro t x; rfl
  | succ n ih =>
    intro t x
    unfold lookupFieldF foccF
    cases hg : fieldIndex (fieldsOf D t) x 0 with
    | some p =>
      obtain ⟨i, f⟩ := p
      simp only [List.singleton_append]
      rw [firstMinBy_head]
      intro b hb
      obtain ⟨f', _, k, c, _, hc, rfl⟩ := allVia_mem _ _ _ _ _ _ hb
      have := foccF_path_ne D n f'.typ x c hc
      cases hp : c.path with
      | nil => exact absurd hp this
      | cons a as => simp [FHit.push, hp]
    | none =>
      simp only [List.nil_append, pickVia, hE, hP, if_true]
      rw [bestVia_eq_firstMin _ _ (fun j => foccF D n j x) _ _ (by intro i y; simp [FHit.push]) (fun j => ih j x),
        mergeMin_none_left]

/-- before a60b058, on the old facts restricted to embedded fields: the head of the enumeration -/
theorem lookupFieldF_eq_head (F : Facts) (hF : F.fieldLoopEmbedOnly = true) (hP : F.fieldPick = .firstDfs) (D : Decls) :
    ∀ (fuel t : Nat) (x : String), lookupFieldF F D fuel t x = (foccF D fuel t x).head? := by
  intro fuel
  induction fuel with
  | zero => intro t x; rfl
  | succ n ih =>
    intro t x
    unfold lookupFieldF foccF
    cases hg : fieldIndex (fieldsOf D t) x 0 with
    | some p => obtain ⟨i, f⟩ := p; simp
    | none =>
      simp only [hF, hP, pickVia, if_true, List.nil_append]
      exact firstVia_eq_head _ _ _ _ (fun j => ih j x) _ _

/-! ### shallowest and unique -/

theorem minDepth_spec {α : Type} : ∀ (l : List (Nat × α)) (d : Nat), minDepth l = some d →
    (∃ x ∈ l, x.1 = d) ∧ ∀ x ∈ l, d ≤ x.1 := by
  intro l
  induction l with
  | nil => intro d h; simp [minDepth] at h
  | cons o os ih =>
    intro d h
    unfold minDepth at h
    cases hm : minDepth os with
    | none =>
      simp [hm] at h
      cases os with
      | nil => subst h; simp
      | cons o' os' =>
        unfold minDepth at hm
        cases hm' : minDepth os' <;> simp [hm'] at hm
    | some e =>
      simp [hm] at h
      obtain ⟨⟨x, hx, hxe⟩, hall⟩ := ih e hm
      subst h
      constructor
      · by_cases hle : o.1 ≤ e
        · exact ⟨o, by simp, by omega⟩
        · exact ⟨x, by simp [hx], by omega⟩
      · intro y hy
        simp at hy
        cases hy with
        | inl h1 => subst h1; omega
        | inr h2 => have := hall y h2; omega

theorem minDepth_ne_none {α : Type} : ∀ (l : List (Nat × α)), l ≠ [] → ∃ d, minDepth l = some d := by
  intro l hl
  cases l with
  | nil => exact absurd rfl hl
  | cons o os =>
    unfold minDepth
    cases minDepth os with
    | none => exact ⟨o.1, rfl⟩
    | some e => exact ⟨min o.1 e, rfl⟩

theorem filter_none {α : Type} (p : α → Bool) : ∀ (l : List α), (∀ x ∈ l, p x = false) → l.filter p = [] := by
  intro l h
  induction l with
  | nil => rfl
  | cons a as ih =>
    have ha : p a = false := h a (by simp)
    simp [List.filter, ha]
    intro x hx
    have := h x (by simp [hx])
    simp [this]

/-- an element strictly shallower than every other one is the one selected -/
theorem pick_unique_min (pre post : List (Nat × Sel)) (o : Nat × Sel)
    (hpre : ∀ x ∈ pre, o.1 < x.1) (hpost : ∀ x ∈ post, o.1 < x.1) :
    pickShallowest (pre ++ o :: post) = o.2 := by
  unfold pickShallowest
  obtain ⟨d, hd⟩ := minDepth_ne_none (pre ++ o :: post) (by simp)
  obtain ⟨⟨x, hx, hxd⟩, hall⟩ := minDepth_spec _ _ hd
  have hdo : d = o.1 := by
    have h1 : d ≤ o.1 := hall o (by simp)
    simp at hx
    rcases hx with h | h | h
    · have := hpre x h; omega
    · subst h; omega
    · have := hpost x h; omega
  rw [hd]
  simp only
  have hf : (pre ++ o :: post).filter (fun y => y.1 == d) = [o] := by
    rw [List.filter_append, List.filter_cons]
    have h1 : pre.filter (fun y => y.1 == d) = [] :=
      filter_none _ _ (fun y hy => by have := hpre y hy; simp; omega)
    have h2 : post.filter (fun y => y.1 == d) = [] :=
      filter_none _ _ (fun y hy => by have := hpost y hy; simp; omega)
    subst hdo
    simp [h1, h2]
  rw [hf]

theorem pick_nil : pickShallowest [] = .undefined := rfl

/-- whatever is selected is one of the candidates -/
theorem pick_mem (os : List (Nat × Sel)) (s : Sel) (h : pickShallowest os = s)
    (h1 : s ≠ .undefined) (h2 : s ≠ .ambiguous) : ∃ o ∈ os, o.2 = s := by
  unfold pickShallowest at h
  cases hm : minDepth os with
  | none => simp [hm] at h; exact absurd h.symm h1
  | some d =>
    simp only [hm] at h
    cases hf : os.filter (fun o => o.1 == d) with
    | nil => simp [hf] at h; exact absurd h.symm h2
    | cons a as =>
      cases as with
      | nil =>
        simp [hf] at h
        have : a ∈ os.filter (fun o => o.1 == d) := by simp [hf]
        exact ⟨a, (List.mem_filter.mp this).1, h⟩
      | cons b bs => simp [hf] at h; exact absurd h.symm h2

/-- **the Go rule, given a shallowest candidate**: it is selected when it is the only entry at its
    depth, otherwise the selector is ambiguous -/
theorem pick_of_min (os : List (Nat × Sel)) (o : Nat × Sel) (ho : o ∈ os) (hmin : ∀ x ∈ os, o.1 ≤ x.1) :
    pickShallowest os = if (os.filter (fun y => y.1 == o.1)).length = 1 then o.2 else .ambiguous := by
  unfold pickShallowest
  obtain ⟨d, hd⟩ := minDepth_ne_none os (List.ne_nil_of_mem ho)
  obtain ⟨⟨x, hx, hxd⟩, hall⟩ := minDepth_spec _ _ hd
  have hdo : d = o.1 := by
    have h1 : d ≤ o.1 := hall o ho
    have h2 := hmin x hx
    omega
  rw [hd]
  simp only
  subst hdo
  have hof : o ∈ os.filter (fun y => y.1 == o.1) := List.mem_filter.mpr ⟨ho, by simp⟩
  cases hf : os.filter (fun y => y.1 == o.1) with
  | nil => rw [hf] at hof; simp at hof
  | cons a as =>
    cases as with
    | nil =>
      rw [hf] at hof
      simp only [List.mem_singleton] at hof
      subst hof
      simp
    | cons b bs => simp

theorem countAt_append (d : Nat) (l1 l2 : List Nat) : countAt d (l1 ++ l2) = countAt d l1 + countAt d l2 := by
  simp [countAt, List.filter_append]

theorem countAt_zero_of_ne (d : Nat) (l : List Nat) (h : ∀ e ∈ l, e ≠ d) : countAt d l = 0 := by
  unfold countAt
  rw [filter_none]
  · rfl
  · intro e he; simpa using h e he

/-- entries of one kind at depth `d`, counted on the list of depths -/
theorem filter_length_countAt {β : Type} (e : β → Nat × Sel) (key : β → Nat) (he : ∀ x, (e x).1 = key x) (d : Nat) :
    ∀ (l : List β), ((l.map e).filter (fun y => y.1 == d)).length = countAt d (l.map key) := by
  intro l
  induction l with
  | nil => rfl
  | cons a l ih =>
    unfold countAt at *
    simp only [List.map_cons, List.filter_cons, he]
    by_cases h : key a = d
    · simp [h, ih]
    · simp [h, ih]

/-! ### `methodCount` counts the entries of the enumeration at one depth -/

theorem moccF_depth_lt (D : Decls) (m : String) : ∀ (fuel t : Nat) (h : MHit), h ∈ moccF D fuel t m → h.depth < fuel := by
  intro fuel
  induction fuel with
  | zero => intro t h hm; simp [moccF] at hm
  | succ n ih =>
    intro t h hm
    unfold moccF at hm
    rw [List.mem_append] at hm
    cases hm with
    | inl h1 =>
      cases hg : getMethod (methsOf D t) m with
      | none => simp [hg] at h1
      | some x => simp [hg] at h1; subst h1; simp [MHit.depth]
    | inr h2 =>
      obtain ⟨f, _, k, b, _, hb, rfl⟩ := allVia_mem _ _ _ _ _ _ h2
      have := ih f.typ b hb
      simp only [MHit.depth, MHit.push, List.length_cons] at *
      omega

theorem countAt_allVia_zero (pred : Field → Bool) (g : Nat → List MHit) : ∀ (fs : List Field) (i : Nat),
    countAt 0 ((allVia pred g MHit.push fs i).map MHit.depth) = 0 := by
  intro fs i
  apply countAt_zero_of_ne
  intro e he
  obtain ⟨h, hh, rfl⟩ := List.mem_map.mp he
  obtain ⟨f, _, k, b, _, _, rfl⟩ := allVia_mem _ _ _ _ _ _ hh
  simp [MHit.depth, MHit.push]

theorem countAt_succ_push (d i : Nat) : ∀ (l : List MHit),
    countAt (d + 1) ((l.map (MHit.push i)).map MHit.depth) = countAt d (l.map MHit.depth) := by
  intro l
  induction l with
  | nil => rfl
  | cons a l ih =>
    have hd : (MHit.push i a).depth = a.depth + 1 := by simp [MHit.depth, MHit.push]
    rw [List.map_cons, List.map_cons, List.map_cons]
    have e1 : ∀ (x : Nat) (r : List Nat), countAt (d + 1) (x :: r) = (if x = d + 1 then 1 else 0) + countAt (d + 1) r := by
      intro x r; unfold countAt; by_cases h : x = d + 1 <;> simp [List.filter_cons, h] <;> omega
    have e2 : ∀ (x : Nat) (r : List Nat), countAt d (x :: r) = (if x = d then 1 else 0) + countAt d r := by
      intro x r; unfold countAt; by_cases h : x = d <;> simp [List.filter_cons, h] <;> omega
    rw [e1, e2, ih, hd]
    by_cases h : a.depth = d
    · simp [h]
    · simp [h]

theorem countAt_succ_allVia (pred : Field → Bool) (g : Nat → List MHit) (d : Nat) : ∀ (fs : List Field) (i : Nat),
    countAt (d + 1) ((allVia pred g MHit.push fs i).map MHit.depth) =
      (fs.map (fun f => if pred f then countAt d ((g f.typ).map MHit.depth) else 0)).sum := by
  intro fs
  induction fs with
  | nil => intro i; rfl
  | cons f fs ih =>
    intro i
    unfold allVia
    rw [List.map_append, countAt_append, ih, List.map_cons, List.sum_cons]
    congr 1
    by_cases hp : pred f = true
    · simp only [hp, if_true]; exact countAt_succ_push d i _
    · simp only [hp]; rfl

theorem sum_map_congr {β : Type} (f g : β → Nat) : ∀ (l : List β), (∀ x ∈ l, f x = g x) → (l.map f).sum = (l.map g).sum := by
  intro l
  induction l with
  | nil => intro _; rfl
  | cons a l ih =>
    intro h
    rw [List.map_cons, List.map_cons, List.sum_cons, List.sum_cons, h a (by simp), ih (fun x hx => h x (by simp [hx]))]

/-- **`methodCount(name, d)` is the number of methods of that name at depth `d`** of the enumeration -/
theorem methodCountY_eq (D : Decls) (m : String) : ∀ (fuel d t : Nat), d < fuel →
    methodCountY D d t m = countAt d ((moccF D fuel t m).map MHit.depth) := by
  intro fuel
  induction fuel with
  | zero => intro d t h; omega
  | succ n ih =>
    intro d t hd
    unfold moccF
    rw [List.map_append, countAt_append]
    cases d with
    | zero =>
      rw [countAt_allVia_zero]
      unfold methodCountY
      cases hg : getMethod (methsOf D t) m with
      | none => rfl
      | some x => simp [countAt, MHit.depth]
    | succ d' =>
      rw [countAt_succ_allVia]
      unfold methodCountY
      have hs := sum_map_congr (fun f => if f.isEmb then methodCountY D d' f.typ m else 0)
        (fun f => if f.isEmb then countAt d' ((moccF D n f.typ m).map MHit.depth) else 0) (fieldsOf D t)
        (by
          intro f _
          by_cases hp : f.isEmb = true
          · simp only [hp, if_true]; exact ih d' f.typ (by omega)
          · simp only [hp]; rfl)
      rw [hs]
      cases getMethod (methsOf D t) m <;> simp [countAt, MHit.depth]

/-! ### `fieldCount` counts the fields of the enumeration at one depth -/

theorem FHit_depth_push (i : Nat) (b : FHit) (hb : b.path ≠ []) : (FHit.push i b).depth = b.depth + 1 := by
  cases hp : b.path with
  | nil => exact absurd hp hb
  | cons a as => simp [FHit.depth, FHit.push, hp]

theorem countAt_allVia_zeroF (pred : Field → Bool) (g : Nat → List FHit) (hg : ∀ j, ∀ b ∈ g j, b.path ≠ []) :
    ∀ (fs : List Field) (i : Nat), countAt 0 ((allVia pred g FHit.push fs i).map FHit.depth) = 0 := by
  intro fs i
  apply countAt_zero_of_ne
  intro e he
  obtain ⟨h, hh, rfl⟩ := List.mem_map.mp he
  obtain ⟨f, _, k, b, _, hb, rfl⟩ := allVia_mem _ _ _ _ _ _ hh
  rw [FHit_depth_push k b (hg _ b hb)]
  omega

theorem countAt_succ_pushF (d i : Nat) : ∀ (l : List FHit), (∀ b ∈ l, b.path ≠ []) →
    countAt (d + 1) ((l.map (FHit.push i)).map FHit.depth) = countAt d (l.map FHit.depth) := by
  intro l
  induction l with
  | nil => intro _; rfl
  | cons a l ih =>
    intro hne
    have hd : (FHit.push i a).depth = a.depth + 1 := FHit_depth_push i a (hne a (by simp))
    rw [List.map_cons, List.map_cons, List.map_cons]
    have e1 : ∀ (x : Nat) (r : List Nat), countAt (d + 1) (x :: r) = (if x = d + 1 then 1 else 0) + countAt (d + 1) r := by
      intro x r; unfold countAt; by_cases h : x = d + 1 <;> simp [h] <;> omega
    have e2 : ∀ (x : Nat) (r : List Nat), countAt d (x :: r) = (if x = d then 1 else 0) + countAt d r := by
      intro x r; unfold countAt; by_cases h : x = d <;> simp [h] <;> omega
    rw [e1, e2, ih (fun b hb => hne b (by simp [hb])), hd]
    by_cases h : a.depth = d
    · simp [h]
    · simp [h]

theorem countAt_succ_allViaF (pred : Field → Bool) (g : Nat → List FHit) (hg : ∀ j, ∀ b ∈ g j, b.path ≠ []) (d : Nat) :
    ∀ (fs : List Field) (i : Nat),
      countAt (d + 1) ((allVia pred g FHit.push fs i).map FHit.depth) =
        (fs.map (fun f => if pred f then countAt d ((g f.typ).map FHit.depth) else 0)).sum := by
  intro fs
  induction fs with
  | nil => intro i; rfl
  | cons f fs ih =>
    intro i
    unfold allVia
    rw [List.map_append, countAt_append, ih, List.map_cons, List.sum_cons]
    congr 1
    by_cases hp : pred f = true
    · simp only [hp, if_true]; exact countAt_succ_pushF d i _ (hg f.typ)
    · simp only [hp]; rfl

/-- **`fieldCount(name, d)` is the number of fields of that name at depth `d`** of the enumeration -/
theorem fieldCountY_eq (D : Decls) (x : String) : ∀ (fuel d t : Nat), d < fuel →
    fieldCountY D d t x = countAt d ((foccF D fuel t x).map FHit.depth) := by
  intro fuel
  induction fuel with
  | zero => intro d t h; omega
  | succ n ih =>
    intro d t hd
    unfold foccF
    rw [List.map_append, countAt_append]
    cases d with
    | zero =>
      rw [countAt_allVia_zeroF _ _ (fun j b hb => foccF_path_ne D n j x b hb)]
      unfold fieldCountY
      cases hg : fieldIndex (fieldsOf D t) x 0 with
      | none => rfl
      | some p => obtain ⟨i, f⟩ := p; simp [countAt, FHit.depth]
    | succ d' =>
      rw [countAt_succ_allViaF _ _ (fun j b hb => foccF_path_ne D n j x b hb)]
      unfold fieldCountY
      have hs := sum_map_congr (fun f => if f.isEmb then fieldCountY D d' f.typ x else 0)
        (fun f => if f.isEmb then countAt d' ((foccF D n f.typ x).map FHit.depth) else 0) (fieldsOf D t)
        (by
          intro f _
          by_cases hp : f.isEmb = true
          · simp only [hp, if_true]; exact ih d' f.typ (by omega)
          · simp only [hp]; rfl)
      rw [hs]
      cases hg : fieldIndex (fieldsOf D t) x 0 with
      | none => simp [countAt]
      | some p => obtain ⟨i, f⟩ := p; simp [countAt, FHit.depth]

theorem foccF_depth_lt (D : Decls) (x : String) : ∀ (fuel t : Nat) (h : FHit), h ∈ foccF D fuel t x → h.depth < fuel := by
  intro fuel
  induction fuel with
  | zero => intro t h hm; simp [foccF] at hm
  | succ n ih =>
    intro t h hm
    unfold foccF at hm
    rw [List.mem_append] at hm
    cases hm with
    | inl h1 =>
      cases hg : fieldIndex (fieldsOf D t) x 0 with
      | none => simp [hg] at h1
      | some p => obtain ⟨i, f⟩ := p; simp [hg] at h1; subst h1; simp [FHit.depth]
    | inr h2 =>
      obtain ⟨f, _, k, b, _, hb, rfl⟩ := allVia_mem _ _ _ _ _ _ h2
      have := ih f.typ b hb
      rw [FHit_depth_push k b (foccF_path_ne D n f.typ x b hb)]
      omega

/-- what the Go rule selects, when it selects something, is a candidate that is minimal and the only
    one at its depth -/
theorem pick_unique (os : List (Nat × Sel)) (s : Sel) (h : pickShallowest os = s)
    (h1 : s ≠ .undefined) (h2 : s ≠ .ambiguous) :
    ∃ o ∈ os, o.2 = s ∧ (∀ x ∈ os, o.1 ≤ x.1) ∧ (∀ x ∈ os, x.1 = o.1 → x = o) := by
  unfold pickShallowest at h
  cases hm : minDepth os with
  | none => simp [hm] at h; exact absurd h.symm h1
  | some d =>
    simp only [hm] at h
    obtain ⟨_, hall⟩ := minDepth_spec _ _ hm
    cases hf : os.filter (fun o => o.1 == d) with
    | nil => simp [hf] at h; exact absurd h.symm h2
    | cons a as =>
      cases as with
      | cons b bs => simp [hf] at h; exact absurd h.symm h2
      | nil =>
        simp [hf] at h
        have ha : a ∈ os.filter (fun o => o.1 == d) := by simp [hf]
        obtain ⟨haos, had⟩ := List.mem_filter.mp ha
        have had' : a.1 = d := by simpa using had
        refine ⟨a, haos, h, ?_, ?_⟩
        · intro x hx; have := hall x hx; omega
        · intro x hx hxd
          have : x ∈ os.filter (fun o => o.1 == d) := List.mem_filter.mpr ⟨hx, by simp [hxd, had']⟩
          rw [hf] at this
          simpa using this

end YaegiVerif.Proofs.C05
